(* C04 - model of the restore path of archive_write_disk_posix.c on the FS model:
   check_symlinks_fsobj, edit_deep_directories, restore_entry, create_filesystem_object,
   create_parent_dir / create_dir, the fix-up list, _archive_write_disk_header,
   _archive_write_disk_finish_entry (mode / times / SAFE_WRITES rename) and
   _archive_write_disk_close (deferred fix-ups).

   Level of detail.  The sanitiser is modelled on characters (SanitizeDefs).  Everything after
   it works on the COMPONENTS of the cleaned name (a->name is parsed once): the pointer scans of
   check_symlinks_fsobj / create_dir / edit_deep_directories (strrchr, head/tail) are replaced by
   list operations with the same branches in the same order; this is exact for cleaned names
   (no empty component, no "." component unless the name is "."), which is all the code ever
   passes.  Raw strings reach the kernel in two places only - the hard-link target given to
   linkat() and the fix-up names used at close - and are parsed there by [parse].
   Not modelled: ownership, ACLs, xattrs, fflags, mac metadata, sparse writes, NO_AUTODIR,
   NO_OVERWRITE_NEWER, SUID/SGID/sticky bits (modes are 9 permission bits), device nodes,
   failures of memory allocation; the process runs as root (uid 0) as the harness does. *)
From Coq Require Import List ZArith NArith Bool.
From LA Require Import Gen.FsSecConsts FS.SanitizeDefs FS.FsModel.
Import ListNotations.
Local Open Scope N_scope.

Inductive status : Type := SOk | SWarn | SFailed | SFatal.
Definition status_z (s : status) : Z :=
  match s with SOk => 0%Z | SWarn => (-20)%Z | SFailed => (-25)%Z | SFatal => (-30)%Z end.
Definition status_ok (s : status) : bool := match s with SOk => true | _ => false end.
(* r2 < ret ? r2 : ret *)
Definition worse (a b : status) : status :=
  match a, b with
  | SFatal, _ | _, SFatal => SFatal
  | SFailed, _ | _, SFailed => SFailed
  | SWarn, _ | _, SWarn => SWarn
  | _, _ => SOk
  end.

(* entry types of the case protocol *)
Definition T_FILE : N := 0.  Definition T_DIR : N := 1.  Definition T_SYMLINK : N := 2.
Definition T_HARDLINK : N := 3.  Definition T_FIFO : N := 4.

Record entry : Type := mkEntry {
  e_type : N; e_path : str; e_link : str; e_mode : N; e_mtime : option Z; e_data : str }.

Record fixup : Type := mkFixup {
  fx_name : str;          (* strdup(pathname) *)
  fx_isdir : bool;        (* filetype == AE_IFDIR (false: filetype 0 of implicitly created dirs) *)
  fx_mode_todo : bool;    (* fixup & TODO_MODE_BASE *)
  fx_mode : N;
  fx_times_todo : bool;   (* fixup & TODO_TIMES *)
  fx_mtime : Z }.

Record pstate : Type := mkSt {
  st_fs : fsys; st_cwd : list name; st_umask : N; st_fixups : list fixup }.

Definition with_fs (st : pstate) (fs : fsys) : pstate :=
  mkSt fs (st_cwd st) (st_umask st) (st_fixups st).
Definition with_cwd (st : pstate) (c : list name) : pstate :=
  mkSt (st_fs st) c (st_umask st) (st_fixups st).
Definition add_fixup (st : pstate) (f : fixup) : pstate :=
  mkSt (st_fs st) (st_cwd st) (st_umask st) (f :: st_fixups st).

Definition is_nil {A} (l : list A) : bool := match l with [] => true | _ => false end.
Definition pth_string (abs : bool) (comps : list name) : str :=
  (if abs then [SLASH] else []) ++ join comps.

(* ------------------------------------------------------------------------------------------ *)
(* check_symlinks_fsobj.  fd = real path of chdir_fd; (habs, head) = the string path[head..tail)
   handed to fstatat/unlinkat/openat: the components examined since the last descent, absolute
   only before the first descent of an absolute path. *)
Fixpoint cs_loop (fl : N) (linkname : bool) (fs : fsys) (fd : list name) (habs : bool)
         (head : list name) (rest : list name) {struct rest} : status * fsys :=
  match rest with
  | [] => (SOk, fs)
  | c :: rest' =>
    let last := is_nil rest' in
    let sub := mkpath habs (head ++ [c]) in
    match sys_stat fs fd sub false with                         (* fstatat(.., AT_SYMLINK_NOFOLLOW) *)
    | inl e => if errno_eqb e ENOENT then (SOk, fs)             (* hit a dir that doesn't exist; stop now *)
               else (SFailed, fs)                               (* "Could not stat" *)
    | inr (Dir _ _ _) =>
        if last then (SOk, fs)
        else match sys_chdir fs fd sub with                     (* la_opendirat(chdir_fd, head) *)
             | inl _ => (SFatal, fs)                            (* "Could not chdir" *)
             | inr fd' => cs_loop fl linkname fs fd' false [] rest'
             end
    | inr (Symlink _) =>
        if last && linkname then (SOk, fs)                      (* hardlinks to symlinks are safe with linkat() *)
        else if last then                                       (* remove it so we can overwrite it *)
          match sys_unlink fs fd sub with
          | (Some _, _) => (SFailed, fs)                        (* "Could not remove symlink" *)
          | (None, fs') => (SOk, fs')
          end
        else if has fl EXTRACT_UNLINK then                      (* user asked us to remove problems *)
          match sys_unlink fs fd sub with
          | (Some _, _) => (SFailed, fs)                        (* "Cannot remove intervening symlink" *)
          | (None, fs') => cs_loop fl linkname fs' fd habs (head ++ [c]) rest'
          end
        else if negb (has fl EXTRACT_SECURE_SYMLINKS) then      (* follow symlinks if they are a directory *)
          match sys_stat fs fd sub true with
          | inl e => if errno_eqb e ENOENT then (SOk, fs) else (SFailed, fs)
          | inr (Dir _ _ _) =>
              match sys_chdir fs fd sub with
              | inl _ => (SFatal, fs)
              | inr fd' => cs_loop fl linkname fs fd' false [] rest'
              end
          | inr _ => (SFailed, fs)                              (* "Cannot extract through symlink" *)
          end
        else (SFailed, fs)                                      (* "Cannot extract through symlink" *)
    | inr (Leaf _ _ _ _ _) =>
        if last then (SOk, fs)
        else cs_loop fl linkname fs fd habs (head ++ [c]) rest' (* nothing done; next fstatat gives ENOTDIR *)
    end
  end.

Definition check_symlinks (fl : N) (linkname : bool) (fs : fsys) (cwd : list name) (p : pth)
  : status * fsys :=
  if Nat.eqb (p_len p) 0 then (SOk, fs)                         (* nothing to do if name is empty *)
  else match get cwd (root fs) with
       | Some (Dir _ _ _) =>                                    (* chdir_fd = la_opendirat(AT_FDCWD, ".") *)
           match p_comps p with
           | [] => (SOk, fs)                                    (* the path "/": a directory, last *)
           | cs => cs_loop fl linkname fs cwd (p_abs p) [] cs
           end
       | _ => (SFatal, fs)                                      (* "Could not open" *)
       end.

(* ------------------------------------------------------------------------------------------ *)
(* per-entry working state (the fields of struct archive_write_disk used here) *)
Record work : Type := mkW {
  w_name : pth;               (* a->name *)
  w_mode : N;                 (* a->mode & 07777 *)
  w_fd : option N;            (* a->fd : inode of the open file *)
  w_tmp : option pth;         (* a->tmpname *)
  w_todo_mode : bool;         (* a->todo & TODO_MODE *)
  w_todo_times : bool;        (* a->todo & TODO_TIMES *)
  w_def_mode : bool;          (* a->deferred & TODO_MODE *)
  w_def_times : bool }.       (* a->deferred & TODO_TIMES *)

Definition w_set_fd (w : work) (fd : option N) : work :=
  mkW (w_name w) (w_mode w) fd (w_tmp w) (w_todo_mode w) (w_todo_times w) (w_def_mode w) (w_def_times w).
Definition w_set_tmp (w : work) (t : option pth) : work :=
  mkW (w_name w) (w_mode w) (w_fd w) t (w_todo_mode w) (w_todo_times w) (w_def_mode w) (w_def_times w).
Definition w_set_name (w : work) (n : pth) : work :=
  mkW n (w_mode w) (w_fd w) (w_tmp w) (w_todo_mode w) (w_todo_times w) (w_def_mode w) (w_def_times w).
Definition w_set_todo (w : work) (tm tt dm dt : bool) : work :=
  mkW (w_name w) (w_mode w) (w_fd w) (w_tmp w) tm tt dm dt.

(* ------------------------------------------------------------------------------------------ *)
(* create_dir(a, path): [rc] is the component list of [path] REVERSED (base name first). *)
Fixpoint create_dir (fl : N) (abs : bool) (rc : list name) (st : pstate) {struct rc} : status * pstate :=
  match rc with
  | [] => (SOk, st)                                             (* "" : null path, no slash *)
  | base :: parent =>
    let has_slash := abs || negb (is_nil parent) in
    if is_dot base || is_dotdot base || is_empty base then      (* don't bother trying to create "", ".", ".." *)
      if has_slash then create_dir fl abs parent st else (SOk, st)
    else
      let path := mkpath abs (rev rc) in
      let go_mkdir (st1 : pstate) : status * pstate :=
        let mode_final := N.ldiff DEFAULT_DIR_MODE (st_umask st1) in
        let mode := N.land (N.lor mode_final MINIMUM_DIR_MODE) MAXIMUM_DIR_MODE in
        match sys_mkdir (st_fs st1) (st_cwd st1) path (N.ldiff mode (st_umask st1)) with
        | (None, fs') =>
            let st2 := with_fs st1 fs' in
            if negb (mode =? mode_final)
            then (SOk, add_fixup st2 (mkFixup (pth_string abs (rev rc)) false true mode_final false 0%Z))
            else (SOk, st2)
        | (Some _, _) =>
            match sys_stat (st_fs st1) (st_cwd st1) path true with
            | inr (Dir _ _ _) => (SOk, st1)
            | _ => (SFailed, st1)                               (* "Failed to create dir" *)
            end
        end in
      match sys_stat (st_fs st) (st_cwd st) path true with      (* la_stat: follows *)
      | inr (Dir _ _ _) => (SOk, st)
      | inr _ =>
          if has fl EXTRACT_NO_OVERWRITE then (SFailed, st)     (* "Can't create directory" *)
          else match sys_unlink (st_fs st) (st_cwd st) path with
               | (Some _, _) => (SFailed, st)                   (* "Conflicting file cannot be removed" *)
               | (None, fs') => go_mkdir (with_fs st fs')
               end
      | inl e =>
          if negb (errno_eqb e ENOENT) && negb (errno_eqb e ENOTDIR) then (SFailed, st)  (* "Can't test directory" *)
          else if has_slash then
            match create_dir fl abs parent st with
            | (SOk, st1) => go_mkdir st1
            | (r, st1) => (r, st1)
            end
          else go_mkdir st
      end
  end.

(* create_parent_dir(a, path): strrchr(path,'/') == NULL -> OK ; else create_dir(prefix) *)
Definition create_parent_dir (fl : N) (p : pth) (st : pstate) : status * pstate :=
  match rev (p_comps p) with
  | [] => (SOk, st)
  | _ :: parent => if p_abs p || negb (is_nil parent) then create_dir fl (p_abs p) parent st else (SOk, st)
  end.

(* ------------------------------------------------------------------------------------------ *)
(* edit_deep_directories.  [cut_point a cs] = number k >= 1 of leading components such that the
   '/' following them is the last '/' at a string index <= PATH_MAX-8 (and > 0). *)
Fixpoint cut_scan (pos : nat) (k : nat) (cs : list name) (best : nat) : nat :=
  match cs with
  | [] => best
  | [_] => best                                                 (* no '/' after the last component *)
  | c :: r =>
      let sep := (pos + length c)%nat in                              (* index of the '/' after c *)
      if Nat.leb sep (PATH_MAX - 8)%nat then cut_scan (sep + 1)%nat (S k) r (S k) else best
  end.
Definition cut_point (abs : bool) (cs : list name) : nat := cut_scan (if abs then 1%nat else 0%nat) 0%nat cs 0%nat.

Fixpoint edit_deep (fuel : nat) (fl : N) (name : pth) (st : pstate) : pth * pstate :=
  match fuel with
  | O => (name, st)
  | S f =>
    if Nat.ltb (p_len name) PATH_MAX then (name, st)
    else
      let k := cut_point (p_abs name) (p_comps name) in
      match k with
      | O => (name, st)                                         (* too-long path component: exit *)
      | _ =>
        let pre := firstn k (p_comps name) in
        match create_dir fl (p_abs name) (rev pre) st with
        | (SOk, st1) =>
            match sys_chdir (st_fs st1) (st_cwd st1) (mkpath (p_abs name) pre) with
            | inr d => edit_deep f fl (mkpath false (skipn k (p_comps name))) (with_cwd st1 d)
            | inl _ => (name, st1)
            end
        | (_, st1) => (name, st1)
        end
      end
  end.

(* ------------------------------------------------------------------------------------------ *)
Definition append_last (cs : list name) (suffix : str) : list name :=
  match rev cs with
  | [] => [suffix]
  | l :: r => rev ((l ++ suffix) :: r)
  end.
Definition tmp_suffix : str := [46; 88; 88; 88; 88; 88; 88].    (* ".XXXXXX" *)
Definition tmp_name (p : pth) : pth := mkP (p_abs p) (append_last (p_comps p) tmp_suffix) (p_len p + 7)%nat.

(* create_filesystem_object: returns errno (None = 0) *)
Definition create_fs_obj (fl : N) (e : entry) (st : pstate) (w : work) : option errno * pstate * work :=
  let fs := st_fs st in
  let cwd := st_cwd st in
  if e_type e =? T_HARDLINK then
    match cleanup_pathname fl (e_link e) with
    | ClOk lc =>
      match check_symlinks fl true fs cwd (parse lc) with
      | (SOk, fs1) =>
        let fs2 := if has fl EXTRACT_SAFE_WRITES then snd (sys_unlink fs1 cwd (w_name w)) else fs1 in
        match sys_link fs2 cwd (parse (e_link e)) (w_name w) with
        | (Some en, fs3) => (Some en, with_fs st fs3, w)
        | (None, fs3) =>
          if is_nil (e_data e) then                             (* filesize <= 0 *)
            (None, with_fs st fs3, w_set_todo w false false false false)
          else
            match sys_stat fs3 cwd (w_name w) false with        (* lstat(a->name) *)
            | inl en => (Some en, with_fs st fs3, w)
            | inr (Leaf false i _ _ _) =>                       (* open(O_WRONLY|O_TRUNC|O_NOFOLLOW) *)
                (None, with_fs st (fd_write fs3 i []), w_set_fd w (Some i))
            | inr _ =>                                          (* not a regular file: nothing is opened *)
                (None, with_fs st fs3,
                 if HARDLINK_DATA_NONREG_CLEARS_TODO then w_set_todo w false false false false else w)
            end
        end
      | (_, fs1) => (Some EPERM, with_fs st fs1, w)
      end
    | _ => (Some EPERM, st, w)
    end
  else if e_type e =? T_SYMLINK then
    let fs1 := if has fl EXTRACT_SAFE_WRITES then snd (sys_unlink fs cwd (w_name w)) else fs in
    match sys_symlink fs1 cwd (e_link e) (w_name w) with
    | (r, fs2) => (r, with_fs st fs2, w)
    end
  else
    let final_mode := w_mode w in
    let mode := N.ldiff (N.land final_mode 511) (st_umask st) in
    if e_type e =? T_DIR then
      let mode' := N.land (N.lor mode MINIMUM_DIR_MODE) MAXIMUM_DIR_MODE in
      match sys_mkdir fs cwd (w_name w) (N.ldiff mode' (st_umask st)) with
      | (Some en, _) => (Some en, st, w)
      | (None, fs1) =>
          let dt := w_def_times w || w_todo_times w in
          let dm := if negb (mode' =? final_mode) || has fl EXTRACT_PERM
                    then w_def_mode w || w_todo_mode w else w_def_mode w in
          (None, with_fs st fs1, w_set_todo w false false dm dt)
      end
    else if e_type e =? T_FIFO then
      match sys_mkfifo fs cwd (w_name w) (N.ldiff mode (st_umask st)) with
      | (Some en, _) => (Some en, st, w)
      | (None, fs1) =>
          (None, with_fs st fs1,
           w_set_todo w (if mode =? final_mode then false else w_todo_mode w) (w_todo_times w)
                      (w_def_mode w) (w_def_times w))
      end
    else
      let w0 := w_set_tmp w None in
      match sys_open_creat_excl fs cwd (w_name w) (N.ldiff mode (st_umask st)) with
      | (Some en, _) => (Some en, st, w0)
      | (None, fs1) =>
          (None, with_fs st fs1,
           w_set_todo (w_set_fd w0 (Some (nino fs)))
                      (if mode =? final_mode then false else w_todo_mode w) (w_todo_times w)
                      (w_def_mode w) (w_def_times w))
      end.

Definition is_dir_node (n : node) : bool := match n with Dir _ _ _ => true | _ => false end.
Definition is_reg_node (n : node) : bool := match n with Leaf false _ _ _ _ => true | _ => false end.
Definition node_perm (n : node) : N :=
  match n with Leaf _ _ _ m _ => m | Dir _ m _ => m | Symlink _ => 511 end.

(* restore_entry *)
Definition restore_entry (fl : N) (e : entry) (st : pstate) (w : work) : status * pstate * work :=
  let isdir := e_type e =? T_DIR in
  (* UNLINK pre-step *)
  let pre : option pstate :=
    if has fl EXTRACT_UNLINK && negb isdir then
      match sys_unlink (st_fs st) (st_cwd st) (w_name w) with
      | (None, fs1) => Some (with_fs st fs1)
      | (Some en, _) =>
          if errno_eqb en ENOENT then Some st
          else match sys_rmdir (st_fs st) (st_cwd st) (w_name w) with
               | (None, fs1) => Some (with_fs st fs1)
               | (Some _, _) => None                            (* "Could not unlink" *)
               end
      end
    else Some st in
  match pre with
  | None => (SFailed, st, w)
  | Some st0 =>
    match create_fs_obj fl e st0 w with
    | (en0, st1, w1) =>
      (* parent dir missing: create it and try again *)
      let '(en1, st2, w2) :=
        match en0 with
        | Some ENOTDIR | Some ENOENT =>
            match create_parent_dir fl (w_name w1) st1 with
            | (_, st1') => create_fs_obj fl e st1' w1
            end
        | _ => (en0, st1, w1)
        end in
      let give_up (en : option errno) (stx : pstate) (wx : work) : status * pstate * work :=
        match en with
        | Some _ => (SFailed, stx, wx)                          (* "Can't create" *)
        | None => (SOk, stx, wx)
        end in
      match en1 with
      | Some ENOENT =>
          (* with a hardlink: "Hard-link target does not exist"; otherwise falls to "Can't create" *)
          (SFailed, st2, w2)
      | Some EISDIR | Some EEXIST =>
        if has fl EXTRACT_NO_OVERWRITE then
          (SOk, st2, if isdir then w_set_todo w2 false false (w_def_mode w2) (w_def_times w2) else w2)
        else if match en1 with Some EISDIR => true | _ => false end then
          (* a dir is in the way of a non-dir, rmdir it *)
          match sys_rmdir (st_fs st2) (st_cwd st2) (w_name w2) with
          | (Some _, _) => (SFailed, st2, w2)                   (* "Can't remove already-existing dir" *)
          | (None, fs3) =>
              match create_fs_obj fl e (with_fs st2 fs3) w2 with
              | (en3, st3, w3) => give_up en3 st3 w3
              end
          end
        else
          (* EEXIST: find out what is in the way *)
          let r1 := if isdir then sys_stat (st_fs st2) (st_cwd st2) (w_name w2) true else inl ENOENT in
          let r2 := match r1 with
                    | inr n => inr n
                    | inl _ => sys_stat (st_fs st2) (st_cwd st2) (w_name w2) false
                    end in
          match r2 with
          | inl _ => (SFailed, st2, w2)                         (* "Can't stat existing object" *)
          | inr n =>
            if negb (is_dir_node n) then
              if has fl EXTRACT_SAFE_WRITES && is_reg_node n then
                (* la_mktemp: mkstemp (0600) then fchmod(fd, a->mode & 0777 & ~umask) *)
                let tmp := tmp_name (w_name w2) in
                match sys_open_creat_excl (st_fs st2) (st_cwd st2) tmp (N.ldiff 384 (st_umask st2)) with
                | (Some _, _) => (SFailed, st2, w_set_tmp w2 (Some tmp))   (* "Can't create temporary file" *)
                | (None, fs3) =>
                    let i := nino (st_fs st2) in
                    (SOk, with_fs st2 (fd_chmod fs3 i (N.ldiff (N.land (w_mode w2) 511) (st_umask st2))),
                     w_set_fd (w_set_tmp w2 (Some tmp)) (Some i))
                end
              else
                match sys_unlink (st_fs st2) (st_cwd st2) (w_name w2) with
                | (Some _, _) => (SFailed, st2, w2)             (* "Can't unlink already-existing object" *)
                | (None, fs3) =>
                    match create_fs_obj fl e (with_fs st2 fs3) w2 with
                    | (en3, st3, w3) => give_up en3 st3 w3
                    end
                end
            else if negb isdir then
              (* a dir is in the way of a non-dir, rmdir it *)
              match sys_rmdir (st_fs st2) (st_cwd st2) (w_name w2) with
              | (Some _, _) => (SFailed, st2, w2)               (* "Can't replace existing directory with non-directory" *)
              | (None, fs3) =>
                  match create_fs_obj fl e (with_fs st2 fs3) w2 with
                  | (en3, st3, w3) => give_up en3 st3 w3
                  end
              end
            else
              (* a dir in the way of a dir: only fix up the permissions *)
              (SOk, st2,
               if negb (w_mode w2 =? node_perm n) && has fl EXTRACT_PERM
               then w_set_todo w2 (w_todo_mode w2) (w_todo_times w2) (w_def_mode w2 || w_todo_mode w2) (w_def_times w2)
               else w2)
          end
      | en => give_up en st2 w2
      end
    end
  end.

(* ------------------------------------------------------------------------------------------ *)
(* _archive_write_disk_header.  Result: return code, new state, Some work when the handle went
   to ARCHIVE_STATE_DATA (ret >= ARCHIVE_WARN after restore_entry). *)
Definition header (fl : N) (e : entry) (st : pstate) : status * pstate * option work :=
  match cleanup_pathname fl (e_path e) with
  | ClOk q =>
    let name := parse q in
    if (e_type e =? T_HARDLINK) && str_eqb q (e_link e) then (SWarn, st, None)   (* hardlink pointing to itself *)
    else
      let mode := if has fl EXTRACT_PERM then N.land (e_mode e) 511
                  else N.ldiff (N.land (e_mode e) 511) (st_umask st) in
      let w := mkW name mode None None true (has fl EXTRACT_TIME) false false in
      let chk := if has fl EXTRACT_SECURE_SYMLINKS
                 then check_symlinks fl false (st_fs st) (st_cwd st) name else (SOk, st_fs st) in
      match chk with
      | (SOk, fs1) =>
        let cwd0 := st_cwd st in
        match edit_deep (length (p_comps name)) fl name (with_fs st fs1) with
        | (name', st1) =>
          match restore_entry fl e st1 (w_set_name w name') with
          | (ret, st2, w2) =>
            let st3 := with_cwd st2 cwd0 in                     (* fchdir(a->restore_pwd) *)
            let want_mode := w_def_mode w2 in
            let want_times := w_def_times w2 && match e_mtime e with Some _ => true | None => false end in
            let st4 := if want_mode || want_times
                       then add_fixup st3 (mkFixup (e_path e) (e_type e =? T_DIR) want_mode (w_mode w2) want_times
                                                   (match e_mtime e with Some t => t | None => 0%Z end))
                       else st3 in
            (ret, st4, match ret with SOk | SWarn => Some w2 | _ => None end)
          end
        end
      | (r, fs1) => (r, with_fs st fs1, None)
      end
  | _ => (SFailed, st, None)
  end.

(* archive_write_data + _archive_write_disk_finish_entry for an entry in ARCHIVE_STATE_DATA *)
Definition finish (fl : N) (e : entry) (st : pstate) (w : work) : status * pstate :=
  let fs0 := st_fs st in
  let cwd := st_cwd st in
  (* data *)
  let fs1 := match w_fd w with
             | Some i => if is_nil (e_data e) then fs0 else fd_write fs0 i (e_data e)
             | None => fs0
             end in
  (* set_mode *)
  let '(r1, fs2) :=
    if w_todo_mode w && negb (e_type e =? T_SYMLINK) && negb (e_type e =? T_DIR) then
      match w_fd w with
      | Some i => (SOk, fd_chmod fs1 i (w_mode w))
      | None => match sys_chmod fs1 cwd (w_name w) (w_mode w) with
                | (None, fs') => (SOk, fs')
                | (Some _, _) => (SWarn, fs1)                   (* "Can't set permissions" *)
                end
      end
    else (SOk, fs1) in
  (* set_times_from_entry *)
  let '(r2, fs3) :=
    match e_mtime e with
    | Some t =>
      if w_todo_times w then
        match w_fd w with
        | Some i => (SOk, fd_utimens fs2 i t)
        | None => match sys_utimens_nofollow fs2 cwd (w_name w) t with
                  | (None, fs') => (SOk, fs')
                  | (Some _, _) => (SWarn, fs2)                 (* "Can't restore time" *)
                  end
        end
      else (SOk, fs2)
    | None => (SOk, fs2)
    end in
  (* close(fd); rename(tmpname, name) *)
  let '(r3, fs4) :=
    match w_fd w, w_tmp w with
    | Some _, Some tmp =>
        match sys_rename fs3 cwd tmp (w_name w) with
        | (None, fs') => (SOk, fs')
        | (Some _, _) => (SFailed, snd (sys_unlink fs3 cwd tmp)) (* "Failed to rename temporary file" *)
        end
    | _, _ => (SOk, fs3)
    end in
  (match r3 with SFailed => SFailed | _ => worse r1 r2 end, with_fs st fs4).

(* one entry through archive_write_header / archive_write_data / archive_write_finish_entry *)
Definition restore (fl : N) (st : pstate) (e : entry) : (status * status) * pstate :=
  match header fl e st with
  | (r, st1, Some w) => match finish fl e st1 w with (r2, st2) => ((r, r2), st2) end
  | (r, st1, None) => ((r, SOk), st1)
  end.

(* ------------------------------------------------------------------------------------------ *)
(* _archive_write_disk_close: sort_dir_list + the fix-up loop *)
Fixpoint str_gtb (a b : str) : bool :=                          (* strcmp(a, b) > 0 *)
  match a, b with
  | [], _ => false
  | _ :: _, [] => true
  | x :: a', y :: b' => if x =? y then str_gtb a' b' else y <? x
  end.

Fixpoint merge_fx (a : list fixup) : list fixup -> list fixup :=
  fix merge_aux (b : list fixup) : list fixup :=
    match a, b with
    | [], _ => b
    | _, [] => a
    | x :: a', y :: b' =>
        if str_gtb (fx_name x) (fx_name y) then x :: merge_fx a' b else y :: merge_aux b'
    end.

Fixpoint sort_fx (fuel : nat) (l : list fixup) : list fixup :=
  match fuel with
  | O => l
  | S f =>
    match l with
    | [] | [_] => l
    | _ => let h := Nat.div (length l + 1)%nat 2%nat in
           merge_fx (sort_fx f (firstn h l)) (sort_fx f (skipn h l))
    end
  end.

Fixpoint drop_slashes_rev (r : str) : str :=
  match r with
  | c :: r' => if c =? SLASH then drop_slashes_rev r' else r
  | [] => []
  end.
Definition strip_trailing_slashes (s : str) : str := rev (drop_slashes_rev (rev s)).

(* the body of the fix-up loop for one entry whose (already stripped) name parses to [name] *)
Definition apply_fixup_at (fs : fsys) (cwd : list name) (name : pth) (f : fixup) : fsys :=
  if negb (fx_mode_todo f) && negb (fx_times_todo f) then fs    (* p->fixup == 0 *)
  else
    match sys_open_nofollow fs cwd name (fx_isdir f) with       (* O_NOFOLLOW [| O_DIRECTORY] *)
    | inr h =>
        if fx_isdir f then                                      (* open succeeded with O_DIRECTORY *)
          let fs1 := if fx_times_todo f then h_utimens fs h (fx_mtime f) else fs in
          if fx_mode_todo f then h_chmod fs1 h (fx_mode f) else fs1
        else fs                                                 (* la_verify_filetype(.., 0) == 0 : skip *)
    | inl _ =>
        (* fd == -1: lstat + la_verify_filetype *)
        if fx_isdir f then
          match sys_stat fs cwd name false with
          | inr (Dir _ _ _) =>
              let fs1 := if fx_times_todo f then snd (sys_utimens_nofollow fs cwd name (fx_mtime f)) else fs in
              if fx_mode_todo f then snd (sys_chmod fs1 cwd name (fx_mode f)) else fs1
          | _ => fs
          end
        else fs
    end.

Definition apply_fixup (fs : fsys) (cwd : list name) (f : fixup) : fsys :=
  apply_fixup_at fs cwd (parse (strip_trailing_slashes (fx_name f))) f.

Definition close_fixups (st : pstate) : pstate :=
  let l := sort_fx (length (st_fixups st)) (st_fixups st) in
  mkSt (fold_left (fun fs f => apply_fixup fs (st_cwd st) f) l (st_fs st)) (st_cwd st) (st_umask st) [].

(* a whole history: restore every entry (stop after ARCHIVE_FATAL), then close *)
Fixpoint run_entries (fl : N) (st : pstate) (es : list entry) : list (status * status) * pstate :=
  match es with
  | [] => ([], st)
  | e :: r =>
    match restore fl st e with
    | ((SFatal, r2), st1) => ([(SFatal, r2)], st1)
    | (rr, st1) => match run_entries fl st1 r with (l, st2) => (rr :: l, st2) end
    end
  end.


(* ------------------------------------------------------------------------------------------ *)
(* The close loop of the PROPOSED FIX (fixes/C04-fixup-intermediate-symlink.diff): with
   SECURE_SYMLINKS the fix-up name is first cleaned (cleanup_pathname_fsobj with the handle's
   flags) and walked by check_symlinks_fsobj(name, SECURE_SYMLINKS, checking_linkname = 1), which
   removes nothing; the fix-up is skipped unless both succeed, and is applied to the cleaned name. *)
Definition apply_fixup_checked (fl : N) (fs : fsys) (cwd : list name) (f : fixup) : fsys :=
  if has fl EXTRACT_SECURE_SYMLINKS then
    match cleanup_pathname fl (strip_trailing_slashes (fx_name f)) with
    | ClOk qn =>
        match check_symlinks EXTRACT_SECURE_SYMLINKS true fs cwd (parse qn) with
        | (SOk, fs1) => apply_fixup_at fs1 cwd (parse qn) f
        | (_, fs1) => fs1
        end
    | _ => fs
    end
  else apply_fixup fs cwd f.

Definition close_fixups_checked (fl : N) (st : pstate) : pstate :=
  let l := sort_fx (length (st_fixups st)) (st_fixups st) in
  mkSt (fold_left (fun fs f => apply_fixup_checked fl fs (st_cwd st) f) l (st_fs st)) (st_cwd st) (st_umask st) [].

Definition run_history_checked (fl : N) (st : pstate) (es : list entry) : list (status * status) * pstate :=
  match run_entries fl st es with (l, st1) => (l, close_fixups_checked fl st1) end.

(* the close loop the code has (Gen/FsSecConsts.v : CLOSE_CHECKS_FIXUP_PATH is regenerated from
   the source on every run) *)
Definition close_fixups_cur (fl : N) (st : pstate) : pstate :=
  if CLOSE_CHECKS_FIXUP_PATH then close_fixups_checked fl st else close_fixups st.

(* a whole history: every entry, then archive_write_close *)
Definition run_history (fl : N) (st : pstate) (es : list entry) : list (status * status) * pstate :=
  match run_entries fl st es with (l, st1) => (l, close_fixups_cur fl st1) end.
