(* Capture / restore round trip on the simple FS model of FS/TreeWalkDefs.v (last part of that file):
   capture = directory walk (always descend) + the REAL hard-link resolver model of
   Entry/LinksDefs.v driven with the tar strategy, restore = replay on a flat file system.

   capture_restore_nolinks     : without shared inodes the round trip is the identity.
   capture_restore_tar         : WITH hard links, tar strategy: the first visited name of an inode
                                 carries the body, every later one is a CHard to it, and the restored
                                 image equals source_image.  Extra hypothesis [nlink_fits]: every link
                                 count is <= 2^32 (the resolver keeps `links` in an unsigned int and the
                                 model does not truncate st_nlink); without it the statement is false
                                 in the model, see [tar_counter_wraps]: with 2^32+2 names of one inode
                                 the counter reads 1 after the first name and the group is dropped
                                 after the second.
   capture_restore_tar_nodes   : the same with the bound stated as nodes root <= 2^32.
   capture_restore_example     : a concrete tree (nest, symlink, fifo, three names of one inode).
   capture_oldcpio_loses_links : with the old-cpio strategy the link structure is lost.

   The resolver is not abstracted: the proof tracks the bucket table through find_entry /
   insert_entry / grow with the invariant StInv below. *)
From Coq Require Import List ZArith NArith Bool Arith Lia Permutation.
From LA Require Import Base.Val Gen.Defines Entry.LinksDefs Entry.LinksProofs FS.TreeWalkDefs FS.TreeWalkProofs.
Import ListNotations.

(* ------------------------------------------------------------------ counting the names of an inode *)
Definition fileP (i : N) (v : visit) : bool := is_file (snd v) && N.eqb (ino_of (snd v)) i.
Definition cnt (i : N) (l : list visit) : nat := length (filter (fileP i) l).

Lemma nlink_in_F : forall objs a i c, nlink_in objs (F a i c) = N.of_nat (cnt i objs).
Proof. reflexivity. Qed.

Lemma first_cons : forall i v tl,
  first_with_ino i (v :: tl) = if fileP i v then Some (fst v) else first_with_ino i tl.
Proof. intros i [p n] tl. reflexivity. Qed.

Lemma first_app : forall i a b,
  first_with_ino i (a ++ b) =
  match first_with_ino i a with Some p => Some p | None => first_with_ino i b end.
Proof.
  intros i a b. induction a as [|v a IH]; [reflexivity|].
  rewrite <- app_comm_cons, !first_cons. destruct (fileP i v); auto.
Qed.

Lemma cnt_cons : forall i v tl, cnt i (v :: tl) = (if fileP i v then 1 else 0) + cnt i tl.
Proof. intros i v tl. unfold cnt. cbn [filter]. destruct (fileP i v); reflexivity. Qed.

Lemma cnt_app : forall i a b, cnt i (a ++ b) = cnt i a + cnt i b.
Proof. intros i a b. unfold cnt. rewrite filter_app, app_length. reflexivity. Qed.

Lemma first_none_cnt : forall i l, first_with_ino i l = None <-> cnt i l = 0.
Proof.
  intros i l. induction l as [|v l IH]; [split; reflexivity|].
  rewrite first_cons, cnt_cons. destruct (fileP i v).
  - split; [discriminate|]. intros H. discriminate H.
  - exact IH.
Qed.

Lemma first_some_cnt : forall i l p, first_with_ino i l = Some p -> 1 <= cnt i l.
Proof.
  intros i l p H. destruct (cnt i l) eqn:E; [|lia].
  apply first_none_cnt in E. congruence.
Qed.

Lemma first_some_in : forall i l p, first_with_ino i l = Some p ->
  exists u, In u l /\ fileP i u = true /\ fst u = p.
Proof.
  intros i l p. induction l as [|v l IH]; [discriminate|].
  rewrite first_cons. destruct (fileP i v) eqn:E.
  - intros H. inversion H. exists v. split; [left; reflexivity|auto].
  - intros H. destruct (IH H) as [u [H1 H2]]. exists u. split; [right; assumption|assumption].
Qed.

Lemma fileP_F : forall i p a j c, fileP i (p, F a j c) = N.eqb j i.
Proof. reflexivity. Qed.

Lemma fileP_inv : forall i u, fileP i u = true -> exists a c, snd u = F a i c.
Proof.
  intros i [p n] H. unfold fileP in H. destruct n; try discriminate H.
  cbn [snd is_file ino_of andb] in H. apply N.eqb_eq in H. subst. cbn [snd]. eauto.
Qed.

Lemma snoc_other : forall i v pre, fileP i v = false ->
  first_with_ino i (pre ++ [v]) = first_with_ino i pre /\ cnt i (pre ++ [v]) = cnt i pre.
Proof.
  intros i v pre H. rewrite first_app, cnt_app, first_cons, cnt_cons, H. cbn [first_with_ino cnt filter length].
  split; [destruct (first_with_ino i pre); reflexivity|lia].
Qed.

Lemma snoc_same : forall i v pre, fileP i v = true ->
  first_with_ino i (pre ++ [v]) =
    Some (match first_with_ino i pre with Some p => p | None => fst v end) /\
  cnt i (pre ++ [v]) = S (cnt i pre).
Proof.
  intros i v pre H. rewrite first_app, cnt_app, first_cons, cnt_cons, H. cbn [cnt filter length].
  split; [destruct (first_with_ino i pre); reflexivity|lia].
Qed.

(* ------------------------------------------------------------------ what capture must produce *)
Definition cent (pre : list visit) (v : visit) : centry :=
  match snd v with
  | F _ i c => match first_with_ino i pre with
               | Some p => (fst v, CHard p)
               | None => (fst v, CFile c)
               end
  | n => (fst v, ckind_of n)
  end.

Fixpoint caps (pre suf : list visit) : list centry :=
  match suf with
  | [] => []
  | v :: tl => cent pre v :: caps (pre ++ [v]) tl
  end.

Lemma caps_fst : forall suf pre, map fst (caps pre suf) = map fst suf.
Proof.
  induction suf as [|v tl IH]; intros pre; [reflexivity|].
  cbn [caps map]. rewrite IH. f_equal.
  unfold cent. destruct (snd v); try reflexivity. destruct (first_with_ino ino pre); reflexivity.
Qed.

(* ------------------------------------------------------------------ the restore half *)
Definition img (vis l : list visit) : rfs := map (fun v => (fst v, robj_of vis v)) l.

Definition link_ok (vis : list visit) : Prop :=
  forall pre v tl a i c p, vis = pre ++ v :: tl -> snd v = F a i c ->
    first_with_ino i pre = Some p -> rlookup p (img vis pre) = Some (RFile p c).

Lemma img_snoc : forall vis pre v, img vis (pre ++ [v]) = img vis pre ++ [(fst v, robj_of vis v)].
Proof. intros. unfold img. rewrite map_app. reflexivity. Qed.

Lemma restore_one_step : forall vis pre v tl, link_ok vis -> vis = pre ++ v :: tl ->
  restore_one (img vis pre) (cent pre v) = img vis (pre ++ [v]).
Proof.
  intros vis pre v tl HL Hv. rewrite img_snoc.
  pose proof (HL pre v tl) as HL'.
  destruct v as [p n]. unfold cent, restore_one, robj_of. cbn [snd fst] in *.
  destruct n as [a i c|a cs|a tg|a k]; cbn [ckind_of snd fst]; try reflexivity.
  assert (Hf : first_with_ino i vis =
               Some (match first_with_ino i pre with Some q => q | None => p end)).
  { rewrite Hv, first_app, first_cons, fileP_F, N.eqb_refl.
    destruct (first_with_ino i pre); reflexivity. }
  rewrite Hf.
  destruct (first_with_ino i pre) as [q|] eqn:E; cbn [snd fst].
  - rewrite (HL' a i c q Hv eq_refl E). reflexivity.
  - reflexivity.
Qed.

Lemma restore_caps : forall vis, link_ok vis -> forall suf pre, vis = pre ++ suf ->
  fold_left restore_one (caps pre suf) (img vis pre) = img vis vis.
Proof.
  intros vis HL. induction suf as [|v tl IH]; intros pre Hv.
  - rewrite app_nil_r in Hv. subst pre. reflexivity.
  - cbn [caps fold_left]. rewrite (restore_one_step vis pre v tl HL Hv).
    apply IH. rewrite <- app_assoc. exact Hv.
Qed.

(* link_ok from unique pathnames and consistent contents *)
Lemma nodup_names_app_l : forall a b, nodup_names (a ++ b) = true -> nodup_names a = true.
Proof.
  induction a as [|x a IH]; intros b H; [reflexivity|].
  cbn [app nodup_names] in *. apply andb_true_iff in H. destruct H as [H1 H2].
  apply andb_true_iff. split; [|eapply IH; eauto].
  apply negb_true_iff in H1. apply negb_true_iff.
  rewrite existsb_app in H1. apply orb_false_iff in H1. tauto.
Qed.

Lemma rlookup_nodup : forall (g : visit -> robj) l u,
  nodup_names (map fst l) = true -> In u l ->
  rlookup (fst u) (map (fun v => (fst v, g v)) l) = Some (g u).
Proof.
  intros g. induction l as [|w l IH]; intros u Hn Hu; [contradiction|].
  cbn [map nodup_names rlookup] in *. apply andb_true_iff in Hn. destruct Hn as [H1 H2].
  destruct Hu as [->|Hu].
  - rewrite bytes_eqb_refl. reflexivity.
  - apply negb_true_iff in H1.
    rewrite (existsb_false_in _ _ (fst u) H1) by (apply in_map; assumption).
    apply IH; assumption.
Qed.

Lemma content_of_ino_in : forall i l p a c, In (p, F a i c) l ->
  exists c', content_of_ino i l = Some c'.
Proof.
  intros i l p a c. induction l as [|[q n] l IH]; intros H; [contradiction|].
  destruct H as [H|H].
  - inversion H. subst. cbn [content_of_ino]. rewrite N.eqb_refl. eauto.
  - destruct n; cbn [content_of_ino]; auto. destruct (N.eqb ino i); eauto.
Qed.

Definition consistent (vis : list visit) : Prop :=
  forall p a i c, In (p, F a i c) vis ->
    match content_of_ino i vis with Some c' => c = c' | None => False end.

Lemma link_ok_paths : forall vis, nodup_names (map fst vis) = true -> consistent vis -> link_ok vis.
Proof.
  intros vis Hn Hc pre v tl a i c p Hv Hs Hf.
  destruct (first_some_in _ _ _ Hf) as [u [Hu [Hp Hq]]].
  destruct (fileP_inv _ _ Hp) as [a' [c' Hsu]].
  assert (Hnp : nodup_names (map fst pre) = true).
  { rewrite Hv, map_app in Hn. eapply nodup_names_app_l; eauto. }
  unfold img. rewrite <- Hq. rewrite (rlookup_nodup (robj_of vis) pre u Hnp Hu).
  unfold robj_of. rewrite Hsu.
  assert (Hfv : first_with_ino i vis = Some p).
  { rewrite Hv, first_app, Hf. reflexivity. }
  rewrite Hfv, Hq.
  assert (H1 : In (fst u, F a' i c') vis).
  { rewrite <- Hsu, <- surjective_pairing, Hv. apply in_or_app. left. assumption. }
  assert (H2 : In (fst v, F a i c) vis).
  { rewrite <- Hs, <- surjective_pairing, Hv. apply in_or_app. right. left. reflexivity. }
  apply Hc in H1. apply Hc in H2.
  destruct (content_of_ino i vis); [|contradiction]. subst. reflexivity.
Qed.

(* link_ok when no inode is shared: CHard never occurs *)
Lemma existsb_inos_cnt : forall i l, existsb (N.eqb i) (inos l) = false -> cnt i l = 0.
Proof.
  intros i. induction l as [|[p n] l IH]; intros H; [reflexivity|].
  rewrite cnt_cons. destruct n as [a j c|a cs|a tg|a k]; cbn [inos] in H; try (apply IH; assumption).
  cbn [existsb] in H. apply orb_false_iff in H. destruct H as [H1 H2].
  rewrite fileP_F, N.eqb_sym, H1. apply IH. assumption.
Qed.

Lemma nodupN_cnt : forall l i, nodupN (inos l) = true -> cnt i l <= 1.
Proof.
  induction l as [|[p n] l IH]; intros i H; [unfold cnt; simpl; lia|].
  rewrite cnt_cons. destruct n as [a j c|a cs|a tg|a k]; cbn [inos] in H;
    try (specialize (IH i H); unfold fileP; cbn [snd is_file andb]; lia).
  cbn [nodupN] in H. apply andb_true_iff in H. destruct H as [H1 H2]. apply negb_true_iff in H1.
  rewrite fileP_F. destruct (N.eqb_spec j i) as [->|Hne].
  - rewrite (existsb_inos_cnt _ _ H1). lia.
  - specialize (IH i H2). lia.
Qed.

Lemma link_ok_nolinks : forall vis, nodupN (inos vis) = true -> link_ok vis.
Proof.
  intros vis Hn pre v tl a i c p Hv Hs Hf. exfalso.
  pose proof (nodupN_cnt vis i Hn) as H1.
  pose proof (first_some_cnt _ _ _ Hf) as H2.
  rewrite Hv, cnt_app, cnt_cons in H1.
  assert (Hp : fileP i v = true).
  { unfold fileP. rewrite Hs. cbn [is_file ino_of andb]. apply N.eqb_refl. }
  rewrite Hp in H1. lia.
Qed.

(* ------------------------------------------------------------------ the resolver table: placement *)
Definition ents (t : table) : list le := concat (buckets t).

(* every entry sits in the bucket its hash selects *)
Definition placed (nb : N) (bs : list (list le)) : Prop :=
  forall j x, In x (nth j bs []) -> bucket_ix (lhash x) nb = j.

Lemma in_upd_nth : forall (bs : list (list le)) i b' j x,
  In x (nth j (upd_nth i b' bs) []) -> (j = i /\ In x b') \/ In x (nth j bs []).
Proof.
  induction bs as [|b bs IH]; intros i b' j x H.
  - right. destruct i; exact H.
  - destruct i as [|i]; destruct j as [|j]; cbn [upd_nth nth] in *; auto.
    destruct (IH i b' j x H) as [[-> H1]|H1]; auto.
Qed.

Lemma placed_upd : forall nb bs i b', placed nb bs ->
  (forall x, In x b' -> bucket_ix (lhash x) nb = i) -> placed nb (upd_nth i b' bs).
Proof.
  intros nb bs i b' Hp Hb j x H. destruct (in_upd_nth _ _ _ _ _ H) as [[-> H1]|H1]; auto.
Qed.

Lemma placed_repeat : forall nb n, placed nb (repeat [] n).
Proof.
  intros nb n j x H. exfalso. revert j H. induction n as [|n IH]; intros [|j] H; cbn [repeat nth] in H; eauto.
Qed.

Lemma placed_push : forall nb bs x, placed nb bs -> placed nb (push_bucket nb bs x).
Proof.
  intros nb bs x Hp. unfold push_bucket. apply placed_upd; [assumption|].
  intros y [<-|Hy]; [reflexivity|]. apply Hp. assumption.
Qed.

Lemma placed_fold : forall nb l acc, placed nb acc -> placed nb (fold_left (push_bucket nb) l acc).
Proof.
  intros nb. induction l as [|x l IH]; intros acc H; [exact H|].
  cbn [fold_left]. apply IH, placed_push, H.
Qed.

Lemma fold_push_length : forall nb l acc, length (fold_left (push_bucket nb) l acc) = length acc.
Proof.
  intros nb. induction l as [|x l IH]; intros acc; [reflexivity|].
  cbn [fold_left]. rewrite IH. apply push_bucket_length.
Qed.

Lemma grow_placed : forall bs, placed (N.of_nat (length bs)) bs ->
  placed (N.of_nat (length (grow bs))) (grow bs).
Proof.
  intros bs H. unfold grow.
  destruct ((2 * N.of_nat (length bs) mod two64 <? N.of_nat (length bs))%N); [exact H|].
  rewrite fold_push_length, repeat_length, N2Nat.id. apply placed_fold, placed_repeat.
Qed.

Lemma in_nth_concat : forall (bs : list (list le)) j x, In x (nth j bs []) -> In x (concat bs).
Proof.
  induction bs as [|b bs IH]; intros [|j] x H; cbn [nth concat] in *; try contradiction.
  - apply in_or_app. left. exact H.
  - apply in_or_app. right. eapply IH. exact H.
Qed.

Lemma in_concat_nth : forall (bs : list (list le)) x, In x (concat bs) -> exists j, In x (nth j bs []).
Proof.
  induction bs as [|b bs IH]; intros x H; [contradiction|].
  cbn [concat] in H. apply in_app_or in H. destruct H as [H|H].
  - exists 0. exact H.
  - destruct (IH x H) as [j Hj]. exists (S j). exact Hj.
Qed.

(* ---- find_in, with the matching information LinksProofs.find_in_spec leaves out ---- *)
Lemma find_in_none : forall l h d i upd,
  (forall x, In x l -> le_matches x h d i = false) -> find_in l h d i upd = None.
Proof.
  induction l as [|y l IH]; intros h d i upd H; [reflexivity|].
  cbn [find_in]. rewrite (H y (or_introl eq_refl)).
  rewrite IH; [reflexivity|]. intros x Hx. apply H. right. exact Hx.
Qed.

Lemma find_in_some : forall l h d i upd x, In x l -> le_matches x h d i = true ->
  exists pre x' post, l = pre ++ x' :: post /\ le_matches x' h d i = true /\
    find_in l h d i upd =
      Some (dec_links x', pre ++ (if (0 <? links (dec_links x'))%N then [upd (dec_links x')] else []) ++ post).
Proof.
  induction l as [|y l IH]; intros h d i upd x Hx Hm; [contradiction|].
  cbn [find_in]. destruct (le_matches y h d i) eqn:E.
  - exists [], y, l. split; [reflexivity|]. split; [exact E|].
    cbv zeta. destruct (0 <? links (dec_links y))%N; reflexivity.
  - destruct Hx as [->|Hx]; [congruence|].
    destruct (IH h d i upd x Hx Hm) as (pre & x' & post & H1 & H2 & H3).
    exists (y :: pre), x', post. split; [rewrite H1; reflexivity|]. split; [exact H2|].
    rewrite H3. reflexivity.
Qed.

Lemma find_entry_absent : forall t e upd,
  (forall x, In x (ents t) -> le_matches x (hash_of e) (edev e) (eino e) = false) ->
  find_entry t e upd = None.
Proof.
  intros t e upd H. unfold find_entry. rewrite find_in_none; [reflexivity|].
  intros x Hx. apply H. eapply in_nth_concat. exact Hx.
Qed.

Lemma find_entry_present : forall t e x0,
  pow2len (buckets t) -> placed (nbuckets t) (buckets t) ->
  In x0 (ents t) -> le_matches x0 (hash_of e) (edev e) (eino e) = true ->
  exists x' t' P Q,
    find_entry t e (fun x => x) = Some (dec_links x', t') /\
    le_matches x' (hash_of e) (edev e) (eino e) = true /\
    ents t = P ++ x' :: Q /\
    ents t' = P ++ (if (0 <? links (dec_links x'))%N then [dec_links x'] else []) ++ Q /\
    strategy t' = strategy t /\ placed (nbuckets t') (buckets t').
Proof.
  intros t e x0 Hp Hpl Hin Hm. unfold find_entry.
  set (i := bucket_ix (hash_of e) (nbuckets t)).
  destruct (in_concat_nth _ _ Hin) as [j Hj].
  assert (Hji : j = i).
  { rewrite <- (Hpl j x0 Hj). unfold i. f_equal.
    unfold le_matches in Hm. apply andb_true_iff in Hm. destruct Hm as [Hm _].
    apply andb_true_iff in Hm. destruct Hm as [Hm _]. apply N.eqb_eq in Hm. exact Hm. }
  subst j.
  destruct (find_in_some _ _ _ _ (fun x => x) x0 Hj Hm) as (pre & x' & post & H1 & H2 & H3).
  rewrite H3.
  destruct (upd_nth_concat (buckets t) i (bucket_ix_in _ _ Hp)) as (P & Q & H4 & H5).
  eexists x', _, (P ++ pre), (post ++ Q). split; [reflexivity|]. split; [exact H2|].
  unfold ents. cbn [buckets strategy]. split; [|split; [|split; [reflexivity|]]].
  - rewrite H4. fold i. rewrite H1, <- !app_assoc. reflexivity.
  - rewrite H5, <- !app_assoc. reflexivity.
  - unfold nbuckets. cbn [buckets]. rewrite upd_nth_length. apply placed_upd; [exact Hpl|].
    intros y Hy. apply in_app_or in Hy. destruct Hy as [Hy|Hy].
    + apply Hpl. fold i. rewrite H1. apply in_or_app. left. exact Hy.
    + apply in_app_or in Hy. destruct Hy as [Hy|Hy].
      * destruct (0 <? links (dec_links x'))%N; [|contradiction].
        destruct Hy as [<-|[]]. change (lhash (dec_links x')) with (lhash x').
        apply Hpl. fold i. rewrite H1. apply in_or_app. right. left. reflexivity.
      * apply Hpl. fold i. rewrite H1. apply in_or_app. right. right. exact Hy.
Qed.

Lemma insert_entry_ents : forall t e,
  pow2len (buckets t) -> placed (nbuckets t) (buckets t) ->
  Permutation (ents (insert_entry t e None))
              (mkLe e None (hash_of e) ((enlink e + two32 - 1) mod two32)%N :: ents t) /\
  placed (nbuckets (insert_entry t e None)) (buckets (insert_entry t e None)) /\
  strategy (insert_entry t e None) = strategy t.
Proof.
  intros t e Hp Hpl. unfold insert_entry, ents, nbuckets. cbn [buckets strategy].
  set (bs := if (2 * N.of_nat (length (buckets t)) <? count t)%N then grow (buckets t) else buckets t).
  assert (Hbs : pow2len bs /\ Permutation (concat bs) (concat (buckets t)) /\
                placed (N.of_nat (length bs)) bs).
  { unfold bs. destruct (2 * N.of_nat (length (buckets t)) <? count t)%N.
    - destruct (grow_spec _ Hp) as [G1 G2]. split; [exact G1|]. split; [exact G2|].
      apply grow_placed. exact Hpl.
    - split; [exact Hp|]. split; [reflexivity|exact Hpl]. }
  destruct Hbs as (B1 & B2 & B3).
  split; [|split; [|reflexivity]].
  - etransitivity; [apply push_bucket_perm, B1|]. constructor. exact B2.
  - rewrite push_bucket_length. apply placed_push. exact B3.
Qed.

(* ---- small-list facts ---- *)
Lemma perm_small : forall (a b : list le), Permutation a b -> length b <= 1 -> a = b.
Proof.
  intros a b H Hl. destruct b as [|y [|z b]]; cbn [length] in Hl; [| |lia].
  - apply Permutation_sym, Permutation_nil in H. exact H.
  - apply Permutation_sym, Permutation_length_1_inv in H. exact H.
Qed.

Lemma app_single : forall (P Q : list le) x y, P ++ x :: Q = [y] -> P = [] /\ x = y /\ Q = [].
Proof.
  intros P Q x y H. destruct P as [|z P].
  - inversion H. auto.
  - inversion H. destruct P; discriminate.
Qed.

(* (l + 2^32 - 1) mod 2^32 is l - 1 as long as the count fits: the resolver keeps `links` in an
   unsigned int.  With 2^32+2 names of one inode the counter would read 1 after the first name and
   the group would be forgotten after the second. *)
Lemma dec_arith : forall l, (1 <= l)%N -> (l <= two32)%N -> ((l + two32 - 1) mod two32 = l - 1)%N.
Proof.
  intros l H1 H2. replace (l + two32 - 1)%N with ((l - 1) + 1 * two32)%N by lia.
  rewrite N.mod_add by (unfold two32; discriminate). apply N.mod_small. lia.
Qed.

Lemma drain_nil : forall n t, held_entries t = [] -> drain n t = [].
Proof.
  intros [|n] t H; [reflexivity|]. cbn [drain].
  destruct (linkify_null t) as [t' [e|]] eqn:E; [|reflexivity].
  apply drain_step_some in E. congruence.
Qed.

(* ---- what leaves the resolver, turned back into archive entries ---- *)
Lemma centry_plain : forall vis k v, nth_error vis k = Some v ->
  centry_of vis (lentry_of vis k v) = (fst v, ckind_of (snd v)).
Proof.
  intros vis k v H. unfold centry_of. cbn [ehard lentry_of eid epath]. rewrite Nat2Z.id, H. reflexivity.
Qed.

Lemma centry_marked : forall vis k v p,
  centry_of vis (mark_hardlink true (lentry_of vis k v) p) = (fst v, CHard p).
Proof. reflexivity. Qed.

Lemma nth_error_mid : forall (pre : list visit) v tl, nth_error (pre ++ v :: tl) (length pre) = Some v.
Proof. intros. rewrite nth_error_app2 by lia. rewrite Nat.sub_diag. reflexivity. Qed.

Lemma perm_filter : forall (f : le -> bool) a b, Permutation a b -> Permutation (filter f a) (filter f b).
Proof.
  intros f a b H. induction H; cbn [filter].
  - constructor.
  - destruct (f x); [constructor|]; assumption.
  - destruct (f x); destruct (f y); try reflexivity. apply perm_swap.
  - etransitivity; eassumption.
Qed.

(* ------------------------------------------------------------------ the resolver half: tar strategy *)
Definition keyis (i : N) (x : le) : bool := N.eqb (eino (canon x)) i.

Definition good (i : N) (p : bytes) (l : N) (x : le) : Prop :=
  edev (canon x) = 0%N /\ eino (canon x) = i /\ lhash x = (N.lxor 0 i mod two64)%N /\
  epath (canon x) = p /\ links x = l.

Section Tar.
Variable vis : list visit.
Hypothesis H32 : forall i, (N.of_nat (cnt i vis) <= two32)%N.

(* the table holds exactly the inodes of which some but not all names were seen, each with the
   first pathname and the number of names still to come *)
Definition Live (pre : list visit) (t : table) (i : N) : Prop :=
  match first_with_ino i pre with
  | Some p => if cnt i pre <? cnt i vis
              then exists x, filter (keyis i) (ents t) = [x] /\
                             good i p (N.of_nat (cnt i vis - cnt i pre)) x
              else filter (keyis i) (ents t) = []
  | None => filter (keyis i) (ents t) = []
  end.

Record StInv (pre : list visit) (t : table) : Prop := mkStInv {
  si_inv : Inv t;
  si_placed : placed (nbuckets t) (buckets t);
  si_strat : strategy t = LINKIFY_LIKE_TAR;
  si_live : forall i, Live pre t i }.

Lemma live_len : forall pre t i, Live pre t i -> length (filter (keyis i) (ents t)) <= 1.
Proof.
  intros pre t i H. unfold Live in H.
  destruct (first_with_ino i pre); [destruct (cnt i pre <? cnt i vis)|].
  - destruct H as [x [-> _]]. cbn [length]. lia.
  - rewrite H. cbn [length]. lia.
  - rewrite H. cbn [length]. lia.
Qed.

Lemma live_other : forall pre v t t' i, fileP i v = false ->
  filter (keyis i) (ents t') = filter (keyis i) (ents t) ->
  Live pre t i -> Live (pre ++ [v]) t' i.
Proof.
  intros pre v t t' i Hf He H. unfold Live in *.
  destruct (snoc_other i v pre Hf) as [-> ->]. rewrite He. exact H.
Qed.

Lemma live_nonfile : forall pre v t, (forall i, fileP i v = false) ->
  (forall i, Live pre t i) -> forall i, Live (pre ++ [v]) t i.
Proof. intros pre v t Hf H i. apply (live_other pre v t t i (Hf i) eq_refl (H i)). Qed.

Lemma step_pass : forall pre v tl t, vis = pre ++ v :: tl -> StInv pre t ->
  is_passthrough (lentry_of vis (length pre) v) = true ->
  cent pre v = (fst v, ckind_of (snd v)) ->
  (forall i, Live (pre ++ [v]) t i) ->
  exists t' o, linkify t (lentry_of vis (length pre) v) = (t', (Some o, None)) /\
               centry_of vis o = cent pre v /\ StInv (pre ++ [v]) t'.
Proof.
  intros pre v tl t Hv [HI Hpl Hs Hl] EP Hc Hl'.
  exists t, (lentry_of vis (length pre) v). split; [|split].
  - unfold linkify. rewrite EP. reflexivity.
  - rewrite Hc. apply centry_plain. rewrite Hv. apply nth_error_mid.
  - constructor; assumption.
Qed.

Lemma tar_step : forall pre v tl t, vis = pre ++ v :: tl -> StInv pre t ->
  exists t' o, linkify t (lentry_of vis (length pre) v) = (t', (Some o, None)) /\
               centry_of vis o = cent pre v /\ StInv (pre ++ [v]) t'.
Proof.
  intros pre v tl t Hv HS.
  destruct v as [p n]. destruct n as [a i c|a cs|a tg|a k].
  2: { apply (step_pass pre _ tl t Hv HS); [reflexivity|reflexivity|].
       apply live_nonfile; [reflexivity|]. apply HS. }
  2: { apply (step_pass pre _ tl t Hv HS); [reflexivity|reflexivity|].
       apply live_nonfile; [reflexivity|]. apply HS. }
  2: { apply (step_pass pre _ tl t Hv HS); [|reflexivity|].
       - unfold is_passthrough. cbn [lentry_of enlink nlink_in snd]. reflexivity.
       - apply live_nonfile; [reflexivity|]. apply HS. }
  (* a regular file with inode i *)
  set (v := (p, F a i c)) in *.
  assert (Hpi : fileP i v = true) by (unfold v; rewrite fileP_F; apply N.eqb_refl).
  assert (Hn : cnt i vis = cnt i pre + 1 + cnt i tl).
  { rewrite Hv, cnt_app, cnt_cons, Hpi. lia. }
  assert (Hoth : forall i', i' <> i -> fileP i' v = false).
  { intros i' Hne. unfold v. rewrite fileP_F. apply N.eqb_neq. congruence. }
  destruct HS as [HI Hpl Hs Hl].
  pose proof (Hl i) as Hli.
  destruct (Nat.eq_dec (cnt i vis) 1) as [H1|H1].
  { (* a single name: passes through *)
    assert (Hz : cnt i pre = 0) by lia.
    assert (Hfn : first_with_ino i pre = None) by (apply first_none_cnt; exact Hz).
    apply (step_pass pre v tl t Hv (mkStInv _ _ HI Hpl Hs Hl)).
    - unfold is_passthrough. cbn [lentry_of enlink snd v]. rewrite nlink_in_F, H1. reflexivity.
    - unfold cent, v. cbn [snd fst]. rewrite Hfn. reflexivity.
    - intros i'. destruct (N.eq_dec i' i) as [->|Hne].
      + unfold Live in *. destruct (snoc_same i v pre Hpi) as [-> ->].
        rewrite Hfn in Hli. rewrite H1, Hz. cbn [Nat.ltb Nat.leb]. exact Hli.
      + apply (live_other pre v t t i' (Hoth i' Hne) eq_refl (Hl i')). }
  assert (EP : is_passthrough (lentry_of vis (length pre) v) = false).
  { unfold is_passthrough. cbn [lentry_of enlink eftype ftype_of snd v]. rewrite nlink_in_F.
    destruct (N.eqb_spec (N.of_nat (cnt i vis)) 1) as [E|E]; [lia|]. reflexivity. }
  set (e := lentry_of vis (length pre) v) in *.
  assert (Ee : edev e = 0%N /\ eino e = i /\ epath e = p /\ enlink e = N.of_nat (cnt i vis) /\
               hash_of e = (N.lxor 0 i mod two64)%N).
  { repeat split. }
  destruct Ee as (Ed & Ei & Epth & Enl & Eh).
  assert (Hkey : forall x, le_matches x (hash_of e) (edev e) (eino e) = true -> keyis i x = true).
  { intros x Hm. unfold le_matches in Hm. apply andb_true_iff in Hm. destruct Hm as [_ Hm].
    rewrite Ei in Hm. exact Hm. }
  pose proof (H32 i) as Hb.
  destruct (first_with_ino i pre) as [q|] eqn:EF.
  - (* a later name: found, turned into a hard link to the first *)
    pose proof (first_some_cnt _ _ _ EF) as Hc1.
    unfold Live in Hli. rewrite EF in Hli.
    assert (Hlt : (cnt i pre <? cnt i vis) = true) by (apply Nat.ltb_lt; lia).
    rewrite Hlt in Hli. destruct Hli as [x0 [Hf0 (G1 & G2 & G3 & G4 & G5)]].
    assert (Hin0 : In x0 (ents t)).
    { assert (H : In x0 (filter (keyis i) (ents t))) by (rewrite Hf0; left; reflexivity).
      apply filter_In in H. tauto. }
    assert (Hm0 : le_matches x0 (hash_of e) (edev e) (eino e) = true).
    { unfold le_matches. rewrite Eh, Ed, Ei, G1, G2, G3, !N.eqb_refl. reflexivity. }
    destruct HI as [Hp Hh].
    destruct (find_entry_present t e x0 Hp Hpl Hin0 Hm0) as (x' & t' & P & Q & F1 & F2 & F3 & F4 & F5 & F6).
    assert (Hx : x' = x0).
    { assert (H : In x' (filter (keyis i) (ents t))).
      { apply filter_In. split; [rewrite F3; apply in_or_app; right; left; reflexivity|].
        apply Hkey. exact F2. }
      rewrite Hf0 in H. destruct H as [H|[]]. congruence. }
    subst x'.
    assert (EL : linkify t e = (t', (Some (mark_hardlink true e q), None))).
    { unfold linkify. rewrite EP, Hs, N.eqb_refl, F1. cbn [dec_links canon]. rewrite G4. reflexivity. }
    exists t', (mark_hardlink true e q). split; [exact EL|]. split.
    { unfold cent, v. cbn [snd fst]. rewrite EF. apply centry_marked. }
    destruct (linkify_step t e t' _ _ (conj Hp Hh) EL) as (HI' & _ & _).
    constructor; [exact HI'|exact F6|congruence|].
    assert (Hsplit : filter (keyis i) P = [] /\ filter (keyis i) Q = []).
    { rewrite F3, filter_app in Hf0. cbn [filter] in Hf0.
      assert (K : keyis i x0 = true) by (unfold keyis; rewrite G2; apply N.eqb_refl).
      rewrite K in Hf0. apply app_single in Hf0. tauto. }
    destruct Hsplit as [HP HQ].
    assert (Hdl : links (dec_links x0) = (N.of_nat (cnt i vis - cnt i pre) - 1)%N).
    { cbn [dec_links links]. rewrite G5. apply dec_arith; lia. }
    intros i'. destruct (N.eq_dec i' i) as [->|Hne].
    + unfold Live. destruct (snoc_same i v pre Hpi) as [-> ->]. rewrite EF.
      rewrite F4, !filter_app, HP, HQ, app_nil_r. cbn [app].
      destruct (S (cnt i pre) <? cnt i vis) eqn:E2.
      * apply Nat.ltb_lt in E2.
        assert (E3 : (0 <? links (dec_links x0))%N = true) by (apply N.ltb_lt; rewrite Hdl; lia).
        rewrite E3. cbn [filter]. change (keyis i (dec_links x0)) with (keyis i x0).
        assert (K : keyis i x0 = true) by (unfold keyis; rewrite G2; apply N.eqb_refl).
        rewrite K. exists (dec_links x0). split; [reflexivity|].
        unfold good. cbn [dec_links canon lhash]. repeat split; try assumption.
        change (links (dec_links x0) = N.of_nat (cnt i vis - S (cnt i pre))). rewrite Hdl. lia.
      * apply Nat.ltb_ge in E2.
        assert (E3 : (0 <? links (dec_links x0))%N = false) by (apply N.ltb_ge; rewrite Hdl; lia).
        rewrite E3. reflexivity.
    + apply (live_other pre v t t' i' (Hoth i' Hne)); [|apply Hl].
      assert (K : keyis i' x0 = false) by (unfold keyis; rewrite G2; apply N.eqb_neq; congruence).
      rewrite F4, F3, !filter_app. cbn [filter]. rewrite K.
      destruct (0 <? links (dec_links x0))%N; [|reflexivity].
      cbn [filter]. change (keyis i' (dec_links x0)) with (keyis i' x0). rewrite K. reflexivity.
  - (* the first name of a group: inserted with n - 1 links to come *)
    assert (Hz : cnt i pre = 0) by (apply first_none_cnt; exact EF).
    unfold Live in Hli. rewrite EF in Hli.
    assert (Habs : find_entry t e (fun x => x) = None).
    { apply find_entry_absent. intros x Hx.
      destruct (le_matches x (hash_of e) (edev e) (eino e)) eqn:Em; [|reflexivity].
      assert (H : In x (filter (keyis i) (ents t))) by (apply filter_In; split; [exact Hx|apply Hkey, Em]).
      rewrite Hli in H. contradiction. }
    assert (EL : linkify t e = (insert_entry t e None, (Some e, None))).
    { unfold linkify. rewrite EP, Hs, N.eqb_refl, Habs. reflexivity. }
    exists (insert_entry t e None), e. split; [exact EL|]. split.
    { unfold cent, v. cbn [snd fst]. rewrite EF. change (p, CFile c) with (fst v, ckind_of (snd v)).
      apply centry_plain. rewrite Hv. apply nth_error_mid. }
    destruct (linkify_step t e _ _ _ HI EL) as (HI' & _ & _).
    destruct HI as [Hp Hh].
    destruct (insert_entry_ents t e Hp Hpl) as (I1 & I2 & I3).
    constructor; [exact HI'|exact I2|congruence|].
    set (x := {| canon := e; held := None; lhash := hash_of e;
                 links := ((enlink e + two32 - 1) mod two32)%N |}) in *.
    intros i'. destruct (N.eq_dec i' i) as [->|Hne].
    + unfold Live. destruct (snoc_same i v pre Hpi) as [-> ->]. rewrite EF, Hz.
      assert (E2 : (1 <? cnt i vis) = true) by (apply Nat.ltb_lt; lia).
      rewrite E2. exists x. split.
      * apply perm_small.
        -- etransitivity; [apply perm_filter, I1|]. cbn [filter].
           assert (K : keyis i x = true) by (unfold keyis, x; cbn [canon]; rewrite Ei; apply N.eqb_refl).
           rewrite K, Hli. reflexivity.
        -- cbn [length]. lia.
      * unfold good, x. cbn [canon lhash links]. repeat split; try assumption.
        rewrite Enl. rewrite dec_arith by lia. lia.
    + apply (live_other pre v t _ i' (Hoth i' Hne)); [|apply Hl].
      assert (K : keyis i' x = false).
      { unfold keyis, x. cbn [canon]. rewrite Ei. apply N.eqb_neq. congruence. }
      apply perm_small.
      * etransitivity; [apply perm_filter, I1|]. cbn [filter]. rewrite K. reflexivity.
      * apply (live_len pre t i'), Hl.
Qed.

Lemma tar_run : forall suf pre t, vis = pre ++ suf -> StInv pre t ->
  exists t' outs, lrun t (map Push (lentries_from vis (length pre) suf)) = (t', outs) /\
    map (centry_of vis) (outs_entries outs) = caps pre suf /\ StInv vis t'.
Proof.
  induction suf as [|v tl IH]; intros pre t Hv HS.
  - exists t, []. rewrite app_nil_r in Hv. subst pre. auto.
  - destruct (tar_step pre v tl t Hv HS) as (t1 & o & E1 & E2 & HS1).
    destruct (IH (pre ++ [v]) t1) as (t2 & outs & E3 & E4 & HS2);
      [rewrite <- app_assoc; exact Hv|exact HS1|].
    rewrite app_length in E3. cbn [length] in E3. rewrite Nat.add_1_r in E3.
    exists t2, (OutPush (Some o) None :: outs). cbn [lentries_from map lrun lstep]. rewrite E1, E3.
    split; [reflexivity|]. split; [|exact HS2].
    unfold outs_entries in *. cbn [flat_map out_entries app map]. rewrite E2, E4. reflexivity.
Qed.

Lemma init_StInv : StInv [] (init_table LINKIFY_LIKE_TAR).
Proof.
  constructor.
  - apply init_Inv, init_size_pow2.
  - unfold nbuckets, init_table. cbn [buckets]. apply placed_repeat.
  - reflexivity.
  - intros i. unfold Live. cbn [first_with_ino]. unfold ents, init_table. cbn [buckets].
    rewrite repeat_nil_concat. reflexivity.
Qed.

Lemma resolve_tar :
  map (centry_of vis) (resolve LINKIFY_LIKE_TAR (lentries_from vis 0 vis)) = caps [] vis.
Proof.
  destruct (tar_run vis [] _ eq_refl init_StInv) as (t' & outs & E & Ec & HS).
  cbn [length] in E. unfold resolve. rewrite E.
  rewrite drain_nil, app_nil_r; [exact Ec|].
  destruct HS as [[_ Hh] _ Hs _]. apply Hh. rewrite Hs. discriminate.
Qed.

End Tar.

(* capture then restore on an arbitrary visit list *)
Lemma roundtrip : forall vis,
  (forall i, (N.of_nat (cnt i vis) <= two32)%N) -> link_ok vis ->
  restore (map (centry_of vis) (resolve LINKIFY_LIKE_TAR (lentries_from vis 0 vis))) = img vis vis /\
  map fst (map (centry_of vis) (resolve LINKIFY_LIKE_TAR (lentries_from vis 0 vis))) = map fst vis.
Proof.
  intros vis H32 HL. rewrite (resolve_tar vis H32). split.
  - apply (restore_caps vis HL vis []). reflexivity.
  - apply caps_fst.
Qed.

Lemma capture_walk : forall root, wf_root root = true ->
  capture root = Some (map (centry_of (visits_spec always root))
    (resolve LINKIFY_LIKE_TAR (lentries_from (visits_spec always root) 0 (visits_spec always root)))).
Proof.
  intros root Hwf. destruct (walk_spec always root Hwf) as [t [Hw _]].
  unfold capture, capture_with. rewrite Hw. reflexivity.
Qed.

(* ------------------------------------------------------------------ (1) no hard links *)
Theorem capture_restore_nolinks : forall root,
  wf_root root = true -> no_hardlinks root = true ->
  exists es, capture root = Some es /\ restore es = source_image root /\
             map fst es = map fst (visits_spec always root).
Proof.
  intros root Hwf Hn. eexists. split; [apply capture_walk, Hwf|].
  apply roundtrip.
  - intros i. pose proof (nodupN_cnt _ i Hn). unfold two32. lia.
  - apply link_ok_nolinks. exact Hn.
Qed.

(* ------------------------------------------------------------------ (2) hard links, tar strategy *)
(* every st_nlink fits the resolver's unsigned-int counter *)
Definition nlink_fits (root : tnode) : Prop :=
  forall v, In v (visits_spec always root) ->
            (nlink_in (visits_spec always root) (snd v) <= two32)%N.

Lemma nlink_fits_cnt : forall vis,
  (forall v, In v vis -> (nlink_in vis (snd v) <= two32)%N) ->
  forall i, (N.of_nat (cnt i vis) <= two32)%N.
Proof.
  intros vis H i. destruct (filter (fileP i) vis) as [|u l] eqn:E.
  - unfold cnt. rewrite E. cbn [length]. unfold two32. lia.
  - assert (Hu : In u (filter (fileP i) vis)) by (rewrite E; left; reflexivity).
    apply filter_In in Hu. destruct Hu as [Hu Hp].
    destruct (fileP_inv _ _ Hp) as [a [c Hs]].
    specialize (H u Hu). rewrite Hs, nlink_in_F in H. exact H.
Qed.

Lemma consistent_of : forall root, ino_consistent root = true -> consistent (visits_spec always root).
Proof.
  intros root H p a i c Hin. unfold ino_consistent in H.
  rewrite forallb_forall in H. specialize (H _ Hin). cbn [snd] in H.
  destruct (content_of_ino i (visits_spec always root)); [|discriminate].
  apply bytes_eqb_true. exact H.
Qed.

Theorem capture_restore_tar : forall root,
  wf_root root = true -> nodup_paths root = true -> ino_consistent root = true ->
  nlink_fits root ->
  exists es, capture root = Some es /\ restore es = source_image root /\
             map fst es = map fst (visits_spec always root).
Proof.
  intros root Hwf Hn Hc Hf. eexists. split; [apply capture_walk, Hwf|].
  apply roundtrip.
  - apply nlink_fits_cnt. exact Hf.
  - apply link_ok_paths; [exact Hn|apply consistent_of, Hc].
Qed.

Lemma cnt_le_length : forall i l, cnt i l <= length l.
Proof.
  intros i l. unfold cnt. induction l as [|v l IH]; [apply le_n|].
  cbn [filter length]. destruct (fileP i v); cbn [length]; lia.
Qed.

Lemma nodes_fits : forall root, (N.of_nat (nodes root) <= two32)%N -> nlink_fits root.
Proof.
  intros root H v Hv. destruct (snd v) as [a i c|a cs|a tg|a k]; cbn [nlink_in]; try (unfold two32; lia).
  change (N.of_nat (cnt i (visits_spec always root)) <= two32)%N.
  pose proof (cnt_le_length i (visits_spec always root)) as H1.
  rewrite visits_always_length in H1. lia.
Qed.

Corollary capture_restore_tar_nodes : forall root,
  wf_root root = true -> nodup_paths root = true -> ino_consistent root = true ->
  (N.of_nat (nodes root) <= two32)%N ->
  exists es, capture root = Some es /\ restore es = source_image root /\
             map fst es = map fst (visits_spec always root).
Proof. intros root Hwf Hn Hc Hb. apply capture_restore_tar; auto. apply nodes_fits, Hb. Qed.

(* why nlink_fits is there: the model does not truncate st_nlink, and with 2^32+2 names the
   resolver's mod-2^32 counter reads 1 after the first name, so the group is dropped after the
   second name and the third name is written with a body again *)
Definition wrap_entry (id : Z) (p : bytes) : lentry :=
  mkLentry id 0 7 (two32 + 2) AE_IFREG (Some 0%Z) None p.

Lemma tar_counter_wraps :
  let '(_, outs) := lrun (init_table LINKIFY_LIKE_TAR)
                         [Push (wrap_entry 0 [97%N]); Push (wrap_entry 1 [98%N]); Push (wrap_entry 2 [99%N])] in
  map ehard (outs_entries outs) = [None; Some [97%N]; None].
Proof. vm_compute. reflexivity. Qed.

(* ------------------------------------------------------------------ (3) a concrete tree *)
Definition ex_tree : tnode :=
  D [116%N]
    [ F [97%N] 7%N [1%N; 2%N; 3%N];
      D [100%N]
        [ F [98%N] 7%N [1%N; 2%N; 3%N];
          L [115%N] [97%N];
          D [101%N] [ F [99%N] 7%N [1%N; 2%N; 3%N]; F [122%N] 9%N [] ] ];
      X [112%N] 4096%N;
      F [117%N] 8%N [5%N] ].

Example capture_restore_example :
  wf_root ex_tree = true /\ nodup_paths ex_tree = true /\ ino_consistent ex_tree = true /\
  no_hardlinks ex_tree = false /\
  option_map restore (capture ex_tree) = Some (source_image ex_tree).
Proof. repeat split; vm_compute; reflexivity. Qed.

(* ------------------------------------------------------------------ (4) the strategy matters *)
Theorem capture_oldcpio_loses_links : exists root,
  wf_root root = true /\ nodup_paths root = true /\ ino_consistent root = true /\
  option_map restore (capture_with LINKIFY_LIKE_OLD_CPIO root) <> Some (source_image root).
Proof.
  exists ex_tree. repeat split; try (vm_compute; reflexivity).
  vm_compute. discriminate.
Qed.

Print Assumptions capture_restore_nolinks.
Print Assumptions capture_restore_tar.
Print Assumptions capture_restore_tar_nodes.
Print Assumptions tar_counter_wraps.
Print Assumptions capture_restore_example.
Print Assumptions capture_oldcpio_loses_links.
