(* C19 - lemmas about the safe-writes model of FS/SafeWriteDefs.v. *)
From Coq Require Import List ZArith NArith Bool Arith Lia.
From LA Require Import Base.Val FS.SafeWriteDefs.
Import ListNotations.

(* ------------------------------------------------------------------ contents *)
Lemma ov_length : forall c o b, b <> [] -> length (ov c o b) = Nat.max (length c) (o + length b).
Proof.
  intros c o b Hb. unfold ov. destruct b as [|x b']; [congruence|].
  rewrite !app_length, firstn_length, repeat_length, skipn_length. cbn [length]. lia.
Qed.

Lemma ov_length_le : forall c o b n, length c <= n -> o + length b <= n -> length (ov c o b) <= n.
Proof.
  intros c o b n H1 H2. destruct b as [|x b'] eqn:E; [exact H1|].
  rewrite ov_length by congruence. cbn [length] in *. lia.
Qed.

Lemma resize_length : forall c n, length (resize c n) = n.
Proof. intros. unfold resize. rewrite app_length, firstn_length, repeat_length. lia. Qed.

Lemma resize_id : forall c, resize c (length c) = c.
Proof.
  intros. unfold resize. rewrite firstn_all, Nat.sub_diag. cbn. apply app_nil_r.
Qed.

(* extending by seeking to n-1 and writing one zero byte = ftruncate to n *)
Lemma ov_extend : forall c n, length c < n -> ov c (n - 1) [0%N] = resize c n.
Proof.
  intros c n H. unfold ov, resize.
  rewrite (firstn_all2 c) by lia. rewrite (firstn_all2 c) by lia.
  rewrite (skipn_all2 c) by (cbn [length]; lia). rewrite app_nil_r.
  f_equal. replace (n - length c) with ((n - 1 - length c) + 1) by lia.
  rewrite repeat_app. reflexivity.
Qed.

(* ------------------------------------------------------------------ one system call *)
Section Calls.
Variable p : plan.

Lemma sys_ast : forall m c m' r, sys p m c = (m', r) -> ast m' = ast m.
Proof.
  intros m c m' r H. unfold sys in H.
  destruct (match p (length (steps m)) with Some (FErr e) => _ | _ => _ end) as [f' r'].
  inversion H; subst. reflexivity.
Qed.

Lemma sys_steps : forall m c m' r, sys p m c = (m', r) -> steps m' = mkStep c r (fs m') :: steps m.
Proof.
  intros m c m' r H. unfold sys in H.
  destruct (match p (length (steps m)) with Some (FErr e) => _ | _ => _ end) as [f' r'].
  inversion H; subst. reflexivity.
Qed.

Lemma exec_err_same : forall f c f' e, exec f c = (f', RErr e) -> f' = f.
Proof.
  intros f c f' e H. destruct c; cbn in H;
    repeat match type of H with
           | context [match ?x with _ => _ end] => destruct x
           end; unfold on_fd, on_path in H;
    repeat match type of H with
           | context [match ?x with _ => _ end] => destruct x
           end; inversion H; reflexivity.
Qed.

(* what one call can do to the file system *)
Inductive effect (f : fsT) (c : call) : fsT -> res -> Prop :=
| eff_exec : effect f c (fst (exec f c)) (snd (exec f c))
| eff_fail : forall e, c <> CClose -> effect f c f (RErr e)
| eff_close_fail : forall e, c = CClose -> effect f c (fst (exec f CClose)) (RErr e)
| eff_short : forall b, c = CWrite b ->
    effect f c (fst (exec f (CWrite (firstn (short_len (length b)) b))))
               (snd (exec f (CWrite (firstn (short_len (length b)) b)))).

Lemma sys_effect : forall m c m' r, sys p m c = (m', r) -> effect (fs m) c (fs m') r.
Proof.
  intros m c m' r H. unfold sys in H.
  destruct (p (length (steps m))) as [[e|]|].
  - destruct c; inversion H; subst; cbn [fs];
      try (apply eff_fail; discriminate). apply eff_close_fail; reflexivity.
  - destruct c; try (destruct (exec (fs m) _) eqn:E in H; inversion H; subst; cbn [fs];
      match goal with E : exec ?f ?c = (?a, ?b) |- _ =>
        change a with (fst (a, b)); change b with (snd (a, b)) at 2; rewrite <- E end;
      first [apply eff_exec | eapply eff_short; reflexivity]).
  - destruct (exec (fs m) c) eqn:E. inversion H; subst; cbn [fs].
    change f with (fst (f, r)). change r with (snd (f, r)) at 2. rewrite <- E. apply eff_exec.
Qed.

Lemma sys_errno_only_effect : forall m c m' r, errno_only p -> sys p m c = (m', r) ->
  (fs m' = fst (exec (fs m) c) /\ r = snd (exec (fs m) c)) \/
  (exists e, r = RErr e /\ (c <> CClose /\ fs m' = fs m \/ c = CClose /\ fs m' = fst (exec (fs m) CClose))).
Proof.
  intros m c m' r He H. unfold sys in H.
  destruct (p (length (steps m))) as [[e|]|] eqn:Ep.
  - right. exists e. destruct c; inversion H; subst; cbn [fs]; split; try reflexivity;
      try (left; split; [discriminate|reflexivity]). right. split; reflexivity.
  - exfalso. exact (He _ Ep).
  - left. destruct (exec (fs m) c) eqn:E. inversion H; subst; cbn [fs]. split; reflexivity.
Qed.

Lemma sys_no_faults : forall m c, p = no_faults ->
  sys p m c = (mkM (fst (exec (fs m) c)) (mkStep c (snd (exec (fs m) c)) (fst (exec (fs m) c)) :: steps m) (ast m),
               snd (exec (fs m) c)).
Proof.
  intros m c ->. unfold sys, no_faults. destruct (exec (fs m) c). reflexivity.
Qed.

End Calls.

(* ------------------------------------------------------------------ the invariant *)
Definition uo (l : list step) : bool :=
  forallb (fun s => negb (is_unlink (s_call s) && failed (s_res s))) l.

Lemma forallb_rev : forall A (f : A -> bool) l, forallb f (rev l) = forallb f l.
Proof.
  intros A f l. induction l as [|x l IH]; [reflexivity|].
  cbn [rev forallb]. rewrite forallb_app, IH. cbn. rewrite andb_true_r. apply andb_comm.
Qed.

Lemma unlinks_ok_uo : forall o, unlinks_ok o = uo (steps (o_final o)).
Proof. intros. unfold unlinks_ok, trace, uo. apply forallb_rev. Qed.

Definition safe_call (c : call) : bool :=
  match c with CRename => false | CUnlink Target => false | _ => true end.
Definition quiet (c : call) : bool :=
  match c with
  | COpenExcl _ | CLstat _ | CFchmod _ | CChmod _ _ | CFchown | CLchown _ | CFstat | CFutimens
  | CUtimensat _ | CRmdir _ => true
  | _ => false
  end.

Lemma exec_quiet : forall f c, quiet c = true -> fst (exec f c) = f.
Proof.
  intros f c H. destruct c; try discriminate; cbn; unfold on_fd, on_path;
    repeat match goal with |- context [match ?x with _ => _ end] => destruct x end; reflexivity.
Qed.

Lemma effect_quiet : forall f c f' r, quiet c = true -> effect f c f' r -> f' = f.
Proof.
  intros f c f' r Hq He. inversion He; subst; try reflexivity.
  - apply exec_quiet; assumption.
  - discriminate.
  - discriminate.
Qed.

Section Inv.
Variable v : variant.
Variable cfg : config.
Variable p : plan.

(* the target name still refers to the untouched previous file *)
Definition OldP (f : fsT) : Prop :=
  dir f Target = Some OLD_INO /\ store f OLD_INO = c_old cfg /\
  (forall i pos, ofd f = Some (i, pos) -> i = TMP_INO) /\
  (forall i, dir f Temp = Some i -> i = TMP_INO).

Lemma oldp_target : forall f, OldP f -> target_content f = Some (c_old cfg).
Proof. intros f (H1 & H2 & _). unfold target_content. rewrite H1, H2. reflexivity. Qed.

Lemma exec_oldp : forall f c, OldP f -> safe_call c = true -> OldP (fst (exec f c)).
Proof.
  intros f c (H1 & H2 & H3 & H4) Hs.
  assert (Hold : OldP f) by (repeat split; assumption).
  destruct c; try discriminate; cbn; unfold on_fd, on_path.
  - destruct (dir f n) in |- *; exact Hold.
  - destruct (dir f n) in |- *; exact Hold.
  - (* mkstemp *) repeat split; cbn; try assumption.
    + intros i pos E; inversion E; reflexivity.
    + intros i E; inversion E; reflexivity.
  - destruct (ofd f) in |- *; exact Hold.
  - destruct (dir f n) in |- *; exact Hold.
  - destruct (ofd f) in |- *; exact Hold.
  - destruct (dir f n) in |- *; exact Hold.
  - destruct (ofd f) as [[i pos]|] in |- *; exact Hold.
  - (* lseek *) destruct (ofd f) as [[i pos]|] eqn:E in |- *; cbn; [|exact Hold].
    repeat split; cbn; try assumption.
    intros i' pos' E'; inversion E'; subst. eapply H3; exact E.
  - (* write *) destruct (ofd f) as [[i pos]|] eqn:E in |- *; cbn; [|exact Hold].
    assert (i = TMP_INO) by (eapply H3; exact E). subst i.
    repeat split; cbn; try assumption.
    intros i' pos' E'; inversion E'; reflexivity.
  - (* ftruncate *) destruct (ofd f) as [[i pos]|] eqn:E in |- *; cbn; [|exact Hold].
    assert (i = TMP_INO) by (eapply H3; exact E). subst i.
    repeat split; cbn; try assumption.
    intros i' pos' E'; inversion E'; reflexivity.
  - destruct (ofd f) in |- *; exact Hold.
  - destruct (dir f n) in |- *; exact Hold.
  - (* close *) repeat split; cbn; try assumption. intros; discriminate.
  - (* unlink Temp *) destruct n; [discriminate|].
    destruct (dir f Temp) eqn:E in |- *; cbn; [|exact Hold]. repeat split; cbn; try assumption.
    intros; discriminate.
  - destruct (dir f n) in |- *; exact Hold.
Qed.

Lemma effect_oldp : forall f c f' r, OldP f -> safe_call c = true -> effect f c f' r -> OldP f'.
Proof.
  intros f c f' r Ho Hs He. inversion He; subst.
  - apply exec_oldp; assumption.
  - assumption.
  - apply exec_oldp; [assumption|reflexivity].
  - apply exec_oldp; [assumption|reflexivity].
Qed.

(* strong = true: between the calls of the data phase (descriptor position and length bound known) *)
Record Inv (strong : bool) (m : mstate) : Prop := mkInv {
  inv_hist : Forall OldP (fs m :: map s_fs (steps m));
  inv_open : a_fd (ast m) = true ->
     a_tmp (ast m) = true /\ dir (fs m) Temp = Some TMP_INO /\
     exists pos, ofd (fs m) = Some (TMP_INO, pos) /\
       (strong = true -> pos = a_fdoff (ast m) /\
          forall fz, c_size cfg = Some fz -> length (store (fs m) TMP_INO) <= fz);
  inv_data : a_data (ast m) = false -> a_fd (ast m) = false;
  inv_temp : fix_mktemp v = true -> fix_finish v = true -> uo (steps m) = true ->
     temp_left (fs m) = true -> a_fd (ast m) = true
}.

Definition core_eq (a a' : astate) : Prop :=
  a_fd a = a_fd a' /\ a_tmp a = a_tmp a' /\ a_fdoff a = a_fdoff a' /\ a_data a = a_data a'.

Lemma inv_with_a : forall s m a', Inv s m -> core_eq (ast m) a' -> Inv s (with_a m a').
Proof.
  intros s m a' [H1 H2 H3 H4] (E1 & E2 & E3 & E4). constructor; cbn [with_a fs steps ast].
  - exact H1.
  - rewrite <- E1, <- E2, <- E3. exact H2.
  - rewrite <- E1, <- E4. exact H3.
  - rewrite <- E1. exact H4.
Qed.

Lemma inv_weaken : forall m, Inv true m -> Inv false m.
Proof.
  intros m [H1 H2 H3 H4]. constructor; try assumption.
  intros Hf. destruct (H2 Hf) as (A & B & pos & C & _). repeat split; try assumption.
  exists pos. split; [assumption|discriminate].
Qed.

Lemma uo_cons : forall s l, uo (s :: l) = true -> uo l = true.
Proof. intros s l H. cbn in H. apply andb_true_iff in H. tauto. Qed.

Lemma inv_quiet_sys : forall s m c m' r, Inv s m -> quiet c = true -> sys p m c = (m', r) ->
  Inv s m' /\ fs m' = fs m /\ ast m' = ast m.
Proof.
  intros s m c m' r [H1 H2 H3 H4] Hq E.
  pose proof (sys_ast _ _ _ _ _ E) as Ea. pose proof (sys_steps _ _ _ _ _ E) as Es.
  pose proof (effect_quiet _ _ _ _ Hq (sys_effect _ _ _ _ _ E)) as Ef.
  split; [|split; assumption].
  constructor; rewrite ?Ea, ?Ef, ?Es.
  - cbn [map s_fs]. rewrite Ef. constructor; [inversion H1; assumption|exact H1].
  - exact H2.
  - exact H3.
  - intros F1 F2 U. apply H4; try assumption. exact (uo_cons _ _ U).
Qed.

(* ---- what the calls that change the file system do *)
Lemma effect_close : forall f f' r, effect f CClose f' r -> f' = mkFs (dir f) (store f) None.
Proof. intros f f' r H. inversion H; subst; try reflexivity; try congruence; discriminate. Qed.

Lemma effect_unlink_temp : forall f f' r, effect f (CUnlink Temp) f' r ->
  (failed r = false /\ f' = mkFs (dir_set (dir f) Temp None) (store f) (ofd f)) \/ (failed r = true /\ f' = f).
Proof.
  intros f f' r H. inversion H; subst; try discriminate.
  - cbn. destruct (dir f Temp); cbn; [left|right]; split; reflexivity.
  - right. split; reflexivity.
Qed.

Lemma effect_mkstemp : forall f f' r, effect f CMkstemp f' r ->
  (r = ROk 0 /\ f' = mkFs (dir_set (dir f) Temp (Some TMP_INO)) (st_set (store f) TMP_INO []) (Some (TMP_INO, 0))) \/
  (exists e, r = RErr e /\ f' = f).
Proof.
  intros f f' r H. inversion H; subst; try discriminate.
  - left. split; reflexivity.
  - right. eexists; split; reflexivity.
Qed.

Lemma effect_lseek : forall f i pos o f' r, ofd f = Some (i, pos) -> effect f (CLseek o) f' r ->
  (r = ROk o /\ f' = mkFs (dir f) (store f) (Some (i, o))) \/ (exists e, r = RErr e /\ f' = f).
Proof.
  intros f i pos o f' r E H. inversion H; subst; try discriminate.
  - cbn. rewrite E. left. split; reflexivity.
  - right. eexists; split; reflexivity.
Qed.

Lemma effect_write : forall f i pos b f' r, ofd f = Some (i, pos) -> effect f (CWrite b) f' r ->
  (exists b', (b' = b \/ b' = firstn (short_len (length b)) b) /\ r = ROk (length b') /\
              f' = mkFs (dir f) (st_set (store f) i (ov (store f i) pos b')) (Some (i, pos + length b'))) \/
  (exists e, r = RErr e /\ f' = f).
Proof.
  intros f i pos b f' r E H. inversion H; subst; try discriminate.
  - cbn. rewrite E. left. exists b. split; [left; reflexivity|split; reflexivity].
  - right. eexists; split; reflexivity.
  - match goal with H0 : CWrite b = CWrite ?b0 |- _ => inversion H0; subst end.
    cbn. rewrite E. left. eexists. split; [right; reflexivity|split; reflexivity].
Qed.

Lemma effect_ftruncate : forall f i pos n f' r, ofd f = Some (i, pos) -> effect f (CFtruncate n) f' r ->
  (r = ROk 0 /\ f' = mkFs (dir f) (st_set (store f) i (resize (store f i) n)) (Some (i, pos))) \/
  (exists e, r = RErr e /\ f' = f).
Proof.
  intros f i pos n f' r E H. inversion H; subst; try discriminate.
  - cbn. rewrite E. left. split; reflexivity.
  - right. eexists; split; reflexivity.
Qed.

Lemma effect_rename : forall f i f' r, dir f Temp = Some i -> effect f CRename f' r ->
  (r = ROk 0 /\ f' = mkFs (dir_set (dir_set (dir f) Target (Some i)) Temp None) (store f) (ofd f)) \/
  (exists e, r = RErr e /\ f' = f).
Proof.
  intros f i f' r E H. inversion H; subst; try discriminate.
  - cbn. rewrite E. left. split; reflexivity.
  - right. eexists; split; reflexivity.
Qed.

Lemma effect_fstat : forall f i pos f' r, ofd f = Some (i, pos) -> effect f CFstat f' r ->
  f' = f /\ (r = ROk (length (store f i)) \/ exists e, r = RErr e).
Proof.
  intros f i pos f' r E H. inversion H; subst; try discriminate.
  - cbn. rewrite E. split; [reflexivity|left; reflexivity].
  - split; [reflexivity|right; eexists; reflexivity].
Qed.

Lemma effect_lstat : forall f n i f' r, dir f n = Some i -> effect f (CLstat n) f' r ->
  f' = f /\ (r = ROk (length (store f i)) \/ exists e, r = RErr e).
Proof.
  intros f n i f' r E H. inversion H; subst; try discriminate.
  - cbn. rewrite E. split; [reflexivity|left; reflexivity].
  - split; [reflexivity|right; eexists; reflexivity].
Qed.

(* rebuild the invariant after a call that does not move the target name *)
Lemma inv_sys_build : forall s s' m c m' r, Inv s m -> safe_call c = true -> sys p m c = (m', r) ->
  (a_fd (ast m) = true ->
     a_tmp (ast m) = true /\ dir (fs m') Temp = Some TMP_INO /\
     exists pos, ofd (fs m') = Some (TMP_INO, pos) /\
       (s' = true -> pos = a_fdoff (ast m) /\
          forall fz, c_size cfg = Some fz -> length (store (fs m') TMP_INO) <= fz)) ->
  (fix_mktemp v = true -> fix_finish v = true -> uo (steps m') = true ->
     temp_left (fs m') = true -> a_fd (ast m) = true) ->
  Inv s' m'.
Proof.
  intros s s' m c m' r [H1 H2 H3 H4] Hs E Ho Ht.
  pose proof (sys_ast _ _ _ _ _ E) as Ea. pose proof (sys_steps _ _ _ _ _ E) as Es.
  pose proof (sys_effect _ _ _ _ _ E) as Ef.
  assert (Hold : OldP (fs m')) by (eapply effect_oldp; [inversion H1; eassumption|exact Hs|exact Ef]).
  constructor; rewrite ?Ea.
  - rewrite Es. cbn [map s_fs]. constructor; [exact Hold|]. constructor; [exact Hold|].
    inversion H1; assumption.
  - exact Ho.
  - exact H3.
  - exact Ht.
Qed.

End Inv.

(* ------------------------------------------------------------------ the functions keep the invariant *)
Section Funs.
Variable v : variant.
Variable cfg : config.
Variable p : plan.

Notation Inv := (Inv v cfg).
Notation OldP := (OldP cfg).
Definition Hist (m : mstate) : Prop := Forall OldP (fs m :: map s_fs (steps m)).

Lemma hist_sys : forall m c m' r, Hist m -> safe_call c = true -> sys p m c = (m', r) -> Hist m'.
Proof.
  intros m c m' r H Hs E. unfold Hist in *.
  pose proof (sys_steps _ _ _ _ _ E) as Es. pose proof (sys_effect _ _ _ _ _ E) as Ef.
  assert (Hold : OldP (fs m')) by (eapply effect_oldp; [inversion H; eassumption|exact Hs|exact Ef]).
  rewrite Es. cbn [map s_fs]. constructor; [exact Hold|]. constructor; [exact Hold|].
  inversion H; assumption.
Qed.

Lemma inv_any_false : forall s m, Inv s m -> Inv false m.
Proof. intros [|] m H; [apply inv_weaken; exact H|exact H]. Qed.

Lemma inv_with_a_closed : forall s s' m a', Inv s m -> a_fd (ast m) = false -> a_fd a' = false ->
  Inv s' (with_a m a').
Proof.
  intros s s' m a' [H1 H2 H3 H4] F1 F2. constructor; cbn [with_a fs steps ast].
  - exact H1.
  - rewrite F2. discriminate.
  - intros _. exact F2.
  - intros A B C D. rewrite F2. rewrite <- F1. apply H4; assumption.
Qed.

Lemma init_inv : Inv false (init_m cfg).
Proof.
  constructor; cbn.
  - constructor; [|constructor]. repeat split; cbn; try reflexivity; intros; discriminate.
  - discriminate.
  - reflexivity.
  - intros; discriminate.
Qed.

(* close_file_descriptor *)
Lemma close_fd_inv : forall s m, Inv s m ->
  Inv false (close_fd v p m) /\ a_fd (ast (close_fd v p m)) = false /\
  a_data (ast (close_fd v p m)) = a_data (ast m).
Proof.
  intros s m HI. unfold close_fd.
  destruct (a_fd (ast m)) eqn:Hfd.
  - destruct (sys p m CClose) as [m1 r1] eqn:E1.
    pose proof (sys_ast _ _ _ _ _ E1) as Ea1. pose proof (sys_steps _ _ _ _ _ E1) as Es1.
    pose proof (effect_close _ _ _ (sys_effect _ _ _ _ _ E1)) as Ef1.
    pose proof (hist_sys _ CClose _ _ (inv_hist _ _ _ _ HI) eq_refl E1) as Hh1.
    destruct (inv_open _ _ _ _ HI Hfd) as (Htmp & Hdir & _).
    cbn [with_a ast]. rewrite Ea1. cbn [set_fd a_tmp a_fd a_data]. rewrite Htmp.
    destruct (fix_finish v) eqn:Hff.
    + destruct (sys p _ (CUnlink Temp)) as [m2 r2] eqn:E2.
      pose proof (sys_ast _ _ _ _ _ E2) as Ea2. pose proof (sys_steps _ _ _ _ _ E2) as Es2.
      pose proof (effect_unlink_temp _ _ _ (sys_effect _ _ _ _ _ E2)) as Ef2.
      assert (Hh2 : Hist m2) by (eapply hist_sys; [| |exact E2]; [exact Hh1|reflexivity]).
      cbn [with_a ast fs steps] in *. rewrite Ea2. cbn.
      split; [|split; reflexivity].
      constructor; cbn [with_a ast fs steps set_tmp a_fd a_data].
      * exact Hh2.
      * discriminate.
      * reflexivity.
      * intros _ _ U T. exfalso. rewrite Es2 in U. cbn in U.
        destruct Ef2 as [(Hr & Hf)|(Hr & Hf)].
        -- rewrite Hf in T. cbn in T. discriminate.
        -- rewrite Hr in U. discriminate.
    + split; [|split; reflexivity].
      constructor; cbn [with_a ast fs steps set_fd a_fd a_data].
      * exact Hh1.
      * discriminate.
      * reflexivity.
      * intros _ F. rewrite Hff in F. discriminate.
  - destruct (fix_finish v && a_tmp (ast m))%bool eqn:Hc.
    + apply andb_true_iff in Hc. destruct Hc as [Hff Htmp]. rewrite Hff, Htmp.
      destruct (sys p m (CUnlink Temp)) as [m2 r2] eqn:E2.
      pose proof (sys_ast _ _ _ _ _ E2) as Ea2. pose proof (sys_steps _ _ _ _ _ E2) as Es2.
      pose proof (effect_unlink_temp _ _ _ (sys_effect _ _ _ _ _ E2)) as Ef2.
      pose proof (hist_sys _ (CUnlink Temp) _ _ (inv_hist _ _ _ _ HI) eq_refl E2) as Hh2.
      cbn [with_a ast]. rewrite Ea2. cbn [set_tmp a_fd a_data]. rewrite Hfd.
      split; [|split; reflexivity].
      constructor; cbn [with_a ast fs steps set_tmp a_fd a_data]; rewrite ?Hfd.
      * exact Hh2.
      * discriminate.
      * reflexivity.
      * intros _ _ U T. exfalso. rewrite Es2 in U. cbn in U.
        destruct Ef2 as [(Hr & Hf)|(Hr & Hf)].
        -- rewrite Hf in T. cbn in T. discriminate.
        -- rewrite Hr in U. discriminate.
    + assert (E : (if fix_finish v then if a_tmp (ast m) then
                     let '(m0, _) := sys p m (CUnlink Temp) in with_a m0 (set_tmp (ast m0) false) else m else m) = m).
      { destruct (fix_finish v); [|reflexivity]. destruct (a_tmp (ast m)); [discriminate|reflexivity]. }
      rewrite E. split; [eapply inv_any_false; exact HI|split; [exact Hfd|reflexivity]].
Qed.

Lemma create_object_inv : forall s m m' en, Inv s m -> a_fd (ast m) = false ->
  create_object p m = (m', en) ->
  Inv s m' /\ fs m' = fs m /\ ast m' = set_tmp (ast m) false.
Proof.
  intros s m m' en HI Hfd E. unfold create_object in E.
  destruct (sys p _ (COpenExcl Target)) as [m1 r1] eqn:E1.
  assert (HI0 : Inv s (with_a m (set_tmp (ast m) false))).
  { eapply inv_with_a_closed; [exact HI|exact Hfd|exact Hfd]. }
  destruct (inv_quiet_sys _ _ _ _ _ (COpenExcl Target) _ _ HI0 eq_refl E1) as (A & B & C).
  destruct r1; inversion E; subst; (split; [exact A|split; [exact B|exact C]]).
Qed.

Lemma la_mktemp_spec : forall m m' ok, Hist m -> a_fd (ast m) = false -> dir (fs m) Temp = None ->
  la_mktemp v cfg p m = (m', ok) ->
  Hist m' /\ a_data (ast m') = a_data (ast m) /\ a_fdoff (ast m') = a_fdoff (ast m) /\
  a_off (ast m') = a_off (ast m) /\ a_wfail (ast m') = a_wfail (ast m) /\ a_fd (ast m') = ok /\
  (ok = true -> a_tmp (ast m') = true /\ dir (fs m') Temp = Some TMP_INO /\
                ofd (fs m') = Some (TMP_INO, 0) /\ store (fs m') TMP_INO = []) /\
  (ok = false -> fix_mktemp v = true -> uo (steps m') = true -> temp_left (fs m') = false).
Proof.
  intros m m' ok Hh Hfd Hnt E. unfold la_mktemp in E.
  destruct (sys p _ CMkstemp) as [m1 r1] eqn:E1.
  pose proof (sys_ast _ _ _ _ _ E1) as Ea1. pose proof (sys_steps _ _ _ _ _ E1) as Es1.
  pose proof (effect_mkstemp _ _ _ (sys_effect _ _ _ _ _ E1)) as Ef1.
  assert (Hh1 : Hist m1) by (eapply hist_sys; [| |exact E1]; [exact Hh|reflexivity]).
  cbn [with_a ast fs steps] in *.
  destruct Ef1 as [(Hr1 & Hf1)|(e1 & Hr1 & Hf1)]; subst r1.
  - destruct (sys p m1 (CFchmod _)) as [m2 r2] eqn:E2.
    pose proof (sys_ast _ _ _ _ _ E2) as Ea2. pose proof (sys_steps _ _ _ _ _ E2) as Es2.
    pose proof (effect_quiet _ _ _ _ (eq_refl : quiet (CFchmod _) = true) (sys_effect _ _ _ _ _ E2)) as Ef2.
    assert (Hh2 : Hist m2) by (eapply hist_sys; [| |exact E2]; [exact Hh1|reflexivity]).
    destruct r2 as [x2|e2].
    + inversion E; subst m' ok. cbn [with_a ast fs steps set_fd a_data a_fdoff a_off a_wfail a_fd a_tmp].
      rewrite Ea2, Ea1. cbn. rewrite Ef2, Hf1. cbn.
      repeat split; try reflexivity; try exact Hh2; intros; discriminate.
    + destruct (sys p m2 CClose) as [m3 r3] eqn:E3.
      pose proof (sys_ast _ _ _ _ _ E3) as Ea3. pose proof (sys_steps _ _ _ _ _ E3) as Es3.
      pose proof (effect_close _ _ _ (sys_effect _ _ _ _ _ E3)) as Ef3.
      assert (Hh3 : Hist m3) by (eapply hist_sys; [| |exact E3]; [exact Hh2|reflexivity]).
      destruct (fix_mktemp v) eqn:Hfm.
      * destruct (sys p m3 (CUnlink Temp)) as [m4 r4] eqn:E4.
        pose proof (sys_ast _ _ _ _ _ E4) as Ea4. pose proof (sys_steps _ _ _ _ _ E4) as Es4.
        pose proof (effect_unlink_temp _ _ _ (sys_effect _ _ _ _ _ E4)) as Ef4.
        assert (Hh4 : Hist m4) by (eapply hist_sys; [| |exact E4]; [exact Hh3|reflexivity]).
        inversion E; subst m' ok. cbn [with_a ast fs steps set_tmp a_data a_fdoff a_off a_wfail a_fd a_tmp].
        rewrite Ea4, Ea3, Ea2, Ea1. cbn.
        repeat split; try reflexivity; try exact Hh4; try exact Hfd; try (intros; discriminate).
        intros _ _ U. rewrite Es4 in U. cbn in U.
        destruct Ef4 as [(Hr & Hf)|(Hr & Hf)].
        -- rewrite Hf. reflexivity.
        -- rewrite Hr in U. discriminate.
      * inversion E; subst m' ok. rewrite Ea3, Ea2, Ea1. cbn.
        repeat split; try reflexivity; try exact Hh3; try exact Hfd; intros; discriminate.
  - assert (Hm1 : a_fd (ast m1) = false) by (rewrite Ea1; exact Hfd).
    assert (Htl : temp_left (fs m1) = false) by (rewrite Hf1; unfold temp_left; rewrite Hnt; reflexivity).
    destruct (fix_mktemp v); inversion E; subst m' ok; cbn [with_a ast fs steps set_tmp a_data a_fdoff a_off a_wfail a_fd a_tmp];
      rewrite ?Ea1; cbn; repeat split; try reflexivity; try exact Hh1; try exact Hfd; try (intros; discriminate);
      intros; exact Htl.
Qed.

Lemma header_inv : forall m' h, header v cfg p (init_m cfg) = (m', h) ->
  Inv true m' /\
  (h = ARCHIVE_OK /\ a_fd (ast m') = true /\ a_data (ast m') = true /\ a_wfail (ast m') = false \/
   h = ARCHIVE_FAILED /\ a_fd (ast m') = false /\ a_data (ast m') = false).
Proof.
  intros m' h E. unfold header in E.
  destruct (create_object p (init_m cfg)) as [m1 en1] eqn:E1.
  destruct (create_object_inv _ _ _ _ init_inv eq_refl E1) as (I1 & F1 & A1).
  assert (exists m2 en2, (if (Nat.eqb en1 ENOTDIR || Nat.eqb en1 ENOENT)%bool then create_object p m1 else (m1, en1)) = (m2, en2) /\
          Inv false m2 /\ fs m2 = fs (init_m cfg) /\ ast m2 = set_tmp (ast (init_m cfg)) false) as (m2 & en2 & E2 & I2 & F2 & A2).
  { destruct (Nat.eqb en1 ENOTDIR || Nat.eqb en1 ENOENT)%bool.
    - destruct (create_object p m1) as [m2 en2] eqn:E2. exists m2, en2. split; [reflexivity|].
      assert (Hfd1 : a_fd (ast m1) = false) by (rewrite A1; reflexivity).
      destruct (create_object_inv _ _ _ _ I1 Hfd1 E2) as (I2 & F2 & A2).
      split; [exact I2|split; [congruence|rewrite A2, A1; reflexivity]].
    - exists m1, en1. split; [reflexivity|split; [exact I1|split; [exact F1|exact A1]]]. }
  rewrite E2 in E. clear E1 E2 I1 F1 A1 m1 en1.
  assert (Hfd2 : a_fd (ast m2) = false) by (rewrite A2; reflexivity).
  assert (Hd2 : a_data (ast m2) = false) by (rewrite A2; reflexivity).
  destruct (Nat.eqb en2 EISDIR).
  { destruct (sys p m2 (CRmdir Target)) as [m3 r3] eqn:E3.
    destruct (inv_quiet_sys _ _ _ _ _ (CRmdir Target) _ _ I2 eq_refl E3) as (I3 & F3 & A3).
    inversion E; subst m' h. split.
    - constructor; try apply I3. rewrite A3, Hfd2. discriminate.
    - right. rewrite A3. repeat split; assumption. }
  destruct (Nat.eqb en2 EEXIST).
  2:{ inversion E; subst m' h. split.
      - constructor; try apply I2. rewrite Hfd2. discriminate.
      - right. repeat split; assumption. }
  destruct (sys p m2 (CLstat Target)) as [m3 r3] eqn:E3.
  destruct (inv_quiet_sys _ _ _ _ _ (CLstat Target) _ _ I2 eq_refl E3) as (I3 & F3 & A3).
  destruct r3 as [x3|e3].
  2:{ inversion E; subst m' h. split.
      - constructor; try apply I3. rewrite A3, Hfd2. discriminate.
      - right. rewrite A3. repeat split; assumption. }
  destruct (la_mktemp v cfg p m3) as [m4 ok] eqn:E4.
  assert (Hfd3 : a_fd (ast m3) = false) by (rewrite A3; exact Hfd2).
  assert (Hnt3 : dir (fs m3) Temp = None) by (rewrite F3, F2; reflexivity).
  destruct (la_mktemp_spec _ _ _ (inv_hist _ _ _ _ I3) Hfd3 Hnt3 E4) as (H4 & D4 & O4 & Of4 & W4 & Fd4 & Ok4 & No4).
  destruct ok.
  - inversion E; subst m' h. destruct (Ok4 eq_refl) as (T4 & Dir4 & Ofd4 & St4).
    split.
    + constructor; cbn [with_a ast fs steps set_data set_pst a_fd a_tmp a_fdoff a_data].
      * exact H4.
      * intros _. repeat split; try assumption. exists 0. split; [exact Ofd4|].
        intros _. split; [rewrite O4, A3, A2; reflexivity|]. intros fz _. rewrite St4. cbn. lia.
      * discriminate.
      * intros; exact Fd4.
    + left. cbn. rewrite Fd4, W4, A3, A2. repeat split; reflexivity.
  - inversion E; subst m' h. split.
    + constructor.
      * exact H4.
      * rewrite Fd4. discriminate.
      * intros; exact Fd4.
      * intros Fm _ U T. rewrite (No4 eq_refl Fm U) in T. discriminate.
    + right. rewrite D4, A3. repeat split; assumption.
Qed.

(* ---- data phase: the temporary file is open *)
Record DP (m : mstate) : Prop := mkDP {
  dp_hist : Hist m;
  dp_fd : a_fd (ast m) = true;
  dp_data : a_data (ast m) = true;
  dp_tmp : a_tmp (ast m) = true;
  dp_dir : dir (fs m) Temp = Some TMP_INO;
  dp_ofd : ofd (fs m) = Some (TMP_INO, a_fdoff (ast m));
  dp_len : forall fz, c_size cfg = Some fz -> length (store (fs m) TMP_INO) <= fz
}.

Lemma dp_inv : forall m, DP m -> Inv true m.
Proof.
  intros m [H1 H2 H3 H4 H5 H6 H7]. constructor.
  - exact H1.
  - intros _. split; [exact H4|split; [exact H5|]]. eexists. split; [exact H6|].
    intros _. split; [reflexivity|exact H7].
  - rewrite H3. discriminate.
  - intros; exact H2.
Qed.

Lemma inv_dp : forall m, Inv true m -> a_fd (ast m) = true -> DP m.
Proof.
  intros m HI Hfd. destruct (inv_open _ _ _ _ HI Hfd) as (A & B & pos & C & D).
  destruct (D eq_refl) as (D1 & D2). subst pos.
  constructor; try assumption.
  - exact (inv_hist _ _ _ _ HI).
  - destruct (a_data (ast m)) eqn:E; [reflexivity|]. rewrite (inv_data _ _ _ _ HI E) in Hfd. discriminate.
Qed.

Lemma dp_with_a : forall m a', DP m -> a_fd a' = a_fd (ast m) -> a_tmp a' = a_tmp (ast m) ->
  a_data a' = a_data (ast m) -> a_fdoff a' = a_fdoff (ast m) -> DP (with_a m a').
Proof.
  intros m a' [H1 H2 H3 H4 H5 H6 H7] E1 E2 E3 E4.
  constructor; cbn [with_a fs steps ast]; try congruence; assumption.
Qed.

Lemma dp_quiet : forall m c m' r, DP m -> quiet c = true -> sys p m c = (m', r) ->
  DP m' /\ fs m' = fs m /\ ast m' = ast m.
Proof.
  intros m c m' r D Hq E.
  pose proof (sys_ast _ _ _ _ _ E) as Ea.
  pose proof (effect_quiet _ _ _ _ Hq (sys_effect _ _ _ _ _ E)) as Ef.
  assert (Hs : safe_call c = true) by (destruct c; try discriminate; reflexivity).
  pose proof (hist_sys _ _ _ _ (dp_hist _ D) Hs E) as Hh.
  destruct D as [H1 H2 H3 H4 H5 H6 H7].
  split; [|split; assumption]. constructor; rewrite ?Ea, ?Ef; assumption.
Qed.

Lemma dp_lseek : forall m o m' r, DP m -> sys p m (CLseek o) = (m', r) ->
  ast m' = ast m /\
  ((r = ROk o /\ forall a', a_fd a' = true -> a_tmp a' = true -> a_data a' = true -> a_fdoff a' = o ->
                           DP (with_a m' a')) \/
   ((exists e, r = RErr e) /\ DP m' /\ fs m' = fs m)).
Proof.
  intros m o m' r D E.
  pose proof (sys_ast _ _ _ _ _ E) as Ea.
  pose proof (effect_lseek _ _ _ _ _ _ (dp_ofd _ D) (sys_effect _ _ _ _ _ E)) as Ef.
  pose proof (hist_sys _ (CLseek o) _ _ (dp_hist _ D) eq_refl E) as Hh.
  destruct D as [H1 H2 H3 H4 H5 H6 H7].
  split; [exact Ea|]. destruct Ef as [(Hr & Hf)|(e & Hr & Hf)].
  - left. split; [exact Hr|]. intros a' A1 A2 A3 A4.
    constructor; cbn [with_a fs steps ast]; rewrite ?Hf; cbn; try assumption. rewrite A4. reflexivity.
  - right. split; [eexists; exact Hr|]. split; [|exact Hf].
    constructor; rewrite ?Ea, ?Hf; assumption.
Qed.

Lemma short_len_le : forall n, short_len n <= n.
Proof.
  intros n. unfold short_len. destruct (Nat.leb n 1); [lia|].
  rewrite Nat.div2_div. apply Nat.div_le_upper_bound; lia.
Qed.

Lemma dp_write : forall m b m' r, DP m ->
  (forall fz, c_size cfg = Some fz -> a_fdoff (ast m) + length b <= fz) ->
  sys p m (CWrite b) = (m', r) ->
  ast m' = ast m /\
  ((exists w, r = ROk w /\ w <= length b /\
      forall a', a_fd a' = true -> a_tmp a' = true -> a_data a' = true -> a_fdoff a' = a_fdoff (ast m) + w ->
                 DP (with_a m' a')) \/
   ((exists e, r = RErr e) /\ DP m' /\ fs m' = fs m)).
Proof.
  intros m b m' r D Hb E.
  pose proof (sys_ast _ _ _ _ _ E) as Ea.
  pose proof (effect_write _ _ _ _ _ _ (dp_ofd _ D) (sys_effect _ _ _ _ _ E)) as Ef.
  pose proof (hist_sys _ (CWrite b) _ _ (dp_hist _ D) eq_refl E) as Hh.
  destruct D as [H1 H2 H3 H4 H5 H6 H7].
  split; [exact Ea|]. destruct Ef as [(b' & Hb' & Hr & Hf)|(e & Hr & Hf)].
  - left. exists (length b').
    assert (Hle : length b' <= length b).
    { destruct Hb' as [->| ->]; [lia|]. rewrite firstn_length. lia. }
    split; [exact Hr|]. split; [exact Hle|]. intros a' A1 A2 A3 A4.
    constructor; cbn [with_a fs steps ast]; rewrite ?Hf; cbn; try assumption.
    + rewrite A4. reflexivity.
    + intros fz Hfz.
      apply ov_length_le; [apply H7; exact Hfz|]. specialize (Hb fz Hfz). lia.
  - right. split; [eexists; exact Hr|]. split; [|exact Hf].
    constructor; rewrite ?Ea, ?Hf; assumption.
Qed.

Lemma drop_zeros_length : forall b k r, drop_zeros b = (k, r) -> k + length r = length b.
Proof.
  induction b as [|x b IH]; intros k r E; cbn in E.
  - inversion E; reflexivity.
  - destruct x.
    + destruct (drop_zeros b) as [k' r'] eqn:E'. inversion E; subst. cbn. rewrite (IH _ _ eq_refl). reflexivity.
    + inversion E; subst. reflexivity.
Qed.

Lemma dp_mark_wfail : forall m, DP m -> DP (mark_wfail v m).
Proof.
  intros m D. unfold mark_wfail. destruct (fix_write v); [|exact D].
  apply dp_with_a; [exact D|reflexivity..].
Qed.

Lemma wloop_dp : forall fuel bs m buf m' r, DP m ->
  (forall fz, c_size cfg = Some fz -> a_off (ast m) + length buf <= fz) ->
  wloop v p fuel bs m buf = (m', r) -> DP m'.
Proof.
  induction fuel as [|fuel IH]; intros bs m buf m' r D Hb E.
  - destruct buf; cbn in E; inversion E; subst; exact D.
  - destruct buf as [|x buf0]; [cbn in E; inversion E; subst; exact D|].
    cbn [wloop] in E. remember (x :: buf0) as buf eqn:Hbuf in *.
    match type of E with (match ?t with _ => _ end) = _ => destruct t as [k buf1] eqn:Ek end.
    assert (Hk : k + length buf1 = length buf).
    { destruct (Nat.eqb bs 0); [inversion Ek; reflexivity|apply drop_zeros_length; exact Ek]. }
    set (m0 := with_a m (set_off (ast m) (a_off (ast m) + k))) in *.
    assert (D0 : DP m0) by (apply dp_with_a; [exact D|reflexivity..]).
    destruct buf1 as [|y buf2]; [inversion E; subst; exact D0|].
    remember (y :: buf2) as buf1 eqn:Hbuf1 in *.
    set (n := if Nat.eqb bs 0 then length buf1
              else Nat.min (length buf1) ((a_off (ast m0) / bs + 1) * bs - a_off (ast m0))) in *.
    assert (Hn : n <= length buf1) by (subst n; destruct (Nat.eqb bs 0); lia).
    (* seek *)
    assert (Hseek : forall ms ok,
      (if Nat.eqb (a_off (ast m0)) (a_fdoff (ast m0)) then (m0, true)
       else let '(m1, r1) := sys p m0 (CLseek (a_off (ast m0))) in
            match r1 with
            | RErr _ => (m1, false)
            | ROk _ => (with_a m1 (set_fdoff (ast m1) (a_off (ast m1))), true)
            end) = (ms, ok) ->
      DP ms /\ a_off (ast ms) = a_off (ast m0) /\ (ok = true -> a_fdoff (ast ms) = a_off (ast m0))).
    { intros ms ok Es. destruct (Nat.eqb (a_off (ast m0)) (a_fdoff (ast m0))) eqn:Eq.
      - inversion Es; subst. apply Nat.eqb_eq in Eq. split; [exact D0|split; [reflexivity|intros _; congruence]].
      - destruct (sys p m0 (CLseek _)) as [m1 r1] eqn:E1.
        destruct (dp_lseek _ _ _ _ D0 E1) as (Ea & [(Hr & Hd)|((e & Hr) & Hd & _)]); subst r1; inversion Es; subst.
        + split; [|split; [cbn; rewrite Ea; reflexivity|intros _; cbn; rewrite Ea; reflexivity]].
          apply Hd; cbn; rewrite ?Ea; try reflexivity; apply D0.
        + split; [exact Hd|split; [rewrite Ea; reflexivity|discriminate]]. }
    destruct (if Nat.eqb (a_off (ast m0)) (a_fdoff (ast m0)) then (m0, true) else _) as [ms ok] eqn:Es.
    destruct (Hseek _ _ eq_refl) as (Ds & Hos & Hfs).
    destruct ok; cbn [negb] in E.
    2:{ inversion E; subst. apply dp_mark_wfail; exact Ds. }
    specialize (Hfs eq_refl).
    destruct (sys p ms (CWrite (firstn n buf1))) as [m2 r2] eqn:E2.
    assert (Hw : forall fz, c_size cfg = Some fz -> a_fdoff (ast ms) + length (firstn n buf1) <= fz).
    { intros fz Hfz. specialize (Hb fz Hfz). rewrite firstn_length, Hfs. subst m0. cbn. lia. }
    destruct (dp_write _ _ _ _ Ds Hw E2) as (Ea2 & [(w & Hr & Hwl & Hd)|((e & Hr) & Hd & _)]); subst r2.
    + eapply IH; [| |exact E].
      * apply Hd; cbn; rewrite ?Ea2; try apply Ds. rewrite Hos, Hfs. reflexivity.
      * intros fz Hfz. cbn. rewrite Ea2, Hos. specialize (Hb fz Hfz).
        rewrite firstn_length in Hwl. rewrite skipn_length. subst m0. cbn. lia.
    + inversion E; subst. apply dp_mark_wfail; exact Hd.
Qed.

Lemma lazy_stat_dp : forall m m' r, DP m -> lazy_stat v p m = (m', r) ->
  DP m' /\ fs m' = fs m /\ exists b, ast m' = set_pst (ast m) b.
Proof.
  intros m m' r D E. unfold lazy_stat in E. rewrite (dp_fd _ D) in E.
  destruct (sys p m CFstat) as [m1 r1] eqn:E1.
  destruct (dp_quiet _ CFstat _ _ D eq_refl E1) as (D1 & F1 & A1).
  destruct r1 as [sz|e].
  - inversion E; subst. split; [apply dp_with_a; [exact D1|reflexivity..]|].
    split; [exact F1|]. exists true. cbn. rewrite A1. reflexivity.
  - destruct (sys p m1 (CLstat _)) as [m2 r2] eqn:E2.
    destruct (dp_quiet _ (CLstat _) _ _ D1 eq_refl E2) as (D2 & F2 & A2).
    destruct r2 as [sz|e2]; inversion E; subst.
    + split; [apply dp_with_a; [exact D2|reflexivity..]|].
      split; [cbn; congruence|]. exists true. cbn. rewrite A2, A1. reflexivity.
    + split; [exact D2|]. split; [congruence|]. exists (a_pst (ast m)). rewrite A2, A1.
      destruct (ast m); reflexivity.
Qed.

Lemma write_data_block_dp : forall m buf m' r, DP m -> write_data_block v cfg p m buf = (m', r) -> DP m'.
Proof.
  intros m buf m' r D E. unfold write_data_block in E.
  destruct buf as [|x buf0]; [inversion E; subst; exact D|].
  remember (x :: buf0) as buf eqn:Hbuf in *.
  destruct (_ || _)%bool; [inversion E; subst; exact D|].
  match type of E with (let '(_, _) := ?t in _) = _ => destruct t as [m1 bs] eqn:E1 end.
  assert (D1 : DP m1 /\ a_off (ast m1) = a_off (ast m)).
  { destruct (c_opt_sparse cfg); [|inversion E1; subst; split; [exact D|reflexivity]].
    destruct (a_pst (ast m)); [inversion E1; subst; split; [exact D|reflexivity]|].
    destruct (lazy_stat v p m) as [m2 r2] eqn:E2.
    destruct (lazy_stat_dp _ _ _ D E2) as (D2 & _ & b & A2).
    destruct r2; inversion E1; subst; (split; [exact D2|rewrite A2; reflexivity]). }
  destruct D1 as (D1 & O1).
  destruct bs as [bs|]; [|inversion E; subst; apply dp_mark_wfail; exact D1].
  match type of E with (match ?t with _ => _ end) = _ => destruct t as [buf'|] eqn:Ec end;
    [|inversion E; subst; exact D1].
  destruct (wloop v p _ bs m1 buf') as [m2 r2] eqn:E2.
  assert (Hb : forall fz, c_size cfg = Some fz -> a_off (ast m1) + length buf' <= fz).
  { intros fz Hfz. rewrite Hfz in Ec.
    destruct (Nat.ltb fz (a_off (ast m1) + length buf)) eqn:L1.
    - destruct (Nat.ltb fz (a_off (ast m1))) eqn:L2; [discriminate|].
      inversion Ec; subst buf'. rewrite firstn_length. apply Nat.ltb_ge in L2. lia.
    - inversion Ec; subst buf'. apply Nat.ltb_ge in L1. exact L1. }
  pose proof (wloop_dp _ _ _ _ _ _ D1 Hb E2) as D2.
  destruct r2; inversion E; subst; exact D2.
Qed.

Lemma write_block_dp : forall m b m' r, DP m -> write_block v cfg p m b = (m', r) -> DP m'.
Proof.
  intros m [[is_data off] buf] m' r D E. unfold write_block in E.
  destruct is_data.
  - eapply write_data_block_dp; [exact D|exact E].
  - destruct (write_data_block v cfg p _ buf) as [m1 r1] eqn:E1.
    assert (D1 : DP m1).
    { eapply write_data_block_dp; [|exact E1]. apply dp_with_a; [exact D|reflexivity..]. }
    destruct (r1 <? 0)%Z; [inversion E; subst; exact D1|].
    destruct (r1 <? _)%Z; inversion E; subst; exact D1.
Qed.

Lemma feed_dp : forall bl m m' rs, DP m -> feed v cfg p m bl = (m', rs) -> DP m'.
Proof.
  induction bl as [|b bl IH]; intros m m' rs D E; cbn in E.
  - inversion E; subst; exact D.
  - destruct (write_block v cfg p m b) as [m1 r1] eqn:E1.
    pose proof (write_block_dp _ _ _ _ D E1) as D1.
    destruct (c_stop cfg && (r1 <? 0)%Z)%bool; [inversion E; subst; exact D1|].
    destruct (feed v cfg p m1 bl) as [m2 rs2] eqn:E2. inversion E; subst.
    eapply IH; [exact D1|exact E2].
Qed.

(* ---- the descriptor is open, its position no longer tracked (end of finish_entry) *)
Record DPw (m : mstate) : Prop := mkDPw {
  dpw_hist : Hist m;
  dpw_fd : a_fd (ast m) = true;
  dpw_data : a_data (ast m) = true;
  dpw_tmp : a_tmp (ast m) = true;
  dpw_dir : dir (fs m) Temp = Some TMP_INO;
  dpw_ofd : exists pos, ofd (fs m) = Some (TMP_INO, pos)
}.

Lemma dp_dpw : forall m, DP m -> DPw m.
Proof. intros m [H1 H2 H3 H4 H5 H6 H7]. constructor; try assumption. eexists; exact H6. Qed.

Lemma dpw_inv : forall m, DPw m -> Inv false m.
Proof.
  intros m [H1 H2 H3 H4 H5 (pos & H6)]. constructor.
  - exact H1.
  - intros _. split; [exact H4|split; [exact H5|]]. exists pos. split; [exact H6|discriminate].
  - rewrite H3. discriminate.
  - intros; exact H2.
Qed.

Lemma dpw_with_a : forall m a', DPw m -> a_fd a' = a_fd (ast m) -> a_tmp a' = a_tmp (ast m) ->
  a_data a' = a_data (ast m) -> DPw (with_a m a').
Proof.
  intros m a' [H1 H2 H3 H4 H5 H6] E1 E2 E3.
  constructor; cbn [with_a fs steps ast]; try congruence; assumption.
Qed.

Definition fdcall (c : call) : bool :=
  (quiet c || match c with CLseek _ | CWrite _ | CFtruncate _ => true | _ => false end)%bool.

Lemma dpw_sys : forall m c m' r, DPw m -> fdcall c = true -> sys p m c = (m', r) ->
  DPw m' /\ ast m' = ast m.
Proof.
  intros m c m' r D Hc E.
  pose proof (sys_ast _ _ _ _ _ E) as Ea. pose proof (sys_effect _ _ _ _ _ E) as Ef.
  assert (Hs : safe_call c = true) by (destruct c; try discriminate; reflexivity).
  pose proof (hist_sys _ _ _ _ (dpw_hist _ D) Hs E) as Hh.
  destruct D as [H1 H2 H3 H4 H5 (pos & H6)].
  split; [|exact Ea].
  assert (Hfs : dir (fs m') = dir (fs m) /\ exists pos', ofd (fs m') = Some (TMP_INO, pos')).
  { destruct (quiet c) eqn:Hq.
    - rewrite (effect_quiet _ _ _ _ Hq Ef). split; [reflexivity|eexists; exact H6].
    - destruct c; try discriminate.
      + destruct (effect_lseek _ _ _ _ _ _ H6 Ef) as [(_ & Hf)|(e & _ & Hf)]; rewrite Hf; cbn;
          (split; [reflexivity|eexists; first [reflexivity|exact H6]]).
      + destruct (effect_write _ _ _ _ _ _ H6 Ef) as [(b' & _ & _ & Hf)|(e & _ & Hf)]; rewrite Hf; cbn;
          (split; [reflexivity|eexists; first [reflexivity|exact H6]]).
      + destruct (effect_ftruncate _ _ _ _ _ _ H6 Ef) as [(_ & Hf)|(e & _ & Hf)]; rewrite Hf; cbn;
          (split; [reflexivity|eexists; first [reflexivity|exact H6]]). }
  destruct Hfs as (Hd & Ho).
  constructor; rewrite ?Ea, ?Hd; assumption.
Qed.

Lemma dpw_quiet : forall m c m' r, DPw m -> quiet c = true -> sys p m c = (m', r) ->
  DPw m' /\ ast m' = ast m /\ fs m' = fs m.
Proof.
  intros m c m' r D Hq E.
  assert (Hc : fdcall c = true) by (unfold fdcall; rewrite Hq; reflexivity).
  destruct (dpw_sys _ _ _ _ D Hc E) as (A & B).
  split; [exact A|split; [exact B|]].
  exact (effect_quiet _ _ _ _ Hq (sys_effect _ _ _ _ _ E)).
Qed.

(* closed: no descriptor; the entry is either abandoned or not started *)
Definition Closed (m : mstate) : Prop := Inv false m /\ a_fd (ast m) = false.

Lemma finish_size_shape : forall m m' early, DP m -> finish_size v cfg p m = (m', early) ->
  match early with
  | None => DPw m' /\ a_wfail (ast m') = a_wfail (ast m)
  | Some _ => Closed m' /\ a_data (ast m') = true
  end.
Proof.
  intros m m' early D E. unfold finish_size in E.
  assert (Hcl0 : forall mm, DP mm -> a_data (ast mm) = true ->
            Closed (close_fd v p mm) /\ a_data (ast (close_fd v p mm)) = true).
  { intros mm Dm Hd. destruct (close_fd_inv _ _ (dp_inv _ Dm)) as (A & B & C).
    split; [split; assumption|rewrite C; exact Hd]. }
  destruct (c_size cfg) as [fz|] eqn:Hsz.
  2:{ (* size unknown: extend the file to the end of the data *)
      rewrite (dp_fd _ D) in E. cbn [andb] in E.
      destruct (Nat.ltb (a_fdoff (ast m)) (a_off (ast m)));
        [|inversion E; subst; split; [apply dp_dpw; exact D|reflexivity]].
      destruct (sys p m (CFtruncate (a_off (ast m)))) as [m1 r1] eqn:E1.
      pose proof (sys_ast _ _ _ _ _ E1) as Ea1.
      pose proof (effect_ftruncate _ _ _ _ _ _ (dp_ofd _ D) (sys_effect _ _ _ _ _ E1)) as Ef1.
      pose proof (hist_sys _ (CFtruncate (a_off (ast m))) _ _ (dp_hist _ D) eq_refl E1) as Hh1.
      assert (D1 : DP m1).
      { destruct D as [H1 H2 H3 H4 H5 H6 H7].
        destruct Ef1 as [(Hr & Hf)|(e & Hr & Hf)]; constructor; rewrite ?Ea1, ?Hf; cbn; try assumption; try reflexivity;
          intros fz' Hfz'; rewrite Hsz in Hfz'; discriminate Hfz'. }
      destruct r1; inversion E; subst.
      all: first [ split; [apply dp_dpw; exact D1|rewrite Ea1; reflexivity]
                 | apply Hcl0; [exact D1|rewrite Ea1; apply D] ]. }
  rewrite (dp_fd _ D) in E. cbn [negb orb] in E.
  destruct (Nat.eqb (a_fdoff (ast m)) fz); [inversion E; subst; split; [apply dp_dpw; exact D|reflexivity]|].
  destruct (sys p m (CFtruncate fz)) as [m1 r1] eqn:E1.
  pose proof (sys_ast _ _ _ _ _ E1) as Ea1.
  pose proof (effect_ftruncate _ _ _ _ _ _ (dp_ofd _ D) (sys_effect _ _ _ _ _ E1)) as Ef1.
  pose proof (hist_sys _ (CFtruncate fz) _ _ (dp_hist _ D) eq_refl E1) as Hh1.
  assert (D1 : DP m1).
  { destruct D as [H1 H2 H3 H4 H5 H6 H7].
    destruct Ef1 as [(Hr & Hf)|(e & Hr & Hf)]; constructor; rewrite ?Ea1, ?Hf; cbn; try assumption; try reflexivity.
    intros fz' Hfz'. rewrite resize_length. rewrite Hsz in Hfz'. inversion Hfz'. lia. }
  assert (Hcl : forall mm, DP mm -> a_data (ast mm) = true ->
            Closed (close_fd v p mm) /\ a_data (ast (close_fd v p mm)) = true).
  { intros mm Dm Hd. destruct (close_fd_inv _ _ (dp_inv _ Dm)) as (A & B & C).
    split; [split; assumption|rewrite C; exact Hd]. }
  destruct (_ && _)%bool.
  { inversion E; subst. apply Hcl; [exact D1|rewrite Ea1; apply D]. }
  set (m1' := with_a m1 (set_pst (ast m1) false)) in *.
  assert (D1' : DP m1') by (apply dp_with_a; [exact D1|reflexivity..]).
  destruct (lazy_stat v p m1') as [m2 st] eqn:E2.
  destruct (lazy_stat_dp _ _ _ D1' E2) as (D2 & F2 & b2 & A2).
  assert (Hd2 : a_data (ast m2) = true) by (rewrite A2; cbn; rewrite Ea1; apply D).
  assert (Hw2 : a_wfail (ast m2) = a_wfail (ast m)) by (rewrite A2; cbn; rewrite Ea1; reflexivity).
  destruct st as [sz|]; [|inversion E; subst; apply Hcl; assumption].
  destruct (Nat.ltb sz fz); [|inversion E; subst; split; [apply dp_dpw; exact D2|exact Hw2]].
  destruct (sys p m2 (CLseek (fz - 1))) as [m3 r3] eqn:E3.
  destruct (dpw_sys _ (CLseek (fz - 1)) _ _ (dp_dpw _ D2) eq_refl E3) as (W3 & A3).
  destruct (dp_lseek _ _ _ _ D2 E3) as (_ & [(Hr & _)|((e & Hr) & D3 & _)]); subst r3.
  2:{ inversion E; subst. apply Hcl; [exact D3|rewrite A3; exact Hd2]. }
  destruct (sys p m3 (CWrite [0%N])) as [m4 r4] eqn:E4.
  destruct (dpw_sys _ (CWrite [0%N]) _ _ W3 eq_refl E4) as (W4 & A4).
  destruct r4 as [w|e].
  - inversion E; subst. split; [apply dpw_with_a; [exact W4|reflexivity..]|].
    cbn. rewrite A4, A3. exact Hw2.
  - inversion E; subst.
    destruct (close_fd_inv _ _ (dpw_inv _ W4)) as (A & B & C).
    split; [split; assumption|rewrite C, A4, A3; exact Hd2].
Qed.

(* the target has been replaced by the temporary file with content c; nothing follows *)
Definition Done (m : mstate) (c : content) : Prop :=
  target_content (fs m) = Some c /\ dir (fs m) Temp = None /\
  a_data (ast m) = false /\ a_fd (ast m) = false /\
  Forall (fun f => OldP f \/ target_content f = Some c) (fs m :: map s_fs (steps m)).

Lemma hist_weaken : forall m c, Hist m ->
  Forall (fun f => OldP f \/ target_content f = Some c) (fs m :: map s_fs (steps m)).
Proof. intros m c H. eapply Forall_impl; [|exact H]. intros f Hf; left; exact Hf. Qed.

Definition meta_call (c : call) : bool :=
  match c with CFchown | CLchown _ | CFchmod _ | CChmod _ _ | CFutimens | CUtimensat _ => true | _ => false end.

(* the three metadata steps only issue quiet calls *)
Lemma finish_meta_open : forall m m' ret, DPw m -> finish_meta v cfg p m = (m', ret) ->
  (Closed m' /\ a_data (ast m') = false /\
   ((fix_write v && a_wfail (ast m))%bool = true \/
    exists mm mm' e, sys p mm CRename = (mm', RErr e) /\ dir (fs mm) Temp = Some TMP_INO)) \/
  (exists mr, DPw mr /\ a_wfail (ast mr) = a_wfail (ast m) /\ fs mr = fs m /\
     (fix_write v && a_wfail (ast mr) = false)%bool /\ Done m' (store (fs mr) TMP_INO) /\
     fs m' = mkFs (dir_set (dir_set (dir (fs mr)) Target (Some TMP_INO)) Temp None) (store (fs mr)) None).
Proof.
  intros m m' ret D E. unfold finish_meta in E.
  (* owner *)
  match type of E with (let '(_, _) := ?t in _) = _ => destruct t as [m1 ret1] eqn:E1 end.
  assert (D1 : DPw m1 /\ ast m1 = ast m /\ fs m1 = fs m).
  { destruct (c_opt_owner cfg); [|inversion E1; subst; split; [exact D|split; reflexivity]].
    rewrite (dpw_fd _ D) in E1.
    destruct (sys p m CFchown) as [ma ra] eqn:Ea.
    destruct (dpw_quiet _ CFchown _ _ D eq_refl Ea) as (Da & Aa & Fa).
    destruct ra; [inversion E1; subst; split; [assumption|split; assumption]|].
    destruct (sys p ma (CLchown Target)) as [mb rb] eqn:Eb.
    destruct (dpw_quiet _ (CLchown Target) _ _ Da eq_refl Eb) as (Db & Ab & Fb).
    inversion E1; subst. split; [exact Db|split; congruence]. }
  destruct D1 as (D1 & A1 & F1).
  (* mode *)
  match type of E with (let '(_, _) := ?t in _) = _ => destruct t as [m2 ret2] eqn:E2 end.
  assert (D2 : DPw m2 /\ ast m2 = ast m /\ fs m2 = fs m).
  { rewrite (dpw_fd _ D1) in E2.
    destruct (sys p m1 (CFchmod _)) as [ma ra] eqn:Ea.
    destruct (dpw_quiet _ (CFchmod _) _ _ D1 eq_refl Ea) as (Da & Aa & Fa).
    inversion E2; subst. split; [exact Da|split; congruence]. }
  destruct D2 as (D2 & A2 & F2).
  (* times *)
  match type of E with (let '(_, _) := ?t in _) = _ => destruct t as [m3 ret3] eqn:E3 end.
  assert (D3 : DPw m3 /\ ast m3 = ast m /\ fs m3 = fs m).
  { destruct (_ && _)%bool; [|inversion E3; subst; split; [exact D2|split; assumption]].
    rewrite (dpw_fd _ D2) in E3.
    destruct (sys p m2 CFutimens) as [ma ra] eqn:Ea.
    destruct (dpw_quiet _ CFutimens _ _ D2 eq_refl Ea) as (Da & Aa & Fa).
    inversion E3; subst. split; [exact Da|split; congruence]. }
  destruct D3 as (D3 & A3 & F3).
  clear E1 E2 E3 D1 D2 A1 A2 F1 F2 m1 m2 ret1 ret2.
  (* close, rename | unlink *)
  rewrite (dpw_fd _ D3) in E.
  destruct (sys p m3 CClose) as [m4 r4] eqn:E4.
  pose proof (sys_ast _ _ _ _ _ E4) as A4.
  pose proof (effect_close _ _ _ (sys_effect _ _ _ _ _ E4)) as F4.
  pose proof (hist_sys _ CClose _ _ (dpw_hist _ D3) eq_refl E4) as H4.
  cbn [with_a ast set_fd a_tmp] in E. rewrite A4, (dpw_tmp _ D3) in E.
  assert (Hunl : forall mm mu ru, Hist mm -> sys p mm (CUnlink Temp) = (mu, ru) ->
            forall m'', fs m'' = fs mu -> steps m'' = steps mu -> a_fd (ast m'') = false -> a_data (ast m'') = false ->
            Closed m'' /\ a_data (ast m'') = false).
  { intros mm mu ru Hh Eu m'' Q1 Q2 F1 F2.
    pose proof (sys_steps _ _ _ _ _ Eu) as Es.
    pose proof (effect_unlink_temp _ _ _ (sys_effect _ _ _ _ _ Eu)) as Ef.
    pose proof (hist_sys _ (CUnlink Temp) _ _ Hh eq_refl Eu) as Hu.
    split; [split|]; try assumption.
    constructor; rewrite ?F1, ?Q1, ?Q2.
    - exact Hu.
    - discriminate.
    - reflexivity.
    - intros _ _ U T. exfalso. rewrite Es in U. cbn in U.
      destruct Ef as [(Hr & Hf)|(Hr & Hf)].
      + rewrite Hf in T. cbn in T. discriminate.
      + rewrite Hr in U. discriminate. }
  set (m4' := with_a m4 (set_fd (ast m3) false)) in *.
  assert (H4' : Hist m4') by exact H4.
  destruct (fix_write v && a_wfail (set_fd (ast m3) false))%bool eqn:Hfw.
  - destruct (sys p m4' (CUnlink Temp)) as [m5 r5] eqn:E5.
    inversion E; subst. left.
    assert (X : Closed (with_a (with_a m5 (set_tmp (ast m5) false)) (set_data (set_tmp (ast m5) false) false)) /\
                a_data (ast (with_a (with_a m5 (set_tmp (ast m5) false)) (set_data (set_tmp (ast m5) false) false))) = false).
    { apply (Hunl _ _ _ H4' E5); try reflexivity. cbn. rewrite (sys_ast _ _ _ _ _ E5). reflexivity. }
    destruct X as (X1 & X2). split; [exact X1|split; [exact X2|]].
    left. cbn in Hfw. rewrite <- A3. exact Hfw.
  - destruct (sys p m4' CRename) as [m5 r5] eqn:E5.
    pose proof (sys_ast _ _ _ _ _ E5) as A5. pose proof (sys_steps _ _ _ _ _ E5) as S5.
    assert (Hd4 : dir (fs m4') Temp = Some TMP_INO) by (cbn; rewrite F4; cbn; apply D3).
    pose proof (effect_rename _ _ _ _ Hd4 (sys_effect _ _ _ _ _ E5)) as F5.
    destruct F5 as [(Hr & Hf)|(e & Hr & Hf)]; subst r5.
    + inversion E; subst. right. exists m3.
      split; [exact D3|]. split; [rewrite A3; reflexivity|]. split; [exact F3|]. split; [exact Hfw|].
      assert (Hfs : fs m5 = mkFs (dir_set (dir_set (dir (fs m3)) Target (Some TMP_INO)) Temp None) (store (fs m3)) None).
      { rewrite Hf. cbn. rewrite F4. reflexivity. }
      split; [|exact Hfs].
      unfold Done. cbn [with_a fs steps ast set_data set_tmp a_data a_fd].
      assert (Htc : target_content (fs m5) = Some (store (fs m3) TMP_INO)) by (rewrite Hfs; reflexivity).
      split; [exact Htc|]. split; [rewrite Hfs; reflexivity|]. split; [reflexivity|]. split; [rewrite A5; reflexivity|].
      rewrite S5. cbn [map s_fs]. constructor; [right; exact Htc|]. constructor; [right; exact Htc|].
      pose proof (hist_weaken m4' (store (fs m3) TMP_INO) H4') as X. inversion X; assumption.
    + assert (H5 : Hist m5).
      { unfold Hist. rewrite S5. cbn [map s_fs]. rewrite Hf.
        constructor; [inversion H4'; assumption|]. constructor; [inversion H4'; assumption|]. inversion H4'; assumption. }
      destruct (sys p m5 (CUnlink Temp)) as [m6 r6] eqn:E6.
      inversion E; subst. left.
      assert (X : Closed (with_a (with_a m6 (set_tmp (ast m6) false)) (set_data (set_tmp (ast m6) false) false)) /\
                  a_data (ast (with_a (with_a m6 (set_tmp (ast m6) false)) (set_data (set_tmp (ast m6) false) false))) = false).
      { apply (Hunl _ _ _ H5 E6); try reflexivity. cbn. rewrite (sys_ast _ _ _ _ _ E6), A5. reflexivity. }
      destruct X as (X1 & X2). split; [exact X1|split; [exact X2|]].
      right. exists m4', m5, e. split; [exact E5|exact Hd4].
Qed.

Lemma closed_quiet : forall m c m' r, Closed m -> quiet c = true -> sys p m c = (m', r) ->
  Closed m' /\ fs m' = fs m /\ ast m' = ast m.
Proof.
  intros m c m' r (HI & Hfd) Hq E.
  destruct (inv_quiet_sys _ _ _ _ _ c _ _ HI Hq E) as (A & B & C).
  split; [split; [exact A|rewrite C; exact Hfd]|split; assumption].
Qed.

Lemma finish_meta_closed : forall m m' ret, Closed m -> finish_meta v cfg p m = (m', ret) ->
  Closed m' /\ a_data (ast m') = false /\ fs m' = fs m.
Proof.
  intros m m' ret C E. unfold finish_meta in E.
  match type of E with (let '(_, _) := ?t in _) = _ => destruct t as [m1 ret1] eqn:E1 end.
  assert (C1 : Closed m1 /\ fs m1 = fs m /\ ast m1 = ast m).
  { destruct (c_opt_owner cfg); [|inversion E1; subst; split; [exact C|split; reflexivity]].
    rewrite (proj2 C) in E1.
    destruct (sys p m (CLchown Target)) as [ma ra] eqn:Ea.
    destruct (closed_quiet _ (CLchown Target) _ _ C eq_refl Ea) as (Ca & Fa & Aa).
    inversion E1; subst. split; [exact Ca|split; assumption]. }
  destruct C1 as (C1 & F1 & A1).
  match type of E with (let '(_, _) := ?t in _) = _ => destruct t as [m2 ret2] eqn:E2 end.
  assert (C2 : Closed m2 /\ fs m2 = fs m /\ ast m2 = ast m).
  { rewrite (proj2 C1) in E2.
    destruct (sys p m1 (CChmod Target _)) as [ma ra] eqn:Ea.
    destruct (closed_quiet _ (CChmod Target _) _ _ C1 eq_refl Ea) as (Ca & Fa & Aa).
    inversion E2; subst. split; [exact Ca|split; congruence]. }
  destruct C2 as (C2 & F2 & A2).
  match type of E with (let '(_, _) := ?t in _) = _ => destruct t as [m3 ret3] eqn:E3 end.
  assert (C3 : Closed m3 /\ fs m3 = fs m /\ ast m3 = ast m).
  { destruct (_ && _)%bool; [|inversion E3; subst; split; [exact C2|split; assumption]].
    rewrite (proj2 C2) in E3.
    destruct (sys p m2 (CUtimensat Target)) as [ma ra] eqn:Ea.
    destruct (closed_quiet _ (CUtimensat Target) _ _ C2 eq_refl Ea) as (Ca & Fa & Aa).
    inversion E3; subst. split; [exact Ca|split; congruence]. }
  destruct C3 as (C3 & F3 & A3).
  rewrite (proj2 C3) in E. inversion E; subst.
  split; [|split; [reflexivity|exact F3]].
  destruct C3 as (HI & Hfd). split; [|exact Hfd].
  eapply inv_with_a_closed; [exact HI|exact Hfd|exact Hfd].
Qed.

Lemma finish_entry_closed : forall m m' r, Closed m -> finish_entry v cfg p m = (m', r) ->
  Closed m' /\ a_data (ast m') = false /\ fs m' = fs m.
Proof.
  intros m m' r C E. unfold finish_entry in E.
  destruct (a_data (ast m)) eqn:Hd; cbn [negb] in E.
  - assert (Es : finish_size v cfg p m = (m, None)).
    { unfold finish_size. destruct (c_size cfg); rewrite (proj2 C); reflexivity. }
    rewrite Es in E. eapply finish_meta_closed; [exact C|exact E].
  - inversion E; subst. split; [exact C|split; [exact Hd|reflexivity]].
Qed.

Lemma finish_entry_done : forall m c, Done m c -> finish_entry v cfg p m = (m, ARCHIVE_OK).
Proof. intros m c (_ & _ & Hd & _). unfold finish_entry. rewrite Hd. reflexivity. Qed.

Lemma finish_entry_dp : forall m m' r, DP m -> finish_entry v cfg p m = (m', r) ->
  (Closed m' /\
   ((exists ms st, finish_size v cfg p m = (ms, Some st)) \/
    (fix_write v && a_wfail (ast m))%bool = true \/
    (exists mm mm' e, sys p mm CRename = (mm', RErr e) /\ dir (fs mm) Temp = Some TMP_INO))) \/
  (exists ms, finish_size v cfg p m = (ms, None) /\ a_wfail (ast ms) = a_wfail (ast m) /\
     (fix_write v && a_wfail (ast ms) = false)%bool /\ Done m' (store (fs ms) TMP_INO) /\
     target_content (fs m') = Some (store (fs ms) TMP_INO)).
Proof.
  intros m m' r D E. unfold finish_entry in E. rewrite (dp_data _ D) in E. cbn [negb] in E.
  destruct (finish_size v cfg p m) as [m1 early] eqn:E1.
  pose proof (finish_size_shape _ _ _ D E1) as S1.
  destruct early as [st|].
  - inversion E; subst. left. split; [apply S1|]. left. exists m', r. reflexivity.
  - destruct S1 as (W1 & Hw1).
    destruct (finish_meta_open _ _ _ W1 E) as [(C & _ & R)|(mr & A & B & F & C' & D' & F')].
    + left. split; [exact C|]. right. rewrite <- Hw1. exact R.
    + right. exists m1. split; [reflexivity|]. split; [exact Hw1|]. rewrite F, B in *.
      split; [exact C'|]. split; [exact D'|]. apply D'.
Qed.

(* the shape of every run *)
Theorem run_shape :
  let m := o_final (sw_run v cfg p) in
  (Closed m /\ a_data (ast m) = false) \/ (exists c, Done m c).
Proof.
  unfold sw_run.
  destruct (header v cfg p (init_m cfg)) as [m1 h] eqn:E1.
  destruct (header_inv _ _ E1) as (I1 & [(Hh & Hfd & Hd & _)|(Hh & Hfd & Hd)]); subst h.
  - change (ARCHIVE_OK <? ARCHIVE_WARN)%Z with false. cbv iota.
    destruct (feed v cfg p m1 (c_blocks cfg)) as [m2 ds] eqn:E2.
    pose proof (feed_dp _ _ _ _ (inv_dp _ I1 Hfd) E2) as D2.
    destruct (finish_entry v cfg p m2) as [m3 f] eqn:E3.
    destruct (finish_entry_dp _ _ _ D2 E3) as [(C3 & _)|(ms & _ & _ & _ & Dn & _)].
    + destruct (finish_entry v cfg p m3) as [m4 c] eqn:E4.
      destruct (finish_entry_closed _ _ _ C3 E4) as (C4 & Hd4 & _).
      destruct (finish_entry v cfg p m4) as [m5 fr] eqn:E5.
      destruct (finish_entry_closed _ _ _ C4 E5) as (C5 & Hd5 & _).
      cbn. left. split; assumption.
    + rewrite (finish_entry_done _ _ Dn). rewrite (finish_entry_done _ _ Dn).
      cbn. right. eexists; exact Dn.
  - change (ARCHIVE_FAILED <? ARCHIVE_WARN)%Z with true. cbv iota.
    assert (C1 : Closed m1) by (split; [eapply inv_any_false; exact I1|exact Hfd]).
    destruct (finish_entry v cfg p m1) as [m3 f] eqn:E3.
    destruct (finish_entry_closed _ _ _ C1 E3) as (C3 & Hd3 & _).
    destruct (finish_entry v cfg p m3) as [m4 c] eqn:E4.
    destruct (finish_entry_closed _ _ _ C3 E4) as (C4 & Hd4 & _).
    destruct (finish_entry v cfg p m4) as [m5 fr] eqn:E5.
    destruct (finish_entry_closed _ _ _ C4 E5) as (C5 & Hd5 & _).
    cbn. left. split; assumption.
Qed.

(* ---- consequences *)
(* every crash point shows the complete previous file or what the run finally leaves *)
Theorem old_or_final : 
  let o := sw_run v cfg p in
  Forall (fun f => target_content f = Some (c_old cfg) \/ target_content f = target_content (final_fs o))
         (states cfg o).
Proof.
  cbn zeta. set (o := sw_run v cfg p).
  assert (Hall : Forall (fun f => target_content f = Some (c_old cfg) \/ target_content f = target_content (final_fs o))
                        (fs (o_final o) :: map s_fs (steps (o_final o)))).
  { pose proof run_shape as RS. cbn zeta in RS. fold o in RS.
    destruct RS as [((HI & _) & _)|(c & Htc & _ & _ & _ & Hall)].
    - eapply Forall_impl; [|exact (inv_hist _ _ _ _ HI)]. intros f Hf. left. apply oldp_target; exact Hf.
    - eapply Forall_impl; [|exact Hall]. intros f [Hf|Hf]; [left; apply oldp_target; exact Hf|].
      right. unfold final_fs. rewrite Htc. exact Hf. }
  unfold states, trace. constructor.
  - left. reflexivity.
  - rewrite map_rev. apply Forall_rev. inversion Hall; assumption.
Qed.

(* no temporary file remains, provided the repairs are in and no unlink(2) itself failed *)
Theorem no_temp_left_fixed : fix_mktemp v = true -> fix_finish v = true ->
  unlinks_ok (sw_run v cfg p) = true -> temp_left (final_fs (sw_run v cfg p)) = false.
Proof.
  intros F1 F2 U. rewrite unlinks_ok_uo in U. unfold final_fs.
  destruct run_shape as [((HI & Hfd) & _)|(c & _ & Hd & _)].
  - destruct (temp_left (fs (o_final (sw_run v cfg p)))) eqn:T; [|reflexivity].
    rewrite (inv_temp _ _ _ _ HI F1 F2 U T) in Hfd. discriminate.
  - unfold temp_left. rewrite Hd. reflexivity.
Qed.

End Funs.


(* ------------------------------------------------------------------ a faulted run against the fault-free run *)
Section Sim.
Variable v : variant.
Variable cfg : config.
Variable p : plan.
Hypothesis Hfw : fix_write v = true.
Hypothesis Hfl : fix_lstat v = true.
Hypothesis Herr : errno_only p.

Notation DP := (DP cfg).
Notation DPw := (DPw cfg).

Definition Sim (m1 m2 : mstate) : Prop := fs m1 = fs m2 /\ ast m1 = ast m2.

Lemma sim_with_a : forall m1 m2 f, Sim m1 m2 -> Sim (with_a m1 (f (ast m1))) (with_a m2 (f (ast m2))).
Proof. intros m1 m2 f (A & B). split; cbn; [exact A|rewrite B; reflexivity]. Qed.

Lemma sim_sys : forall m1 m2 c m1' r1 m2' r2, Sim m1 m2 ->
  sys p m1 c = (m1', r1) -> sys no_faults m2 c = (m2', r2) ->
  (r1 = r2 /\ Sim m1' m2') \/
  (exists e, r1 = RErr e /\ c <> CClose /\ fs m1' = fs m1 /\ ast m1' = ast m1) \/
  (c = CClose /\ Sim m1' m2').
Proof.
  intros m1 m2 c m1' r1 m2' r2 (Sf & Sa) E1 E2.
  pose proof (sys_ast _ _ _ _ _ E1) as A1.
  rewrite (sys_no_faults no_faults m2 c eq_refl) in E2. inversion E2; subst m2' r2; clear E2.
  destruct (sys_errno_only_effect _ _ _ _ _ Herr E1) as [(F & R)|(e & R & [(Hc & F)|(Hc & F)])].
  - left. rewrite R, Sf. split; [reflexivity|]. split; cbn; [rewrite F, Sf; reflexivity|congruence].
  - right. left. exists e. repeat split; assumption.
  - right. right. split; [exact Hc|]. subst c. split; cbn; [rewrite F, Sf; reflexivity|congruence].
Qed.

(* monotonicity of the incomplete mark *)
Lemma wfail_mark : forall m, a_wfail (ast (mark_wfail v m)) = true.
Proof. intros m. unfold mark_wfail. rewrite Hfw. reflexivity. Qed.

Lemma lazy_stat_ast : forall q m m' r, lazy_stat v q m = (m', r) -> exists b, ast m' = set_pst (ast m) b.
Proof.
  intros q m m' r E. unfold lazy_stat in E.
  assert (Hfb : forall n mm mm' rr,
    (let '(m0, r0) := sys q mm (CLstat n) in
     match r0 with ROk sz => (with_a m0 (set_pst (ast m0) true), Some sz) | RErr _ => (m0, None) end) = (mm', rr) ->
    exists b, ast mm' = set_pst (ast mm) b).
  { intros n mm mm' rr E0. destruct (sys q mm _) as [m0 r0] eqn:E1.
    pose proof (sys_ast _ _ _ _ _ E1) as A. destruct r0; inversion E0; subst.
    - exists true. cbn. rewrite A. reflexivity.
    - exists (a_pst (ast mm)). rewrite A. destruct (ast mm); reflexivity. }
  destruct (a_fd (ast m)).
  - destruct (sys q m CFstat) as [m1 r1] eqn:E1. pose proof (sys_ast _ _ _ _ _ E1) as A1.
    destruct r1.
    + inversion E; subst. exists true. cbn. rewrite A1. reflexivity.
    + destruct (Hfb _ _ _ _ E) as (b & Hb). exists b. rewrite Hb, A1. reflexivity.
  - apply (Hfb _ _ _ _ E).
Qed.

Lemma wloop_wfail_mono : forall q fuel bs m buf m' r, a_wfail (ast m) = true ->
  wloop v q fuel bs m buf = (m', r) -> a_wfail (ast m') = true.
Proof.
  induction fuel as [|fuel IH]; intros bs m buf m' r H E.
  - destruct buf; cbn in E; inversion E; subst; exact H.
  - destruct buf as [|x buf0]; [cbn in E; inversion E; subst; exact H|].
    cbn [wloop] in E.
    match type of E with (match ?t with _ => _ end) = _ => destruct t as [k buf1] end.
    destruct buf1 as [|y buf2]; [inversion E; subst; exact H|].
    match type of E with (let '(_, _) := ?t in _) = _ => destruct t as [ms ok] eqn:Es end.
    assert (Hs : a_wfail (ast ms) = true).
    { match type of Es with (if ?c then _ else _) = _ => destruct c end.
      - inversion Es; subst. exact H.
      - match type of Es with (let '(_, _) := sys ?q ?mm ?c in _) = _ => destruct (sys q mm c) as [m1 r1] eqn:E1 end.
        pose proof (sys_ast _ _ _ _ _ E1) as A1. destruct r1; inversion Es; subst; cbn; rewrite A1; exact H. }
    destruct ok; cbn [negb] in E; [|inversion E; subst; apply wfail_mark].
    match type of E with (let '(_, _) := sys ?q ?mm ?c in _) = _ => destruct (sys q mm c) as [m2 r2] eqn:E2 end.
    pose proof (sys_ast _ _ _ _ _ E2) as A2.
    destruct r2; [|inversion E; subst; apply wfail_mark].
    eapply IH; [|exact E]. cbn. rewrite A2. exact Hs.
Qed.

Lemma wdb_wfail_mono : forall q m buf m' r, a_wfail (ast m) = true ->
  write_data_block v cfg q m buf = (m', r) -> a_wfail (ast m') = true.
Proof.
  intros q m buf m' r H E. unfold write_data_block in E.
  destruct buf as [|x buf0]; [inversion E; subst; exact H|].
  destruct (_ || _)%bool; [inversion E; subst; exact H|].
  match type of E with (let '(_, _) := ?t in _) = _ => destruct t as [m1 bs] eqn:E1 end.
  assert (H1 : a_wfail (ast m1) = true).
  { destruct (c_opt_sparse cfg); [|inversion E1; subst; exact H].
    destruct (a_pst (ast m)); [inversion E1; subst; exact H|].
    destruct (lazy_stat v q m) as [m2 r2] eqn:E2.
    destruct (lazy_stat_ast _ _ _ _ E2) as (b & A2).
    destruct r2; inversion E1; subst; rewrite A2; exact H. }
  destruct bs as [bs|]; [|inversion E; subst; apply wfail_mark].
  match type of E with (match ?t with _ => _ end) = _ => destruct t as [buf'|] end;
    [|inversion E; subst; exact H1].
  match type of E with (let '(_, _) := ?t in _) = _ => destruct t as [m2 r2] eqn:E2 end.
  pose proof (wloop_wfail_mono _ _ _ _ _ _ _ H1 E2) as H2.
  destruct r2; inversion E; subst; exact H2.
Qed.

Lemma wb_wfail_mono : forall q m b m' r, a_wfail (ast m) = true ->
  write_block v cfg q m b = (m', r) -> a_wfail (ast m') = true.
Proof.
  intros q m [[is_data off] buf] m' r H E. unfold write_block in E.
  destruct is_data; [eapply wdb_wfail_mono; [exact H|exact E]|].
  destruct (write_data_block v cfg q _ buf) as [m1 r1] eqn:E1.
  assert (H1 : a_wfail (ast m1) = true) by (eapply wdb_wfail_mono; [|exact E1]; exact H).
  destruct (r1 <? 0)%Z; [inversion E; subst; exact H1|].
  destruct (r1 <? _)%Z; inversion E; subst; exact H1.
Qed.

Lemma feed_wfail_mono : forall q bl m m' rs, a_wfail (ast m) = true ->
  feed v cfg q m bl = (m', rs) -> a_wfail (ast m') = true.
Proof.
  induction bl as [|b bl IH]; intros m m' rs H E; cbn in E.
  - inversion E; subst; exact H.
  - destruct (write_block v cfg q m b) as [m1 r1] eqn:E1.
    pose proof (wb_wfail_mono _ _ _ _ _ H E1) as H1.
    destruct (c_stop cfg && (r1 <? 0)%Z)%bool; [inversion E; subst; exact H1|].
    destruct (feed v cfg q m1 bl) as [m2 rs2] eqn:E2. inversion E; subst.
    eapply IH; [exact H1|exact E2].
Qed.

Lemma sim_refl_mk : forall f s1 s2 a, Sim (mkM f s1 a) (mkM f s2 a).
Proof. intros; split; reflexivity. Qed.

Lemma sim_destruct : forall m1 m2, Sim m1 m2 ->
  exists f s1 s2 a, m1 = mkM f s1 a /\ m2 = mkM f s2 a.
Proof.
  intros [f1 s1 a1] [f2 s2 a2] (A & B). cbn in A, B. subst. exists f2, s1, s2, a2. split; reflexivity.
Qed.

Lemma wloop_sim : forall fuel bs m1 m2 buf m1' r1 m2' r2, Sim m1 m2 ->
  wloop v p fuel bs m1 buf = (m1', r1) -> wloop v no_faults fuel bs m2 buf = (m2', r2) ->
  (r1 = r2 /\ Sim m1' m2') \/ a_wfail (ast m1') = true.
Proof.
  induction fuel as [|fuel IH]; intros bs m1 m2 buf m1' r1 m2' r2 S E1 E2.
  - destruct buf; cbn in E1, E2; inversion E1; inversion E2; subst; left; (split; [reflexivity|exact S]).
  - destruct buf as [|x buf0]; [cbn in E1, E2; inversion E1; inversion E2; subst; left; (split; [reflexivity|exact S])|].
    destruct (sim_destruct _ _ S) as (f & s1 & s2 & a & -> & ->).
    cbn [wloop] in E1, E2. cbn [with_a ast fs steps] in E1, E2.
    match type of E1 with (match ?t with _ => _ end) = _ => destruct t as [k buf1] end.
    destruct buf1 as [|y buf2]; [inversion E1; inversion E2; subst; left; (split; [reflexivity|apply sim_refl_mk])|].
    cbn [set_off a_off a_fdoff] in E1, E2.
    match type of E1 with (let '(_, _) := ?t in _) = _ => destruct t as [ms1 ok1] eqn:Es1 end.
    match type of E2 with (let '(_, _) := ?t in _) = _ => destruct t as [ms2 ok2] eqn:Es2 end.
    assert (Hs : (ok1 = ok2 /\ Sim ms1 ms2) \/ (ok1 = false /\ True)).
    { match type of Es1 with (if ?c then _ else _) = _ => destruct c end.
      - inversion Es1; inversion Es2; subst. left. split; [reflexivity|apply sim_refl_mk].
      - match type of Es1 with (let '(_, _) := sys ?q ?mm ?c in _) = _ => destruct (sys q mm c) as [ma ra] eqn:Ea end.
        match type of Es2 with (let '(_, _) := sys ?q ?mm ?c in _) = _ => destruct (sys q mm c) as [mb rb] eqn:Eb end.
        destruct (sim_sys _ _ _ _ _ _ _ (sim_refl_mk _ _ _ _) Ea Eb) as [(Hr & Sab)|[(e & Hr & _)|(Hc & _)]].
        + subst rb. destruct ra; inversion Es1; inversion Es2; subst.
          * left. split; [reflexivity|]. destruct Sab as (A & B). split; cbn; [exact A|rewrite B; reflexivity].
          * right. split; [reflexivity|exact I].
        + subst ra. inversion Es1; subst. right. split; [reflexivity|exact I].
        + discriminate. }
    destruct Hs as [(-> & Ss)|(-> & _)].
    2:{ cbn [negb] in E1. inversion E1; subst. right. apply wfail_mark. }
    destruct ok2; cbn [negb] in E1, E2.
    2:{ inversion E1; subst. right. apply wfail_mark. }
    destruct (sim_destruct _ _ Ss) as (f' & s1' & s2' & a' & -> & ->).
    cbn [ast] in E1, E2.
    match type of E1 with (let '(_, _) := sys ?q ?mm ?c in _) = _ => destruct (sys q mm c) as [ma ra] eqn:Ea end.
    match type of E2 with (let '(_, _) := sys ?q ?mm ?c in _) = _ => destruct (sys q mm c) as [mb rb] eqn:Eb end.
    destruct (sim_sys _ _ _ _ _ _ _ (sim_refl_mk _ _ _ _) Ea Eb) as [(Hr & Sab)|[(e & Hr & _)|(Hc & _)]].
    + subst rb. destruct ra as [w|e].
      * eapply IH; [|exact E1|exact E2].
        destruct Sab as (A & B). split; cbn; [exact A|rewrite B; reflexivity].
      * inversion E1; subst. right. apply wfail_mark.
    + subst ra. inversion E1; subst. right. apply wfail_mark.
    + discriminate.
Qed.

(* lazy_stat of the open temporary file: the size of the temporary file, or failure *)
Lemma lazy_stat_size : forall q m m' sz, DP m -> lazy_stat v q m = (m', Some sz) ->
  sz = length (store (fs m) TMP_INO).
Proof.
  intros q m m' sz D E. unfold lazy_stat in E. rewrite (dp_fd _ _ D) in E.
  destruct (sys q m CFstat) as [m1 r1] eqn:E1.
  pose proof (sys_ast _ _ _ _ _ E1) as A1.
  destruct (effect_fstat _ _ _ _ _ (dp_ofd _ _ D) (sys_effect _ _ _ _ _ E1)) as (F1 & R1).
  destruct r1 as [x|e].
  - inversion E; subst. destruct R1 as [R1|(e & R1)]; inversion R1; reflexivity.
  - rewrite A1, (dp_fd _ _ D), (dp_tmp _ _ D), Hfl in E. cbn [andb] in E.
    destruct (sys q m1 (CLstat Temp)) as [m2 r2] eqn:E2.
    assert (Hd : dir (fs m1) Temp = Some TMP_INO) by (rewrite F1; apply D).
    destruct (effect_lstat _ _ _ _ _ Hd (sys_effect _ _ _ _ _ E2)) as (F2 & R2).
    destruct r2 as [x|e2]; inversion E; subst.
    destruct R2 as [R2|(e3 & R2)]; inversion R2. rewrite F1. reflexivity.
Qed.

Lemma lazy_stat_nf : forall m pos, a_fd (ast m) = true -> ofd (fs m) = Some (TMP_INO, pos) ->
  lazy_stat v no_faults m =
  (with_a (mkM (fs m) (mkStep CFstat (ROk (length (store (fs m) TMP_INO))) (fs m) :: steps m) (ast m))
          (set_pst (ast m) true),
   Some (length (store (fs m) TMP_INO))).
Proof.
  intros m pos Hfd Hofd. unfold lazy_stat. rewrite Hfd.
  rewrite (sys_no_faults no_faults m CFstat eq_refl). cbn [exec]. rewrite Hofd. reflexivity.
Qed.

Lemma lazy_stat_sim : forall m1 m2 m1' r1 m2' r2, DP m1 -> Sim m1 m2 ->
  lazy_stat v p m1 = (m1', r1) -> lazy_stat v no_faults m2 = (m2', r2) ->
  (r1 = r2 /\ Sim m1' m2') \/ r1 = None.
Proof.
  intros m1 m2 m1' r1 m2' r2 D (Sf & Sa) E1 E2.
  assert (Hfd2 : a_fd (ast m2) = true) by (rewrite <- Sa; apply D).
  assert (Hofd2 : ofd (fs m2) = Some (TMP_INO, a_fdoff (ast m1))) by (rewrite <- Sf; apply D).
  rewrite (lazy_stat_nf _ _ Hfd2 Hofd2) in E2. inversion E2; subst m2' r2; clear E2.
  destruct r1 as [sz|]; [|right; reflexivity].
  left. rewrite (lazy_stat_size _ _ _ _ D E1), Sf. split; [reflexivity|].
  destruct (lazy_stat_dp _ _ _ _ _ _ D E1) as (_ & F & b & A).
  split; cbn; [congruence|].
  rewrite A, <- Sa. f_equal.
  (* the pst flag after a successful lazy_stat is set *)
  clear - E1 A. unfold lazy_stat in E1.
  destruct (a_fd (ast m1)).
  - destruct (sys p m1 CFstat) as [ma ra]. destruct ra.
    + inversion E1; subst. cbn in A. 
      destruct (ast ma), (ast m1); cbn in *; inversion A; reflexivity.
    + destruct (sys p ma _) as [mb rb]. destruct rb; inversion E1; subst.
      cbn in A. destruct (ast mb), (ast m1); cbn in *; inversion A; reflexivity.
  - destruct (sys p m1 _) as [mb rb]. destruct rb; inversion E1; subst.
    cbn in A. destruct (ast mb), (ast m1); cbn in *; inversion A; reflexivity.
Qed.

Lemma wdb_sim : forall m1 m2 buf m1' r1 m2' r2, DP m1 -> Sim m1 m2 ->
  write_data_block v cfg p m1 buf = (m1', r1) -> write_data_block v cfg no_faults m2 buf = (m2', r2) ->
  (r1 = r2 /\ Sim m1' m2') \/ a_wfail (ast m1') = true.
Proof.
  intros m1 m2 buf m1' r1 m2' r2 D S E1 E2. unfold write_data_block in E1, E2.
  destruct buf as [|x buf0]; [inversion E1; inversion E2; subst; left; (split; [reflexivity|exact S])|].
  remember (x :: buf0) as buf eqn:Hbuf in *.
  pose proof S as (Sf & Sa). rewrite <- Sa in E2.
  destruct (_ || _)%bool; [inversion E1; inversion E2; subst; left; (split; [reflexivity|exact S])|].
  match type of E1 with (let '(_, _) := ?t in _) = _ => destruct t as [ma bsa] eqn:Ea end.
  match type of E2 with (let '(_, _) := ?t in _) = _ => destruct t as [mb bsb] eqn:Eb end.
  assert (Hs : (bsa = bsb /\ Sim ma mb) \/ bsa = None).
  { destruct (c_opt_sparse cfg); [|inversion Ea; inversion Eb; subst; left; (split; [reflexivity|exact S])].
    destruct (a_pst (ast m1)); [inversion Ea; inversion Eb; subst; left; (split; [reflexivity|exact S])|].
    destruct (lazy_stat v p m1) as [mc rc] eqn:Ec.
    destruct (lazy_stat v no_faults m2) as [md rd] eqn:Ed.
    destruct (lazy_stat_sim _ _ _ _ _ _ D S Ec Ed) as [(Hr & Scd)|Hr].
    - subst rd. destruct rc; inversion Ea; inversion Eb; subst; left; (split; [reflexivity|exact Scd]).
    - subst rc. inversion Ea; subst. right. reflexivity. }
  destruct Hs as [(-> & Sab)| ->].
  2:{ inversion E1; subst. right. apply wfail_mark. }
  destruct bsb as [bs|].
  2:{ inversion E1; subst. right. apply wfail_mark. }
  pose proof Sab as (Sf' & Sa'). rewrite <- Sa' in E2.
  match type of E1 with (match ?t with _ => _ end) = _ => destruct t as [buf'|] end.
  2:{ inversion E1; inversion E2; subst. left. split; [reflexivity|exact Sab]. }
  match type of E1 with (let '(_, _) := ?t in _) = _ => destruct t as [mc rc] eqn:Ec end.
  match type of E2 with (let '(_, _) := ?t in _) = _ => destruct t as [md rd] eqn:Ed end.
  destruct (wloop_sim _ _ _ _ _ _ _ _ _ Sab Ec Ed) as [(Hr & Scd)|Hw].
  - subst rd. destruct rc; inversion E1; inversion E2; subst; left; (split; [reflexivity|exact Scd]).
  - right. destruct rc; inversion E1; subst; exact Hw.
Qed.

Lemma wb_sim : forall m1 m2 b m1' r1 m2' r2, DP m1 -> Sim m1 m2 ->
  write_block v cfg p m1 b = (m1', r1) -> write_block v cfg no_faults m2 b = (m2', r2) ->
  (r1 = r2 /\ Sim m1' m2') \/ a_wfail (ast m1') = true.
Proof.
  intros m1 m2 [[is_data off] buf] m1' r1 m2' r2 D S E1 E2. unfold write_block in E1, E2.
  destruct is_data; [eapply wdb_sim; eassumption|].
  destruct (write_data_block v cfg p _ buf) as [ma ra] eqn:Ea.
  destruct (write_data_block v cfg no_faults _ buf) as [mb rb] eqn:Eb.
  assert (D0 : DP (with_a m1 (set_off (ast m1) off))) by (apply dp_with_a; [exact D|reflexivity..]).
  assert (S0 : Sim (with_a m1 (set_off (ast m1) off)) (with_a m2 (set_off (ast m2) off))).
  { exact (sim_with_a _ _ (fun a => set_off a off) S). }
  destruct (wdb_sim _ _ _ _ _ _ _ D0 S0 Ea Eb) as [(Hr & Sab)|Hw].
  - subst rb. destruct (ra <? 0)%Z; [inversion E1; inversion E2; subst; left; (split; [reflexivity|exact Sab])|].
    destruct (ra <? _)%Z; inversion E1; inversion E2; subst; left; (split; [reflexivity|exact Sab]).
  - right. destruct (ra <? 0)%Z; [inversion E1; subst; exact Hw|].
    destruct (ra <? _)%Z; inversion E1; subst; exact Hw.
Qed.

Lemma feed_sim : forall bl m1 m2 m1' rs1 m2' rs2, DP m1 -> Sim m1 m2 ->
  feed v cfg p m1 bl = (m1', rs1) -> feed v cfg no_faults m2 bl = (m2', rs2) ->
  Sim m1' m2' \/ a_wfail (ast m1') = true.
Proof.
  induction bl as [|b bl IH]; intros m1 m2 m1' rs1 m2' rs2 D S E1 E2; cbn in E1, E2.
  - inversion E1; inversion E2; subst. left; exact S.
  - destruct (write_block v cfg p m1 b) as [ma ra] eqn:Ea.
    destruct (write_block v cfg no_faults m2 b) as [mb rb] eqn:Eb.
    pose proof (write_block_dp _ _ _ _ _ _ _ D Ea) as Da.
    destruct (wb_sim _ _ _ _ _ _ _ D S Ea Eb) as [(Hr & Sab)|Hw].
    + subst rb. destruct (c_stop cfg && (ra <? 0)%Z)%bool.
      * inversion E1; inversion E2; subst. left; exact Sab.
      * destruct (feed v cfg p ma bl) as [mc rc] eqn:Ec.
        destruct (feed v cfg no_faults mb bl) as [md rd] eqn:Ed.
        inversion E1; inversion E2; subst. eapply IH; eassumption.
    + right. destruct (c_stop cfg && (ra <? 0)%Z)%bool; [inversion E1; subst; exact Hw|].
      destruct (feed v cfg p ma bl) as [mc rc] eqn:Ec. inversion E1; subst.
      eapply feed_wfail_mono; [exact Hw|exact Ec].
Qed.

(* the content the temporary file must have when finish_entry gets past the size step *)
Definition pad_content (m : mstate) : content :=
  match c_size cfg with
  | None => if Nat.ltb (a_fdoff (ast m)) (a_off (ast m)) then resize (store (fs m) TMP_INO) (a_off (ast m))
            else store (fs m) TMP_INO
  | Some fz => if Nat.eqb (a_fdoff (ast m)) fz then store (fs m) TMP_INO
               else resize (store (fs m) TMP_INO) fz
  end.

Lemma finish_size_nf : forall m, DP m -> exists ms, finish_size v cfg no_faults m = (ms, None).
Proof.
  intros m D. unfold finish_size.
  destruct (c_size cfg) as [fz|].
  2:{ rewrite (dp_fd _ _ D). cbn [andb].
      destruct (Nat.ltb (a_fdoff (ast m)) (a_off (ast m))); [|eexists; reflexivity].
      rewrite (sys_no_faults no_faults m (CFtruncate (a_off (ast m))) eq_refl). cbn [exec]. rewrite (dp_ofd _ _ D).
      eexists; reflexivity. }
  rewrite (dp_fd _ _ D). cbn [negb orb].
  destruct (Nat.eqb (a_fdoff (ast m)) fz); [eexists; reflexivity|].
  rewrite (sys_no_faults no_faults m (CFtruncate fz) eq_refl). cbn [exec]. rewrite (dp_ofd _ _ D).
  cbn [fst snd andb].
  erewrite lazy_stat_nf; [|cbn; apply D|cbn; reflexivity].
  match goal with |- context [Nat.ltb (length ?t) fz] =>
    replace (length t) with fz by (unfold with_a, st_set; cbn; rewrite resize_length; reflexivity) end.
  rewrite Nat.ltb_irrefl. eexists; reflexivity.
Qed.

Lemma finish_size_content : forall q m m', DP m -> finish_size v cfg q m = (m', None) ->
  store (fs m') TMP_INO = pad_content m.
Proof.
  intros q m m' D E. unfold finish_size in E. unfold pad_content.
  destruct (c_size cfg) as [fz|] eqn:Hsz.
  2:{ rewrite (dp_fd _ _ D) in E. cbn [andb] in E.
      destruct (Nat.ltb (a_fdoff (ast m)) (a_off (ast m))); [|inversion E; subst; reflexivity].
      destruct (sys q m (CFtruncate (a_off (ast m)))) as [m1 r1] eqn:E1.
      pose proof (effect_ftruncate _ _ _ _ _ _ (dp_ofd _ _ D) (sys_effect _ _ _ _ _ E1)) as Ef1.
      destruct r1 as [x1|e1]; [|discriminate E].
      inversion E; subst m'.
      destruct Ef1 as [(_ & Hf)|(e & Hr & _)]; [rewrite Hf; reflexivity|discriminate Hr]. }
  rewrite (dp_fd _ _ D) in E. cbn [negb orb] in E.
  destruct (Nat.eqb (a_fdoff (ast m)) fz); [inversion E; subst; reflexivity|].
  destruct (sys q m (CFtruncate fz)) as [m1 r1] eqn:E1.
  pose proof (sys_ast _ _ _ _ _ E1) as Ea1.
  pose proof (effect_ftruncate _ _ _ _ _ _ (dp_ofd _ _ D) (sys_effect _ _ _ _ _ E1)) as Ef1.
  pose proof (hist_sys _ _ _ (CFtruncate fz) _ _ (dp_hist _ _ D) eq_refl E1) as Hh1.
  assert (D1 : DP m1).
  { destruct D as [H1 H2 H3 H4 H5 H6 H7].
    destruct Ef1 as [(Hr & Hf)|(e & Hr & Hf)]; constructor; rewrite ?Ea1, ?Hf; cbn; try assumption; try reflexivity.
    intros fz' Hfz'. rewrite resize_length. rewrite Hsz in Hfz'. inversion Hfz'. lia. }
  destruct (_ && _)%bool; [discriminate|].
  set (m1' := with_a m1 (set_pst (ast m1) false)) in *.
  assert (D1' : DP m1') by (apply dp_with_a; [exact D1|reflexivity..]).
  destruct (lazy_stat v q m1') as [m2 st] eqn:E2.
  destruct (lazy_stat_dp _ _ _ _ _ _ D1' E2) as (D2 & F2 & b2 & A2).
  destruct st as [sz|]; [|discriminate].
  pose proof (lazy_stat_size _ _ _ _ D1' E2) as Hsz2. cbn [m1' with_a fs] in Hsz2.
  assert (Hlen : length (store (fs m) TMP_INO) <= fz) by (apply (dp_len _ _ D); exact Hsz).
  destruct Ef1 as [(Hr & Hf)|(e & Hr & Hf)].
  - (* ftruncate worked *)
    assert (Hc : store (fs m1) TMP_INO = resize (store (fs m) TMP_INO) fz) by (rewrite Hf; reflexivity).
    rewrite Hc, resize_length in Hsz2. subst sz. rewrite Nat.ltb_irrefl in E.
    inversion E; subst. rewrite F2. exact Hc.
  - (* ftruncate failed: the size is restored with lseek + write of one byte, if needed *)
    rewrite Hf in Hsz2.
    destruct (Nat.ltb sz fz) eqn:Hlt.
    + apply Nat.ltb_lt in Hlt.
      destruct (sys q m2 (CLseek (fz - 1))) as [m3 r3] eqn:E3.
      pose proof (effect_lseek _ _ _ _ _ _ (dp_ofd _ _ D2) (sys_effect _ _ _ _ _ E3)) as Ef3.
      destruct r3 as [x3|e3]; [|discriminate].
      destruct Ef3 as [(_ & Hf3)|(e3 & Hr3 & _)]; [|discriminate].
      destruct (sys q m3 (CWrite [0%N])) as [m4 r4] eqn:E4.
      assert (Ho3 : ofd (fs m3) = Some (TMP_INO, fz - 1)) by (rewrite Hf3; reflexivity).
      pose proof (effect_write _ _ _ _ _ _ Ho3 (sys_effect _ _ _ _ _ E4)) as Ef4.
      destruct r4 as [x4|e4]; [|discriminate].
      destruct Ef4 as [(b' & Hb' & _ & Hf4)|(e4 & Hr4 & _)]; [|discriminate].
      inversion E; subst m'. cbn [with_a fs]. rewrite Hf4. cbn [store st_set].
      assert (Hb0 : b' = [0%N]) by (destruct Hb' as [->| ->]; reflexivity). subst b'.
      unfold st_set. rewrite Nat.eqb_refl. rewrite Hf3. cbn [store]. rewrite F2. cbn [m1' with_a fs]. rewrite Hf.
      apply ov_extend. lia.
    + apply Nat.ltb_ge in Hlt. inversion E; subst m'. rewrite F2. cbn [m1' with_a fs]. rewrite Hf.
      assert (Heq : length (store (fs m) TMP_INO) = fz) by lia.
      rewrite <- Heq at 1. symmetry. apply resize_id.
Qed.

(* ---- the header: when it succeeds, always the same state *)
Definition hdr_fs : fsT :=
  mkFs (dir_set (dir (init_fs (c_old cfg))) Temp (Some TMP_INO))
       (st_set (store (init_fs (c_old cfg))) TMP_INO []) (Some (TMP_INO, 0)).
Definition hdr_ast : astate := mkA true true 0 0 false true false.

Lemma la_mktemp_ok_exact : forall q m m', la_mktemp v cfg q m = (m', true) ->
  fs m' = mkFs (dir_set (dir (fs m)) Temp (Some TMP_INO)) (st_set (store (fs m)) TMP_INO []) (Some (TMP_INO, 0)) /\
  ast m' = set_fd (set_tmp (ast m) true) true.
Proof.
  intros q m m' E. unfold la_mktemp in E.
  destruct (sys q _ CMkstemp) as [m1 r1] eqn:E1.
  pose proof (sys_ast _ _ _ _ _ E1) as A1.
  pose proof (effect_mkstemp _ _ _ (sys_effect _ _ _ _ _ E1)) as F1.
  destruct F1 as [(Hr & Hf)|(e & Hr & Hf)]; subst r1.
  2:{ destruct (fix_mktemp v); discriminate. }
  destruct (sys q m1 (CFchmod _)) as [m2 r2] eqn:E2.
  pose proof (sys_ast _ _ _ _ _ E2) as A2.
  pose proof (effect_quiet _ _ _ _ (eq_refl : quiet (CFchmod _) = true) (sys_effect _ _ _ _ _ E2)) as F2.
  destruct r2.
  - inversion E; subst. cbn. rewrite F2, Hf, A2, A1. split; reflexivity.
  - destruct (sys q m2 CClose) as [m3 r3]. destruct (fix_mktemp v); [destruct (sys q m3 _)|]; discriminate.
Qed.

Lemma header_ok_exact : forall q m', header v cfg q (init_m cfg) = (m', ARCHIVE_OK) ->
  fs m' = hdr_fs /\ ast m' = hdr_ast.
Proof.
  intros q m' E. unfold header in E.
  destruct (create_object q (init_m cfg)) as [m1 en1] eqn:E1.
  destruct (create_object_inv v cfg q _ _ _ _ (init_inv v cfg) eq_refl E1) as (I1 & F1 & A1).
  assert (exists m2 en2, (if (Nat.eqb en1 ENOTDIR || Nat.eqb en1 ENOENT)%bool then create_object q m1 else (m1, en1)) = (m2, en2) /\
          fs m2 = fs (init_m cfg) /\ ast m2 = set_tmp (ast (init_m cfg)) false) as (m2 & en2 & E2 & F2 & A2).
  { destruct (Nat.eqb en1 ENOTDIR || Nat.eqb en1 ENOENT)%bool.
    - destruct (create_object q m1) as [m2 en2] eqn:E2. exists m2, en2. split; [reflexivity|].
      assert (Hfd1 : a_fd (ast m1) = false) by (rewrite A1; reflexivity).
      destruct (create_object_inv v cfg q _ _ _ _ I1 Hfd1 E2) as (I2 & F2 & A2).
      split; [congruence|rewrite A2, A1; reflexivity].
    - exists m1, en1. split; [reflexivity|split; assumption]. }
  rewrite E2 in E. clear E1 E2 I1 F1 A1 m1 en1.
  destruct (Nat.eqb en2 EISDIR).
  { destruct (sys q m2 (CRmdir Target)). inversion E. }
  destruct (Nat.eqb en2 EEXIST); [|inversion E].
  destruct (sys q m2 (CLstat Target)) as [m3 r3] eqn:E3.
  pose proof (sys_ast _ _ _ _ _ E3) as A3.
  pose proof (effect_quiet _ _ _ _ (eq_refl : quiet (CLstat Target) = true) (sys_effect _ _ _ _ _ E3)) as F3.
  destruct r3; [|inversion E].
  destruct (la_mktemp v cfg q m3) as [m4 ok] eqn:E4.
  destruct ok; [|inversion E].
  destruct (la_mktemp_ok_exact _ _ _ E4) as (F4 & A4).
  inversion E; subst m'. cbn [with_a fs ast]. rewrite F4, A4, F3, F2, A3, A2. split; reflexivity.
Qed.

Lemma header_nf_ok : snd (header v cfg no_faults (init_m cfg)) = ARCHIVE_OK.
Proof. reflexivity. Qed.

Lemma closed_target : forall m, Closed v cfg m -> target_content (fs m) = Some (c_old cfg).
Proof.
  intros m (HI & _). apply oldp_target. pose proof (inv_hist _ _ _ _ HI) as H. inversion H; assumption.
Qed.

Lemma sim_pad : forall m1 m2, Sim m1 m2 -> pad_content m1 = pad_content m2.
Proof. intros m1 m2 (A & B). unfold pad_content. rewrite A, B. reflexivity. Qed.

(* what the target name refers to at the end of a faulted run: the previous file, or exactly what
   the fault-free run leaves *)
Theorem final_old_or_new :
  target_content (final_fs (sw_run v cfg p)) = Some (c_old cfg) \/
  target_content (final_fs (sw_run v cfg p)) = new_complete v cfg.
Proof.
  unfold new_complete, final_fs, sw_run.
  (* the faulted run *)
  destruct (header v cfg p (init_m cfg)) as [m1 h1] eqn:H1.
  destruct (header_inv v cfg p _ _ H1) as (I1 & [(Hh & Hfd & Hd & _)|(Hh & Hfd & Hd)]); subst h1.
  2:{ change (ARCHIVE_FAILED <? ARCHIVE_WARN)%Z with true. cbv iota.
      assert (C1 : Closed v cfg m1) by (split; [eapply inv_any_false; exact I1|exact Hfd]).
      destruct (finish_entry v cfg p m1) as [m3 f] eqn:E3.
      destruct (finish_entry_closed v cfg p _ _ _ C1 E3) as (C3 & _ & _).
      destruct (finish_entry v cfg p m3) as [m4 c] eqn:E4.
      destruct (finish_entry_closed v cfg p _ _ _ C3 E4) as (C4 & _ & _).
      destruct (finish_entry v cfg p m4) as [m5 fr] eqn:E5.
      destruct (finish_entry_closed v cfg p _ _ _ C4 E5) as (C5 & _ & _).
      left. cbn [o_final]. apply closed_target; exact C5. }
  change (ARCHIVE_OK <? ARCHIVE_WARN)%Z with false. cbv iota.
  pose proof (inv_dp v cfg _ I1 Hfd) as D1.
  destruct (feed v cfg p m1 (c_blocks cfg)) as [m2 ds] eqn:F1.
  pose proof (feed_dp v cfg p _ _ _ _ D1 F1) as D2.
  destruct (finish_entry v cfg p m2) as [m3 f] eqn:E3.
  destruct (finish_entry_dp v cfg p _ _ _ D2 E3) as [(C3 & _)|(ms & Hms & Hwms & Hnw & Dn & Htc)].
  { destruct (finish_entry v cfg p m3) as [m4 c] eqn:E4.
    destruct (finish_entry_closed v cfg p _ _ _ C3 E4) as (C4 & _ & _).
    destruct (finish_entry v cfg p m4) as [m5 fr] eqn:E5.
    destruct (finish_entry_closed v cfg p _ _ _ C4 E5) as (C5 & _ & _).
    left. cbn [o_final]. apply closed_target; exact C5. }
  rewrite (finish_entry_done v cfg p _ _ Dn). rewrite (finish_entry_done v cfg p _ _ Dn).
  cbn [o_final]. right. rewrite Htc.
  rewrite (finish_size_content _ _ _ D2 Hms).
  assert (Hw2 : a_wfail (ast m2) = false).
  { rewrite Hfw, Hwms in Hnw. exact Hnw. }
  (* the fault-free run *)
  pose proof header_nf_ok as Hn.
  destruct (header v cfg no_faults (init_m cfg)) as [n1 g1] eqn:G1. cbn [snd] in Hn. subst g1.
  destruct (header_inv v cfg no_faults _ _ G1) as (J1 & [(_ & Gfd & _ & _)|(Gh & _)]); [|discriminate].
  change (ARCHIVE_OK <? ARCHIVE_WARN)%Z with false. cbv iota.
  pose proof (inv_dp v cfg _ J1 Gfd) as K1.
  assert (S1 : Sim m1 n1).
  { destruct (header_ok_exact _ _ H1) as (A & B). destruct (header_ok_exact _ _ G1) as (A' & B').
    split; congruence. }
  destruct (feed v cfg no_faults n1 (c_blocks cfg)) as [n2 es] eqn:F2.
  pose proof (feed_dp v cfg no_faults _ _ _ _ K1 F2) as K2.
  destruct (feed_sim _ _ _ _ _ _ _ D1 S1 F1 F2) as [S2|Hw]; [|rewrite Hw in Hw2; discriminate].
  destruct (finish_entry v cfg no_faults n2) as [n3 g] eqn:E3n.
  destruct (finish_entry_dp v cfg no_faults _ _ _ K2 E3n) as [(_ & [(ns & st & Hns)|[Hx|(mm & mm' & e & Hren & Hdir)]])|(ns & Hns & _ & _ & Dnn & Htcn)].
  - destruct (finish_size_nf _ K2) as (ns' & Hns'). rewrite Hns' in Hns. discriminate.
  - destruct S2 as (_ & Sa). rewrite <- Sa, Hw2, andb_false_r in Hx. discriminate.
  - rewrite (sys_no_faults no_faults mm CRename eq_refl) in Hren. cbn [exec] in Hren. rewrite Hdir in Hren.
    discriminate.
  - rewrite (finish_entry_done v cfg no_faults _ _ Dnn). rewrite (finish_entry_done v cfg no_faults _ _ Dnn).
    cbn [o_final]. rewrite Htcn. rewrite (finish_size_content _ _ _ K2 Hns).
    f_equal. apply sim_pad. exact S2.
Qed.

End Sim.

(* ------------------------------------------------------------------ the property statements *)
Theorem atomic_at_every_prefix : forall v cfg,
  Forall (old_or_new v cfg) (states cfg (sw_run v cfg no_faults)).
Proof. intros v cfg. exact (old_or_final v cfg no_faults). Qed.

Theorem atomic_under_faults : forall v cfg p,
  fix_write v = true -> fix_lstat v = true -> errno_only p ->
  Forall (old_or_new v cfg) (states cfg (sw_run v cfg p)).
Proof.
  intros v cfg p Hw Hl He.
  pose proof (old_or_final v cfg p) as H. cbn zeta in H.
  eapply Forall_impl; [|exact H]. intros f [Hf|Hf]; [left; exact Hf|].
  destruct (final_old_or_new v cfg p Hw Hl He) as [Hn|Hn]; [left|right]; congruence.
Qed.

Theorem no_temp_left : forall v cfg p,
  fix_mktemp v = true -> fix_finish v = true ->
  unlinks_ok (sw_run v cfg p) = true -> temp_left (final_fs (sw_run v cfg p)) = false.
Proof. exact no_temp_left_fixed. Qed.

(* the target name exists at every crash point (so open(O_CREAT|O_EXCL) of the model never has to create it) *)
Theorem target_always : forall v cfg p,
  Forall (fun f => target_content f <> None) (states cfg (sw_run v cfg p)).
Proof.
  intros v cfg p. pose proof (old_or_final v cfg p) as H. cbn zeta in H.
  pose proof (run_shape v cfg p) as R. cbn zeta in R.
  assert (Hfin : target_content (final_fs (sw_run v cfg p)) <> None).
  { unfold final_fs. destruct R as [(C & _)|(c & Htc & _)].
    - rewrite (closed_target v cfg _ C). discriminate.
    - rewrite Htc. discriminate. }
  eapply Forall_impl; [|exact H]. intros f [Hf|Hf]; rewrite Hf; [discriminate|exact Hfin].
Qed.

Lemma errno_only_plan_of : forall l, forallb (fun x => match snd x with FShort => false | FErr _ => true end) l = true ->
  errno_only (plan_of l).
Proof.
  induction l as [|[i f] l IH]; intros H k; cbn in *.
  - discriminate.
  - apply andb_true_iff in H. destruct H as [H1 H2].
    destruct (Nat.eqb i k); [destruct f; [discriminate|discriminate]|apply IH; exact H2].
Qed.
