(* C04 - lemmas about the FS model: tree access, pruning the target subtree, inode
   occurrences, path resolution along "safe" names, and the confinement of every
   mutating system call whose resolved directory lies under the target. *)
From Coq Require Import List ZArith NArith Bool Lia.
From LA Require Import FS.SanitizeDefs FS.SanitizeProofs FS.FsModel.
Import ListNotations.

(* ------------------------------------------------------------------ strings *)
Lemma str_eqb_sym : forall a b, str_eqb a b = str_eqb b a.
Proof.
  intros a b. destruct (str_eqb a b) eqn:E.
  - apply str_eqb_eq in E. subst. symmetry. apply str_eqb_refl.
  - destruct (str_eqb b a) eqn:E'; [|reflexivity]. apply str_eqb_eq in E'. subst.
    now rewrite str_eqb_refl in E.
Qed.

Lemma str_eqb_neq : forall a b, str_eqb a b = false <-> a <> b.
Proof.
  intros a b. split.
  - intros H ->. now rewrite str_eqb_refl in H.
  - intros H. destruct (str_eqb a b) eqn:E; [|reflexivity]. apply str_eqb_eq in E. congruence.
Qed.

(* ------------------------------------------------------------------ an induction principle for node *)
Section NodeInd.
  Variable P : node -> Prop.
  Hypothesis HL : forall ff i d m t, P (Leaf ff i d m t).
  Hypothesis HS : forall t, P (Symlink t).
  Hypothesis HD : forall es m t, Forall (fun kv => P (snd kv)) es -> P (Dir es m t).
  Fixpoint node_ind2 (n : node) : P n :=
    match n with
    | Leaf ff i d m t => HL ff i d m t
    | Symlink t => HS t
    | Dir es m t =>
        HD es m t ((fix go (l : list (name * node)) : Forall (fun kv => P (snd kv)) l :=
                      match l with
                      | [] => Forall_nil _
                      | kv :: r => Forall_cons kv (node_ind2 (snd kv)) (go r)
                      end) es)
    end.
End NodeInd.

(* ------------------------------------------------------------------ association lists *)
Lemma lookup_map_entry : forall a b g es,
  lookup a (map_entry b g es) =
  if str_eqb a b then option_map g (lookup a es) else lookup a es.
Proof.
  intros a b g es. induction es as [|[k v] r IH]; cbn [map_entry map lookup fst snd].
  - now destruct (str_eqb a b).
  - fold (map_entry b g r). destruct (str_eqb a b) eqn:Eab.
    + apply str_eqb_eq in Eab. subst b. destruct (str_eqb k a) eqn:Eka; cbn [lookup]; rewrite Eka.
      * reflexivity.
      * exact IH.
    + destruct (str_eqb k b) eqn:Ekb; cbn [lookup].
      * destruct (str_eqb k a) eqn:Eka; [|exact IH].
        apply str_eqb_eq in Ekb, Eka. subst. now rewrite str_eqb_refl in Eab.
      * destruct (str_eqb k a); [reflexivity|exact IH].
Qed.

Lemma lookup_app : forall a es es',
  lookup a (es ++ es') = match lookup a es with Some v => Some v | None => lookup a es' end.
Proof.
  intros a es es'. induction es as [|[k v] r IH]; cbn; [reflexivity|].
  destruct (str_eqb k a); [reflexivity|exact IH].
Qed.

Lemma lookup_del_entry : forall a b es,
  lookup a (del_entry b es) = if str_eqb a b then None else lookup a es.
Proof.
  intros a b es. induction es as [|[k v] r IH]; cbn [del_entry filter lookup fst].
  - now destruct (str_eqb a b).
  - fold (del_entry b r). destruct (str_eqb a b) eqn:Eab.
    + apply str_eqb_eq in Eab. subst b. destruct (str_eqb k a) eqn:Eka; cbn [negb lookup].
      * exact IH.
      * now rewrite Eka.
    + destruct (str_eqb k b) eqn:Ekb; cbn [negb lookup].
      * destruct (str_eqb k a) eqn:Eka; [|exact IH].
        apply str_eqb_eq in Ekb, Eka. subst. now rewrite str_eqb_refl in Eab.
      * destruct (str_eqb k a); [reflexivity|exact IH].
Qed.

Lemma map_entry_compose : forall k g h es,
  map_entry k g (map_entry k h es) = map_entry k (fun c => g (h c)) es.
Proof.
  intros k g h es. unfold map_entry. rewrite map_map. apply map_ext. intros [a v]. cbn [fst snd].
  destruct (str_eqb a k) eqn:E; cbn [fst snd]; now rewrite E.
Qed.

Lemma map_entry_ext : forall k g h es, (forall c, g c = h c) -> map_entry k g es = map_entry k h es.
Proof.
  intros k g h es H. unfold map_entry. apply map_ext. intros [a v]. cbn. now rewrite H.
Qed.

(* ------------------------------------------------------------------ prune: everything that is not under T *)
Fixpoint prune (T : list name) (n : node) : node :=
  match T with
  | [] => Symlink []
  | k :: T' => match n with
               | Dir es m t => Dir (map_entry k (prune T') es) m t
               | x => x
               end
  end.

Lemma prune_upd : forall T P f n, prune T (upd (T ++ P) f n) = prune T n.
Proof.
  induction T as [|k T IH]; intros P f n; [reflexivity|].
  cbn [app upd prune]. destruct n as [| es m t |]; try reflexivity.
  f_equal. rewrite map_entry_compose. apply map_entry_ext. intros c. apply IH.
Qed.

Definition is_prefix (T p : list name) : Prop := exists P, p = T ++ P.

Lemma prune_upd_under : forall T p f n, is_prefix T p -> prune T (upd p f n) = prune T n.
Proof. intros T p f n [P ->]. apply prune_upd. Qed.

Lemma is_prefix_refl : forall T, is_prefix T T.
Proof. intros T. exists []. now rewrite app_nil_r. Qed.
Lemma is_prefix_app : forall T p x, is_prefix T p -> is_prefix T (p ++ x).
Proof. intros T p x [P ->]. exists (P ++ x). now rewrite app_assoc. Qed.

(* ------------------------------------------------------------------ get / upd *)
Definition is_dir_opt (o : option node) : Prop := exists es m t, o = Some (Dir es m t).
Definition dir_or_none (o : option node) : Prop :=
  match o with Some (Dir _ _ _) | None => True | Some _ => False end.

Lemma get_app : forall p p' n, get (p ++ p') n = match get p n with Some c => get p' c | None => None end.
Proof.
  induction p as [|k p IH]; intros p' n; [reflexivity|].
  cbn [app get]. destruct n as [| es m t |]; try reflexivity.
  destruct (lookup k es); [apply IH|reflexivity].
Qed.

Lemma get_snoc_dir : forall p k n es m t,
  get p n = Some (Dir es m t) -> get (p ++ [k]) n = lookup k es.
Proof. intros. rewrite get_app, H. cbn. now destruct (lookup k es). Qed.

(* functions that keep the kind of a node (directory or not) *)
Definition kindp (f : node -> node) : Prop :=
  forall n, match n, f n with
            | Dir _ _ _, Dir _ _ _ => True
            | Dir _ _ _, _ => False
            | x, y => x = y
            end.

Lemma dir_or_none_get_upd_kindp : forall d f P n,
  kindp f ->
  (forall P' m, P = d ++ P' -> P' <> [] -> dir_or_none (get P' m) -> dir_or_none (get P' (f m))) ->
  dir_or_none (get P n) -> dir_or_none (get P (upd d f n)).
Proof.
  induction d as [|b d IH]; intros f P n Hk Hf H.
  - cbn [upd]. destruct P as [|a P'].
    + cbn [get] in *. specialize (Hk n). destruct n as [ff i dd m t|es m t|tg]; cbn in H; try tauto.
    + apply (Hf (a :: P') n); [reflexivity|discriminate|exact H].
  - cbn [upd]. destruct n as [| es m t |]; try exact H.
    destruct P as [|a P']; [exact I|].
    cbn [get] in *. rewrite lookup_map_entry.
    destruct (str_eqb a b) eqn:Eab; [|exact H].
    destruct (lookup a es) as [c|]; cbn [option_map]; [|exact I].
    apply IH; [exact Hk| |exact H].
    intros P'' m0 -> Hne. apply str_eqb_eq in Eab. subst a.
    apply (Hf P'' m0); [reflexivity|exact Hne].
Qed.

(* removing an entry never turns a Dir-or-missing path into something else *)
Lemma dir_or_none_del_ent : forall d k P r,
  dir_or_none (get P r) -> dir_or_none (get P (del_ent d k r)).
Proof.
  intros d k P r H. unfold del_ent. apply dir_or_none_get_upd_kindp; [| |exact H].
  - intros n. destruct n; cbn; auto.
  - intros P' m _ Hne Hm. destruct m as [| es mm t |]; try exact Hm.
    destruct P' as [|a P'']; [congruence|]. cbn [get] in *. rewrite lookup_del_entry.
    destruct (str_eqb a k); [exact I|exact Hm].
Qed.

(* adding an entry v at (d, k): Dir-or-missing is kept on every path other than d ++ [k];
   on d ++ [k] itself too when v is a directory *)
Lemma dir_or_none_add_ent : forall d k v P r,
  (P <> d ++ [k] \/ exists es m t, v = Dir es m t) ->
  (forall a P', dir_or_none (get (a :: P') v)) ->
  dir_or_none (get P r) -> dir_or_none (get P (add_ent d k v r)).
Proof.
  intros d k v P r Hcond Hv H. unfold add_ent. apply dir_or_none_get_upd_kindp; [| |exact H].
  - intros n. destruct n; cbn; auto.
  - intros P' m HP Hne Hm. destruct m as [| es mm t |]; try exact Hm.
    destruct P' as [|a P'']; [congruence|]. cbn [get] in *. rewrite lookup_app.
    destruct (lookup a es) as [c|]; [exact Hm|]. cbn [lookup].
    destruct (str_eqb k a) eqn:Eka; [|exact I].
    apply str_eqb_eq in Eka. subst a.
    destruct P'' as [|a' P3].
    + cbn [get]. destruct Hcond as [Hc|(es' & m' & t' & ->)]; [|exact I]. subst P. congruence.
    + apply Hv.
Qed.

Lemma dir_or_none_upd_attr : forall d f P r,
  kindp f -> (forall n a P', get (a :: P') (f n) = get (a :: P') n) ->
  dir_or_none (get P r) -> dir_or_none (get P (upd d f r)).
Proof.
  intros d f P r Hk Hf H. apply dir_or_none_get_upd_kindp; [exact Hk| |exact H].
  intros P' m _ Hne Hm. destruct P' as [|a P'']; [congruence|]. now rewrite Hf.
Qed.

(* is_dir at a path is kept by kind-preserving updates anywhere *)
Lemma is_dir_get_upd : forall d f P r,
  kindp f ->
  (forall P' m, P = d ++ P' -> P' <> [] -> is_dir_opt (get P' m) -> is_dir_opt (get P' (f m))) ->
  is_dir_opt (get P r) -> is_dir_opt (get P (upd d f r)).
Proof.
  induction d as [|b d IH]; intros f P n Hk Hf H.
  - cbn [upd]. destruct P as [|a P'].
    + cbn [get] in *. destruct H as (es & m & t & H). injection H as ->.
      specialize (Hk (Dir es m t)). cbn in Hk. destruct (f (Dir es m t)); try tauto. now exists ents, mode, mtime.
    + apply (Hf (a :: P') n); [reflexivity|discriminate|exact H].
  - cbn [upd]. destruct n as [| es m t |]; try exact H.
    destruct P as [|a P']; [now exists (map_entry b (upd d f) es), m, t|].
    cbn [get] in *. rewrite lookup_map_entry.
    destruct (str_eqb a b) eqn:Eab; [|exact H].
    destruct (lookup a es) as [c|]; cbn [option_map]; [|exact H].
    apply IH; [exact Hk| |exact H].
    intros P'' m0 -> Hne. apply str_eqb_eq in Eab. subst a.
    apply (Hf P'' m0); [reflexivity|exact Hne].
Qed.

(* ------------------------------------------------------------------ inode occurrences *)
Fixpoint allin (O : N -> Prop) (n : node) : Prop :=
  match n with
  | Leaf _ i _ _ _ => O i
  | Dir es _ _ => (fix go (l : list (name * node)) : Prop :=
                     match l with [] => True | kv :: r => allin O (snd kv) /\ go r end) es
  | Symlink _ => True
  end.

Lemma allin_dir : forall O es m t, allin O (Dir es m t) <-> Forall (fun kv => allin O (snd kv)) es.
Proof.
  intros O es m t. cbn [allin]. induction es as [|kv r IH].
  - split; intros; [constructor|exact I].
  - split.
    + intros [H1 H2]. constructor; [exact H1|now apply IH].
    + intros H. inversion H; subst. split; [assumption|now apply IH].
Qed.

Lemma allin_lookup : forall O es m t k c, allin O (Dir es m t) -> lookup k es = Some c -> allin O c.
Proof.
  intros O es m t k c H. apply allin_dir in H. induction es as [|[a v] r IH]; cbn; [discriminate|].
  inversion H; subst. destruct (str_eqb a k); [intros [= <-]; assumption|now apply IH].
Qed.

Lemma allin_get : forall O p n c, allin O n -> get p n = Some c -> allin O c.
Proof.
  intros O. induction p as [|k p IH]; intros n c H Hg.
  - now injection Hg as <-.
  - cbn [get] in Hg. destruct n as [| es m t |]; try discriminate.
    destruct (lookup k es) as [c'|] eqn:E; [|discriminate].
    apply (IH c'); [|exact Hg]. eapply allin_lookup; eauto.
Qed.

Lemma allin_map_entry : forall O k f es,
  Forall (fun kv => allin O (snd kv)) es -> (forall c, allin O c -> allin O (f c)) ->
  Forall (fun kv => allin O (snd kv)) (map_entry k f es).
Proof.
  intros O k f es H Hf. unfold map_entry. induction H as [|[a v] r Hv Hr IH]; cbn; constructor.
  - destruct (str_eqb a k); cbn; [now apply Hf|assumption].
  - exact IH.
Qed.

Lemma allin_upd : forall O p f n, allin O n -> (forall c, allin O c -> allin O (f c)) -> allin O (upd p f n).
Proof.
  intros O. induction p as [|k p IH]; intros f n H Hf; [now apply Hf|].
  cbn [upd]. destruct n as [| es m t |]; try exact H.
  apply allin_dir. apply allin_map_entry; [now apply allin_dir in H|].
  intros c Hc. now apply IH.
Qed.

(* a leaf whose inode is not i is not touched by map_ino i *)
Lemma map_ino_id : forall O i f n, allin O n -> ~ O i -> map_ino i f n = n.
Proof.
  intros O i f. induction n as [ff j d m t | tg | es m t IH] using node_ind2; intros H Hi.
  - cbn in *. destruct (N.eqb_spec j i); [subst; tauto|reflexivity].
  - reflexivity.
  - cbn [map_ino]. f_equal. apply allin_dir in H.
    induction es as [|[k c] r IHr]; [reflexivity|].
    inversion IH; subst. inversion H; subst. cbn [map]. f_equal.
    + f_equal. now apply H2.
    + now apply IHr.
Qed.

Lemma allin_map_ino : forall O i f n, allin O n -> allin O (map_ino i f n).
Proof.
  intros O i f. induction n as [ff j d m t | tg | es m t IH] using node_ind2; intros H.
  - cbn [map_ino]. destruct (j =? i)%N; [|exact H]. destruct (f (d, m, t)) as [[d' m'] t']. exact H.
  - exact H.
  - cbn [map_ino]. apply allin_dir. apply allin_dir in H.
    induction es as [|[k c] r IHr]; [constructor|].
    inversion IH; subst. inversion H; subst. cbn [map]. constructor; [now apply H2|now apply IHr].
Qed.

Lemma prune_map_ino : forall T i f n, prune T (map_ino i f n) = map_ino i f (prune T n).
Proof.
  induction T as [|k T IH]; intros i f n; [reflexivity|].
  destruct n as [ff j d m t | es m t | tg].
  - cbn [map_ino prune]. destruct (j =? i)%N; [|reflexivity]. now destruct (f (d, m, t)) as [[? ?] ?].
  - cbn [map_ino prune]. f_equal. unfold map_entry. rewrite !map_map. apply map_ext.
    intros [a c]. cbn [fst snd]. destruct (str_eqb a k); cbn [fst snd]; [now rewrite IH|reflexivity].
  - reflexivity.
Qed.

Lemma get_map_ino : forall p i f n,
  get p (map_ino i f n) = option_map (map_ino i f) (get p n).
Proof.
  induction p as [|k p IH]; intros i f n; [reflexivity|].
  destruct n as [ff j d m t | es m t | tg].
  - cbn [map_ino]. destruct (j =? i)%N; [|reflexivity]. now destruct (f (d, m, t)) as [[? ?] ?].
  - cbn [map_ino get].
    assert (L : lookup k (map (fun kv => match kv with (k0, c) => (k0, map_ino i f c) end) es)
                = option_map (map_ino i f) (lookup k es)).
    { induction es as [|[a c] r IHr]; [reflexivity|]. cbn. destruct (str_eqb a k); [reflexivity|exact IHr]. }
    rewrite L. destruct (lookup k es); cbn [option_map]; [apply IH|reflexivity].
  - reflexivity.
Qed.

Lemma dir_or_none_map_ino : forall p i f n,
  dir_or_none (get p n) -> dir_or_none (get p (map_ino i f n)).
Proof.
  intros p i f n H. rewrite get_map_ino. destruct (get p n) as [c|]; [|exact I].
  destruct c as [ff j d m t| |]; cbn in *; try tauto.
Qed.

Lemma is_dir_map_ino : forall p i f n,
  is_dir_opt (get p n) -> is_dir_opt (get p (map_ino i f n)).
Proof.
  intros p i f n (es & m & t & H). rewrite get_map_ino, H. cbn. eexists _, _, _. reflexivity.
Qed.

(* ------------------------------------------------------------------ "no symlink at this path" *)
Definition nosym (o : option node) : Prop := forall t, o <> Some (Symlink t).

Lemma get_upd_pres : forall (Q : option node -> Prop),
  (forall es es' m t, Q (Some (Dir es m t)) -> Q (Some (Dir es' m t))) ->
  forall d f P n,
  (forall P' m, P = d ++ P' -> Q (get P' m) -> Q (get P' (f m))) ->
  Q (get P n) -> Q (get P (upd d f n)).
Proof.
  intros Q HQ. induction d as [|b d IH]; intros f P n Hf H.
  - cbn [upd]. now apply (Hf P n).
  - cbn [upd]. destruct n as [| es m t |]; try exact H.
    destruct P as [|a P']; [cbn [get] in *; eapply HQ; exact H|].
    cbn [get] in *. rewrite lookup_map_entry.
    destruct (str_eqb a b) eqn:Eab; [|exact H].
    destruct (lookup a es) as [c|]; cbn [option_map]; [|exact H].
    apply IH; [|exact H].
    intros P'' m0 ->. apply str_eqb_eq in Eab. subst a. now apply (Hf P'' m0).
Qed.

Lemma nosym_map_ino : forall p i f n, nosym (get p n) -> nosym (get p (map_ino i f n)).
Proof.
  intros p i f n H t. rewrite get_map_ino. destruct (get p n) as [c|] eqn:E; [|discriminate].
  cbn [option_map]. destruct c as [ff j d m tt| |tg].
  - cbn [map_ino]. destruct (j =? i)%N; [|discriminate]. destruct (f (d, m, tt)) as [[? ?] ?]. discriminate.
  - discriminate.
  - exfalso. now apply (H tg).
Qed.

(* ------------------------------------------------------------------ the step relation of one confined operation *)
(* T target, O the inodes that occur outside, D a depth: non-directories are only ever added at
   depth D (so every shorter path that was a directory or missing stays so); sy = false: no
   symbolic link was added anywhere *)
Definition inclean (T : list name) (O : N -> Prop) (r : node) : Prop :=
  forall n, get T r = Some n -> allin (fun i => ~ O i) n.

Record ext (T : list name) (O : N -> Prop) (D : nat) (sy : bool) (fs fs' : fsys) : Prop := mkExt {
  ext_prune : prune T (root fs') = prune T (root fs);
  ext_nino : (nino fs <= nino fs')%N;
  ext_dir : forall P, is_prefix P T -> is_dir_opt (get P (root fs)) -> is_dir_opt (get P (root fs'));
  ext_clean : (forall i, O i -> (i < nino fs)%N) -> inclean T O (root fs) -> inclean T O (root fs');
  ext_safe : forall P, (length P < D)%nat -> dir_or_none (get P (root fs)) -> dir_or_none (get P (root fs'));
  ext_nosym : sy = false -> forall P, nosym (get P (root fs)) -> nosym (get P (root fs')) }.

Lemma ext_refl : forall T O D sy fs, ext T O D sy fs fs.
Proof. intros. constructor; auto. apply N.le_refl. Qed.

Lemma ext_trans : forall T O D s1 s2 a b c, ext T O D s1 a b -> ext T O D s2 b c -> ext T O D (s1 || s2) a c.
Proof.
  intros T O D s1 s2 a b c [p1 n1 d1 c1 f1 y1] [p2 n2 d2 c2 f2 y2]. constructor.
  - congruence.
  - eapply N.le_trans; eauto.
  - auto.
  - intros Hb Hc. apply c2; [|now apply c1]. intros i Hi. eapply N.lt_le_trans; [now apply Hb|assumption].
  - auto.
  - intros Hs. apply orb_false_elim in Hs as [-> ->]. auto.
Qed.

Lemma ext_weaken : forall T O D sy a b, ext T O D false a b -> ext T O D sy a b.
Proof. intros T O D sy a b [p n d c f y]. constructor; auto. Qed.

Lemma ext_trans_f : forall T O D a b c, ext T O D false a b -> ext T O D false b c -> ext T O D false a c.
Proof. intros. change false with (false || false). eapply ext_trans; eauto. Qed.

(* get T after an update at T ++ P *)
Lemma get_upd_under : forall T P f n, get T (upd (T ++ P) f n) = option_map (upd P f) (get T n).
Proof.
  induction T as [|k T IH]; intros P f n; [reflexivity|].
  cbn [app upd get]. destruct n as [| es m t |]; try reflexivity.
  rewrite lookup_map_entry, str_eqb_refl. destruct (lookup k es); cbn [option_map]; [apply IH|reflexivity].
Qed.

Lemma prefix_absurd : forall (P T d P' : list name),
  is_prefix P T -> is_prefix T d -> P = d ++ P' -> P' <> [] -> False.
Proof.
  intros P T d P' [Y ->] [X ->] H Hne. apply (f_equal (@length name)) in H.
  rewrite !app_length in H. destruct P'; [congruence|cbn in H; lia].
Qed.

(* updates below T with a kind-preserving, inode-respecting function *)
Lemma ext_upd : forall T O D sy fs p f,
  is_prefix T p -> kindp f ->
  (forall c, allin (fun i => ~ O i) c -> allin (fun i => ~ O i) (f c)) ->
  (forall P P' m, P = p ++ P' -> P' <> [] -> (length P < D)%nat ->
                  dir_or_none (get P' m) -> dir_or_none (get P' (f m))) ->
  (sy = false -> forall P' m, nosym (get P' m) -> nosym (get P' (f m))) ->
  ext T O D sy fs (mkFs (upd p f (root fs)) (nino fs)).
Proof.
  intros T O D sy fs p f Hp Hk Ha Hs Hy. constructor; cbn [root nino].
  - now apply prune_upd_under.
  - apply N.le_refl.
  - intros P HP H. apply is_dir_get_upd; [exact Hk| |exact H]. intros P' m HPe Hne.
    exfalso. eapply prefix_absurd; eauto.
  - intros _ Hc n Hn. destruct Hp as [P' ->]. rewrite get_upd_under in Hn.
    destruct (get T (root fs)) as [c|] eqn:E; [|discriminate]. injection Hn as <-.
    apply allin_upd; [now apply Hc|exact Ha].
  - intros P HP H. apply dir_or_none_get_upd_kindp; [exact Hk| |exact H].
    intros P' m -> Hne. now apply (Hs (p ++ P') P' m).
  - intros Hsy P H. apply (get_upd_pres nosym); [intros; discriminate| |exact H].
    intros P' m _. now apply Hy.
Qed.

Lemma kindp_dirfun : forall g : list (name * node) -> N -> Z -> node,
  (forall es m t, exists es' m' t', g es m t = Dir es' m' t') ->
  kindp (fun n => match n with Dir es m t => g es m t | x => x end).
Proof.
  intros g Hg n. destruct n as [| es m t |]; cbn; auto.
  destruct (Hg es m t) as (es' & m' & t' & ->). exact I.
Qed.

Definition not_symlink (v : node) : Prop := forall t, v <> Symlink t.

(* adding an entry below T *)
Lemma ext_add_ent : forall T O D sy fs d k v ni,
  is_prefix T d -> (nino fs <= ni)%N ->
  allin (fun i => ~ O i) v ->
  (forall a P', get (a :: P') v = None) ->
  ((length d + 1 = D)%nat \/ exists es m t, v = Dir es m t) ->
  (sy = false -> not_symlink v) ->
  ext T O D sy fs (mkFs (add_ent d k v (root fs)) ni).
Proof.
  intros T O D sy fs d k v ni Hd Hni Hv Hvsub Hdepth Hvsym.
  assert (E : ext T O D sy fs (mkFs (add_ent d k v (root fs)) (nino fs))).
  2:{ destruct E as [p n dd c f y]. constructor; cbn [root nino] in *; auto. }
  unfold add_ent. apply ext_upd.
  - exact Hd.
  - apply kindp_dirfun. intros. eexists _, _, _. reflexivity.
  - intros c Hc. destruct c as [| es m t |]; try exact Hc.
    apply allin_dir. apply allin_dir in Hc. apply Forall_app. split; [exact Hc|].
    constructor; [exact Hv|constructor].
  - intros P P' m HP Hne HD Hm. destruct m as [| es mm t |]; try exact Hm.
    destruct P' as [|a P'']; [congruence|]. cbn [get] in Hm |- *. rewrite lookup_app.
    destruct (lookup a es) as [c|]; [exact Hm|]. cbn [lookup].
    destruct (str_eqb k a) eqn:Eka; [|exact I].
    destruct P'' as [|a' P3]; [|now rewrite Hvsub].
    cbn [get]. destruct Hdepth as [Hdep|(es' & m' & t' & ->)]; [|exact I].
    subst P. rewrite app_length in HD. cbn [length] in HD. lia.
  - intros Hsy P' m Hm. destruct m as [| es mm t |]; try exact Hm.
    destruct P' as [|a P'']; [intros ?; discriminate|]. cbn [get] in Hm |- *. rewrite lookup_app.
    destruct (lookup a es) as [c|]; [exact Hm|]. cbn [lookup].
    destruct (str_eqb k a) eqn:Eka; [|intros ?; discriminate].
    destruct P'' as [|a' P3]; [|rewrite Hvsub; intros ?; discriminate].
    cbn [get]. intros t0 [= E]. exact (Hvsym Hsy t0 E).
Qed.

Lemma ext_del_ent : forall T O D fs d k,
  is_prefix T d ->
  ext T O D false fs (mkFs (del_ent d k (root fs)) (nino fs)).
Proof.
  intros T O D fs d k Hd. unfold del_ent. apply ext_upd.
  - exact Hd.
  - apply kindp_dirfun. intros. eexists _, _, _. reflexivity.
  - intros c' Hc'. destruct c' as [| es m t |]; try exact Hc'.
    apply allin_dir. apply allin_dir in Hc'. unfold del_entry.
    rewrite Forall_forall in *. intros x Hx. apply filter_In in Hx as [Hx _]. now apply Hc'.
  - intros P P' m _ Hne _ Hm. destruct m as [| es mm t |]; try exact Hm.
    destruct P' as [|a P'']; [congruence|]. cbn [get] in *. rewrite lookup_del_entry.
    destruct (str_eqb a k); [exact I|exact Hm].
  - intros _ P' m Hm. destruct m as [| es mm t |]; try exact Hm.
    destruct P' as [|a P'']; [intros ?; discriminate|]. cbn [get] in *. rewrite lookup_del_entry.
    destruct (str_eqb a k); [intros ?; discriminate|exact Hm].
Qed.

(* attribute changes on a directory below T *)
Lemma ext_upd_attr : forall T O D fs p (g : N -> Z -> N * Z),
  is_prefix T p ->
  ext T O D false fs (mkFs (upd p (fun n => match n with Dir es m t => Dir es (fst (g m t)) (snd (g m t)) | x => x end) (root fs)) (nino fs)).
Proof.
  intros T O D fs p g Hp. apply ext_upd.
  - exact Hp.
  - apply kindp_dirfun. intros. eexists _, _, _. reflexivity.
  - intros c Hc. destruct c as [| es m t |]; exact Hc.
  - intros P P' m _ Hne _ Hm. destruct m as [| es mm t |]; try exact Hm.
    destruct P' as [|a P'']; [congruence|]. exact Hm.
  - intros _ P' m Hm. destruct m as [| es mm t |]; try exact Hm.
    destruct P' as [|a P'']; [intros ?; discriminate|exact Hm].
Qed.

(* attribute writes through an inode that does not occur outside *)
Lemma ext_map_ino : forall T O D fs i f,
  allin O (prune T (root fs)) -> ~ O i ->
  ext T O D false fs (mkFs (map_ino i f (root fs)) (nino fs)).
Proof.
  intros T O D fs i f Hout Hi. constructor; cbn [root nino].
  - rewrite prune_map_ino. eapply map_ino_id; eauto.
  - apply N.le_refl.
  - intros P _ H. now apply is_dir_map_ino.
  - intros _ Hc n Hn. rewrite get_map_ino in Hn.
    destruct (get T (root fs)) as [c|] eqn:E; [|discriminate]. injection Hn as <-.
    apply allin_map_ino. now apply Hc.
  - intros P _ H. now apply dir_or_none_map_ino.
  - intros _ P H. now apply nosym_map_ino.
Qed.
