(* Executable model of the directory walker of libarchive/archive_read_disk_posix.c
   (struct tree: tree_open/tree_reopen, tree_push, tree_append, tree_descent, tree_ascend, tree_pop,
   tree_next, tree_dir_next_posix, tree_current_lstat, tree_current_is_physical_dir), of the part of
   next_entry() that drives it, of archive_read_disk_descend(), and of a client loop in the style of
   tar/write.c:write_hierarchy (metadata_filter calls archive_read_disk_descend for every entry the
   policy accepts).  Definitions only; lemmas are in TreeWalkProofs.v.

   The file system is an abstract finite tree.  A directory file descriptor (working_dir_fd,
   symlink_parent_fd) is a zipper: the child list of the directory it refers to followed by the
   child lists of its ancestors up to the initial directory; openat(fd, name, O_DIRECTORY) looks
   [name] up in the head, openat(fd, "..") drops the head.  readdir returns "." and ".." first and
   then the children in list order (the harness gives the model the order the real readdir used).

   What is NOT modelled: symlink modes L and H (physical mode only: symbolic links are leaves),
   traversal filters (archive_match), mount-point checks, nodump, restore_time/atime restoration,
   openCount, entries that vanish between readdir and lstat other than through the lookup failing,
   failure of fdopendir on a valid descriptor, errno values. *)
From Coq Require Import List ZArith NArith Bool Arith.
From LA Require Import Base.Val Gen.Defines Entry.LinksDefs.
Import ListNotations.

(* ------------------------------------------------------------------ the abstract file system *)
Inductive tnode : Type :=
| F (name : bytes) (ino : N) (content : bytes)      (* regular file; equal ino = hard links *)
| D (name : bytes) (children : list tnode)          (* directory *)
| L (name : bytes) (target : bytes)                 (* symbolic link *)
| X (name : bytes) (ftype : N).                     (* fifo, socket, device node: leaves *)

Definition nname (n : tnode) : bytes :=
  match n with F x _ _ | D x _ | L x _ | X x _ => x end.
Definition is_dir (n : tnode) : bool := match n with D _ _ => true | _ => false end.
Definition children_of (n : tnode) : list tnode := match n with D _ c => c | _ => [] end.

Fixpoint bytes_eqb (a b : bytes) : bool :=
  match a, b with
  | [], [] => true
  | x :: a', y :: b' => N.eqb x y && bytes_eqb a' b'
  | _, _ => false
  end.

Definition slash : N := 47.
Definition dot : bytes := [46%N].
Definition dotdot : bytes := [46%N; 46%N].

(* fstatat(dirfd, name, AT_SYMLINK_NOFOLLOW): first child with that name *)
Definition lookup (name : bytes) (cs : list tnode) : option tnode :=
  find (fun c => bytes_eqb (nname c) name) cs.

(* a directory descriptor *)
Definition dirfd := list (list tnode).

Definition openat_dir (fd : dirfd) (name : bytes) : option dirfd :=
  match fd with
  | [] => None
  | cs :: up =>
    match lookup name cs with
    | Some (D _ sub) => Some (sub :: cs :: up)
    | _ => None                      (* ENOENT / ENOTDIR (O_DIRECTORY) *)
    end
  end.

(* openat(fd, "..") : the parent of the initial directory is outside the model *)
Definition openat_parent (fd : dirfd) : option dirfd :=
  match fd with
  | _ :: p :: up => Some (p :: up)
  | _ => None
  end.

(* ------------------------------------------------------------------ struct tree_entry / struct tree *)
Record tflags := mkFl {
  isDir : bool; isDirLink : bool;
  needsFirstVisit : bool; needsDescent : bool; needsOpen : bool; needsAscent : bool }.

Record tentry := mkTe {
  te_id : nat;                    (* identity (the address of the calloc'ed block) *)
  te_parents : list nat;          (* te->parent, te->parent->parent, ... (never change after tree_push) *)
  te_name : bytes;
  te_flags : tflags;
  te_dirname_length : nat;
  te_symlink_parent_fd : option dirfd }.

Definition TREE_REGULAR : Z := 1.
Definition TREE_POSTDESCENT : Z := 2.
Definition TREE_POSTASCENT : Z := 3.
Definition TREE_ERROR_DIR : Z := -1.
Definition TREE_ERROR_FATAL : Z := -2.

Record tstate := mkT {
  stack : list tentry;
  current : option (nat * list nat);     (* t->current: its id and its chain of parents *)
  dirh : option (list bytes);            (* t->d: names readdir has not returned yet; None = INVALID_DIR_HANDLE *)
  lst : option tnode;                    (* Some = hasLstat with the cached t->lst *)
  path : bytes;                          (* t->path *)
  basename : bytes;                      (* the string t->basename points at *)
  dirname_length : nat;
  depth : nat;
  wd : dirfd;                            (* working_dir_fd *)
  visit_type : Z;
  descend : bool;
  next_id : nat }.

Definition set_stack (t : tstate) (s : list tentry) : tstate :=
  mkT s (current t) (dirh t) (lst t) (path t) (basename t) (dirname_length t) (depth t) (wd t)
      (visit_type t) (descend t) (next_id t).
Definition set_current (t : tstate) (c : option (nat * list nat)) : tstate :=
  mkT (stack t) c (dirh t) (lst t) (path t) (basename t) (dirname_length t) (depth t) (wd t)
      (visit_type t) (descend t) (next_id t).
Definition set_dirh (t : tstate) (d : option (list bytes)) : tstate :=
  mkT (stack t) (current t) d (lst t) (path t) (basename t) (dirname_length t) (depth t) (wd t)
      (visit_type t) (descend t) (next_id t).
Definition set_lst (t : tstate) (l : option tnode) : tstate :=
  mkT (stack t) (current t) (dirh t) l (path t) (basename t) (dirname_length t) (depth t) (wd t)
      (visit_type t) (descend t) (next_id t).
Definition set_path (t : tstate) (p b : bytes) : tstate :=
  mkT (stack t) (current t) (dirh t) (lst t) p b (dirname_length t) (depth t) (wd t)
      (visit_type t) (descend t) (next_id t).
Definition set_dirname_length (t : tstate) (n : nat) : tstate :=
  mkT (stack t) (current t) (dirh t) (lst t) (path t) (basename t) n (depth t) (wd t)
      (visit_type t) (descend t) (next_id t).
Definition set_wd (t : tstate) (w : dirfd) (dp : nat) : tstate :=
  mkT (stack t) (current t) (dirh t) (lst t) (path t) (basename t) (dirname_length t) dp w
      (visit_type t) (descend t) (next_id t).
Definition set_visit (t : tstate) (v : Z) : tstate :=
  mkT (stack t) (current t) (dirh t) (lst t) (path t) (basename t) (dirname_length t) (depth t) (wd t)
      v (descend t) (next_id t).
Definition set_descend (t : tstate) (b : bool) : tstate :=
  mkT (stack t) (current t) (dirh t) (lst t) (path t) (basename t) (dirname_length t) (depth t) (wd t)
      (visit_type t) b (next_id t).
Definition set_next_id (t : tstate) (n : nat) : tstate :=
  mkT (stack t) (current t) (dirh t) (lst t) (path t) (basename t) (dirname_length t) (depth t) (wd t)
      (visit_type t) (descend t) n.

Definition set_te_flags (e : tentry) (f : tflags) : tentry :=
  mkTe (te_id e) (te_parents e) (te_name e) f (te_dirname_length e) (te_symlink_parent_fd e).
Definition set_te_symfd (e : tentry) (s : option dirfd) : tentry :=
  mkTe (te_id e) (te_parents e) (te_name e) (te_flags e) (te_dirname_length e) s.

Definition clr_first (f : tflags) := mkFl (isDir f) (isDirLink f) false (needsDescent f) (needsOpen f) (needsAscent f).
Definition clr_descent (f : tflags) := mkFl (isDir f) (isDirLink f) (needsFirstVisit f) false (needsOpen f) (needsAscent f).
Definition clr_open (f : tflags) := mkFl (isDir f) (isDirLink f) (needsFirstVisit f) (needsDescent f) false (needsAscent f).

(* ------------------------------------------------------------------ tree_append *)
(* while (name_length > 1 && name[name_length - 1] == '/') name_length--;  on the reversed name *)
Fixpoint strip_rev (r : bytes) : bytes :=
  match r with
  | c :: ((_ :: _) as tl) => if N.eqb c slash then strip_rev tl else r
  | _ => r
  end.
Definition strip_slashes (n : bytes) : bytes := rev (strip_rev (rev n)).

Definition tree_append (t : tstate) (name : bytes) : tstate :=
  let p0 := firstn (dirname_length t) (path t) in
  let nm := strip_slashes name in
  let p1 := if (0 <? dirname_length t)%nat && negb (N.eqb (last p0 0%N) slash) then p0 ++ [slash] else p0 in
  set_path t (p1 ++ nm) nm.

(* ------------------------------------------------------------------ tree_push *)
Definition tree_push (t : tstate) (name : bytes) : tstate :=
  let parents := match current t with Some (i, ps) => i :: ps | None => [] end in
  let te := mkTe (next_id t) parents name (mkFl false false false true true true)
                 (dirname_length t) None in
  set_next_id (set_stack t (te :: stack t)) (S (next_id t)).

(* tree_reopen: one entry that only needs its first visit; the initial directory holds [fs] *)
Definition tree_open (top : bytes) (fs : list tnode) : tstate :=
  mkT [mkTe 0 [] top (mkFl false false true false false false) 0 None]
      None None None [] [] 0 0 [fs] 0 false 1.

(* ------------------------------------------------------------------ tree_descent / tree_ascend / tree_pop *)
(* returns 0 or TREE_ERROR_DIR; stack must be non-empty (callers guarantee it) *)
Definition tree_descent (t : tstate) : tstate * Z :=
  let t := set_dirname_length t (length (path t)) in
  match stack t with
  | [] => (t, TREE_ERROR_DIR)
  | te :: rest =>
    match openat_dir (wd t) (te_name te) with
    | None => (t, TREE_ERROR_DIR)
    | Some nfd =>
      let te' := if isDirLink (te_flags te) then set_te_symfd te (Some (wd t)) else te in
      (set_wd (set_stack t (te' :: rest)) nfd (S (depth t)), 0%Z)
    end
  end.

Definition tree_ascend (t : tstate) : tstate * Z :=
  match stack t with
  | [] => (t, TREE_ERROR_FATAL)
  | te :: rest =>
    let nfd := if isDirLink (te_flags te) then te_symlink_parent_fd te else openat_parent (wd t) in
    match nfd with
    | None => (t, TREE_ERROR_FATAL)
    | Some w =>
      let te' := if isDirLink (te_flags te) then set_te_symfd te None else te in
      (set_wd (set_stack t (te' :: rest)) w (pred (depth t)), 0%Z)
    end
  end.

Fixpoint skip_slashes (b : bytes) : bytes :=
  match b with
  | c :: tl => if N.eqb c slash then skip_slashes tl else b
  | [] => []
  end.

Definition tree_pop (t : tstate) : tstate :=
  match stack t with
  | [] => t
  | te :: rest =>
    let p := firstn (dirname_length t) (path t) in
    let cur := match current t with
               | Some (i, ps) =>
                 if Nat.eqb i (te_id te) then
                   match ps with [] => None | q :: qs => Some (q, qs) end
                 else current t
               | None => None
               end in
    let t1 := set_current (set_stack t rest) cur in
    let t2 := set_dirname_length t1 (te_dirname_length te) in
    set_path t2 p (skip_slashes (skipn (te_dirname_length te) p))
  end.

(* ------------------------------------------------------------------ tree_dir_next_posix *)
(* the for(;;) over readdir once the handle is open *)
Fixpoint read_loop (names : list bytes) (t : tstate) : tstate * Z :=
  match names with
  | [] => (set_dirh t None, 0%Z)                      (* readdir == NULL, errno 0: closedir *)
  | n :: rest =>
    let t := set_lst t None in                        (* t->flags &= ~hasLstat; &= ~hasStat *)
    if bytes_eqb n dot then read_loop rest t
    else if bytes_eqb n dotdot then read_loop rest t
    else (set_visit (tree_append (set_dirh t (Some rest)) n) TREE_REGULAR, TREE_REGULAR)
  end.

Definition tree_dir_next (t : tstate) : tstate * Z :=
  match dirh t with
  | Some names => read_loop names t
  | None =>
    match wd t with
    | [] =>                                           (* fdopendir failed *)
      let '(t1, r) := tree_ascend t in
      let t2 := tree_pop t1 in
      let v := if Z.eqb r 0 then TREE_ERROR_DIR else r in
      (set_visit t2 v, v)
    | cs :: _ => read_loop (dot :: dotdot :: map nname cs) t
    end
  end.

(* ------------------------------------------------------------------ one iteration of the while loop of tree_next.
   None = the loop goes round again, Some r = tree_next returns r *)
Definition tree_iter (t : tstate) : tstate * option Z :=
  match stack t with
  | [] => (set_visit t 0, Some 0%Z)
  | te :: rest =>
    match dirh t with
    | Some _ =>
      let '(t1, r) := tree_dir_next t in
      if Z.eqb r 0 then (t1, None) else (t1, Some r)
    | None =>
      let fl := te_flags te in
      if needsFirstVisit fl then
        let t1 := set_current t (Some (te_id te, te_parents te)) in
        let t2 := tree_append t1 (te_name te) in
        let t3 := set_stack t2 (set_te_flags te (clr_first fl) :: rest) in
        (set_visit t3 TREE_REGULAR, Some TREE_REGULAR)
      else if needsDescent fl then
        let t1 := set_current t (Some (te_id te, te_parents te)) in
        let t2 := tree_append t1 (te_name te) in
        let t3 := set_stack t2 (set_te_flags te (clr_descent fl) :: rest) in
        let '(t4, r) := tree_descent t3 in
        if Z.eqb r 0 then (set_visit t4 TREE_POSTDESCENT, Some TREE_POSTDESCENT)
        else (set_visit (tree_pop t4) r, Some r)
      else if needsOpen fl then
        let t1 := set_stack t (set_te_flags te (clr_open fl) :: rest) in
        let '(t2, r) := tree_dir_next t1 in
        if Z.eqb r 0 then (t2, None) else (t2, Some r)
      else if needsAscent fl then
        let '(t1, r) := tree_ascend t in
        let t2 := tree_pop t1 in
        let v := if Z.eqb r 0 then TREE_POSTASCENT else r in
        (set_visit t2 v, Some v)
      else
        (set_lst (tree_pop t) None, None)             (* dead entry *)
    end
  end.

(* ------------------------------------------------------------------ lstat cache *)
(* tree_current_lstat: fstatat(working_dir_fd, basename, AT_SYMLINK_NOFOLLOW) unless hasLstat *)
Definition tree_current_lstat (t : tstate) : tstate * option tnode :=
  match lst t with
  | Some n => (t, Some n)
  | None =>
    match wd t with
    | [] => (t, None)
    | cs :: _ =>
      match lookup (basename t) cs with
      | Some n => (set_lst t (Some n), Some n)
      | None => (t, None)
      end
    end
  end.

(* hasStat is never set in physical mode, so this is S_ISDIR(lstat) *)
Definition tree_current_is_physical_dir (t : tstate) : tstate * bool :=
  let '(t1, r) := tree_current_lstat t in
  (t1, match r with Some n => is_dir n | None => false end).

(* archive_read_disk_descend *)
Definition read_disk_descend (t : tstate) : tstate :=
  if negb (Z.eqb (visit_type t) TREE_REGULAR && descend t) then t
  else
    let '(t1, pd) := tree_current_is_physical_dir t in
    let t2 :=
      if pd then
        let t' := tree_push t1 (basename t1) in
        (* t->stack->parent->parent != NULL ? isDir : isDirLink ; t->stack->parent is t->current *)
        let deep := match current t1 with Some (_, _ :: _) => true | _ => false end in
        match stack t' with
        | te :: rest =>
          let f := te_flags te in
          let f' := if deep then mkFl true (isDirLink f) (needsFirstVisit f) (needsDescent f) (needsOpen f) (needsAscent f)
                    else mkFl (isDir f) true (needsFirstVisit f) (needsDescent f) (needsOpen f) (needsAscent f) in
          set_stack t' (set_te_flags te f' :: rest)
        | [] => t'
        end
      else t1 in
    set_descend t2 false.

(* ------------------------------------------------------------------ the client loop.
   The while loop of tree_next, the do-while of next_entry and the for(;;) of the client are all in
   tail position of one another, so they are one loop here; every turn uses one unit of fuel.
   [pol path] says whether the client calls archive_read_disk_descend for the entry at [path]. *)
(* a visit = the pathname given to the client and what lstat returned for it (the entry is filled from it) *)
Definition visit := (bytes * tnode)%type.

Inductive wres : Type :=
| WDone (visits : list visit) (t : tstate)       (* ARCHIVE_EOF *)
| WFailed (visits : list visit) (code : Z) (t : tstate)   (* ARCHIVE_FAILED / ARCHIVE_FATAL: the client stops *)
| WFuel (visits : list visit).                   (* error value: fuel exhausted *)

Fixpoint walk (fuel : nat) (pol : bytes -> bool) (t : tstate) (acc : list visit) : wres :=
  match fuel with
  | O => WFuel acc
  | S f =>
    let '(t1, r) := tree_iter t in
    match r with
    | None => walk f pol t1 acc
    | Some r =>
      if Z.eqb r TREE_ERROR_FATAL then WFailed acc r t1
      else if Z.eqb r TREE_ERROR_DIR then WFailed acc r t1
      else if Z.eqb r 0 then WDone acc t1
      else if Z.eqb r TREE_REGULAR then
        let '(t2, l) := tree_current_lstat t1 in
        match l with
        | None =>
          (* lstat failed: ENOENT below the top is delayed and the loop goes on, otherwise FAILED *)
          if (0 <? depth t2)%nat then walk f pol t2 acc else WFailed acc r t2
        | Some n =>
          let '(t3, pd) := tree_current_is_physical_dir t2 in
          let t4 := set_descend t3 pd in
          let p := path t4 in
          let t5 := if pol p then read_disk_descend t4 else t4 in
          (* the client comes back: the next call of next_entry() starts with t->descend = 0 *)
          walk f pol (set_descend t5 false) (acc ++ [(p, n)])
        end
      else walk f pol t1 acc                            (* TREE_POSTDESCENT / TREE_POSTASCENT *)
    end
  end.

(* ------------------------------------------------------------------ sizes and fuel *)
Fixpoint nodes (n : tnode) : nat :=
  match n with
  | D _ cs => S (fold_right (fun c a => nodes c + a) 0 cs)
  | _ => 1
  end.

Definition fuel_for (root : tnode) : nat := 4 * nodes root + 2.

Definition walk_tree (pol : bytes -> bool) (root : tnode) : wres :=
  walk (fuel_for root) pol (tree_open (nname root) [root]) [].

(* ------------------------------------------------------------------ specification of the visit order *)
Definition join (p n : bytes) : bytes :=
  (if (0 <? length p)%nat && negb (N.eqb (last p 0%N) slash) then p ++ [slash] else p) ++ n.

(* everything visited strictly below the directory [n] found at path [p]:
   first all children in readdir order, then, for the sub-directories the client asked for, in the
   REVERSE of that order (they sit on a stack), the same recursively *)
Fixpoint below (pol : bytes -> bool) (p : bytes) (n : tnode) : list visit :=
  match n with
  | D _ cs =>
    if pol p then
      map (fun c => (join p (nname c), c)) cs ++
      concat (rev (map (fun c => below pol (join p (nname c)) c) cs))
    else []
  | _ => []
  end.

Definition visits_spec (pol : bytes -> bool) (root : tnode) : list visit :=
  (nname root, root) :: below pol (nname root) root.

(* all objects of the tree with their paths, parent first (plain pre-order) *)
Fixpoint objects (p : bytes) (n : tnode) : list visit :=
  (p, n) ::
  match n with
  | D _ cs => concat (map (fun c => objects (join p (nname c)) c) cs)
  | _ => []
  end.

Definition all_objects (root : tnode) : list visit := objects (nname root) root.

(* visits with the path of the parent directory (None for the top) *)
Fixpoint below_par (pol : bytes -> bool) (p : bytes) (n : tnode) : list (option bytes * bytes) :=
  match n with
  | D _ cs =>
    if pol p then
      map (fun c => (Some p, join p (nname c))) cs ++
      concat (rev (map (fun c => below_par pol (join p (nname c)) c) cs))
    else []
  | _ => []
  end.

Definition visits_par (pol : bytes -> bool) (root : tnode) : list (option bytes * bytes) :=
  (None, nname root) :: below_par pol (nname root) root.

(* ------------------------------------------------------------------ well-formed directories *)
Definition wf_name (n : bytes) : bool :=
  negb (bytes_eqb n dot) && negb (bytes_eqb n dotdot) && bytes_eqb (strip_slashes n) n.

Fixpoint nodup_names (l : list bytes) : bool :=
  match l with
  | [] => true
  | x :: tl => negb (existsb (bytes_eqb x) tl) && nodup_names tl
  end.

(* below the top: names are not "." or "..", do not end in '/', and are unique within a directory *)
Fixpoint wf_node (n : tnode) : bool :=
  match n with
  | D _ cs => nodup_names (map nname cs) && forallb (fun c => wf_name (nname c) && wf_node c) cs
  | _ => true
  end.

Definition wf_root (root : tnode) : bool :=
  bytes_eqb (strip_slashes (nname root)) (nname root) && wf_node root.

(* ================================================================== capture and restore on a simple FS model *)
(* capture = walk (client always descends) + what archive_read_disk_entry_from_file takes from lstat
   + the REAL link-resolver model of Entry/LinksDefs.v (C17) with the format's strategy, driven as
   tar/write.c:write_hierarchy drives it (linkify each entry, write what comes out; at the end
   linkify(NULL) until nothing is left).  dev is 0 for every object (one file system). *)
Definition always (_ : bytes) : bool := true.
Definition never (_ : bytes) : bool := false.

Definition ino_of (n : tnode) : N := match n with F _ i _ => i | _ => 0%N end.
Definition is_file (n : tnode) : bool := match n with F _ _ _ => true | _ => false end.

(* st_nlink of a regular file = number of names for its inode in the tree; 1 for everything else
   (the link count of a directory is irrelevant: the resolver passes directories through) *)
Definition nlink_in (objs : list visit) (n : tnode) : N :=
  match n with
  | F _ i _ => N.of_nat (length (filter (fun v => is_file (snd v) && N.eqb (ino_of (snd v)) i) objs))
  | _ => 1%N
  end.

Definition ftype_of (n : tnode) : N :=
  match n with F _ _ _ => AE_IFREG | D _ _ => AE_IFDIR | L _ _ => AE_IFLNK | X _ k => k end.

Definition size_of (n : tnode) : Z :=
  match n with F _ _ c => Z.of_nat (length c) | _ => 0%Z end.

Definition lentry_of (objs : list visit) (id : nat) (v : visit) : lentry :=
  mkLentry (Z.of_nat id) 0 (ino_of (snd v)) (nlink_in objs (snd v)) (ftype_of (snd v))
           (Some (size_of (snd v))) None (fst v).

Fixpoint lentries_from (objs : list visit) (id : nat) (l : list visit) : list lentry :=
  match l with
  | [] => []
  | v :: tl => lentry_of objs id v :: lentries_from objs (S id) tl
  end.

(* what the archive holds for one object *)
Inductive ckind : Type :=
| CDir | CFile (content : bytes) | CHard (target : bytes) | CLink (target : bytes) | COther (ftype : N).
Definition centry := (bytes * ckind)%type.

Definition ckind_of (n : tnode) : ckind :=
  match n with F _ _ c => CFile c | D _ _ => CDir | L _ t => CLink t | X _ k => COther k end.

(* an entry that leaves the resolver: the body comes from the visit its id names *)
Definition centry_of (objs : list visit) (e : lentry) : centry :=
  match ehard e with
  | Some tgt => (epath e, CHard tgt)
  | None =>
    match nth_error objs (Z.to_nat (eid e)) with
    | Some v => (epath e, ckind_of (snd v))
    | None => (epath e, COther 0%N)
    end
  end.

Fixpoint drain (n : nat) (t : table) : list lentry :=
  match n with
  | O => []
  | S k => match linkify_null t with
           | (t', Some e) => e :: drain k t'
           | (_, None) => []
           end
  end.

Definition outs_entries (outs : list lout) : list lentry := flat_map out_entries outs.

Definition resolve (strat : N) (es : list lentry) : list lentry :=
  let '(t, outs) := lrun (init_table strat) (map Push es) in
  outs_entries outs ++ drain (S (length es)) t.

Definition capture_with (strat : N) (root : tnode) : option (list centry) :=
  match walk_tree always root with
  | WDone vis _ => Some (map (centry_of vis) (resolve strat (lentries_from vis 0 vis)))
  | _ => None
  end.

Definition capture (root : tnode) : option (list centry) := capture_with LINKIFY_LIKE_TAR root.

(* ---- restore: a flat list of (path, object); the directories on the way exist because capture
   emits parents first (walk_once), so mkdir -p never has to invent one *)
Inductive robj : Type :=
| RDir | RFile (fid : bytes) (content : bytes)   (* fid = pathname that created the inode *)
| RLink (target : bytes) | ROther (ftype : N).
Definition rfs := list (bytes * robj).

Fixpoint rlookup (p : bytes) (fs : rfs) : option robj :=
  match fs with
  | [] => None
  | (q, o) :: tl => if bytes_eqb q p then Some o else rlookup p tl
  end.

Definition restore_one (fs : rfs) (e : centry) : rfs :=
  match snd e with
  | CDir => fs ++ [(fst e, RDir)]
  | CFile c => fs ++ [(fst e, RFile (fst e) c)]
  | CLink t => fs ++ [(fst e, RLink t)]
  | COther k => fs ++ [(fst e, ROther k)]
  | CHard tgt =>
    match rlookup tgt fs with
    | Some (RFile fid c) => fs ++ [(fst e, RFile fid c)]    (* link(tgt, path) *)
    | _ => fs                                              (* link fails: nothing created *)
    end
  end.

Definition restore (es : list centry) : rfs := fold_left restore_one es [].

(* what the source tree looks like in the same vocabulary: every file names the first visited path
   that has its inode *)
Fixpoint first_with_ino (i : N) (objs : list visit) : option bytes :=
  match objs with
  | [] => None
  | (p, n) :: tl => if is_file n && N.eqb (ino_of n) i then Some p else first_with_ino i tl
  end.

Definition robj_of (objs : list visit) (v : visit) : robj :=
  match snd v with
  | F _ i c => RFile (match first_with_ino i objs with Some p => p | None => fst v end) c
  | D _ _ => RDir
  | L _ t => RLink t
  | X _ k => ROther k
  end.

Definition source_image (root : tnode) : rfs :=
  let objs := visits_spec always root in map (fun v => (fst v, robj_of objs v)) objs.

(* no inode is shared *)
Fixpoint inos (objs : list visit) : list N :=
  match objs with
  | [] => []
  | (_, F _ i _) :: tl => i :: inos tl
  | _ :: tl => inos tl
  end.
Fixpoint nodupN (l : list N) : bool :=
  match l with [] => true | x :: tl => negb (existsb (N.eqb x) tl) && nodupN tl end.
Definition no_hardlinks (root : tnode) : bool := nodupN (inos (visits_spec always root)).

(* full pathnames are unique (true of any real tree; sibling names being unique is not enough in the
   abstract tree because a name could contain '/') *)
Definition nodup_paths (root : tnode) : bool := nodup_names (map fst (visits_spec always root)).

(* names of one inode show the same content *)
Fixpoint content_of_ino (i : N) (objs : list visit) : option bytes :=
  match objs with
  | [] => None
  | (_, F _ j c) :: tl => if N.eqb j i then Some c else content_of_ino i tl
  | _ :: tl => content_of_ino i tl
  end.
Definition ino_consistent (root : tnode) : bool :=
  let objs := visits_spec always root in
  forallb (fun v => match snd v with
                    | F _ i c => match content_of_ino i objs with Some c' => bytes_eqb c c' | None => false end
                    | _ => true
                    end) objs.
