(* val -> val front end of the safe-writes model (correspondence protocol), see harness/safeWrite.c:
   case   ( variant old mode opts (size)? (mtime)? umask blksize stop ((kind off bytes)...) ((idx code)...) (expect_new)? )
   answer ( header (data...) finish close free ((kind path path2 arg result tag)...) final_tag (names...) (content)? ) *)
From Coq Require Import List ZArith NArith Bool Arith.
From LA Require Import Base.Val FS.SafeWriteDefs.
Import ListNotations.

Fixpoint content_eqb (a b : content) : bool :=
  match a, b with
  | [], [] => true
  | x :: a', y :: b' => (N.eqb x y && content_eqb a' b')%bool
  | _, _ => false
  end.

Definition s_target : bytes := [116; 97; 114; 103; 101; 116]%N.                       (* "target" *)
Definition s_temp : bytes := (s_target ++ [46; 88; 88; 88; 88; 88; 88])%N.           (* "target.XXXXXX" *)
Definition name_bytes (n : name) : bytes := match n with Target => s_target | Temp => s_temp end.

(* kind codes of harness/safeWrite_events.h *)
Definition call_fields (c : call) : Z * bytes * bytes * Z :=
  match c with
  | COpenExcl n => (1, name_bytes n, [], 193)          (* O_WRONLY|O_CREAT|O_EXCL *)
  | CLstat n => (2, name_bytes n, [], 0)
  | CFstat => (4, s_temp, [], 0)
  | CMkstemp => (5, s_temp, [], 0)
  | CFchmod md => (6, s_temp, [], Z.of_N md)
  | CChmod n md => (7, name_bytes n, [], Z.of_N md)
  | CFchown => (8, s_temp, [], 0)
  | CLchown n => (9, name_bytes n, [], 0)
  | CLseek off => (11, s_temp, [], Z.of_nat off)
  | CWrite b => (12, s_temp, [], Z.of_nat (length b))
  | CFtruncate len => (14, s_temp, [], Z.of_nat len)
  | CFutimens => (15, s_temp, [], 0)
  | CUtimensat n => (16, name_bytes n, [], 0)
  | CClose => (17, s_temp, [], 0)
  | CRename => (18, s_temp, s_target, 0)
  | CUnlink n => (19, name_bytes n, [], 0)
  | CRmdir n => (21, name_bytes n, [], 0)
  end%Z.

Definition res_field (c : call) (r : res) : Z :=
  match r with
  | RErr e => (- Z.of_nat e)%Z
  | ROk x => match c with CLseek _ | CWrite _ => Z.of_nat x | _ => 0%Z end
  end.

(* 0 complete old file, 1 complete new file, 2 anything else, 3 no such name *)
Definition tag (old : content) (newc : option content) (f : fsT) : Z :=
  match target_content f with
  | None => 3
  | Some c => if content_eqb c old then 0
              else match newc with
                   | Some n => if content_eqb c n then 1 else 2
                   | None => 2
                   end
  end%Z.

Fixpoint events (old : content) (newc : option content) (before : fsT) (tr : list step) : list val :=
  match tr with
  | [] => []
  | s :: tr' =>
      let '(k, p1, p2, a) := call_fields (s_call s) in
      VL [VI k; VB p1; VB p2; VI a; VI (res_field (s_call s) (s_res s)); VI (tag old newc before)]
      :: events old newc (s_fs s) tr'
  end.

Definition variant_of (z : Z) : variant :=
  mkVariant (Z.testbit z 0) (Z.testbit z 1) (Z.testbit z 2) (Z.testbit z 3).

Definition block_of (x : val) : bool * nat * content :=
  let l := lval x in
  (negb (Z.eqb (zval (vnth l 0)) 0), Z.to_nat (zval (vnth l 1)), bval (vnth l 2)).

Definition fault_of (x : val) : nat * fault :=
  let l := lval x in
  (Z.to_nat (zval (vnth l 0)), if (zval (vnth l 1) <? 0)%Z then FShort else FErr (Z.to_nat (zval (vnth l 1)))).

Definition config_of (l : list val) : config :=
  let opts := zval (vnth l 3) in
  mkConfig (bval (vnth l 1)) (nval (vnth l 2))
           (Z.testbit opts 0) (Z.testbit opts 1) (Z.testbit opts 2) (Z.testbit opts 3)
           (match lval (vnth l 4) with [s] => Some (Z.to_nat (zval s)) | _ => None end)
           (match lval (vnth l 5) with [_] => true | _ => false end)
           (nval (vnth l 6)) (Z.to_nat (zval (vnth l 7))) (boolval (vnth l 8))
           (map block_of (lval (vnth l 9))).

Definition run (c : val) : val :=
  let l := lval c in
  let v := variant_of (zval (vnth l 0)) in
  let cfg := config_of l in
  let p := plan_of (map fault_of (lval (vnth l 10))) in
  let o := sw_run v cfg p in
  let final := final_fs o in
  let newc := match lval (vnth l 11) with [x] => Some (bval x) | _ => target_content final end in
  let old := c_old cfg in
  VL [VI (o_header o); VL (map VI (o_data o)); VI (o_finish o); VI (o_close o); VI (o_free o);
      VL (events old newc (init_fs old) (trace o));
      VI (tag old newc final);
      VL ((match dir final Target with Some _ => [VB s_target] | None => [] end) ++
          (match dir final Temp with Some _ => [VB s_temp] | None => [] end));
      Vopt VB (target_content final)].
