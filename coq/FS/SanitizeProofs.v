(* C04 - the sanitiser: cleanup_pathname (character-level transcription) equals its
   split/filter/join specification on ALL strings and flags; soundness and the exact refusal
   cases follow. *)
From Coq Require Import List NArith Bool Lia.
From LA Require Import Gen.FsSecConsts FS.SanitizeDefs.
Import ListNotations.
Local Open Scope N_scope.

(* ------------------------------------------------------------------ split / join *)
Lemma split_acc_shift : forall s cur,
  split_acc s cur = match split_acc s [] with
                    | first :: rest => (cur ++ first) :: rest
                    | [] => [cur]
                    end.
Proof.
  induction s as [|c r IH]; intros cur.
  - cbn. now rewrite app_nil_r.
  - cbn [split_acc]. destruct (c =? SLASH).
    + now rewrite app_nil_r.
    + rewrite (IH (cur ++ [c])). rewrite (IH ([] ++ [c])).
      destruct (split_acc r []) as [|f rest].
      * reflexivity.
      * cbn [app]. now rewrite <- app_assoc.
Qed.

Lemma split_nil : split [] = [[]].
Proof. reflexivity. Qed.

Lemma split_slash : forall r, split (SLASH :: r) = [] :: split r.
Proof. reflexivity. Qed.

Lemma split_ne : forall s, split s <> [].
Proof.
  unfold split. induction s as [|c r IH]; cbn [split_acc]; [discriminate|].
  destruct (c =? SLASH); [discriminate|].
  rewrite (split_acc_shift r ([] ++ [c])). destruct (split_acc r []); discriminate.
Qed.

Lemma split_other : forall c r, (c =? SLASH) = false ->
  exists f rest, split r = f :: rest /\ split (c :: r) = (c :: f) :: rest.
Proof.
  intros c r H. unfold split. cbn [split_acc]. rewrite H.
  rewrite (split_acc_shift r ([] ++ [c])). destruct (split_acc r []) as [|f rest] eqn:E.
  - exfalso. now apply (split_ne r).
  - exists f, rest. split; [reflexivity|]. reflexivity.
Qed.

Lemma split_no_slash : forall s, Forall (fun c => ~ In SLASH c) (split s).
Proof.
  induction s as [|c r IH].
  - rewrite split_nil. constructor; [intros []|constructor].
  - destruct (c =? SLASH) eqn:E.
    + apply N.eqb_eq in E. subst c. rewrite split_slash. constructor; [intros []|exact IH].
    + destruct (split_other c r E) as (f & rest & E1 & E2). rewrite E2. rewrite E1 in IH.
      inversion IH as [|? ? Hf Hr]; subst. constructor; [|exact Hr].
      intros [H|H]; [|now apply Hf]. apply N.eqb_neq in E. now apply E.
Qed.

Definition realc (c : str) : bool := negb (is_empty c) && negb (is_dot c).
Definition tailj (k : list str) : str := concat (map (cons SLASH) k).

Lemma real_comps_eq : forall s, real_comps s = filter realc (split s).
Proof. reflexivity. Qed.

Lemma join_tailj : forall c k, join (c :: k) = c ++ tailj k.
Proof.
  intros c k. revert c. induction k as [|d k IH]; intros c.
  - cbn. now rewrite app_nil_r.
  - change (join (c :: d :: k)) with (c ++ SLASH :: join (d :: k)). rewrite IH. reflexivity.
Qed.

(* ------------------------------------------------------------------ the loop equals its spec *)
Definition scan_spec (fl : N) (pieces : list str) (sep : bool) (out : str) : cl_result :=
  if has fl EXTRACT_SECURE_NODOTDOT && existsb is_dotdot pieces then ClDotDot
  else match filter realc pieces with
       | [] => cl_finish sep out
       | c :: k => ClOk ((out ++ (if sep then [SLASH] else [])) ++ c ++ tailj k)
       end.

Definition copy_spec (fl : N) (pieces : list str) (out : str) : cl_result :=
  match pieces with
  | [] => ClOk out
  | first :: rest =>
      if has fl EXTRACT_SECURE_NODOTDOT && existsb is_dotdot rest then ClDotDot
      else ClOk ((out ++ first) ++ tailj (filter realc rest))
  end.

Lemma cl_finish_ne : forall sep out, out <> [] -> cl_finish sep out = ClOk out.
Proof. intros sep [|x o] H; [congruence|reflexivity]. Qed.

Lemma cl_go_copy_nil : forall fl sep out, cl_go fl true [] sep out = cl_finish sep out.
Proof. reflexivity. Qed.
Lemma cl_go_copy_cons : forall fl c s sep out,
  cl_go fl true (c :: s) sep out =
  if c =? SLASH then cl_go fl false s true out else cl_go fl true s sep (out ++ [c]).
Proof. reflexivity. Qed.
Lemma cl_go_scan_nil : forall fl sep out, cl_go fl false [] sep out = cl_finish sep out.
Proof. reflexivity. Qed.
Lemma cl_go_scan_cons : forall fl c0 r0 sep out,
  cl_go fl false (c0 :: r0) sep out =
  let copy_elem := cl_go fl true r0 sep ((out ++ (if sep then [SLASH] else [])) ++ [c0]) in
  if c0 =? SLASH then cl_go fl false r0 sep out
  else if c0 =? DOT then
    match r0 with
    | [] => cl_finish sep out
    | c1 :: r1 =>
      if c1 =? SLASH then cl_go fl false r1 sep out
      else if c1 =? DOT then
        match r1 with
        | [] => if has fl EXTRACT_SECURE_NODOTDOT then ClDotDot else copy_elem
        | c2 :: _ => if (c2 =? SLASH) && has fl EXTRACT_SECURE_NODOTDOT then ClDotDot else copy_elem
        end
      else copy_elem
    end
  else copy_elem.
Proof. reflexivity. Qed.

Lemma app_ne_r : forall (a : str) c, a ++ [c] <> [].
Proof. intros [|x a] c; discriminate. Qed.

(* spec of copying an element whose first piece is  c0 :: f  and is neither "." nor ".." *)
Lemma scan_spec_elem : forall fl c0 f rest sep out,
  is_dot (c0 :: f) = false ->
  (has fl EXTRACT_SECURE_NODOTDOT && is_dotdot (c0 :: f)) = false ->
  scan_spec fl ((c0 :: f) :: rest) sep out =
  copy_spec fl (f :: rest) ((out ++ (if sep then [SLASH] else [])) ++ [c0]).
Proof.
  intros fl c0 f rest sep out Hd Hdd. unfold scan_spec, copy_spec.
  cbn [existsb filter]. unfold realc at 1. rewrite Hd. cbn [is_empty negb andb].
  rewrite andb_orb_distrib_r, Hdd. cbn [orb].
  destruct (has fl EXTRACT_SECURE_NODOTDOT && existsb is_dotdot rest); [reflexivity|].
  f_equal. rewrite <- !app_assoc. reflexivity.
Qed.

Lemma scan_spec_nil : forall fl sep out, scan_spec fl (split []) sep out = cl_finish sep out.
Proof. intros. unfold scan_spec. cbn. now rewrite andb_false_r. Qed.

Lemma cl_go_spec : forall fl n src, (length src <= n)%nat ->
  (forall sep out, cl_go fl false src sep out = scan_spec fl (split src) sep out) /\
  (forall sep out, out <> [] -> cl_go fl true src sep out = copy_spec fl (split src) out).
Proof.
  intros fl. induction n as [|n IH]; intros src Hlen.
  - destruct src; [|cbn in Hlen; lia]. split.
    + intros sep out. now rewrite scan_spec_nil.
    + intros sep out Hne. rewrite cl_go_copy_nil, cl_finish_ne by assumption.
      cbn. rewrite andb_false_r. now rewrite !app_nil_r.
  - destruct src as [|c0 r0].
    { split.
      + intros sep out. now rewrite scan_spec_nil.
      + intros sep out Hne. rewrite cl_go_copy_nil, cl_finish_ne by assumption.
        cbn. rewrite andb_false_r. now rewrite !app_nil_r. }
    cbn [length] in Hlen. assert (Hr0 : (length r0 <= n)%nat) by lia.
    destruct (IH r0 Hr0) as [IHs0 IHc0].
    split.
    + (* scanning *)
      intros sep out. rewrite cl_go_scan_cons. cbv zeta.
      destruct (c0 =? SLASH) eqn:E0.
      { apply N.eqb_eq in E0. subst c0. rewrite split_slash, IHs0. reflexivity. }
      destruct (split_other c0 r0 E0) as (f & rest & Er0 & Esrc).
      assert (Hcopy : forall o, o <> [] -> cl_go fl true r0 sep o = copy_spec fl (f :: rest) o).
      { intros o Ho. rewrite IHc0 by assumption. now rewrite Er0. }
      destruct (c0 =? DOT) eqn:E1.
      2:{ (* ordinary first character *)
          rewrite Hcopy by apply app_ne_r. rewrite Esrc. symmetry. apply scan_spec_elem.
          - unfold is_dot. cbn [str_eqb]. now rewrite E1.
          - unfold is_dotdot. cbn [str_eqb]. rewrite E1. now rewrite andb_false_r. }
      apply N.eqb_eq in E1. subst c0.
      destruct r0 as [|c1 r1].
      { (* "." at the end *) unfold scan_spec. cbn. now rewrite andb_false_r. }
      destruct (c1 =? SLASH) eqn:E2.
      { (* "./" *)
        apply N.eqb_eq in E2. subst c1.
        assert (Hr1 : (length r1 <= n)%nat) by (cbn in Hr0; lia).
        destruct (IH r1 Hr1) as [IHs1 _]. rewrite IHs1.
        change (split (DOT :: SLASH :: r1)) with (split_acc (SLASH :: r1) ([] ++ [DOT])).
        cbn [split_acc]. change (SLASH =? SLASH) with true. cbv iota.
        fold (split r1). unfold scan_spec. cbn [existsb filter app]. reflexivity. }
      destruct (split_other c1 r1 E2) as (f1 & rest1 & Er1 & Er0').
      rewrite Er0 in Er0'. injection Er0' as Hf Hrest. subst f rest.
      destruct (c1 =? DOT) eqn:E3.
      2:{ (* ".x..." *)
          rewrite Hcopy by apply app_ne_r. rewrite Esrc. symmetry. apply scan_spec_elem.
          - unfold is_dot. cbn [str_eqb]. now rewrite andb_false_r.
          - unfold is_dotdot. cbn [str_eqb]. rewrite E3. cbn. now rewrite andb_false_r. }
      apply N.eqb_eq in E3. subst c1.
      destruct r1 as [|c2 r2].
      { (* ".." at the end *)
        rewrite split_nil in Er1. injection Er1 as Hf1 Hr1. subst f1 rest1.
        rewrite Esrc. destruct (has fl EXTRACT_SECURE_NODOTDOT) eqn:Hfl.
        - unfold scan_spec. rewrite Hfl. reflexivity.
        - rewrite Hcopy by apply app_ne_r. symmetry. apply scan_spec_elem; [reflexivity|].
          now rewrite Hfl. }
      destruct (c2 =? SLASH) eqn:E4.
      { (* "../" *)
        apply N.eqb_eq in E4. subst c2. rewrite split_slash in Er1. injection Er1 as Hf1 Hr1. subst f1 rest1.
        rewrite Esrc. destruct (has fl EXTRACT_SECURE_NODOTDOT) eqn:Hfl.
        - cbn [andb]. unfold scan_spec. rewrite Hfl. reflexivity.
        - cbn [andb]. rewrite Hcopy by apply app_ne_r. symmetry. apply scan_spec_elem; [reflexivity|].
          now rewrite Hfl. }
      (* "..x" *)
      cbn [andb]. destruct (split_other c2 r2 E4) as (f2 & rest2 & Er2 & Er1').
      rewrite Er1 in Er1'. injection Er1' as Hf1 Hr1. subst f1 rest1.
      rewrite Hcopy by apply app_ne_r. rewrite Esrc. symmetry. apply scan_spec_elem.
      * reflexivity.
      * unfold is_dotdot. cbn [str_eqb]. change (DOT =? DOT) with true. cbn [andb].
        now rewrite andb_false_r.
    + (* copying *)
      intros sep out Hne. rewrite cl_go_copy_cons.
      destruct (c0 =? SLASH) eqn:E0.
      * apply N.eqb_eq in E0. subst c0. rewrite IHs0, split_slash.
        unfold scan_spec, copy_spec.
        destruct (has fl EXTRACT_SECURE_NODOTDOT && existsb is_dotdot (split r0)); [reflexivity|].
        destruct (filter realc (split r0)) as [|c k].
        -- rewrite cl_finish_ne by assumption. cbn. now rewrite !app_nil_r.
        -- f_equal. rewrite app_nil_r. cbn [tailj map concat]. fold (tailj k).
           rewrite <- !app_assoc. reflexivity.
      * destruct (split_other c0 r0 E0) as (f & rest & Er0 & Esrc).
        rewrite IHc0 by apply app_ne_r. rewrite Er0, Esrc. unfold copy_spec.
        destruct (has fl EXTRACT_SECURE_NODOTDOT && existsb is_dotdot rest); [reflexivity|].
        f_equal. rewrite <- !app_assoc. reflexivity.
Qed.

Lemma cl_scan_spec : forall fl src sep out, cl_scan fl src sep out = scan_spec fl (split src) sep out.
Proof. intros. unfold cl_scan. exact (proj1 (cl_go_spec fl (length src) src (le_n _)) sep out). Qed.

Theorem cleanup_equiv : forall fl p, cleanup_pathname fl p = cleanup_spec fl p.
Proof.
  intros fl [|c r]; [reflexivity|].
  unfold cleanup_pathname, cleanup_spec. cbn [is_empty is_abs].
  destruct (c =? SLASH) eqn:E.
  - apply N.eqb_eq in E. subst c. cbn [andb].
    destruct (has fl EXTRACT_SECURE_NOABSOLUTEPATHS); [reflexivity|].
    rewrite cl_scan_spec, real_comps_eq, split_slash. unfold scan_spec. cbn [existsb filter orb].
    change (realc []) with false. cbv iota. change (is_dotdot []) with false. cbn [orb].
    destruct (has fl EXTRACT_SECURE_NODOTDOT && existsb is_dotdot (split r)); [reflexivity|].
    destruct (filter realc (split r)) as [|d k]; [reflexivity|].
    now rewrite join_tailj.
  - cbn [andb]. rewrite cl_scan_spec, real_comps_eq. unfold scan_spec.
    destruct (has fl EXTRACT_SECURE_NODOTDOT && existsb is_dotdot (split (c :: r))); [reflexivity|].
    destruct (filter realc (split (c :: r))) as [|d k]; [reflexivity|].
    now rewrite join_tailj.
Qed.

(* ------------------------------------------------------------------ consequences *)
Lemma str_eqb_eq : forall a b, str_eqb a b = true <-> a = b.
Proof.
  induction a as [|x a IH]; intros [|y b]; cbn; split; intros H; try congruence; try discriminate.
  - apply andb_prop in H as [H1 H2]. apply N.eqb_eq in H1. apply IH in H2. congruence.
  - injection H as -> ->. rewrite N.eqb_refl. cbn. now apply IH.
Qed.

Lemma str_eqb_refl : forall a, str_eqb a a = true.
Proof. intros. now apply str_eqb_eq. Qed.

Lemma realc_spec : forall c, realc c = true <-> c <> [] /\ c <> [DOT].
Proof.
  intros c. unfold realc, is_dot. split.
  - intros H. apply andb_prop in H as [H1 H2]. split.
    + destruct c; [discriminate|discriminate].
    + intros ->. now rewrite str_eqb_refl in H2.
  - intros [H1 H2]. destruct c as [|x c]; [congruence|]. cbn [is_empty negb andb].
    destruct (str_eqb (x :: c) [DOT]) eqn:E; [|reflexivity]. apply str_eqb_eq in E. congruence.
Qed.

Lemma existsb_dotdot_In : forall l, existsb is_dotdot l = true <-> In [DOT; DOT] l.
Proof.
  intros l. rewrite existsb_exists. split.
  - intros (x & Hin & Hx). apply str_eqb_eq in Hx. now subst.
  - intros H. exists [DOT; DOT]. split; [assumption|reflexivity].
Qed.

Lemma real_comps_props : forall p,
  Forall (fun c => c <> [] /\ c <> [DOT] /\ ~ In SLASH c) (real_comps p).
Proof.
  intros p. rewrite real_comps_eq. apply Forall_forall. intros c Hc.
  apply filter_In in Hc as [Hin Hr]. apply realc_spec in Hr as [H1 H2].
  repeat split; try assumption.
  pose proof (split_no_slash p) as Hs. rewrite Forall_forall in Hs. now apply Hs.
Qed.

(* (a) soundness on ALL strings and flags *)
Theorem cleanup_sound : forall fl p q,
  cleanup_pathname fl p = ClOk q ->
  q <> [] /\
  ((real_comps p = [] /\ q = if is_abs p then [SLASH] else [DOT]) \/
   (real_comps p <> [] /\ q = (if is_abs p then [SLASH] else []) ++ join (real_comps p))) /\
  Forall (fun c => c <> [] /\ c <> [DOT] /\ ~ In SLASH c) (real_comps p) /\
  (has fl EXTRACT_SECURE_NODOTDOT = true -> ~ In [DOT; DOT] (split p)) /\
  (has fl EXTRACT_SECURE_NOABSOLUTEPATHS = true -> is_abs p = false /\ is_abs q = false).
Proof.
  intros fl p q H. rewrite cleanup_equiv in H. unfold cleanup_spec in H.
  destruct (is_empty p) eqn:Ee; [discriminate|].
  destruct (is_abs p && has fl EXTRACT_SECURE_NOABSOLUTEPATHS) eqn:Ea; [discriminate|].
  destruct (has fl EXTRACT_SECURE_NODOTDOT && existsb is_dotdot (split p)) eqn:Ed; [discriminate|].
  pose proof (real_comps_props p) as Hprops.
  assert (Hq : (real_comps p = [] /\ q = if is_abs p then [SLASH] else [DOT]) \/
               (real_comps p <> [] /\ q = (if is_abs p then [SLASH] else []) ++ join (real_comps p))).
  { destruct (real_comps p) as [|c k] eqn:Ek.
    - left. split; [reflexivity|]. now injection H as <-.
    - right. split; [discriminate|]. now injection H as <-. }
  split; [|split; [|split; [|split]]].
  - destruct Hq as [[_ ->]|[Hne ->]].
    + destruct (is_abs p); discriminate.
    + destruct (is_abs p); [discriminate|]. cbn [app].
      destruct (real_comps p) as [|c k] eqn:Ek; [congruence|].
      rewrite join_tailj. inversion Hprops as [|? ? (Hc & _) _]; subst.
      destruct c; [congruence|discriminate].
  - exact Hq.
  - exact Hprops.
  - intros Hfl Hin. rewrite Hfl in Ed. cbn in Ed. apply existsb_dotdot_In in Hin. congruence.
  - intros Hfl. rewrite Hfl, andb_true_r in Ea. split; [exact Ea|]. rewrite Ea in Hq.
    destruct Hq as [[_ ->]|[Hne ->]]; [reflexivity|]. cbn [app].
    destruct (real_comps p) as [|c k] eqn:Ek; [congruence|].
    rewrite join_tailj. inversion Hprops as [|? ? (Hc & _ & Hs) _]; subst.
    destruct c as [|x c]; [congruence|]. cbn. apply N.eqb_neq. intros ->. apply Hs. now left.
Qed.

(* (b) the refusals, exactly *)
Theorem cleanup_refusals : forall fl p,
  (cleanup_pathname fl p = ClEmpty <-> p = []) /\
  (cleanup_pathname fl p = ClAbsolute <->
     p <> [] /\ is_abs p = true /\ has fl EXTRACT_SECURE_NOABSOLUTEPATHS = true) /\
  (cleanup_pathname fl p = ClDotDot <->
     p <> [] /\ (is_abs p && has fl EXTRACT_SECURE_NOABSOLUTEPATHS) = false /\
     has fl EXTRACT_SECURE_NODOTDOT = true /\ In [DOT; DOT] (split p)).
Proof.
  intros fl p. rewrite cleanup_equiv. unfold cleanup_spec.
  destruct p as [|c r].
  - cbn [is_empty]. split; [|split].
    + split; reflexivity.
    + split; [discriminate|intros (H & _); congruence].
    + split; [discriminate|intros (H & _); congruence].
  - cbn [is_empty].
    destruct (is_abs (c :: r) && has fl EXTRACT_SECURE_NOABSOLUTEPATHS) eqn:Ea.
    + pose proof Ea as Ea'. apply andb_prop in Ea' as [Ea1 Ea2]. split; [|split].
      * split; discriminate.
      * split; [intros _|reflexivity]. split; [discriminate|]. now split.
      * split; [discriminate|]. intros (_ & H & _). discriminate.
    + destruct (has fl EXTRACT_SECURE_NODOTDOT && existsb is_dotdot (split (c :: r))) eqn:Ed.
      * pose proof Ed as Ed'. apply andb_prop in Ed' as [Ed1 Ed2]. apply existsb_dotdot_In in Ed2.
        split; [|split].
        -- split; discriminate.
        -- split; [discriminate|]. intros (_ & H1 & H2). rewrite H1, H2 in Ea. discriminate.
        -- split; [intros _|reflexivity]. split; [discriminate|]. split; [reflexivity|]. now split.
      * split; [|split].
        -- split; [|discriminate]. destruct (real_comps (c :: r)); discriminate.
        -- split; [destruct (real_comps (c :: r)); discriminate|].
           intros (_ & H1 & H2). rewrite H1, H2 in Ea. discriminate.
        -- split; [destruct (real_comps (c :: r)); discriminate|].
           intros (_ & _ & H1 & H2). apply existsb_dotdot_In in H2. rewrite H1, H2 in Ed. discriminate.
Qed.

(* ------------------------------------------------------------------ parsing a cleaned name *)
Lemma split_acc_app_noslash : forall c s cur, ~ In SLASH c -> split_acc (c ++ s) cur = split_acc s (cur ++ c).
Proof.
  induction c as [|x c IH]; intros s cur H.
  - cbn. now rewrite app_nil_r.
  - cbn [app split_acc]. destruct (x =? SLASH) eqn:E.
    + apply N.eqb_eq in E. subst. exfalso. apply H. now left.
    + rewrite IH by (intros Hin; apply H; now right). now rewrite <- app_assoc.
Qed.

Lemma split_noslash : forall c, ~ In SLASH c -> split c = [c].
Proof.
  intros c H. unfold split. rewrite <- (app_nil_r c) at 1. rewrite split_acc_app_noslash by assumption. reflexivity.
Qed.

Lemma split_app_slash : forall c s, ~ In SLASH c -> split (c ++ SLASH :: s) = c :: split s.
Proof.
  intros c s H. unfold split. rewrite split_acc_app_noslash by assumption. cbn [split_acc app].
  change (SLASH =? SLASH) with true. reflexivity.
Qed.

Lemma split_join : forall k, Forall (fun c => ~ In SLASH c) k -> k <> [] -> split (join k) = k.
Proof.
  induction k as [|c k IH]; intros H Hne; [congruence|].
  inversion H; subst. destruct k as [|d k].
  - cbn [join]. now apply split_noslash.
  - change (join (c :: d :: k)) with (c ++ SLASH :: join (d :: k)).
    rewrite split_app_slash by assumption. f_equal. apply IH; [assumption|discriminate].
Qed.

