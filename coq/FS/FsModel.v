(* C04 - a small POSIX-like file-system model.

   node   := Leaf (regular file or FIFO, with an inode number: hard links are copies of the
             leaf that carry the same inode number; every attribute write goes to all leaves of
             that inode) | Dir (association list) | Symlink.
   Paths handed to the "system calls" are parsed path strings [pth] (absolute flag, components,
   string length for the PATH_MAX test); resolution follows symbolic links in intermediate
   position, counts them (ELOOP beyond 40), honours "." and "..", NAME_MAX and PATH_MAX.
   A trailing slash is treated as a trailing "/." (exact for every look-up of an existing object;
   the extraction code never passes a trailing slash to a creating call because the sanitiser
   strips them).
   Permissions are stored, not enforced (the harness runs as root, which bypasses them too).
   mtime is "the value last set explicitly" (0 = never set / now). *)
From Coq Require Import List ZArith NArith Bool.
From LA Require Import FS.SanitizeDefs.
Import ListNotations.

Definition name := str.

Inductive node : Type :=
| Leaf (fifo : bool) (ino : N) (data : str) (mode : N) (mtime : Z)
| Dir (ents : list (name * node)) (mode : N) (mtime : Z)
| Symlink (target : str).

Inductive errno : Type :=
| ENOENT | ENOTDIR | EEXIST | EISDIR | EPERM | ELOOP | ENAMETOOLONG | ENOTEMPTY | EINVAL | EBUSY.

Definition errno_eqb (a b : errno) : bool :=
  match a, b with
  | ENOENT, ENOENT | ENOTDIR, ENOTDIR | EEXIST, EEXIST | EISDIR, EISDIR | EPERM, EPERM
  | ELOOP, ELOOP | ENAMETOOLONG, ENAMETOOLONG | ENOTEMPTY, ENOTEMPTY | EINVAL, EINVAL
  | EBUSY, EBUSY => true
  | _, _ => false
  end.

Definition NAME_MAX : nat := 255.
Definition PATH_MAX : nat := 4096.
Definition MAXSYMLINKS : nat := 40.

(* ---------------------------------------------------------------- association lists *)
Fixpoint lookup (k : name) (es : list (name * node)) : option node :=
  match es with
  | [] => None
  | (k', v) :: r => if str_eqb k' k then Some v else lookup k r
  end.

Definition map_entry (k : name) (f : node -> node) (es : list (name * node)) : list (name * node) :=
  map (fun kv => if str_eqb (fst kv) k then (fst kv, f (snd kv)) else kv) es.

Definition del_entry (k : name) (es : list (name * node)) : list (name * node) :=
  filter (fun kv => negb (str_eqb (fst kv) k)) es.

(* ---------------------------------------------------------------- tree access by real path *)
Fixpoint get (p : list name) (n : node) : option node :=
  match p with
  | [] => Some n
  | k :: p' => match n with
               | Dir es _ _ => match lookup k es with Some c => get p' c | None => None end
               | _ => None
               end
  end.

Fixpoint upd (p : list name) (f : node -> node) (n : node) : node :=
  match p with
  | [] => f n
  | k :: p' => match n with
               | Dir es m t => Dir (map_entry k (upd p' f) es) m t
               | x => x
               end
  end.

(* changing a directory's entry list stamps the directory with the current time (NOW = 0) *)
Definition NOW : Z := 0%Z.

Definition add_ent (d : list name) (k : name) (v : node) (r : node) : node :=
  upd d (fun n => match n with Dir es m _ => Dir (es ++ [(k, v)]) m NOW | x => x end) r.

Definition del_ent (d : list name) (k : name) (r : node) : node :=
  upd d (fun n => match n with Dir es m _ => Dir (del_entry k es) m NOW | x => x end) r.

Definition set_dir_mode (m' : N) (n : node) : node :=
  match n with Dir es _ t => Dir es m' t | x => x end.
Definition set_dir_mtime (t' : Z) (n : node) : node :=
  match n with Dir es m _ => Dir es m t' | x => x end.

(* every leaf with inode number i gets its (data, mode, mtime) rewritten *)
Fixpoint map_ino (i : N) (f : str * N * Z -> str * N * Z) (n : node) : node :=
  match n with
  | Leaf ff j d m t =>
      if (j =? i)%N then match f (d, m, t) with (d', m', t') => Leaf ff j d' m' t' end else n
  | Dir es m t =>
      Dir (map (fun kv => match kv with (k, c) => (k, map_ino i f c) end) es) m t
  | Symlink _ => n
  end.

(* ---------------------------------------------------------------- path strings *)
Record pth : Type := mkP { p_abs : bool; p_comps : list name; p_len : nat }.

Definition ends_with_slash (s : str) : bool :=
  match rev s with c :: _ => (c =? SLASH)%N | [] => false end.

Definition nonempty_comps (s : str) : list name :=
  filter (fun c => negb (is_empty c)) (split s).

(* the kernel's view of a path string *)
Definition parse (s : str) : pth :=
  let cs := nonempty_comps s in
  mkP (is_abs s)
      (match cs with [] => [] | _ => if ends_with_slash s then cs ++ [[DOT]] else cs end)
      (length s).

Fixpoint comps_len (l : list name) : nat :=
  match l with
  | [] => 0
  | [x] => length x
  | x :: r => length x + 1 + comps_len r
  end.

(* a path assembled from components: the string "/"? ++ join comps *)
Definition mkpath (abs : bool) (comps : list name) : pth :=
  mkP abs comps ((if abs then 1 else 0) + comps_len comps).

(* ---------------------------------------------------------------- resolution *)
Inductive wres : Type :=
| WErr (e : errno)
| WDir (p : list name)                             (* the path names the directory with real path p ("/", ".", "x/.", "..") *)
| WEnt (p : list name) (k : name) (o : option node).  (* directory p, last component k, object there (not followed) *)

Fixpoint walk (links : nat) (r : node) (cur : list name) (comps : list name) (follow : bool)
         {struct links} : wres :=
  (fix go (cur : list name) (comps : list name) {struct comps} : wres :=
     match comps with
     | [] => WDir cur
     | c :: rest =>
       if is_dot c then go cur rest
       else if is_dotdot c then go (removelast cur) rest
       else if Nat.ltb NAME_MAX (length c) then WErr ENAMETOOLONG
       else
         match get cur r with
         | Some (Dir es _ _) =>
           match lookup c es with
           | None => match rest with [] => WEnt cur c None | _ => WErr ENOENT end
           | Some (Dir es' m' t') =>
               match rest with [] => WEnt cur c (Some (Dir es' m' t')) | _ => go (cur ++ [c]) rest end
           | Some (Symlink t) =>
               if (match rest with [] => negb follow | _ => false end)
               then WEnt cur c (Some (Symlink t))
               else match links with
                    | O => WErr ELOOP
                    | S l' =>
                        if is_empty t then WErr ENOENT
                        else if Nat.leb PATH_MAX (length t) then WErr ENAMETOOLONG
                        else walk l' r (if is_abs t then [] else cur) (p_comps (parse t) ++ rest) follow
                    end
           | Some (Leaf ff i d m t) =>
               match rest with [] => WEnt cur c (Some (Leaf ff i d m t)) | _ => WErr ENOTDIR end
           end
         | _ => WErr ENOENT
         end
     end) cur comps.

Definition resolve (r : node) (cwd : list name) (p : pth) (follow : bool) : wres :=
  if Nat.leb PATH_MAX (p_len p) then WErr ENAMETOOLONG
  else if Nat.eqb (p_len p) 0 then WErr ENOENT
  else walk MAXSYMLINKS r (if p_abs p then [] else cwd) (p_comps p) follow.

(* ---------------------------------------------------------------- the file system + system calls *)
Record fsys : Type := mkFs { root : node; nino : N }.

(* common shape of mkdir / mknod / symlink / open(O_CREAT|O_EXCL): none follows a final symlink *)
Definition create_at (fs : fsys) (cwd : list name) (p : pth) (mk : N -> node * N) (dir_errno : errno)
  : option errno * fsys :=
  match resolve (root fs) cwd p false with
  | WErr e => (Some e, fs)
  | WDir _ => (Some dir_errno, fs)
  | WEnt _ _ (Some _) => (Some EEXIST, fs)
  | WEnt d k None =>
      match mk (nino fs) with
      | (n, ni) => (None, mkFs (add_ent d k n (root fs)) ni)
      end
  end.

Definition sys_mkdir (fs : fsys) (cwd : list name) (p : pth) (mode : N) :=
  create_at fs cwd p (fun ni => (Dir [] mode NOW, ni)) EEXIST.
Definition sys_mkfifo (fs : fsys) (cwd : list name) (p : pth) (mode : N) :=
  create_at fs cwd p (fun ni => (Leaf true ni [] mode NOW, (ni + 1)%N)) EEXIST.
Definition sys_symlink (fs : fsys) (cwd : list name) (target : str) (p : pth) :=
  if is_empty target then (Some ENOENT, fs)
  else create_at fs cwd p (fun ni => (Symlink target, ni)) EEXIST.
(* open(O_WRONLY|O_CREAT|O_EXCL): the new descriptor is the inode number [nino fs] (before the call) *)
Definition sys_open_creat_excl (fs : fsys) (cwd : list name) (p : pth) (mode : N) :=
  create_at fs cwd p (fun ni => (Leaf false ni [] mode NOW, (ni + 1)%N)) EISDIR.

Definition sys_unlink (fs : fsys) (cwd : list name) (p : pth) : option errno * fsys :=
  match resolve (root fs) cwd p false with
  | WErr e => (Some e, fs)
  | WDir _ => (Some EISDIR, fs)
  | WEnt _ _ None => (Some ENOENT, fs)
  | WEnt _ _ (Some (Dir _ _ _)) => (Some EISDIR, fs)
  | WEnt d k (Some _) => (None, mkFs (del_ent d k (root fs)) (nino fs))
  end.

Definition sys_rmdir (fs : fsys) (cwd : list name) (p : pth) : option errno * fsys :=
  match resolve (root fs) cwd p false with
  | WErr e => (Some e, fs)
  | WDir _ => (Some EINVAL, fs)          (* ".", "..", "/" : EINVAL / ENOTEMPTY / EBUSY - always a failure *)
  | WEnt _ _ None => (Some ENOENT, fs)
  | WEnt d k (Some (Dir [] _ _)) => (None, mkFs (del_ent d k (root fs)) (nino fs))
  | WEnt _ _ (Some (Dir (_ :: _) _ _)) => (Some ENOTEMPTY, fs)
  | WEnt _ _ (Some _) => (Some ENOTDIR, fs)
  end.

Definition sys_stat (fs : fsys) (cwd : list name) (p : pth) (follow : bool) : errno + node :=
  match resolve (root fs) cwd p follow with
  | WErr e => inl e
  | WDir d => match get d (root fs) with Some n => inr n | None => inl ENOENT end
  | WEnt _ _ None => inl ENOENT
  | WEnt _ _ (Some n) => inr n
  end.

(* linkat(AT_FDCWD, old, AT_FDCWD, new, 0): the final symlink of old is NOT followed *)
Definition sys_link (fs : fsys) (cwd : list name) (old new : pth) : option errno * fsys :=
  match sys_stat fs cwd old false with
  | inl e => (Some e, fs)
  | inr src =>
    match resolve (root fs) cwd new false with
    | WErr e => (Some e, fs)
    | WDir _ => (Some EEXIST, fs)
    | WEnt _ _ (Some _) => (Some EEXIST, fs)
    | WEnt d k None =>
        match src with
        | Dir _ _ _ => (Some EPERM, fs)
        | _ => (None, mkFs (add_ent d k src (root fs)) (nino fs))
        end
    end
  end.

(* attribute writes through a descriptor (= inode number) *)
Definition fd_chmod (fs : fsys) (i : N) (mode : N) : fsys :=
  mkFs (map_ino i (fun x => match x with (d, _, t) => (d, mode, t) end) (root fs)) (nino fs).
Definition fd_utimens (fs : fsys) (i : N) (t' : Z) : fsys :=
  mkFs (map_ino i (fun x => match x with (d, m, _) => (d, m, t') end) (root fs)) (nino fs).
Definition fd_write (fs : fsys) (i : N) (d' : str) : fsys :=
  mkFs (map_ino i (fun x => match x with (_, m, _) => (d', m, NOW) end) (root fs)) (nino fs).

(* chmod(2): follows a final symlink *)
Definition sys_chmod (fs : fsys) (cwd : list name) (p : pth) (mode : N) : option errno * fsys :=
  match resolve (root fs) cwd p true with
  | WErr e => (Some e, fs)
  | WDir d => (None, mkFs (upd d (set_dir_mode mode) (root fs)) (nino fs))
  | WEnt _ _ None => (Some ENOENT, fs)
  | WEnt d k (Some (Dir _ _ _)) => (None, mkFs (upd (d ++ [k]) (set_dir_mode mode) (root fs)) (nino fs))
  | WEnt _ _ (Some (Leaf _ i _ _ _)) => (None, fd_chmod fs i mode)
  | WEnt _ _ (Some (Symlink _)) => (Some ELOOP, fs)
  end.

(* utimensat(AT_FDCWD, p, ts, AT_SYMLINK_NOFOLLOW); a symlink's own time is not modelled *)
Definition sys_utimens_nofollow (fs : fsys) (cwd : list name) (p : pth) (t' : Z) : option errno * fsys :=
  match resolve (root fs) cwd p false with
  | WErr e => (Some e, fs)
  | WDir d => (None, mkFs (upd d (set_dir_mtime t') (root fs)) (nino fs))
  | WEnt _ _ None => (Some ENOENT, fs)
  | WEnt d k (Some (Dir _ _ _)) => (None, mkFs (upd (d ++ [k]) (set_dir_mtime t') (root fs)) (nino fs))
  | WEnt _ _ (Some (Leaf _ i _ _ _)) => (None, fd_utimens fs i t')
  | WEnt _ _ (Some (Symlink _)) => (None, fs)
  end.

(* open(p, O_RDONLY|O_NOFOLLOW [|O_DIRECTORY]) : what the descriptor refers to *)
Inductive handle : Type := HDir (p : list name) | HIno (i : N).

Definition sys_open_nofollow (fs : fsys) (cwd : list name) (p : pth) (o_directory : bool) : errno + handle :=
  match resolve (root fs) cwd p false with
  | WErr e => inl e
  | WDir d => inr (HDir d)
  | WEnt _ _ None => inl ENOENT
  | WEnt d k (Some (Dir _ _ _)) => inr (HDir (d ++ [k]))
  | WEnt _ _ (Some (Symlink _)) => inl (if o_directory then ENOTDIR else ELOOP)
  | WEnt _ _ (Some (Leaf _ i _ _ _)) => if o_directory then inl ENOTDIR else inr (HIno i)
  end.

Definition h_chmod (fs : fsys) (h : handle) (mode : N) : fsys :=
  match h with
  | HDir d => mkFs (upd d (set_dir_mode mode) (root fs)) (nino fs)
  | HIno i => fd_chmod fs i mode
  end.
Definition h_utimens (fs : fsys) (h : handle) (t' : Z) : fsys :=
  match h with
  | HDir d => mkFs (upd d (set_dir_mtime t') (root fs)) (nino fs)
  | HIno i => fd_utimens fs i t'
  end.

(* chdir(2) *)
Definition sys_chdir (fs : fsys) (cwd : list name) (p : pth) : errno + list name :=
  match resolve (root fs) cwd p true with
  | WErr e => inl e
  | WDir d => inr d
  | WEnt _ _ None => inl ENOENT
  | WEnt d k (Some (Dir _ _ _)) => inr (d ++ [k])
  | WEnt _ _ (Some _) => inl ENOTDIR
  end.

(* rename(old, new) for the SAFE_WRITES temporary: old is a leaf *)
Definition sys_rename (fs : fsys) (cwd : list name) (old new : pth) : option errno * fsys :=
  match resolve (root fs) cwd old false with
  | WErr e => (Some e, fs)
  | WDir _ => (Some EBUSY, fs)
  | WEnt _ _ None => (Some ENOENT, fs)
  | WEnt d k (Some src) =>
    match resolve (root fs) cwd new false with
    | WErr e => (Some e, fs)
    | WDir _ => (Some EBUSY, fs)
    | WEnt d' k' o =>
      match src, o with
      | Dir _ _ _, _ => (Some EINVAL, fs)                     (* never used on directories *)
      | _, Some (Dir _ _ _) => (Some EISDIR, fs)
      | _, _ => (None, mkFs (add_ent d' k' src (del_ent d' k' (del_ent d k (root fs)))) (nino fs))
      end
    end
  end.
