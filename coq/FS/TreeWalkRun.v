(* val -> val front end of the directory-walker model (correspondence protocol).
   case  = ( op sandbox tree arg )
     op 1: arg = list of pathnames the client does NOT descend into
           result ( status ( path ... ) stack-length depth wd-restored )
     op 3: arg = link-resolver strategy
           result ( status ( ( path filetype ( hardlink )? size-is-set ) ... ) )
   tree  = ( 0 name ino content meta ) | ( 1 name ( child ... ) () meta ) | ( 2 name target () meta )
         | ( 3 name filetype () meta )      -- [sandbox] and [meta] are for the harness only *)
From Coq Require Import List ZArith NArith Bool.
From LA Require Import Base.Val Gen.Defines Entry.LinksDefs FS.TreeWalkDefs.
Import ListNotations.

Fixpoint node_of_val (v : val) : tnode :=
  match v with
  | VL (VI k :: VB name :: rest) =>
    match k, rest with
    | 0%Z, VI ino :: VB c :: _ => F name (Z.to_N ino) c
    | 1%Z, VL cs :: _ => D name (map node_of_val cs)
    | 2%Z, VB tg :: _ => L name tg
    | 3%Z, VI ft :: _ => X name (Z.to_N ft)
    | _, _ => X name 0%N
    end
  | _ => X [] 0%N
  end.

Definition policy_of (nodesc : list val) (p : bytes) : bool :=
  negb (existsb (fun v => bytes_eqb (bval v) p) nodesc).

Definition same_fd (a b : dirfd) : bool :=
  Nat.eqb (length a) (length b) && Nat.eqb (length (hd [] a)) (length (hd [] b)).

Definition run_walk (root : tnode) (nodesc : list val) : val :=
  match walk_tree (policy_of nodesc) root with
  | WDone vis t =>
    VL [VI 0; VL (map (fun v => VB (fst v)) vis); VI (Z.of_nat (length (stack t))); VI (Z.of_nat (depth t));
        Vbool (same_fd (wd t) [[root]])]
  | WFailed vis c t =>
    VL [VI (if Z.eqb c TREE_ERROR_FATAL then (-2) else (-1))%Z; VL (map (fun v => VB (fst v)) vis);
        VI (Z.of_nat (length (stack t))); VI (Z.of_nat (depth t)); Vbool (same_fd (wd t) [[root]])]
  | WFuel vis => VErr 1
  end.

Definition val_of_out (e : lentry) : val :=
  VL [VB (epath e); VN (eftype e); Vopt VB (ehard e); Vbool (match esize e with Some _ => true | None => false end)].

Definition run_capture (root : tnode) (strat : N) : val :=
  match walk_tree always root with
  | WDone vis _ => VL [VI 0; VL (map val_of_out (resolve strat (lentries_from vis 0 vis)))]
  | WFailed _ _ _ => VL [VI (-1); VL []]
  | WFuel _ => VErr 1
  end.

Definition run (v : val) : val :=
  let l := lval v in
  let root := node_of_val (vnth l 2) in
  match vnth l 0 with
  | VI 1%Z => run_walk root (lval (vnth l 3))
  | VI 3%Z => run_capture root (nval (vnth l 3))
  | _ => VErr 2
  end.
