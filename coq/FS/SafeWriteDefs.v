(* C19 - safe-writes extraction of ONE regular-file entry over an existing regular file, as a
   program of system calls.  Executable definitions only.

   Transcribed from libarchive/archive_write_disk_posix.c:
     _archive_write_disk_header -> restore_entry -> create_filesystem_object (AE_IFREG branch),
     the EEXIST / SAFE_WRITES branch of restore_entry, la_mktemp, lazy_stat, write_data_block,
     _archive_write_disk_data_block, _archive_write_disk_data, _archive_write_disk_finish_entry
     (with set_ownership, set_mode, set_times_from_entry/set_time as far as they issue calls),
     close_file_descriptor, _archive_write_disk_close/_free (= finish_entry again; no fixups for a
     regular file), and archive_util.c:__archive_mkstemp (= mkstemp(3)).

   Scope of the model (everything else is outside it and said so in Properties_C19.v):
   one entry, file type regular, pathname without a directory part, permission bits <= 0777,
   options SAFE_WRITES [| PERM | TIME | OWNER | SPARSE]; the caller runs as root on Linux
   (fchown succeeds unless a fault is injected; HAVE_FUTIMENS/UTIMENSAT, no birthtime).

   The code exists in up to 2^4 variants: each of the four proposed repairs (fixes/C19-*.diff)
   is a boolean of [variant]; [unfixed] is the pinned tree.  translators/gen_safeWrite.py reads
   the variant of the tree under test from the source (coq/Gen/SafeWrite.v). *)
From Coq Require Import List ZArith NArith Bool Arith Lia.
From LA Require Import Base.Val.
Import ListNotations.

(* ------------------------------------------------------------------ file system *)
Definition content := list N.

Inductive name := Target | Temp.           (* "<name>" and "<name>.XXXXXX" *)
Definition name_eqb (a b : name) : bool :=
  match a, b with Target, Target => true | Temp, Temp => true | _, _ => false end.

(* directory: name -> inode id; inode store: id -> bytes; the one open descriptor (inode, position) *)
Record fsT := mkFs { dir : name -> option nat; store : nat -> content; ofd : option (nat * nat) }.

Definition OLD_INO := 1.
Definition TMP_INO := 2.

Definition dir_set (d : name -> option nat) (n : name) (v : option nat) : name -> option nat :=
  fun x => if name_eqb x n then v else d x.
Definition st_set (s : nat -> content) (i : nat) (c : content) : nat -> content :=
  fun j => if Nat.eqb j i then c else s j.

Definition init_fs (old : content) : fsT :=
  mkFs (fun n => match n with Target => Some OLD_INO | Temp => None end)
       (fun i => if Nat.eqb i OLD_INO then old else []) None.

(* what a reader of the target pathname sees *)
Definition target_content (f : fsT) : option content :=
  match dir f Target with Some i => Some (store f i) | None => None end.

(* write(2) of b at position o: the gap, if any, reads as zeros *)
Definition ov (c : content) (o : nat) (b : content) : content :=
  match b with
  | [] => c
  | _ => firstn o c ++ repeat 0%N (o - length c) ++ b ++ skipn (o + length b) c
  end.
(* ftruncate(2) *)
Definition resize (c : content) (n : nat) : content := firstn n c ++ repeat 0%N (n - length c).

Definition EPERM := 1. Definition ENOENT := 2. Definition EBADF := 9. Definition EEXIST := 17.
Definition ENOTDIR := 20. Definition EISDIR := 21. Definition ENOSYS := 38.

Inductive call :=
| COpenExcl (n : name)            (* open(n, O_WRONLY|O_CREAT|O_EXCL|O_CLOEXEC, mode) *)
| CLstat (n : name)
| CMkstemp                        (* mkstemp("<name>.XXXXXX") *)
| CFchmod (mode : N)
| CChmod (n : name) (mode : N)
| CFchown
| CLchown (n : name)
| CFstat
| CLseek (off : nat)
| CWrite (b : content)
| CFtruncate (len : nat)
| CFutimens
| CUtimensat (n : name)
| CClose
| CRename                         (* rename("<name>.XXXXXX", "<name>") *)
| CUnlink (n : name)
| CRmdir (n : name).

Inductive res := ROk (v : nat) | RErr (e : nat).

Definition on_path (f : fsT) (n : name) : fsT * res :=
  match dir f n with Some _ => (f, ROk 0) | None => (f, RErr ENOENT) end.
Definition on_fd (f : fsT) : fsT * res :=
  match ofd f with Some _ => (f, ROk 0) | None => (f, RErr EBADF) end.

(* the call succeeds unless the file system itself refuses it *)
Definition exec (f : fsT) (c : call) : fsT * res :=
  match c with
  | COpenExcl n =>
      match dir f n with
      | Some _ => (f, RErr EEXIST)
      | None => (f, RErr ENOSYS)     (* creating the target itself: not the safe-writes path, not modelled;
                                        unreachable, the target exists in every state (SafeWriteProofs.target_always) *)
      end
  | CLstat n => match dir f n with Some i => (f, ROk (length (store f i))) | None => (f, RErr ENOENT) end
  | CMkstemp => (mkFs (dir_set (dir f) Temp (Some TMP_INO)) (st_set (store f) TMP_INO []) (Some (TMP_INO, 0)), ROk 0)
  | CFchmod _ | CFchown | CFutimens => on_fd f
  | CChmod n _ | CLchown n | CUtimensat n => on_path f n
  | CFstat => match ofd f with Some (i, _) => (f, ROk (length (store f i))) | None => (f, RErr EBADF) end
  | CLseek off => match ofd f with Some (i, _) => (mkFs (dir f) (store f) (Some (i, off)), ROk off) | None => (f, RErr EBADF) end
  | CWrite b =>
      match ofd f with
      | Some (i, pos) => (mkFs (dir f) (st_set (store f) i (ov (store f i) pos b)) (Some (i, pos + length b)), ROk (length b))
      | None => (f, RErr EBADF)
      end
  | CFtruncate len =>
      match ofd f with
      | Some (i, pos) => (mkFs (dir f) (st_set (store f) i (resize (store f i) len)) (Some (i, pos)), ROk 0)
      | None => (f, RErr EBADF)
      end
  | CClose => (mkFs (dir f) (store f) None, ROk 0)
  | CRename =>
      match dir f Temp with
      | Some i => (mkFs (dir_set (dir_set (dir f) Target (Some i)) Temp None) (store f) (ofd f), ROk 0)
      | None => (f, RErr ENOENT)
      end
  | CUnlink n =>
      match dir f n with
      | Some _ => (mkFs (dir_set (dir f) n None) (store f) (ofd f), ROk 0)
      | None => (f, RErr ENOENT)
      end
  | CRmdir n => match dir f n with Some _ => (f, RErr ENOTDIR) | None => (f, RErr ENOENT) end
  end.

(* ------------------------------------------------------------------ faults *)
(* FErr e: the call is not performed and fails with errno e (close: the descriptor is released
   anyway, as on Linux).  FShort: a write transfers only half of the bytes (at least one). *)
Inductive fault := FErr (e : nat) | FShort.
Definition plan := nat -> option fault.          (* index = position of the call in the trace *)
Definition no_faults : plan := fun _ => None.

Definition short_len (n : nat) : nat := if Nat.leb n 1 then n else Nat.div2 n.

Record step := mkStep { s_call : call; s_res : res; s_fs : fsT }.     (* s_fs: state AFTER the call *)

(* ------------------------------------------------------------------ the code under test *)
Record variant := mkVariant {
  fix_mktemp : bool;    (* la_mktemp: close + unlink(tmpname) when fchmod fails; tmpname = NULL on failure *)
  fix_finish : bool;    (* close_file_descriptor (error returns of finish_entry) also unlinks tmpname *)
  fix_write  : bool;    (* a failed lazy_stat/lseek/write of the body marks the temp incomplete: finish_entry unlinks instead of renaming *)
  fix_lstat  : bool     (* lazy_stat falls back to lstat(tmpname) instead of lstat(name) while the temp is open *)
}.
Definition unfixed : variant := mkVariant false false false false.
Definition all_fixed : variant := mkVariant true true true true.

Record config := mkConfig {
  c_old : content;                 (* the previous file *)
  c_perm : N;                      (* permission bits of the entry *)
  c_opt_perm : bool; c_opt_time : bool; c_opt_owner : bool; c_opt_sparse : bool;
  c_size : option nat;             (* archive_entry_size, None = not set (a->filesize = -1) *)
  c_mtime : bool;                  (* mtime set in the entry *)
  c_umask : N;
  c_blksize : nat;                 (* st_blksize of the file system *)
  c_stop : bool;                   (* client stops feeding data at the first result < ARCHIVE_OK (archive_read_extract) *)
  c_blocks : list (bool * nat * content)   (* (false, off, bytes) = archive_write_data_block; (true, _, bytes) = archive_write_data *)
}.

(* struct archive_write_disk, the fields that matter here *)
Record astate := mkA {
  a_fd : bool;          (* a->fd >= 0 *)
  a_tmp : bool;         (* a->tmpname != NULL *)
  a_off : nat;          (* a->offset *)
  a_fdoff : nat;        (* a->fd_offset *)
  a_pst : bool;         (* a->pst != NULL *)
  a_data : bool;        (* archive.state == ARCHIVE_STATE_DATA *)
  a_wfail : bool        (* a->tmpfile_incomplete (fix_write only) *)
}.

Record mstate := mkM { fs : fsT; steps : list step (* newest first *); ast : astate }.

Definition ARCHIVE_OK := 0%Z.
Definition ARCHIVE_WARN := (-20)%Z.
Definition ARCHIVE_FAILED := (-25)%Z.
Definition ARCHIVE_FATAL := (-30)%Z.
Definition ST_UNDEFINED := (-99)%Z.   (* the C code computes a negative size_t: outside the model *)
Definition ST_FUEL := (-98)%Z.

Definition with_a (m : mstate) (a : astate) : mstate := mkM (fs m) (steps m) a.
Definition set_fd (a : astate) (b : bool) := mkA b (a_tmp a) (a_off a) (a_fdoff a) (a_pst a) (a_data a) (a_wfail a).
Definition set_tmp (a : astate) (b : bool) := mkA (a_fd a) b (a_off a) (a_fdoff a) (a_pst a) (a_data a) (a_wfail a).
Definition set_off (a : astate) (o : nat) := mkA (a_fd a) (a_tmp a) o (a_fdoff a) (a_pst a) (a_data a) (a_wfail a).
Definition set_fdoff (a : astate) (o : nat) := mkA (a_fd a) (a_tmp a) (a_off a) o (a_pst a) (a_data a) (a_wfail a).
Definition set_pst (a : astate) (b : bool) := mkA (a_fd a) (a_tmp a) (a_off a) (a_fdoff a) b (a_data a) (a_wfail a).
Definition set_data (a : astate) (b : bool) := mkA (a_fd a) (a_tmp a) (a_off a) (a_fdoff a) (a_pst a) b (a_wfail a).
Definition set_wfail (a : astate) (b : bool) := mkA (a_fd a) (a_tmp a) (a_off a) (a_fdoff a) (a_pst a) (a_data a) b.

Definition zmin (a b : Z) : Z := if (b <? a)%Z then b else a.     (* if (r2 < ret) ret = r2; *)

Fixpoint drop_zeros (b : content) : nat * content :=
  match b with
  | 0%N :: t => let '(k, r) := drop_zeros t in (S k, r)
  | _ => (0, b)
  end.

Section Program.
Variable v : variant.
Variable cfg : config.
Variable p : plan.

(* one system call: consult the fault plan at this position of the trace, record the step *)
Definition sys (m : mstate) (c : call) : mstate * res :=
  let k := length (steps m) in
  let '(f', r) :=
    match p k, c with
    | Some (FErr e), CClose => (fst (exec (fs m) CClose), RErr e)
    | Some (FErr e), _ => (fs m, RErr e)
    | Some FShort, CWrite b =>
        match exec (fs m) (CWrite (firstn (short_len (length b)) b)) with (f', r) => (f', r) end
    | _, _ => exec (fs m) c
    end in
  (mkM f' (mkStep c r f' :: steps m) (ast m), r).

(* a->mode after _archive_write_disk_header's adjustments *)
Definition a_mode : N :=
  if c_opt_perm cfg then c_perm cfg
  else N.ldiff (N.land (c_perm cfg) 511 (* ~S_ISUID ~S_ISGID ~S_ISVTX *)) (c_umask cfg).
Definition mode_mktemp : N := N.ldiff (N.land a_mode 511) (c_umask cfg).   (* a->mode & 0777 & ~a->user_umask *)
Definition mode_final : N := N.land a_mode 4095.                           (* mode &= 07777 in set_mode *)

(* close_file_descriptor *)
Definition close_fd (m : mstate) : mstate :=
  let m := if a_fd (ast m) then let '(m, _) := sys m CClose in with_a m (set_fd (ast m) false) else m in
  if fix_finish v then
    if a_tmp (ast m) then let '(m, _) := sys m (CUnlink Temp) in with_a m (set_tmp (ast m) false) else m
  else m.

(* la_mktemp: returns (state, success) *)
Definition la_mktemp (m : mstate) : mstate * bool :=
  let m := with_a m (set_tmp (ast m) true) in
  let '(m, r) := sys m CMkstemp in
  match r with
  | RErr _ => (if fix_mktemp v then with_a m (set_tmp (ast m) false) else m, false)
  | ROk _ =>
      let '(m, r) := sys m (CFchmod mode_mktemp) in
      match r with
      | RErr _ =>
          let '(m, _) := sys m CClose in
          if fix_mktemp v then
            let '(m, _) := sys m (CUnlink Temp) in (with_a m (set_tmp (ast m) false), false)
          else (m, false)
      | ROk _ => (with_a m (set_fd (ast m) true), true)
      end
  end.

(* create_filesystem_object, regular file: one open(O_CREAT|O_EXCL); returns errno or 0 *)
Definition create_object (m : mstate) : mstate * nat :=
  let m := with_a m (set_tmp (ast m) false) in
  let '(m, r) := sys m (COpenExcl Target) in
  match r with ROk _ => (m, 0) | RErr e => (m, e) end.

(* restore_entry (no UNLINK / NO_OVERWRITE* flags, no hardlink), then the tail of
   _archive_write_disk_header; the result is the header status *)
Definition header (m : mstate) : mstate * Z :=
  let '(m, en) := create_object m in
  let '(m, en) :=
    if (Nat.eqb en ENOTDIR || Nat.eqb en ENOENT)%bool
    then create_object m      (* create_parent_dir(a, "<name>") has no directory part: no calls *)
    else (m, en) in
  if Nat.eqb en EISDIR then
    (* rmdir(a->name); it is a regular file, so this fails; a success is not modelled *)
    let '(m, _) := sys m (CRmdir Target) in (m, ARCHIVE_FAILED)
  else if Nat.eqb en EEXIST then
    let '(m, r) := sys m (CLstat Target) in
    match r with
    | RErr _ => (m, ARCHIVE_FAILED)                 (* "Can't stat existing object" *)
    | ROk _ =>
        (* !S_ISDIR(st_mode), SAFE_WRITES and S_ISREG(st_mode) *)
        let '(m, ok) := la_mktemp m in
        if ok then (with_a m (set_data (set_pst (ast m) false) true), ARCHIVE_OK)
        else (m, ARCHIVE_FAILED)                    (* "Can't create temporary file" *)
    end
  else (m, ARCHIVE_FAILED).                         (* "Can't create '%s'" (en = 0 cannot happen) *)

(* lazy_stat: Some size | None = ARCHIVE_WARN *)
Definition lazy_stat (m : mstate) : mstate * option nat :=
  let fallback (m : mstate) :=
    let n := if (fix_lstat v && a_fd (ast m) && a_tmp (ast m))%bool then Temp else Target in
    let '(m, r) := sys m (CLstat n) in
    match r with
    | ROk sz => (with_a m (set_pst (ast m) true), Some sz)
    | RErr _ => (m, None)
    end in
  if a_fd (ast m) then
    let '(m, r) := sys m CFstat in
    match r with
    | ROk sz => (with_a m (set_pst (ast m) true), Some sz)
    | RErr _ => fallback m
    end
  else fallback m.

Definition mark_wfail (m : mstate) : mstate :=
  if fix_write v then with_a m (set_wfail (ast m) true) else m.

(* the while (size > 0) loop of write_data_block; bs = 0: not sparsifying.
   Result None: loop ran to completion; Some st: early return with status st *)
Fixpoint wloop (fuel : nat) (bs : nat) (m : mstate) (buf : content) : mstate * option Z :=
  match buf with
  | [] => (m, None)
  | _ =>
    match fuel with
    | O => (m, Some ST_FUEL)
    | S fuel =>
      (* skip leading zero bytes when sparsifying *)
      let '(k, buf) := if Nat.eqb bs 0 then (0, buf) else drop_zeros buf in
      let m := with_a m (set_off (ast m) (a_off (ast m) + k)) in
      match buf with
      | [] => (m, None)
      | _ =>
        let n := if Nat.eqb bs 0 then length buf
                 else Nat.min (length buf) ((a_off (ast m) / bs + 1) * bs - a_off (ast m)) in
        (* seek if necessary *)
        let '(m, seek_ok) :=
          if Nat.eqb (a_off (ast m)) (a_fdoff (ast m)) then (m, true)
          else let '(m, r) := sys m (CLseek (a_off (ast m))) in
               match r with
               | RErr _ => (m, false)
               | ROk _ => (with_a m (set_fdoff (ast m) (a_off (ast m))), true)
               end in
        if negb seek_ok then (mark_wfail m, Some ARCHIVE_FATAL)
        else
          let '(m, r) := sys m (CWrite (firstn n buf)) in
          match r with
          | RErr _ => (mark_wfail m, Some ARCHIVE_WARN)
          | ROk w =>
              let o := a_off (ast m) + w in
              wloop fuel bs (with_a m (set_fdoff (set_off (ast m) o) o)) (skipn w buf)
          end
      end
    end
  end.

(* write_data_block: result = status (< 0) or number of bytes accepted *)
Definition write_data_block (m : mstate) (buf : content) : mstate * Z :=
  match buf with
  | [] => (m, ARCHIVE_OK)
  | _ =>
    if (match c_size cfg with Some 0 => true | _ => false end || negb (a_fd (ast m)))%bool
    then (m, ARCHIVE_WARN)                           (* "Attempt to write to an empty file" *)
    else
      let '(m, bs) :=
        if c_opt_sparse cfg then
          if a_pst (ast m) then (m, Some (c_blksize cfg))
          else let '(m, r) := lazy_stat m in
               match r with Some _ => (m, Some (c_blksize cfg)) | None => (m, None) end
        else (m, Some 0) in
      match bs with
      | None => (mark_wfail m, ARCHIVE_WARN)         (* lazy_stat failed *)
      | Some bs =>
        let off := a_off (ast m) in
        let clipped :=
          match c_size cfg with
          | Some fz => if Nat.ltb fz (off + length buf)
                       then (if Nat.ltb fz off then None else Some (firstn (fz - off) buf))
                       else Some buf
          | None => Some buf
          end in
        match clipped with
        | None => (m, ST_UNDEFINED)
        | Some buf' =>
            let '(m, r) := wloop (S (length buf')) bs m buf' in
            match r with
            | Some st => (m, st)
            | None => (m, Z.of_nat (length buf'))
            end
        end
      end
  end.

(* _archive_write_disk_data_block / _archive_write_disk_data *)
Definition write_block (m : mstate) (b : bool * nat * content) : mstate * Z :=
  let '(is_data, off, buf) := b in
  if is_data then write_data_block m buf
  else
    let m := with_a m (set_off (ast m) off) in
    let '(m, r) := write_data_block m buf in
    if (r <? 0)%Z then (m, r)
    else if (r <? Z.of_nat (length buf))%Z then (m, ARCHIVE_WARN)    (* "Too much data" *)
    else (m, ARCHIVE_OK).

(* the client: feeds the blocks, optionally stopping at the first result < ARCHIVE_OK *)
Fixpoint feed (m : mstate) (bl : list (bool * nat * content)) : mstate * list Z :=
  match bl with
  | [] => (m, [])
  | b :: bl' =>
      let '(m, r) := write_block m b in
      if (c_stop cfg && (r <? 0)%Z)%bool then (m, [r])
      else let '(m, rs) := feed m bl' in (m, r :: rs)
  end.

(* the first part of _archive_write_disk_finish_entry: pad or truncate to the declared size.
   Some st = early return *)
Definition finish_size (m : mstate) : mstate * option Z :=
  match c_size cfg with
  | None =>
    (* size unknown: the file ends where the data ended; zero bytes skipped at the end (EXTRACT_SPARSE)
       are made part of the file *)
    if (a_fd (ast m) && Nat.ltb (a_fdoff (ast m)) (a_off (ast m)))%bool then
      let '(m, r) := sys m (CFtruncate (a_off (ast m))) in
      match r with
      | RErr _ => (close_fd m, Some ARCHIVE_FAILED)
      | ROk _ => (m, None)
      end
    else (m, None)
  | Some fz =>
    if (negb (a_fd (ast m)) || Nat.eqb (a_fdoff (ast m)) fz)%bool then (m, None)
    else
      let '(m, r) := sys m (CFtruncate fz) in
      if (match r with RErr _ => true | ROk _ => false end && Nat.eqb fz 0)%bool
      then (close_fd m, Some ARCHIVE_FAILED)
      else
        let m := with_a m (set_pst (ast m) false) in
        let '(m, st) := lazy_stat m in
        match st with
        | None => (close_fd m, Some ARCHIVE_WARN)
        | Some sz =>
          if Nat.ltb sz fz then
            let '(m, r) := sys m (CLseek (fz - 1)) in
            match r with
            | RErr _ => (close_fd m, Some ARCHIVE_FATAL)
            | ROk _ =>
              let '(m, r) := sys m (CWrite [0%N]) in
              match r with
              | RErr _ => (close_fd m, Some ARCHIVE_FATAL)
              | ROk _ => (with_a m (set_pst (ast m) false), None)
              end
            end
          else (m, None)
        end
  end.

Definition res_status (r : res) : Z := match r with ROk _ => ARCHIVE_OK | RErr _ => ARCHIVE_WARN end.

(* set_ownership / set_mode / set_times_from_entry, then finish_metadata: close, rename | unlink *)
Definition finish_meta (m : mstate) : mstate * Z :=
  let ret := ARCHIVE_OK in
  let '(m, ret) :=
    if c_opt_owner cfg then
      let '(m, ok) :=
        if a_fd (ast m) then let '(m, r) := sys m CFchown in
                             (m, match r with ROk _ => true | RErr _ => false end)
        else (m, false) in
      if ok then (m, ret)
      else let '(m, r) := sys m (CLchown Target) in (m, zmin ret (res_status r))
    else (m, ret) in
  let '(m, ret) :=
    let '(m, r) := if a_fd (ast m) then sys m (CFchmod mode_final) else sys m (CChmod Target mode_final) in
    (m, zmin ret (res_status r)) in
  let '(m, ret) :=
    if (c_opt_time cfg && c_mtime cfg)%bool then
      let '(m, r) := if a_fd (ast m) then sys m CFutimens else sys m (CUtimensat Target) in
      (m, zmin ret (res_status r))
    else (m, ret) in
  let '(m, ret) :=
    if a_fd (ast m) then
      let '(m, _) := sys m CClose in
      let m := with_a m (set_fd (ast m) false) in
      if a_tmp (ast m) then
        let '(m, ret) :=
          if (fix_write v && a_wfail (ast m))%bool then
            let '(m, _) := sys m (CUnlink Temp) in (m, ARCHIVE_FAILED)
          else
            let '(m, r) := sys m CRename in
            match r with
            | ROk _ => (m, ret)
            | RErr _ => let '(m, _) := sys m (CUnlink Temp) in (m, ARCHIVE_FAILED)
            end in
        (with_a m (set_tmp (ast m) false), ret)
      else (m, ret)
    else (m, ret) in
  (with_a m (set_data (ast m) false), ret).

Definition finish_entry (m : mstate) : mstate * Z :=
  if negb (a_data (ast m)) then (m, ARCHIVE_OK)
  else
    let '(m, early) := finish_size m in
    match early with
    | Some st => (m, st)
    | None => finish_meta m
    end.

Definition init_astate : astate := mkA false false 0 0 false false false.
Definition init_m : mstate := mkM (init_fs (c_old cfg)) [] init_astate.

Record outcome := mkOut {
  o_header : Z; o_data : list Z; o_finish : Z; o_close : Z; o_free : Z;
  o_final : mstate
}.

(* archive_write_header; data (only when the header did not fail); archive_write_finish_entry;
   archive_write_close (= finish_entry, no fixups); archive_write_free (= close again) *)
Definition sw_run : outcome :=
  let '(m, h) := header init_m in
  let '(m, ds) := if (h <? ARCHIVE_WARN)%Z then (m, []) else feed m (c_blocks cfg) in
  let '(m, f) := finish_entry m in
  let '(m, c) := finish_entry m in
  let '(m, fr) := finish_entry m in
  mkOut h ds f c fr m.

End Program.

(* ------------------------------------------------------------------ observations *)
Definition trace (o : outcome) : list step := rev (steps (o_final o)).
(* the file-system states a crash can expose: before the first call and after every call *)
Definition states (cfg : config) (o : outcome) : list fsT := init_fs (c_old cfg) :: map s_fs (trace o).
Definition final_fs (o : outcome) : fsT := fs (o_final o).

(* "the complete new file" = what the target name refers to after a fault-free extraction *)
Definition new_complete (v : variant) (cfg : config) : option content :=
  target_content (final_fs (sw_run v cfg no_faults)).

Definition old_or_new (v : variant) (cfg : config) (f : fsT) : Prop :=
  target_content f = Some (c_old cfg) \/ target_content f = new_complete v cfg.

Definition temp_left (f : fsT) : bool := match dir f Temp with Some _ => true | None => false end.

Definition is_unlink (c : call) : bool := match c with CUnlink _ => true | _ => false end.
Definition failed (r : res) : bool := match r with RErr _ => true | ROk _ => false end.
(* no unlink call of the run failed *)
Definition unlinks_ok (o : outcome) : bool :=
  forallb (fun s => negb (is_unlink (s_call s) && failed (s_res s))) (trace o).

(* every data_block offset lies inside the declared size (else the C code computes
   (size_t)(filesize - offset) from a negative number and passes it to write(2)) *)
Definition wf (cfg : config) : bool :=
  match c_size cfg with
  | None => true
  | Some fz => forallb (fun b => let '(is_data, off, _) := b in (is_data || Nat.leb off fz)%bool) (c_blocks cfg)
  end && negb (Nat.eqb (c_blksize cfg) 0).

Definition errno_only (p : plan) : Prop := forall k, p k <> Some FShort.

(* plans given as association lists (the form used by the correspondence check) *)
Fixpoint plan_of (l : list (nat * fault)) : plan :=
  fun k => match l with
           | [] => None
           | (i, f) :: t => if Nat.eqb i k then Some f else plan_of t k
           end.
