(* Lemmas about the directory-walker model of FS/TreeWalkDefs.v (tree_next of
   archive_read_disk_posix.c driven by a write_hierarchy-style client).

   walk_spec           : for every finite tree with unique sibling names and every descend policy the
                         machine terminates within fuel_for, does not fail, produces exactly visits_spec
                         and gives the working directory back.
   walk_fuel_enough    : more fuel gives the same result.
   visits_always_perm  : with the "always descend" policy every object is visited exactly once.
   parent_first        : every visit other than the top is preceded by the visit of its parent directory.
   walk_never          : with the "never descend" policy only the top is visited.
   walk_fuel_error     : the error value WFuel really appears when the fuel is too small. *)
From Coq Require Import List ZArith NArith Bool Arith Lia Permutation.
From LA Require Import Base.Val FS.TreeWalkDefs.
Import ListNotations.

(* ------------------------------------------------------------------ induction on the nested tree *)
Section TnodeInd.
  Variable P : tnode -> Prop.
  Hypothesis HF : forall a i c, P (F a i c).
  Hypothesis HD : forall a cs, Forall P cs -> P (D a cs).
  Hypothesis HL : forall a t, P (L a t).
  Hypothesis HX : forall a k, P (X a k).
  Fixpoint tnode_ind' (n : tnode) : P n :=
    match n with
    | F a i c => HF a i c
    | D a cs =>
      HD a cs ((fix go (l : list tnode) : Forall P l :=
                  match l with
                  | [] => Forall_nil P
                  | x :: tl => Forall_cons x (tnode_ind' x) (go tl)
                  end) cs)
    | L a t => HL a t
    | X a k => HX a k
    end.
End TnodeInd.

(* ------------------------------------------------------------------ (B) always descend: every object once *)
Lemma concat_snoc : forall (A : Type) (ls : list (list A)) (l : list A),
  concat (ls ++ [l]) = concat ls ++ l.
Proof. intros. rewrite concat_app. simpl. rewrite app_nil_r. reflexivity. Qed.

Lemma perm_children : forall (A : Type) (h : tnode -> A) (g g' : tnode -> list A) (cs : list tnode),
  Forall (fun c => Permutation (g c) (g' c)) cs ->
  Permutation (map h cs ++ concat (rev (map g cs))) (concat (map (fun c => h c :: g' c) cs)).
Proof.
  intros A h g g' cs H. induction H as [|c tl Hc Htl IH]; simpl.
  - constructor.
  - constructor. rewrite concat_snoc. rewrite app_assoc.
    eapply Permutation_trans. apply Permutation_app_comm.
    apply Permutation_app; assumption.
Qed.

Lemma objects_cons : forall p n, objects p n = (p, n) :: tl (objects p n).
Proof. destruct n; reflexivity. Qed.

Lemma below_always_objects : forall n p,
  Permutation (below always p n) (tl (objects p n)).
Proof.
  induction n using tnode_ind'; intros p; simpl; try constructor.
  unfold always at 1. cbn iota.
  rewrite (map_ext (fun c => objects (join p (nname c)) c)
                   (fun c => (join p (nname c), c) :: tl (objects (join p (nname c)) c)))
    by (intros; apply objects_cons).
  apply perm_children with (h := fun c => (join p (nname c), c))
                           (g := fun c => below always (join p (nname c)) c)
                           (g' := fun c => tl (objects (join p (nname c)) c)).
  eapply Forall_impl; [|exact H]. intros c Hc. apply Hc.
Qed.

Theorem visits_always_perm : forall root,
  Permutation (visits_spec always root) (all_objects root).
Proof.
  intros root. unfold visits_spec, all_objects. rewrite objects_cons.
  constructor. apply below_always_objects.
Qed.

Definition sumnodes (cs : list tnode) : nat := fold_right (fun c a => nodes c + a) 0 cs.

Lemma objects_length : forall n p, length (objects p n) = nodes n.
Proof.
  induction n using tnode_ind'; intros p; simpl; try reflexivity.
  f_equal. induction H as [|c tl Hc Htl IH]; simpl; [reflexivity|].
  rewrite app_length. rewrite IH. f_equal. destruct c; apply Hc.
Qed.

Theorem visits_always_length : forall root,
  length (visits_spec always root) = nodes root.
Proof.
  intros root. rewrite (Permutation_length (visits_always_perm root)).
  apply objects_length.
Qed.

(* ------------------------------------------------------------------ (C) parent before child *)
(* visits zipped with the parent path *)
Fixpoint below_z (pol : bytes -> bool) (p : bytes) (n : tnode) : list (option bytes * visit) :=
  match n with
  | D _ cs =>
    if pol p then
      map (fun c => (Some p, (join p (nname c), c))) cs ++
      concat (rev (map (fun c => below_z pol (join p (nname c)) c) cs))
    else []
  | _ => []
  end.

Lemma map_concat_rev_map : forall (A B C : Type) (f : B -> C) (g : A -> list B) (g' : A -> list C) (cs : list A),
  Forall (fun c => map f (g c) = g' c) cs ->
  map f (concat (rev (map g cs))) = concat (rev (map g' cs)).
Proof.
  intros A B C f g g' cs H. rewrite concat_map, map_rev, map_map. do 2 f_equal.
  induction H; simpl; [reflexivity|]. f_equal; assumption.
Qed.

Lemma below_z_snd : forall pol n p, map snd (below_z pol p n) = below pol p n.
Proof.
  intros pol. induction n using tnode_ind'; intros p; simpl; try reflexivity.
  destruct (pol p); [|reflexivity]. rewrite map_app, map_map. simpl. f_equal.
  - apply map_concat_rev_map. eapply Forall_impl; [|exact H]. intros c Hc. apply Hc.
Qed.

Lemma below_z_par : forall pol n p,
  map (fun z => (fst z, fst (snd z))) (below_z pol p n) = below_par pol p n.
Proof.
  intros pol. induction n using tnode_ind'; intros p; simpl; try reflexivity.
  destruct (pol p); [|reflexivity]. rewrite map_app, map_map. simpl. f_equal.
  - apply map_concat_rev_map. eapply Forall_impl; [|exact H]. intros c Hc. apply Hc.
Qed.

Theorem visits_par_fst : forall pol root,
  map snd (visits_par pol root) = map fst (visits_spec pol root).
Proof.
  intros pol root. unfold visits_par, visits_spec. simpl. f_equal.
  rewrite <- below_z_par, <- below_z_snd. rewrite !map_map. reflexivity.
Qed.

Definition okS (S : bytes -> Prop) (zl : list (option bytes * visit)) : Prop :=
  forall i opar p m, nth_error zl i = Some (opar, (p, m)) ->
  exists par, opar = Some par /\
    (S par \/ exists j o m', j < i /\ nth_error zl j = Some (o, (par, m')) /\ is_dir m' = true).

Lemma okS_mono : forall (S S' : bytes -> Prop) zl,
  (forall par, S par -> S' par) -> okS S zl -> okS S' zl.
Proof.
  intros S S' zl HS H i opar p m Hi. destruct (H i opar p m Hi) as [par [E [Hs|Hr]]];
    exists par; split; auto.
Qed.

Lemma okS_app : forall (S : bytes -> Prop) A B,
  okS S A ->
  okS (fun par => S par \/ exists j o m', nth_error A j = Some (o, (par, m')) /\ is_dir m' = true) B ->
  okS S (A ++ B).
Proof.
  intros S A B HA HB i opar p m Hi.
  destruct (lt_dec i (length A)) as [Hlt|Hge].
  - rewrite nth_error_app1 in Hi by assumption.
    destruct (HA i opar p m Hi) as [par [E [Hs|[j [o [m' [Hj [Hn Hd]]]]]]]]; exists par; split; auto.
    right. exists j, o, m'. split; [assumption|]. split; [|assumption].
    rewrite nth_error_app1 by lia. assumption.
  - rewrite nth_error_app2 in Hi by lia.
    destruct (HB _ opar p m Hi) as [par [E [[Hs|[j [o [m' [Hn Hd]]]]]|[j [o [m' [Hj [Hn Hd]]]]]]]];
      exists par; split; auto.
    + right. exists j, o, m'.
      assert (j < length A) by (apply nth_error_Some; rewrite Hn; discriminate).
      split; [lia|]. split; [|assumption]. rewrite nth_error_app1 by assumption. assumption.
    + right. exists (length A + j), o, m'. split; [lia|]. split; [|assumption].
      rewrite nth_error_app2 by lia. replace (length A + j - length A) with j by lia. assumption.
Qed.

Lemma okS_nil : forall S, okS S [].
Proof. intros S i opar p m Hi. destruct i; discriminate. Qed.

Lemma okS_concat : forall (S : bytes -> Prop) ls, Forall (okS S) ls -> okS S (concat ls).
Proof.
  intros S ls H. induction H as [|l ls Hl Hls IH]; simpl.
  - apply okS_nil.
  - apply okS_app; [assumption|]. eapply okS_mono; [|exact IH]. intros; left; assumption.
Qed.

Lemma nth_error_map_inv : forall (A B : Type) (f : A -> B) l i y,
  nth_error (map f l) i = Some y -> exists x, nth_error l i = Some x /\ f x = y.
Proof.
  intros A B f l. induction l as [|a l IH]; intros [|i] y Hi; simpl in *; try discriminate.
  - injection Hi as <-. eauto.
  - apply IH. assumption.
Qed.

Lemma below_z_ok : forall pol n q,
  okS (fun par => par = q /\ is_dir n = true) (below_z pol q n).
Proof.
  intros pol. induction n using tnode_ind'; intros q; simpl; try apply okS_nil.
  destruct (pol q); [|apply okS_nil].
  apply okS_app.
  - intros i opar p m Hi. apply nth_error_map_inv in Hi. destruct Hi as [c [Hc E]].
    injection E as <- <- <-. exists q. auto.
  - apply okS_concat. apply Forall_forall. intros l Hl.
    apply in_rev in Hl. apply in_map_iff in Hl. destruct Hl as [c [<- Hc]].
    rewrite Forall_forall in H. eapply okS_mono; [|apply (H c Hc)].
    intros par [-> Hd]. right.
    destruct (In_nth_error _ _ Hc) as [j Hj].
    exists j, (Some q), c. split; [|assumption].
    apply map_nth_error with (f := fun c => (Some q, (join q (nname c), c))). assumption.
Qed.

Theorem parent_first : forall pol root i par p,
  nth_error (visits_par pol root) i = Some (Some par, p) ->
  exists j n, j < i /\ nth_error (visits_spec pol root) j = Some (par, n) /\ is_dir n = true.
Proof.
  intros pol root i par p Hi. unfold visits_par, visits_spec in *.
  destruct i as [|i]; [discriminate|]. simpl in Hi.
  rewrite <- below_z_par in Hi. apply nth_error_map_inv in Hi.
  destruct Hi as [[o [p' m]] [Hz E]]. simpl in E. injection E as -> ->.
  destruct (below_z_ok pol root (nname root) i _ _ _ Hz) as [par' [E [[-> Hd]|[j [o [m' [Hj [Hn Hd]]]]]]]].
  - injection E as ->. exists 0, root. split; [lia|]. split; [reflexivity|assumption].
  - injection E as <-. exists (S j), m'. split; [lia|]. split; [|assumption].
    simpl. rewrite <- below_z_snd. rewrite (map_nth_error snd _ _ Hn). reflexivity.
Qed.

(* ------------------------------------------------------------------ (E) the error value appears *)
Theorem walk_fuel_error : exists root,
  wf_root root = true /\
  walk 3 always (tree_open (nname root) [root]) [] = WFuel [(nname root, root)].
Proof.
  exists (D [97%N] []). split; vm_compute; reflexivity.
Qed.

(* ------------------------------------------------------------------ (A) the machine follows the spec *)
Lemma bytes_eqb_refl : forall a, bytes_eqb a a = true.
Proof. induction a; simpl; [reflexivity|]. rewrite N.eqb_refl. assumption. Qed.

Lemma bytes_eqb_true : forall a b, bytes_eqb a b = true -> a = b.
Proof.
  induction a; destruct b; simpl; intros H; try discriminate; [reflexivity|].
  apply andb_true_iff in H. destruct H as [H1 H2]. apply N.eqb_eq in H1. f_equal; auto.
Qed.

Lemma bytes_eqb_eq : forall a b, bytes_eqb a b = true <-> a = b.
Proof. split; [apply bytes_eqb_true|intros ->; apply bytes_eqb_refl]. Qed.

#[local] Arguments join : simpl never.
#[local] Arguments lookup : simpl never.
#[local] Arguments strip_slashes : simpl never.
#[local] Arguments firstn : simpl never.
#[local] Arguments skipn : simpl never.
#[local] Arguments skip_slashes : simpl never.

Lemma existsb_false_in : forall x l y,
  existsb (bytes_eqb x) l = false -> In y l -> bytes_eqb x y = false.
Proof.
  intros x l y H Hy. destruct (bytes_eqb x y) eqn:E; [|reflexivity].
  rewrite <- H. symmetry. apply existsb_exists. exists y. auto.
Qed.

Lemma lookup_nodup : forall l1 c l2,
  nodup_names (map nname (l1 ++ c :: l2)) = true -> lookup (nname c) (l1 ++ c :: l2) = Some c.
Proof.
  unfold lookup. induction l1 as [|x l1 IH]; intros c l2 H; simpl in *.
  - rewrite bytes_eqb_refl. reflexivity.
  - apply andb_true_iff in H. destruct H as [H1 H2]. apply negb_true_iff in H1.
    rewrite (existsb_false_in _ _ (nname c) H1).
    + apply IH. assumption.
    + rewrite map_app. apply in_or_app. right. left. reflexivity.
Qed.

Lemma firstn_join : forall p n, firstn (length p) (join p n) = p.
Proof.
  intros p n. unfold join. destruct (_ && _).
  - rewrite <- app_assoc. rewrite firstn_app, Nat.sub_diag, firstn_all. unfold firstn. apply app_nil_r.
  - rewrite firstn_app, Nat.sub_diag, firstn_all. unfold firstn. apply app_nil_r.
Qed.

Lemma join_nil : forall n, join [] n = n.
Proof. reflexivity. Qed.

(* the part of the state the walk depends on: working directory, depth, and the directory part of the path *)
Definition ctx (t : tstate) (P : bytes) (w : dirfd) (d : nat) : Prop :=
  wd t = w /\ depth t = d /\ dirname_length t = length P /\ firstn (length P) (path t) = P.

Lemma tree_append_eq : forall t P n,
  dirname_length t = length P -> firstn (length P) (path t) = P -> strip_slashes n = n ->
  tree_append t n = set_path t (join P n) n.
Proof.
  intros t P n H1 H2 H3. unfold tree_append, join. rewrite H1, H2, H3. reflexivity.
Qed.

(* ---- one turn of the client loop *)
Lemma walk_none : forall k pol t acc t1,
  tree_iter t = (t1, None) -> walk (S k) pol t acc = walk k pol t1 acc.
Proof. intros. cbn [walk]. rewrite H. reflexivity. Qed.

Lemma walk_post : forall k pol t acc t1 r,
  tree_iter t = (t1, Some r) -> r = TREE_POSTDESCENT \/ r = TREE_POSTASCENT ->
  walk (S k) pol t acc = walk k pol t1 acc.
Proof. intros k pol t acc t1 r H Hr. cbn [walk]. rewrite H. destruct Hr; subst; reflexivity. Qed.

Lemma walk_done : forall k pol t acc t1,
  tree_iter t = (t1, Some 0%Z) -> walk (S k) pol t acc = WDone acc t1.
Proof. intros. cbn [walk]. rewrite H. reflexivity. Qed.

Lemma walk_iter_eq : forall k pol t t' acc,
  tree_iter t = tree_iter t' -> walk (S k) pol t acc = walk (S k) pol t' acc.
Proof. intros. cbn [walk]. rewrite H. reflexivity. Qed.

(* what the client does with a regular visit of [n] *)
Definition client_visit (pol : bytes -> bool) (t1 : tstate) (n : tnode) : tstate :=
  let t4 := set_descend (set_lst t1 (Some n)) (is_dir n) in
  set_descend (if pol (path t1) then read_disk_descend t4 else t4) false.

Lemma walk_regular : forall k pol t acc t1 cs w n,
  tree_iter t = (t1, Some TREE_REGULAR) ->
  lst t1 = None -> wd t1 = cs :: w -> lookup (basename t1) cs = Some n ->
  walk (S k) pol t acc = walk k pol (client_visit pol t1 n) (acc ++ [(path t1, n)]).
Proof.
  intros k pol t acc t1 cs w n H Hl Hw Hn. cbn [walk]. rewrite H.
  change (Z.eqb TREE_REGULAR TREE_ERROR_FATAL) with false.
  change (Z.eqb TREE_REGULAR TREE_ERROR_DIR) with false.
  change (Z.eqb TREE_REGULAR 0) with false.
  change (Z.eqb TREE_REGULAR TREE_REGULAR) with true. cbv iota.
  unfold tree_current_lstat at 1. rewrite Hl, Hw, Hn.
  unfold tree_current_is_physical_dir, tree_current_lstat. cbn [lst set_lst].
  reflexivity.
Qed.


#[local] Arguments walk : simpl never.

Definition pending (P : bytes) (c : tnode) (e : tentry) : Prop :=
  te_name e = nname c /\ te_dirname_length e = length P /\
  exists a b, te_flags e = mkFl a b false true true true.

Lemma client_visit_spec : forall pol t1 n,
  visit_type t1 = TREE_REGULAR ->
  let t5 := client_visit pol t1 n in
  dirh t5 = dirh t1 /\ wd t5 = wd t1 /\ depth t5 = depth t1 /\
  dirname_length t5 = dirname_length t1 /\ path t5 = path t1 /\
  ((is_dir n && pol (path t1) = false /\ stack t5 = stack t1) \/
   (is_dir n && pol (path t1) = true /\
    exists e, stack t5 = e :: stack t1 /\ te_name e = basename t1 /\
              te_dirname_length e = dirname_length t1 /\
              exists a b, te_flags e = mkFl a b false true true true)).
Proof.
  intros pol t1 n Hv. unfold client_visit. destruct (pol (path t1)) eqn:Hp.
  2:{ cbn. rewrite andb_false_r. repeat split; auto. }
  unfold read_disk_descend. cbn [visit_type set_descend set_lst descend]. rewrite Hv.
  change (Z.eqb TREE_REGULAR TREE_REGULAR) with true. cbn [andb]. destruct (is_dir n) eqn:Hd; cbn [negb].
  2:{ cbn. repeat split; auto. }
  unfold tree_current_is_physical_dir, tree_current_lstat. cbn [lst set_lst set_descend]. rewrite Hd.
  unfold tree_push. cbn.
  repeat (split; [reflexivity|]). right. split; [reflexivity|].
  eexists. split; [reflexivity|]. cbn. repeat (split; [reflexivity|]).
  destruct (match current t1 with Some (_, _ :: _) => true | _ => false end); eauto.
Qed.

#[local] Arguments client_visit : simpl never.

Lemma iter_descent : forall t te rest a b pdir cs up d nm2 sub,
  stack t = te :: rest -> dirh t = None ->
  te_flags te = mkFl a b false true true true ->
  strip_slashes (te_name te) = te_name te ->
  ctx t pdir (cs :: up) d ->
  lookup (te_name te) cs = Some (D nm2 sub) ->
  exists t1 te1,
    tree_iter t = (t1, Some TREE_POSTDESCENT) /\
    stack t1 = te1 :: rest /\ dirh t1 = None /\
    te_flags te1 = mkFl a b false false true true /\
    te_dirname_length te1 = te_dirname_length te /\
    (b = true -> te_symlink_parent_fd te1 = Some (cs :: up)) /\
    ctx t1 (join pdir (te_name te)) (sub :: cs :: up) (S d).
Proof.
  intros t te rest a b pdir cs up d nm2 sub Hs Hd Hf Hn [Hw [Hdp [Hdl Hp]]] Hl.
  unfold tree_iter. rewrite Hs, Hd, Hf. cbn [needsFirstVisit needsDescent].
  rewrite (tree_append_eq _ pdir) by assumption.
  unfold tree_descent. cbn [stack set_stack set_dirname_length set_path set_current wd path].
  rewrite Hw. unfold openat_dir. cbn [te_name set_te_flags]. rewrite Hl.
  cbn [Z.eqb].
  destruct b; cbn [isDirLink te_flags set_te_flags clr_descent];
    (eexists; eexists; split; [reflexivity|]); unfold ctx; cbn; rewrite Hd, Hdp;
    repeat split; try reflexivity; try discriminate; apply firstn_all.
Qed.

Lemma read_loop_nil : forall t, read_loop [] t = (set_dirh t None, 0%Z).
Proof. reflexivity. Qed.

Lemma read_loop_cons : forall n rest t,
  bytes_eqb n dot = false -> bytes_eqb n dotdot = false ->
  read_loop (n :: rest) t =
  (set_visit (tree_append (set_dirh (set_lst t None) (Some rest)) n) TREE_REGULAR, TREE_REGULAR).
Proof. intros n rest t H1 H2. cbn [read_loop]. rewrite H1, H2. reflexivity. Qed.

Lemma read_loop_dirh : forall names t x, read_loop names (set_dirh t x) = read_loop names t.
Proof.
  induction names as [|n rest IH]; intros t x.
  - destruct t; reflexivity.
  - cbn [read_loop].
    replace (set_lst (set_dirh t x) None) with (set_dirh (set_lst t None) x) by (destruct t; reflexivity).
    rewrite !IH. destruct t; reflexivity.
Qed.

Lemma iter_reading : forall t names,
  stack t <> [] -> dirh t = Some names ->
  tree_iter t = let '(t1, r) := read_loop names t in if Z.eqb r 0 then (t1, None) else (t1, Some r).
Proof.
  intros t names Hs Hd. unfold tree_iter, tree_dir_next. destruct (stack t); [contradiction|].
  rewrite Hd. reflexivity.
Qed.

Lemma iter_open : forall t te rest a b sub w,
  stack t = te :: rest -> dirh t = None ->
  te_flags te = mkFl a b false false true true ->
  wd t = sub :: w ->
  tree_iter t =
  tree_iter (set_dirh (set_lst (set_stack t (set_te_flags te (mkFl a b false false false true) :: rest)) None)
                      (Some (map nname sub))).
Proof.
  intros t te rest a b sub w Hs Hd Hf Hw.
  rewrite (iter_reading (set_dirh _ _) (map nname sub)) by (cbn; congruence).
  unfold tree_iter. rewrite Hs, Hd, Hf. cbn [needsFirstVisit needsDescent needsOpen].
  unfold tree_dir_next. cbn [dirh set_stack wd]. rewrite Hd, Hw.
  cbn [read_loop]. change (bytes_eqb dot dot) with true. change (bytes_eqb dotdot dot) with false.
  change (bytes_eqb dotdot dotdot) with true. cbv iota.
  rewrite read_loop_dirh. unfold clr_open. cbn [isDir isDirLink needsFirstVisit needsDescent needsAscent].
  replace (set_lst (set_lst (set_stack t (set_te_flags te (mkFl a b false false false true) :: rest)) None) None)
    with (set_lst (set_stack t (set_te_flags te (mkFl a b false false false true) :: rest)) None)
    by (destruct t; reflexivity).
  reflexivity.
Qed.

Lemma iter_ascent : forall t te rest a b P sub cs up d pdir,
  stack t = te :: rest -> dirh t = None ->
  te_flags te = mkFl a b false false false true ->
  (b = true -> te_symlink_parent_fd te = Some (cs :: up)) ->
  ctx t P (sub :: cs :: up) (S d) ->
  te_dirname_length te = length pdir -> firstn (length pdir) P = pdir ->
  exists t1, tree_iter t = (t1, Some TREE_POSTASCENT) /\
    stack t1 = rest /\ dirh t1 = None /\ ctx t1 pdir (cs :: up) d.
Proof.
  intros t te rest a b P sub cs up d pdir Hs Hd Hf Hsym [Hw [Hdp [Hdl Hp]]] Htl HP.
  unfold tree_iter. rewrite Hs, Hd, Hf. cbn [needsFirstVisit needsDescent needsOpen needsAscent].
  unfold tree_ascend. rewrite Hs, Hf, Hw. cbn [isDirLink openat_parent].
  destruct b.
  - rewrite Hsym by reflexivity. unfold tree_pop. cbn [stack set_wd set_stack]. cbn [Z.eqb].
    eexists. split; [reflexivity|]. unfold ctx. cbn. rewrite Hd, Hdl, Hp, Htl, HP, Hdp. repeat split.
  - unfold tree_pop. cbn [stack set_wd set_stack]. cbn [Z.eqb].
    eexists. split; [reflexivity|]. unfold ctx. cbn. rewrite Hd, Hdl, Hp, Htl, HP, Hdp. repeat split.
Qed.

Lemma iter_dead : forall t te rest a b,
  stack t = te :: rest -> dirh t = None ->
  te_flags te = mkFl a b false false false false ->
  exists t1, tree_iter t = (t1, None) /\
    stack t1 = rest /\ dirh t1 = None /\ wd t1 = wd t /\ depth t1 = depth t.
Proof.
  intros t te rest a b Hs Hd Hf.
  unfold tree_iter. rewrite Hs, Hd, Hf. cbn [needsFirstVisit needsDescent needsOpen needsAscent].
  unfold tree_pop. rewrite Hs. eexists. split; [reflexivity|]. cbn. auto.
Qed.

Lemma iter_empty : forall t, stack t = [] -> tree_iter t = (set_visit t 0, Some 0%Z).
Proof. intros t Hs. unfold tree_iter. rewrite Hs. reflexivity. Qed.

(* ---- cost (number of turns) of a sub-tree, mirroring [below] *)
Fixpoint cost (pol : bytes -> bool) (p : bytes) (n : tnode) : nat :=
  match n with
  | D _ cs =>
    if pol p then 3 + length cs + list_sum (map (fun c => cost pol (join p (nname c)) c) cs) else 0
  | _ => 0
  end.

Definition below_in (pol : bytes -> bool) (P : bytes) (sub : list tnode) : list visit :=
  map (fun c => (join P (nname c), c)) sub ++
  concat (rev (map (fun c => below pol (join P (nname c)) c) sub)).

Definition cost_in (pol : bytes -> bool) (P : bytes) (sub : list tnode) : nat :=
  3 + length sub + list_sum (map (fun c => cost pol (join P (nname c)) c) sub).

Lemma below_accepted : forall pol p c,
  is_dir c && pol p = true -> below pol p c = below_in pol p (children_of c).
Proof.
  intros pol p c H. apply andb_true_iff in H. destruct H as [Hd Hp].
  destruct c; try discriminate. simpl. rewrite Hp. reflexivity.
Qed.

Lemma cost_accepted : forall pol p c,
  is_dir c && pol p = true -> cost pol p c = cost_in pol p (children_of c).
Proof.
  intros pol p c H. apply andb_true_iff in H. destruct H as [Hd Hp].
  destruct c; try discriminate. simpl. rewrite Hp. reflexivity.
Qed.

Lemma below_refused : forall pol p c, is_dir c && pol p = false -> below pol p c = [].
Proof. intros pol p c H. destruct c; try reflexivity. simpl in *. rewrite H. reflexivity. Qed.

Lemma cost_refused : forall pol p c, is_dir c && pol p = false -> cost pol p c = 0.
Proof. intros pol p c H. destruct c; try reflexivity. simpl in *. rewrite H. reflexivity. Qed.

Lemma list_sum_rev : forall l, list_sum (rev l) = list_sum l.
Proof.
  induction l; simpl; [reflexivity|]. rewrite list_sum_app. simpl. lia.
Qed.

Lemma wf_name_facts : forall n, wf_name n = true ->
  bytes_eqb n dot = false /\ bytes_eqb n dotdot = false /\ strip_slashes n = n.
Proof.
  intros n H. unfold wf_name in H. apply andb_true_iff in H. destruct H as [H H3].
  apply andb_true_iff in H. destruct H as [H1 H2].
  apply negb_true_iff in H1. apply negb_true_iff in H2. apply bytes_eqb_true in H3. auto.
Qed.

(* the entries archive_read_disk_descend pushed for the accepted sub-directories; the list of
   children is in the order in which the entries will be processed (top of the stack first) *)
Inductive pend_rel (pol : bytes -> bool) (P : bytes) : list tnode -> list tentry -> Prop :=
| pr_nil : pend_rel pol P [] []
| pr_skip : forall c l es,
    is_dir c && pol (join P (nname c)) = false -> pend_rel pol P l es -> pend_rel pol P (c :: l) es
| pr_push : forall c l e es,
    is_dir c && pol (join P (nname c)) = true -> pending P c e -> pend_rel pol P l es ->
    pend_rel pol P (c :: l) (e :: es).

Lemma read_children : forall pol P sub w d base,
  base <> [] -> nodup_names (map nname sub) = true ->
  (forall c, In c sub -> wf_name (nname c) = true) ->
  forall l2 l1 t pend,
    sub = l1 ++ l2 -> stack t = pend ++ base -> dirh t = Some (map nname l2) ->
    ctx t P (sub :: w) d -> pend_rel pol P (rev l1) pend ->
    exists t' pend', stack t' = pend' ++ base /\ dirh t' = None /\ ctx t' P (sub :: w) d /\
      pend_rel pol P (rev sub) pend' /\
      forall k acc, walk (S (length l2) + k) pol t acc =
                    walk k pol t' (acc ++ map (fun c => (join P (nname c), c)) l2).
Proof.
  intros pol P sub w d base Hbase Hnd Hwf. induction l2 as [|c l2 IH]; intros l1 t pend Hsub Hs Hd Hctx Hpend.
  - rewrite app_nil_r in Hsub. subst l1.
    exists (set_dirh t None), pend. cbn. split; [assumption|]. split; [reflexivity|].
    split; [exact Hctx|]. split; [assumption|].
    intros k acc. rewrite (walk_none _ _ _ _ (set_dirh t None)).
    + rewrite app_nil_r. reflexivity.
    + rewrite (iter_reading t []); [reflexivity| |assumption].
      rewrite Hs. destruct pend; [assumption|discriminate].
  - assert (Hin : In c sub) by (subst sub; apply in_or_app; right; left; reflexivity).
    destruct (wf_name_facts _ (Hwf c Hin)) as [Hdot [Hdd Hstrip]].
    destruct Hctx as [Hw [Hdp [Hdl Hp]]].
    set (t1 := set_visit (set_path (set_dirh (set_lst t None) (Some (map nname l2))) (join P (nname c)) (nname c)) TREE_REGULAR).
    assert (Hiter : tree_iter t = (t1, Some TREE_REGULAR)).
    { rewrite (iter_reading t (map nname (c :: l2))); [| |assumption].
      - cbn [map]. rewrite read_loop_cons by assumption.
        rewrite (tree_append_eq _ P) by assumption. reflexivity.
      - rewrite Hs. destruct pend; [assumption|discriminate]. }
    assert (Hlook : lookup (nname c) sub = Some c) by (subst sub; apply lookup_nodup; assumption).
    destruct (client_visit_spec pol t1 c eq_refl) as [E1 [E2 [E3 [E4 [E5 Hstk]]]]].
    cbn in E1, E2, E3, E4, E5, Hstk.
    assert (Hctx5 : ctx (client_visit pol t1 c) P (sub :: w) d).
    { unfold ctx. rewrite E2, E3, E4, E5. repeat (split; [assumption|]). apply firstn_join. }
    assert (Hstep : forall k acc, walk (S k) pol t acc =
                     walk k pol (client_visit pol t1 c) (acc ++ [(join P (nname c), c)])).
    { intros k acc. apply (walk_regular k pol t acc t1 sub w c Hiter); [reflexivity|exact Hw|exact Hlook]. }
    assert (Hsub' : sub = (l1 ++ [c]) ++ l2) by (rewrite <- app_assoc; exact Hsub).
    destruct Hstk as [[Hacc Hstk]|[Hacc [e [Hstk [He1 [He2 He3]]]]]].
    + destruct (IH (l1 ++ [c]) (client_visit pol t1 c) pend Hsub') as [t' [pend' [R1 [R2 [R3 [R4 R5]]]]]].
      * rewrite Hstk. exact Hs.
      * exact E1.
      * exact Hctx5.
      * rewrite rev_unit. apply pr_skip; assumption.
      * exists t', pend'. repeat (split; [assumption|]). intros k acc.
        cbn [length map Nat.add]. rewrite Hstep.
        change (S (length l2 + k)) with (S (length l2) + k). rewrite R5. rewrite <- app_assoc. reflexivity.
    + destruct (IH (l1 ++ [c]) (client_visit pol t1 c) (e :: pend) Hsub') as [t' [pend' [R1 [R2 [R3 [R4 R5]]]]]].
      * rewrite Hstk, Hs. reflexivity.
      * exact E1.
      * exact Hctx5.
      * rewrite rev_unit. apply pr_push; [assumption| |assumption].
        unfold pending. rewrite He1, He2. auto.
      * exists t', pend'. repeat (split; [assumption|]). intros k acc.
        cbn [length map Nat.add]. rewrite Hstep.
        change (S (length l2 + k)) with (S (length l2) + k). rewrite R5. rewrite <- app_assoc. reflexivity.
Qed.

(* ---- a pushed directory entry is processed completely: descent, readdir, the accepted
   sub-directories (recursively), ascent *)
Definition PD (pol : bytes -> bool) (n : tnode) : Prop :=
  wf_node n = true -> is_dir n = true ->
  forall t te rest a b pdir cs up d,
    stack t = te :: rest -> dirh t = None ->
    te_flags te = mkFl a b false true true true ->
    strip_slashes (te_name te) = te_name te ->
    te_dirname_length te = length pdir ->
    ctx t pdir (cs :: up) d ->
    lookup (te_name te) cs = Some n ->
    exists t', stack t' = rest /\ dirh t' = None /\ ctx t' pdir (cs :: up) d /\
      forall k acc,
        walk (cost_in pol (join pdir (te_name te)) (children_of n) + k) pol t acc =
        walk k pol t' (acc ++ below_in pol (join pdir (te_name te)) (children_of n)).

Lemma process_pending : forall pol P sub w d base,
  nodup_names (map nname sub) = true ->
  (forall c, In c sub -> wf_name (nname c) = true /\ wf_node c = true) ->
  forall ds pend, pend_rel pol P ds pend ->
    (forall c, In c ds -> In c sub) -> (forall c, In c ds -> PD pol c) ->
    forall t, stack t = pend ++ base -> dirh t = None -> ctx t P (sub :: w) d ->
    exists t', stack t' = base /\ dirh t' = None /\ ctx t' P (sub :: w) d /\
      forall k acc,
        walk (list_sum (map (fun c => cost pol (join P (nname c)) c) ds) + k) pol t acc =
        walk k pol t' (acc ++ concat (map (fun c => below pol (join P (nname c)) c) ds)).
Proof.
  intros pol P sub w d base Hnd Hwf ds pend Hrel.
  induction Hrel as [|c l es Hacc Hrel IH|c l e es Hacc Hpe Hrel IH]; intros Hin HPD t Hs Hd Hctx.
  - exists t. repeat (split; [assumption|]). intros k acc. cbn. rewrite app_nil_r. reflexivity.
  - destruct (IH (fun x Hx => Hin x (or_intror Hx)) (fun x Hx => HPD x (or_intror Hx)) t Hs Hd Hctx)
      as [t' [R1 [R2 [R3 R4]]]].
    exists t'. repeat (split; [assumption|]). intros k acc. cbn [map list_sum fold_right concat].
    rewrite (cost_refused _ _ _ Hacc), (below_refused _ _ _ Hacc). cbn [Nat.add app]. apply R4.
  - assert (Hc : In c sub) by (apply Hin; left; reflexivity).
    destruct (Hwf c Hc) as [Hwn Hwc]. destruct (wf_name_facts _ Hwn) as [_ [_ Hstrip]].
    destruct Hpe as [Hn [Hdl [a [b Hf]]]].
    assert (Hdir : is_dir c = true) by (apply andb_true_iff in Hacc; tauto).
    assert (Hlook : lookup (te_name e) sub = Some c).
    { rewrite Hn. destruct (in_split _ _ Hc) as [l1 [l2 E]]. subst sub. apply lookup_nodup. assumption. }
    destruct (HPD c (or_introl eq_refl) Hwc Hdir t e (es ++ base) a b P sub w d Hs Hd Hf) as [t1 [Q1 [Q2 [Q3 Q4]]]];
      [rewrite Hn; exact Hstrip|exact Hdl|exact Hctx|exact Hlook|].
    destruct (IH (fun x Hx => Hin x (or_intror Hx)) (fun x Hx => HPD x (or_intror Hx)) t1 Q1 Q2 Q3)
      as [t' [R1 [R2 [R3 R4]]]].
    exists t'. repeat (split; [assumption|]). intros k acc. cbn [map list_sum fold_right concat].
    rewrite (cost_accepted _ _ _ Hacc), (below_accepted _ _ _ Hacc).
    rewrite <- Nat.add_assoc. rewrite <- Hn. rewrite Q4. rewrite R4. rewrite <- app_assoc. reflexivity.
Qed.

Lemma wf_node_children : forall nm sub, wf_node (D nm sub) = true ->
  nodup_names (map nname sub) = true /\
  forall c, In c sub -> wf_name (nname c) = true /\ wf_node c = true.
Proof.
  intros nm sub H. simpl in H. apply andb_true_iff in H. destruct H as [H1 H2]. split; [assumption|].
  intros c Hc. rewrite forallb_forall in H2. apply andb_true_iff. apply H2. assumption.
Qed.

Lemma process_dir : forall pol n, PD pol n.
Proof.
  intros pol. induction n as [| nm2 sub IH | |] using tnode_ind'; intros Hwf Hdir; try discriminate.
  intros t te rest a b pdir cs up d Hs Hd Hf Hstrip Hdl Hctx Hlook. cbn [children_of].
  destruct (wf_node_children _ _ Hwf) as [Hnd Hch].
  set (P := join pdir (te_name te)).
  (* descent *)
  destruct (iter_descent t te rest a b pdir cs up d nm2 sub Hs Hd Hf Hstrip Hctx Hlook)
    as [t1 [te1 [I1 [S1 [D1 [F1 [L1 [Y1 C1]]]]]]]].
  fold P in C1.
  (* open *)
  set (te2 := set_te_flags te1 (mkFl a b false false false true)).
  set (t2 := set_dirh (set_lst (set_stack t1 (te2 :: rest)) None) (Some (map nname sub))).
  assert (I2 : tree_iter t1 = tree_iter t2).
  { apply (iter_open t1 te1 rest a b sub (cs :: up)); try assumption. apply C1. }
  (* readdir *)
  assert (Hb : te2 :: rest <> []) by discriminate.
  assert (Hwn : forall c, In c sub -> wf_name (nname c) = true) by (intros c Hc; apply Hch; assumption).
  assert (C2 : ctx t2 P (sub :: cs :: up) (S d)) by exact C1.
  destruct (read_children pol P sub (cs :: up) (S d) (te2 :: rest) Hb Hnd Hwn sub [] t2 []
              eq_refl eq_refl eq_refl C2 (pr_nil pol P))
    as [t3 [pend [S3 [D3 [C3 [R3 W3]]]]]].
  (* pending sub-directories *)
  assert (Hin : forall c, In c (rev sub) -> In c sub) by (intros c Hc; apply in_rev; assumption).
  assert (HPD : forall c, In c (rev sub) -> PD pol c).
  { intros c Hc. rewrite Forall_forall in IH. apply IH. apply in_rev. assumption. }
  destruct (process_pending pol P sub (cs :: up) (S d) (te2 :: rest) Hnd Hch (rev sub) pend R3
              Hin HPD t3 S3 D3 C3)
    as [t4 [S4 [D4 [C4 W4]]]].
  (* ascent *)
  destruct (iter_ascent t4 te2 rest a b P sub cs up d pdir S4 D4) as [t5 [I5 [S5 [D5 C5]]]];
    try assumption; try reflexivity.
  { cbn. rewrite L1. assumption. }
  { apply firstn_join. }
  exists t5. repeat (split; [assumption|]). intros k acc.
  unfold cost_in, below_in.
  replace (3 + length sub + list_sum (map (fun c => cost pol (join P (nname c)) c) sub) + k)
    with (S (S (length sub) + (list_sum (map (fun c => cost pol (join P (nname c)) c) (rev sub)) + S k))).
  2:{ rewrite map_rev, list_sum_rev. lia. }
  rewrite (walk_post _ _ _ _ _ _ I1) by (left; reflexivity).
  cbn [Nat.add]. rewrite (walk_iter_eq _ _ _ _ _ I2).
  change (S (length sub + (list_sum (map (fun c => cost pol (join P (nname c)) c) (rev sub)) + S k)))
    with (S (length sub) + (list_sum (map (fun c => cost pol (join P (nname c)) c) (rev sub)) + S k)).
  rewrite W3. rewrite W4. rewrite (walk_post _ _ _ _ _ _ I5) by (right; reflexivity).
  rewrite map_rev. rewrite <- !app_assoc. reflexivity.
Qed.

Lemma cost_children_bound : forall pol (f : tnode -> bytes) cs,
  Forall (fun c => forall p, cost pol p c + 1 <= 4 * nodes c) cs ->
  length cs + list_sum (map (fun c => cost pol (f c) c) cs) <= 4 * sumnodes cs.
Proof.
  intros pol f cs H. induction H as [|c cs Hc Hcs IH]; simpl; [lia|].
  specialize (Hc (f c)). fold (sumnodes cs). lia.
Qed.

Lemma cost_bound : forall pol n p, cost pol p n + 1 <= 4 * nodes n.
Proof.
  intros pol. induction n as [| nm cs IH | |] using tnode_ind'; intros p; simpl; try lia.
  fold (sumnodes cs). destruct (pol p); [|lia].
  pose proof (cost_children_bound pol (fun c => join p (nname c)) cs IH). lia.
Qed.

Lemma walk_finish : forall pol t te a b,
  stack t = [te] -> dirh t = None -> te_flags te = mkFl a b false false false false ->
  exists t', stack t' = [] /\ dirh t' = None /\ wd t' = wd t /\ depth t' = depth t /\
    forall k acc, walk (S (S k)) pol t acc = WDone acc t'.
Proof.
  intros pol t te a b Hs Hd Hf.
  destruct (iter_dead t te [] a b Hs Hd Hf) as [t1 [I1 [S1 [D1 [W1 P1]]]]].
  exists (set_visit t1 0). cbn. repeat (split; [assumption|]).
  intros k acc. rewrite (walk_none _ _ _ _ _ I1). apply walk_done. apply iter_empty. assumption.
Qed.

Lemma walk_spec_gen : forall pol root, wf_root root = true ->
  exists t, stack t = [] /\ wd t = [[root]] /\ depth t = 0 /\ dirh t = None /\
    forall k, walk (fuel_for root + k) pol (tree_open (nname root) [root]) [] =
              WDone (visits_spec pol root) t.
Proof.
  intros pol root Hwf. unfold wf_root in Hwf. apply andb_true_iff in Hwf. destruct Hwf as [Hstrip Hwf].
  apply bytes_eqb_true in Hstrip.
  set (te0 := mkTe 0 [] (nname root) (mkFl false false false false false false) 0 None).
  set (t1 := mkT [te0] (Some (0, [])) None None (nname root) (nname root) 0 0 [[root]] TREE_REGULAR false 1).
  assert (I1 : tree_iter (tree_open (nname root) [root]) = (t1, Some TREE_REGULAR)).
  { unfold tree_iter, tree_open. cbn [stack dirh te_flags needsFirstVisit].
    rewrite (tree_append_eq _ []); [reflexivity|reflexivity|reflexivity|assumption]. }
  assert (Hlook : lookup (nname root) [root] = Some root).
  { unfold lookup. cbn [find]. rewrite bytes_eqb_refl. reflexivity. }
  assert (W1 : forall k, walk (S k) pol (tree_open (nname root) [root]) [] =
                         walk k pol (client_visit pol t1 root) [(nname root, root)]).
  { intros k. apply (walk_regular k pol _ [] t1 [root] [] root I1); [reflexivity|reflexivity|exact Hlook]. }
  destruct (client_visit_spec pol t1 root eq_refl) as [E1 [E2 [E3 [E4 [E5 Hstk]]]]].
  cbn in E1, E2, E3, E4, E5, Hstk.
  assert (C5 : ctx (client_visit pol t1 root) [] [[root]] 0).
  { unfold ctx. rewrite E2, E3, E4. repeat split. }
  pose proof (cost_bound pol root (nname root)) as Hcost.
  unfold visits_spec, fuel_for.
  destruct Hstk as [[Hacc Hstk]|[Hacc [e [Hstk [He1 [He2 [a [b He3]]]]]]]].
  - destruct (walk_finish pol (client_visit pol t1 root) te0 false false Hstk E1 eq_refl)
      as [t' [S' [D' [W' [P' F']]]]].
    exists t'. rewrite W', P', E2, E3. repeat (split; [assumption || reflexivity|]).
    intros k. rewrite (below_refused _ _ _ Hacc).
    replace (4 * nodes root + 2 + k) with (S (S (S (4 * nodes root + k - 1)))) by lia.
    rewrite W1. apply F'.
  - assert (Hdir : is_dir root = true) by (apply andb_true_iff in Hacc; tauto).
    destruct (process_dir pol root Hwf Hdir (client_visit pol t1 root) e [te0] a b [] [root] [] 0 Hstk E1 He3)
      as [t6 [S6 [D6 [C6 W6]]]].
    + rewrite He1. exact Hstrip.
    + rewrite He2. reflexivity.
    + exact C5.
    + rewrite He1. exact Hlook.
    + rewrite He1 in W6. rewrite join_nil in W6.
      destruct (walk_finish pol t6 te0 false false S6 D6 eq_refl) as [t' [S' [D' [W' [P' F']]]]].
      destruct C6 as [C6w [C6d _]].
      exists t'. rewrite W', P', C6w, C6d. repeat (split; [assumption || reflexivity|]).
      intros k. rewrite (below_accepted _ _ _ Hacc). rewrite (cost_accepted _ _ _ Hacc) in Hcost.
      replace (4 * nodes root + 2 + k)
        with (S (cost_in pol (nname root) (children_of root) +
                 S (S (4 * nodes root + k - cost_in pol (nname root) (children_of root) - 1)))) by lia.
      rewrite W1. rewrite W6. apply F'.
Qed.

Theorem walk_spec : forall pol root, wf_root root = true ->
  exists t, walk_tree pol root = WDone (visits_spec pol root) t /\
            stack t = [] /\ wd t = [[root]] /\ depth t = 0 /\ dirh t = None.
Proof.
  intros pol root Hwf. destruct (walk_spec_gen pol root Hwf) as [t [H1 [H2 [H3 [H4 H5]]]]].
  exists t. split; [|auto]. unfold walk_tree. rewrite <- (H5 0). rewrite Nat.add_0_r. reflexivity.
Qed.

Theorem walk_fuel_enough : forall pol root k, wf_root root = true ->
  walk (fuel_for root + k) pol (tree_open (nname root) [root]) [] = walk_tree pol root.
Proof.
  intros pol root k Hwf. destruct (walk_spec_gen pol root Hwf) as [t [_ [_ [_ [_ H5]]]]].
  unfold walk_tree. rewrite (H5 k). rewrite <- (H5 0). rewrite Nat.add_0_r. reflexivity.
Qed.

Lemma below_never : forall p n, below never p n = [].
Proof. intros p n. destruct n; reflexivity. Qed.

Theorem walk_never : forall root, wf_root root = true ->
  exists t, walk_tree never root = WDone [(nname root, root)] t /\ stack t = [] /\ wd t = [[root]].
Proof.
  intros root Hwf. destruct (walk_spec never root Hwf) as [t [H1 [H2 [H3 _]]]].
  exists t. unfold visits_spec in H1. rewrite below_never in H1. auto.
Qed.

Print Assumptions walk_spec.
Print Assumptions walk_fuel_enough.
Print Assumptions visits_always_perm.
Print Assumptions visits_always_length.
Print Assumptions visits_par_fst.
Print Assumptions parent_first.
Print Assumptions walk_never.
Print Assumptions walk_fuel_error.
