(* val -> val front end of the secure-extraction model (correspondence protocol of harness/fsSec.c) *)
From Coq Require Import List ZArith NArith Bool.
From LA Require Import Base.Val Gen.FsSecConsts FS.SanitizeDefs FS.FsModel FS.RestoreDefs.
Import ListNotations.
Local Open Scope N_scope.

Definition s_of (l : list N) : str := l.
Definition CANARY_MTIME : Z := 1000000000%Z.

Definition n_outside : name := [111;117;116;115;105;100;101].
Definition n_target : name := [116;97;114;103;101;116].
Definition n_cfile : name := [99;102;105;108;101].
Definition n_cdir : name := [99;100;105;114].
Definition n_inner : name := [105;110;110;101;114].
Definition n_sub : name := [115;117;98].
Definition n_a : name := [97].
Definition n_b : name := [98].

(* the canary layout of harness/fsSec.c:build_outside *)
Definition outside0 : node :=
  Dir [ (n_cfile, Leaf false 1 [99;97;110;97;114;121] 420 CANARY_MTIME);
        (n_cdir, Dir [ (n_inner, Leaf false 2 [105;110;110;101;114] 384 CANARY_MTIME) ] 493 CANARY_MTIME);
        (n_sub, Dir [] 493 CANARY_MTIME);
        (n_a, Dir [] 493 CANARY_MTIME);
        (n_b, Leaf false 3 [98;101;101] 420 CANARY_MTIME) ] 493 CANARY_MTIME.

Definition world0 : fsys :=
  mkFs (Dir [ (n_outside, outside0); (n_target, Dir [] 493 CANARY_MTIME) ] 493 CANARY_MTIME) 10.

Definition cwd0 : list name := [n_target].

(* every object below gets the set-up mtime (nftw + utimensat in the harness) *)
Fixpoint stamp (n : node) : node :=
  match n with
  | Leaf ff i d m _ => Leaf ff i d m CANARY_MTIME
  | Dir es m _ => Dir (map (fun kv => match kv with (k, c) => (k, stamp c) end) es) m CANARY_MTIME
  | Symlink t => Symlink t
  end.

Fixpoint prefixes {A} (l : list A) : list (list A) :=   (* proper non-empty prefixes *)
  match l with
  | [] => []
  | [_] => []
  | x :: r => [x] :: map (cons x) (prefixes r)
  end.

(* build_target of the harness: mkdir -p of the parents, then the object *)
Definition add_pre (fs : fsys) (p : val) : fsys :=
  let l := lval p in
  let kind := nval (vnth l 0) in
  let comps := p_comps (parse (bval (vnth l 1))) in
  let arg := bval (vnth l 2) in
  let mode := nval (vnth l 3) in
  let fs1 := fold_left (fun f pre => snd (sys_mkdir f cwd0 (mkpath false pre) 493)) (prefixes comps) fs in
  let path := mkpath false comps in
  if kind =? 0 then
    match sys_open_creat_excl fs1 cwd0 path 384 with
    | (None, fs2) => fd_chmod (fd_write fs2 (nino fs1) arg) (nino fs1) mode
    | (Some _, fs2) => fs2
    end
  else if kind =? 1 then snd (sys_chmod (snd (sys_mkdir fs1 cwd0 path 493)) cwd0 path mode)
  else if kind =? 2 then snd (sys_symlink fs1 cwd0 arg path)
  else if kind =? 3 then snd (sys_link fs1 cwd0 (parse arg) path)
  else snd (sys_chmod (snd (sys_mkfifo fs1 cwd0 path mode)) cwd0 path mode).

Definition build_world (pre : list val) : fsys :=
  let fs := fold_left add_pre pre world0 in
  mkFs (upd cwd0 stamp (root fs)) (nino fs).

Definition entry_of_val (v : val) : entry :=
  let l := lval v in
  (* harness types 5 (a link target on an entry that says "regular file") and 6 (a link with an extended attribute)
     are symbolic links for the writer: whatever carries a symlink target is restored as a symbolic link *)
  let t := nval (vnth l 0) in
  mkEntry (if (t =? 5)%N || (t =? 6)%N then 2%N else t) (bval (vnth l 1)) (bval (vnth l 2)) (N.land (nval (vnth l 3)) 511)
          (if (zval (vnth l 4) <? 0)%Z then None else Some (zval (vnth l 4))) (bval (vnth l 5)).

(* ---------------------------------------------------------------- canonical dumps *)
Fixpoint insert_sorted (kv : name * node) (l : list (name * node)) : list (name * node) :=
  match l with
  | [] => [kv]
  | x :: r => if str_gtb (fst x) (fst kv) then kv :: l else x :: insert_sorted kv r
  end.
Definition sort_ents (l : list (name * node)) : list (name * node) := fold_right insert_sorted [] l.

Definition child_path (rel : str) (k : name) : str := match rel with [] => k | _ => rel ++ SLASH :: k end.

(* (ino, path) of the regular files, in dump order *)
Fixpoint reg_files (fuel : nat) (rel : str) (n : node) : list (N * str) :=
  match fuel with
  | O => []
  | S f =>
    match n with
    | Dir es _ _ =>
        flat_map (fun kv => match snd kv with
                            | Leaf false i _ _ _ => [(i, child_path rel (fst kv))]
                            | Dir _ _ _ => reg_files f (child_path rel (fst kv)) (snd kv)
                            | _ => []
                            end) (sort_ents es)
    | _ => []
    end
  end.

Fixpoint count_ino (fuel : nat) (i : N) (n : node) : N :=
  match fuel with
  | O => 0
  | S f =>
    match n with
    | Leaf _ j _ _ _ => if j =? i then 1 else 0
    | Dir es _ _ => fold_left (fun acc kv => acc + count_ino f i (snd kv)) es 0
    | Symlink _ => 0
    end
  end.

Definition group_of (tab : list (N * str)) (i : N) : str :=
  match filter (fun x => fst x =? i) tab with
  | a :: _ :: _ => snd a
  | _ => []
  end.

Definition DEPTH : nat := 200.

Definition dump_obj (inside : bool) (with_time : bool) (tab : list (N * str)) (whole : node) (rel : str) (n : node) : val :=
  match n with
  | Leaf false i d m t =>
      VL [VB rel; VI 0; VB []; VB d; VN m; VI (if with_time then t else 0%Z);
          if inside then VB (group_of tab i) else VN (count_ino DEPTH i whole)]
  | Leaf true i _ m t =>
      VL [VB rel; VI 4; VB []; VB []; VN m; VI (if inside then 0%Z else t);
          if inside then VB [] else VN (count_ino DEPTH i whole)]
  | Dir _ m t =>
      VL [VB rel; VI 1; VB []; VB []; VN m; VI (if inside then 0%Z else t); if inside then VB [] else VI 0]
  | Symlink tg =>
      VL [VB rel; VI 2; VB tg; VB []; VI 0; VI 0; if inside then VB [] else VI 0]
  end.

Fixpoint dump_tree (fuel : nat) (inside with_time : bool) (tab : list (N * str)) (whole : node)
         (skip : option name) (rel : str) (n : node) : list val :=
  match fuel with
  | O => []
  | S f =>
    match n with
    | Dir es _ _ =>
        flat_map (fun kv =>
                    if match skip with Some s => str_eqb s (fst kv) | None => false end then []
                    else dump_obj inside with_time tab whole (child_path rel (fst kv)) (snd kv)
                         :: dump_tree f inside with_time tab whole None (child_path rel (fst kv)) (snd kv))
                 (sort_ents es)
    | _ => []
    end
  end.

Definition val_of_status (s : status * status) : val := VL [VI (status_z (fst s)); VI (status_z (snd s))].

Definition run_history_case (l : list val) : val :=
  let fl := nval (vnth l 1) in
  let um := nval (vnth l 2) in
  let fs0 := build_world (lval (vnth l 3)) in
  let es := map entry_of_val (lval (vnth l 4)) in
  let '(sts, st) := run_history fl (mkSt fs0 cwd0 um []) es in
  let r := root (st_fs st) in
  let tgt := match get cwd0 r with Some n => n | None => Symlink [] end in
  let tab := reg_files DEPTH [] tgt in
  let with_time := has fl EXTRACT_TIME in
  VL [ VL (map val_of_status sts);
       VL [Vbool (match st_cwd st with [k] => str_eqb k n_target | _ => false end); VN um; VN (st_umask st)];
       VL (match get cwd0 r with
           | Some n => dump_obj true false tab r [] n :: dump_tree DEPTH true with_time tab r None [] n
           | None => []
           end);
       VL (dump_obj false true [] r [] r :: dump_tree DEPTH false true [] r (Some n_target) [] r) ].

Definition run_cleanup_case (l : list val) : val :=
  match cleanup_pathname (nval (vnth l 1)) (bval (vnth l 2)) with
  | ClOk q => VL [VI 0; VB q; VB []]
  | ClEmpty => VL [VI (-25); VB []; VB msg_empty]
  | ClAbsolute => VL [VI (-25); VB []; VB msg_absolute]
  | ClDotDot => VL [VI (-25); VB []; VB msg_dotdot]
  end.

Definition run (v : val) : val :=
  let l := lval v in
  match vnth l 0 with
  | VI 1%Z => run_cleanup_case l
  | VI 2%Z => run_history_case l
  | _ => VErr 1
  end.
