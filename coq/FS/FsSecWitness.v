(* C04 - concrete worlds and histories used by the refutation witnesses and examples of
   Properties_C04.v (the canary world of harness/fsSec.c, see FS/FsSecRun.v). *)
From Coq Require Import List ZArith NArith Bool Lia.
From LA Require Import Base.Val Gen.FsSecConsts FS.SanitizeDefs FS.FsModel FS.FsLemmas
                       FS.RestoreDefs FS.FsSecProofs FS.FsSecRun.
Import ListNotations.
Local Open Scope N_scope.

Definition Oc : N -> Prop := fun i => (i < 10)%N.
Definition SECF : N := EXTRACT_SECURE_SYMLINKS + EXTRACT_SECURE_NODOTDOT + EXTRACT_SECURE_NOABSOLUTEPATHS.
Definition st_world (um : N) (pre : list val) : pstate := mkSt (build_world pre) cwd0 um [].
Definition b (s : list N) : str := s.
Definition s_d : str := [100].  Definition s_e : str := [101].  Definition s_x : str := [120].
Definition s_h : str := [104].  Definition s_s : str := [115].
Definition s_dsub : str := [100;47;115;117;98].
Definition s_up_outside : str := [46;46;47;111;117;116;115;105;100;101].
Definition s_abs_cfile : str := [47;111;117;116;115;105;100;101;47;99;102;105;108;101].
Definition s_xevil : str := [120;47;101;118;105;108].

Definition f1_history : list entry :=
  [ mkEntry T_DIR s_dsub [] 511 (Some 12345%Z) [];
    mkEntry T_DIR s_e [] 493 (Some 12345%Z) [];
    mkEntry T_HARDLINK s_dsub s_e 420 (Some 1%Z) [];
    mkEntry T_SYMLINK s_d s_up_outside 511 (Some 1%Z) [] ].

Lemma world_inv : forall um, Inv [n_target] Oc (st_world um []).
Proof.
  intros um. constructor; [reflexivity|]. constructor.
  - vm_compute. now eexists _, _, _.
  - cbv. repeat split; auto.
  - intros n Hn. vm_compute in Hn. injection Hn as <-. exact I.
  - intros i Hi. exact Hi.
Qed.



Definition f2_pre : list val := [VL [VI 2; VB s_s; VB s_abs_cfile; VI 0]].
Definition f2_entry : entry := mkEntry T_HARDLINK s_h s_s 511 (Some 1%Z) [72].

Lemma world2_inv : Inv [n_target] Oc (st_world 18 f2_pre).
Proof.
  constructor; [reflexivity|]. constructor.
  - vm_compute. now eexists _, _, _.
  - cbv. repeat split; auto.
  - intros n Hn. vm_compute in Hn. injection Hn as <-. cbv. auto.
  - intros i Hi. exact Hi.
Qed.

Definition classic_pre : list val := [VL [VI 2; VB s_x; VB s_up_outside; VI 0]].
