(* C04 - lexical sanitiser: cleanup_pathname_fsobj of archive_write_disk_posix.c, transcribed
   character by character.

   The C function rewrites the string in place with two pointers (src >= dest); the model
   consumes [src] (the unread suffix) and appends to [out] (the bytes written so far, i.e. the
   block path[0..dest)); [sep] is the C variable [separator] (non-zero or '\0').
   Branch order is the order of the C source. *)
From Coq Require Import List NArith Bool.
From LA Require Import Gen.FsSecConsts.
Import ListNotations.
Local Open Scope N_scope.

Definition str := list N.
Definition SLASH : N := 47.
Definition DOT : N := 46.

(* C: (flags & BIT) *)
Definition has (fl bit : N) : bool := negb (N.land fl bit =? 0).

Inductive cl_result : Type :=
| ClOk (q : str)       (* ARCHIVE_OK, cleaned path *)
| ClEmpty              (* ARCHIVE_FAILED "Invalid empty pathname" *)
| ClAbsolute           (* ARCHIVE_FAILED "Path is absolute" *)
| ClDotDot.            (* ARCHIVE_FAILED "Path contains '..'" *)

(* after the for loop:  if (dest == path)  *dest++ = separator ? '/' : '.' ;  then terminate *)
Definition cl_finish (sep : bool) (out : str) : cl_result :=
  match out with
  | [] => ClOk (if sep then [SLASH] else [DOT])
  | _ => ClOk out
  end.

(* The for(;;) loop with its inner while loop, as one structurally recursive function over the
   unread input with two control states:
     copying = false : at the top of the for loop; [src] points to the first char after a '/'
                       (or to the start of the string);
     copying = true  : inside "while src is not at NUL or '/':  *dest++ = *src++", then
                       "if src is at NUL: break;  separator = *src++" and back to the top. *)
Fixpoint cl_go (fl : N) (copying : bool) (src : str) (sep : bool) (out : str) {struct src} : cl_result :=
  if copying then
    match src with
    | [] => cl_finish sep out                                 (* src at NUL : break (out is not empty) *)
    | c :: s' => if c =? SLASH then cl_go fl false s' true out   (* separator = *src++ *)
                 else cl_go fl true s' sep (out ++ [c])
    end
  else
    match src with
    | [] => cl_finish sep out                                 (* src[0] == NUL : break *)
    | c0 :: r0 =>
      (* "Copy current element, including leading '/'" : if (separator) *dest++ = '/'; then the while loop *)
      (* (a function of the output so far: evaluated only in the branches that copy) *)
      let copy_from (o : str) := cl_go fl true r0 sep ((o ++ (if sep then [SLASH] else [])) ++ [c0]) in
      if c0 =? SLASH then cl_go fl false r0 sep out           (* found '//', ignore second one *)
      else if c0 =? DOT then
        match r0 with
        | [] => cl_finish sep out                             (* ignore trailing '.' *)
        | c1 :: r1 =>
          if c1 =? SLASH then cl_go fl false r1 sep out       (* skip './' *)
          else if c1 =? DOT then
            match r1 with
            | [] => if has fl EXTRACT_SECURE_NODOTDOT then ClDotDot else copy_from out
            | c2 :: _ => if (c2 =? SLASH) && has fl EXTRACT_SECURE_NODOTDOT then ClDotDot
                         else copy_from out
            end
          else copy_from out
        end
      else copy_from out
    end.

Definition cl_scan (fl : N) (src : str) (sep : bool) (out : str) : cl_result := cl_go fl false src sep out.

Definition cleanup_pathname (fl : N) (p : str) : cl_result :=
  match p with
  | [] => ClEmpty                                             (* src at NUL *)
  | c :: r =>
    if c =? SLASH then
      if has fl EXTRACT_SECURE_NOABSOLUTEPATHS then ClAbsolute
      else cl_scan fl r true []                               (* separator = *src++ *)
    else cl_scan fl p false []
  end.

(* ------------------------------------------------------------------------------------------ *)
(* component view used by the specification and by the rest of the model *)

(* split on '/', keeping empty pieces: split "a//b" = ["a";"";"b"], split "" = [""] *)
Fixpoint split_acc (s : str) (cur : str) : list str :=
  match s with
  | [] => [cur]
  | c :: r => if c =? SLASH then cur :: split_acc r [] else split_acc r (cur ++ [c])
  end.
Definition split (s : str) : list str := split_acc s [].

Fixpoint join (l : list str) : str :=
  match l with
  | [] => []
  | [x] => x
  | x :: r => x ++ SLASH :: join r
  end.

Fixpoint str_eqb (a b : str) : bool :=
  match a, b with
  | [], [] => true
  | x :: a', y :: b' => (x =? y) && str_eqb a' b'
  | _, _ => false
  end.

Definition is_empty (s : str) : bool := match s with [] => true | _ => false end.
Definition is_dot (s : str) : bool := str_eqb s [DOT].
Definition is_dotdot (s : str) : bool := str_eqb s [DOT; DOT].
Definition is_abs (s : str) : bool := match s with c :: _ => c =? SLASH | [] => false end.

(* the components that name something: neither empty nor "." *)
Definition real_comps (s : str) : list str :=
  filter (fun c => negb (is_empty c) && negb (is_dot c)) (split s).

(* What cleanup_pathname computes, said with split/filter/join (proved equal in FsSecProofs) *)
Definition cleanup_spec (fl : N) (p : str) : cl_result :=
  if is_empty p then ClEmpty
  else if is_abs p && has fl EXTRACT_SECURE_NOABSOLUTEPATHS then ClAbsolute
  else if has fl EXTRACT_SECURE_NODOTDOT && existsb is_dotdot (split p) then ClDotDot
  else match real_comps p with
       | [] => ClOk (if is_abs p then [SLASH] else [DOT])
       | k => ClOk ((if is_abs p then [SLASH] else []) ++ join k)
       end.

(* messages of fsobj_error, for the correspondence protocol *)
Definition msg_empty : str := [73;110;118;97;108;105;100;32;101;109;112;116;121;32;112;97;116;104;110;97;109;101].
Definition msg_absolute : str := [80;97;116;104;32;105;115;32;97;98;115;111;108;117;116;101].
Definition msg_dotdot : str := [80;97;116;104;32;99;111;110;116;97;105;110;115;32;39;46;46;39].
