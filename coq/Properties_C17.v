(* C17 - The hard-link resolver neither loses nor duplicates entries.
   Property theorems only; each is closed by [exact] of a lemma of Entry/LinksProofs.v. *)
From Coq Require Import List ZArith NArith Bool Permutation.
From LA Require Import Base.Val Gen.Defines Entry.LinksDefs Entry.LinksProofs Entry.LinksSpec.
Import ListNotations.
Local Open Scope N_scope.

(* Every entry comes out exactly once, unmodified except for link bookkeeping (size, hardlink):
   for EVERY operation sequence (pushes interleaved with drain and partial_links calls), every
   strategy, with no bound on the number of live groups (hash growth included): the entries
   returned so far plus the entries a full drain returns are a permutation of the entries pushed,
   compared on (id, dev, ino, nlink, filetype, pathname). *)
Theorem C17_conservation : forall strat ops t outs,
  lrun (init_table strat) ops = (t, outs) ->
  exists t', drain_fuel (S (length (held_entries t))) t = (t', held_entries t) /\
             held_entries t' = [] /\
             Permutation (map core (all_out outs ++ held_entries t)) (map core (pushed ops)).
Proof. exact conservation_with_drain. Qed.
Print Assumptions C17_conservation.

(* same statement from any table satisfying the invariant (reachable or not) *)
Theorem C17_conservation_any_state : forall ops t t' outs,
  Inv t -> lrun t ops = (t', outs) ->
  Inv t' /\ Permutation (C (all_out outs ++ held_entries t')) (C (pushed ops ++ held_entries t)).
Proof. exact lrun_conservation. Qed.
Print Assumptions C17_conservation_any_state.

(* old-cpio strategy, link count one, directories and device nodes pass straight through *)
Theorem C17_passthrough : forall t e,
  (strategy t = LINKIFY_LIKE_OLD_CPIO \/ enlink e = 1 \/ eftype e = AE_IFDIR \/
   eftype e = AE_IFBLK \/ eftype e = AE_IFCHR) ->
  linkify t e = (t, (Some e, None)).
Proof. exact passthrough_unchanged. Qed.
Print Assumptions C17_passthrough.

(* tar: first of a live (dev,ino) group keeps its body; later ones lose the size and become hard
   links to the first pathname of the group *)
Theorem C17_tar_marking : forall t e,
  strategy t = LINKIFY_LIKE_TAR -> is_passthrough e = false ->
  match live_key t e with
  | Some x => exists t', linkify t e = (t', (Some (mark_hardlink true e (epath (canon x))), None))
  | None => linkify t e = (insert_entry t e None, (Some e, None))
  end.
Proof. exact tar_marking. Qed.
Print Assumptions C17_tar_marking.

Theorem C17_mtree_marking : forall t e,
  strategy t = LINKIFY_LIKE_MTREE -> is_passthrough e = false ->
  match live_key t e with
  | Some x => exists t', linkify t e = (t', (Some (mark_hardlink false e (epath (canon x))), None))
  | None => linkify t e = (insert_entry t e None, (Some e, None))
  end.
Proof. exact mtree_marking. Qed.
Print Assumptions C17_mtree_marking.

(* new cpio: an incoming member of a live group displaces the deferred one, which comes out as a
   hard link (no body) to the group's first pathname; the last member (links exhausted) comes out
   in the same call and carries the body *)
Theorem C17_newcpio_marking : forall t e,
  strategy t = LINKIFY_LIKE_NEW_CPIO -> is_passthrough e = false ->
  match live_key t e with
  | Some x => exists t', linkify t e =
        (t', (match held x with Some o => Some (mark_hardlink true o (epath (canon x))) | None => None end,
              if links (dec_links x) =? 0 then Some e else None))
  | None => linkify t e = (insert_entry t e (Some e), (None, None))
  end.
Proof. exact newcpio_marking. Qed.
Print Assumptions C17_newcpio_marking.

(* Refinement of the bucketed, growing hash table to a per-key counter: under the tar and mtree
   strategies, for EVERY sequence of pushes (any interleaving of any number of groups, restarts
   after completion, link counts that never complete, wrap-around mod 2^32) and for every key
   (dev, ino) simultaneously, the outputs for the entries of that key are exactly what [key_spec]
   computes from the history of that key alone, and the table abstracts to the spec's state.
   [Good] = every entry sits in the bucket its hash selects and no key occurs twice. *)
Theorem C17_tarlike_refines_key_spec : forall es t unset t' os,
  Good t -> tarlike t unset -> push_all t es = (t', os) ->
  Good t' /\ tarlike t' unset /\ length os = length es /\
  forall d i,
    outs_for d i es os =
      map (fun o => (Some o, None)) (fst (key_spec unset (abs_k t d i) (filter (same_key d i) es))) /\
    abs_k t' d i = snd (key_spec unset (abs_k t d i) (filter (same_key d i) es)).
Proof. exact tarlike_refines. Qed.
Print Assumptions C17_tarlike_refines_key_spec.

Theorem C17_init_good : forall strat, Good (init_table strat) /\ forall d i, abs_k (init_table strat) d i = None.
Proof. intros strat. split; [exact (init_Good strat)|exact (init_abs strat)]. Qed.
Print Assumptions C17_init_good.

(* the statement's second sentence, on the specification: a group of n entries sharing (dev, ino),
   the first announcing link count n: exactly the first carries the body, each of the others comes
   out as a hard link to the first pathname, and the key is free again afterwards *)
Theorem C17_group_marking : forall unset e1 (rest : list lentry),
  is_passthrough e1 = false -> Forall (fun e => is_passthrough e = false) rest ->
  enlink e1 = N.of_nat (S (length rest)) -> enlink e1 < two32 ->
  key_spec unset None (e1 :: rest) = (e1 :: marked unset (epath e1) rest, None).
Proof. exact group_marking. Qed.
Print Assumptions C17_group_marking.

Definition ex_e0 (id : Z) (ino nl : N) (p : N) : lentry :=
  mkLentry id 5 ino nl AE_IFREG (Some 10%Z) None [p].
(* Refinement, new-cpio strategy: per key the resolver is the three-field state machine [out_c]
   (first pathname, the one deferred entry, links still missing): the first entry of a key is
   held back, every later one releases the previously held entry marked as a hard link to the
   first pathname, and the entry that completes the count comes out second and unmarked (it
   carries the body); keys never interfere, and the table growth is invisible *)
Theorem C17_newcpio_refines_key_spec : forall es t t' os,
  Good t -> strategy t = LINKIFY_LIKE_NEW_CPIO -> push_all t es = (t', os) ->
  Good t' /\ strategy t' = LINKIFY_LIKE_NEW_CPIO /\ length os = length es /\
  forall d i,
    outs_for d i es os = fst (cpio_spec (abs_c t d i) (filter (same_key d i) es)) /\
    abs_c t' d i = snd (cpio_spec (abs_c t d i) (filter (same_key d i) es)).
Proof. exact newcpio_refines. Qed.
Print Assumptions C17_newcpio_refines_key_spec.

Example C17_cpio_spec_group :
  fst (cpio_spec None [ex_e0 1 7 3 97; ex_e0 2 7 3 98; ex_e0 3 7 3 99]) =
    [(None, None);
     (Some (mark_hardlink true (ex_e0 1 7 3 97) [97]), None);
     (Some (mark_hardlink true (ex_e0 2 7 3 98) [97]), Some (ex_e0 3 7 3 99))].
Proof. vm_compute. reflexivity. Qed.

(* non-vacuity: a concrete interleaved run meets the hypotheses and really defers / marks entries *)
Definition ex_e (id : Z) (ino nl : N) (p : N) : lentry :=
  mkLentry id 5 ino nl AE_IFREG (Some 10%Z) None [p].
Example C17_nonvacuous :
  let ops := [Push (ex_e 1 7 3 97); Push (ex_e 2 8 2 98); Push (ex_e 3 7 3 99); Push (ex_e 4 7 3 100); DrainOne] in
  let '(t, outs) := lrun (init_table LINKIFY_LIKE_NEW_CPIO) ops in
  map eid (all_out outs) = [1; 3; 4; 2]%Z /\ held_entries t = [] /\
  map ehard (all_out outs) = [Some [97]; Some [97]; None; None].
Proof. vm_compute. repeat split; reflexivity. Qed.
