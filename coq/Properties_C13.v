(* C13 - Independent handles can be used from different threads.   Level: PARTIAL.

   What is proved here is about the footprint abstraction of State/ThreadsDefs.v: threads are lists
   of atomic steps with read/write footprints over private and shared locations.  What is NOT in Coq:
   (a) the C11 memory model (an unsynchronised conflicting access is undefined behaviour in C, in
   the model it is only a "race"); (b) that the library's code touches shared objects only as the
   policy says - this is tied to the binary by Gen/Statics.v (every object in a writable section,
   regenerated from the object files on every run) joined with the committed classification
   props/C13_statics.json, and by the ThreadSanitizer run of harness/threads.c.
   The C13_regression_* theorems are about the models of code sites as they were BEFORE the fix
   commits in /repo (statics since removed); they remain true statements about those models and say
   what a re-introduction of such a static means.  Nothing in this file is _refuted any more. *)
From Coq Require Import List ZArith NArith Bool String.
From LA Require Import Gen.Statics State.ThreadsDefs State.ThreadsProofs.
Import ListNotations.
Open Scope list_scope.

(* ------------------------------------------------------------------ the general theorems *)

(* If every shared location touched by any thread is read-only in all threads, or all accesses to it
   are critical sections of one common lock (and what is read from lock-protected state is only
   stored back into lock-protected state), then for EVERY interleaving of the k threads every
   thread's private state ends exactly as in the sequential run (thread 0, then 1, ...), from every
   initial store.  _partial: holds for the footprint model; see (a), (b) above. *)
Theorem C13_interleave_equiv_partial : forall pol p tr,
  policy_ok pol p -> interleaving p tr ->
  forall s t l, exec_trace tr s (Private t l) = exec_trace (seq_trace p) s (Private t l).
Proof. exact interleave_equiv. Qed.
Print Assumptions C13_interleave_equiv_partial.

(* ... and as when the thread runs entirely alone *)
Theorem C13_interleave_equiv_alone_partial : forall pol p tr,
  policy_ok pol p -> interleaving p tr ->
  forall s t l, exec_trace tr s (Private t l) = exec_thread (nth t p []) s (Private t l).
Proof. exact interleave_equiv_alone. Qed.
Print Assumptions C13_interleave_equiv_alone_partial.

(* the sequential run is itself one of the interleavings quantified over *)
Theorem C13_sequential_is_an_interleaving : forall p, interleaving p (seq_trace p).
Proof. exact seq_is_interleaving. Qed.
Print Assumptions C13_sequential_is_an_interleaving.

(* under the same hypothesis no reachable point has two threads about to make conflicting accesses
   to a shared object outside a common lock *)
Theorem C13_policy_race_free_partial : forall pol p,
  policy_ok pol p -> forall sched n, ~ race_after p sched n.
Proof. exact policy_race_free. Qed.
Print Assumptions C13_policy_race_free_partial.

(* ------------------------------------------------------------------ the statics table *)

(* the obligation: every writable static is synchronised (locked / initialised once before use /
   documented exception) - equivalently the list of unsynchronised ones is empty *)
Theorem C13_statics_ok_characterised : forall tbl,
  statics_ok tbl = true <-> unsynchronised_in tbl = [].
Proof. exact statics_ok_characterised. Qed.
Print Assumptions C13_statics_ok_characterised.

(* for ANY table meeting the obligation, a program that uses the shared objects as the table's
   classes allow (objects not in the table are constant data) has both conclusions *)
Theorem C13_statics_ok_implies_equiv_partial : forall tbl p,
  statics_ok tbl = true -> policy_ok (policy_of_table tbl) p ->
  (forall tr, interleaving p tr ->
     forall s t l, exec_trace tr s (Private t l) = exec_trace (seq_trace p) s (Private t l)) /\
  (forall sched n, ~ race_after p sched n).
Proof. exact table_equiv. Qed.
Print Assumptions C13_statics_ok_implies_equiv_partial.

(* ... and then the only objects such a program may not touch are the documented exceptions *)
Theorem C13_statics_ok_policy_total : forall tbl n,
  statics_ok tbl = true -> policy_of_table tbl n = None ->
  exists e, In e tbl /\ ce_name e = n /\ ce_class e = Some ThreadUnsafeDocumented.
Proof. exact statics_ok_policy_total. Qed.
Print Assumptions C13_statics_ok_policy_total.

(* conversely a step touching an unsynchronised or unclassified static never satisfies the policy *)
Theorem C13_unsynchronised_not_allowed : forall tbl e t st,
  find_entry tbl (ce_name e) = Some e -> synchronised e = false ->
  In (Shared (ce_name e)) (accesses st) -> ok_stepb (policy_of_table tbl) t st = false.
Proof. exact unsynchronised_not_allowed. Qed.
Print Assumptions C13_unsynchronised_not_allowed.

(* OBLIGATIONS ON THE REGENERATED TABLE (discharged by computation on Gen/Statics.v of this run):
   1. every writable static found in the object files has a classification entry.  A new static
      (no entry) breaks this theorem: "unclassified static". *)
Theorem C13_every_static_classified : forallb is_classified statics_classified = true.
Proof. vm_compute. reflexivity. Qed.
Print Assumptions C13_every_static_classified.

(* 2. THE obligation statics_ok on the table of this build: every writable static is locked,
      initialised once before use, or a documented exception. *)
Eval vm_compute in (map (fun e => (ce_obj e, ce_sym e, ce_class e)) statics_classified).
Theorem C13_statics_ok : statics_ok statics_classified = true.
Proof. vm_compute. reflexivity. Qed.
Print Assumptions C13_statics_ok.

(* 3. (implied by 2 while it holds; says WHICH model applies when it does not) every static of the
      table that is not synchronised is one whose code site is modelled below with a racing schedule *)
Theorem C13_unsynchronised_statics_have_witness :
  forallb (fun e => synchronised e || has_witness e) statics_classified = true.
Proof. vm_compute. reflexivity. Qed.
Print Assumptions C13_unsynchronised_statics_have_witness.

(* 4. the models of the code sites as they are NOW (tar counters in struct tar, constant CRC/base64
      tables, automatic lst/st, archive_version_details with mutex-protected guard and a string that
      is initialised once) obey the access policy induced by the table of this build ... *)
Theorem C13_fixed_sites_obey_policy : policy_okb (policy_of_table statics_classified) prog_fixed = true.
Proof. vm_compute. reflexivity. Qed.
Print Assumptions C13_fixed_sites_obey_policy.

(* ... hence every interleaving of three such threads gives each its sequential results, race-free.
   _partial: about the model; that the C code is the model is what TSan + the table check. *)
Theorem C13_fixed_sites_equiv_partial :
  (forall tr, interleaving prog_fixed tr ->
     forall s t l, exec_trace tr s (Private t l) = exec_trace (seq_trace prog_fixed) s (Private t l)) /\
  (forall sched n, ~ race_after prog_fixed sched n).
Proof.
  exact (table_equiv statics_classified prog_fixed C13_statics_ok
           (policy_okb_ok _ _ C13_fixed_sites_obey_policy)).
Qed.
Print Assumptions C13_fixed_sites_equiv_partial.

(* ------------------------------------------------------------------ what an unsynchronised static means
   for ANY table: an entry that is not synchronised and whose code site is modelled here breaks the
   obligation and has a racing schedule in the model of that site *)
Theorem C13_table_with_witnessed_static_races : forall tbl e,
  In e tbl -> synchronised e = false -> has_witness e = true ->
  statics_ok tbl = false /\ exists p s0 sched, race_witness p s0 sched (ce_name e).
Proof. exact table_with_witnessed_static_races. Qed.
Print Assumptions C13_table_with_witnessed_static_races.

Theorem C13_regression_witnessed_all :
  Forall (fun n => exists p s0 sched, race_witness p s0 sched n) witnessed.
Proof. exact witnessed_all. Qed.
Print Assumptions C13_regression_witnessed_all.

(* ------------------------------------------------------------------ regression witnesses, one per former
   code site (models of the code BEFORE the fix commits; the statics no longer exist in /repo):
   exists a 2-thread schedule, executable from the initial store with every branch condition of the
   modelled path true, after which both threads are about to access the static, one of them writing,
   with no common lock. *)
Theorem C13_regression_race_default_inode : exists sched, race_witness prog_tar zero_store sched S_default_inode.
Proof. exact race_default_inode. Qed.
Print Assumptions C13_regression_race_default_inode.

Theorem C13_regression_race_default_dev : exists sched, race_witness prog_tar_wrap
  (fun l => match l with Shared n => if String.eqb n S_default_inode then 65534%Z else 0%Z | _ => 0%Z end)
  sched S_default_dev.
Proof. exact race_default_dev. Qed.
Print Assumptions C13_regression_race_default_dev.

Theorem C13_regression_race_decode_table : exists sched, race_witness prog_base64 zero_store sched S_decode_B.
Proof. exact race_decode_table. Qed.
Print Assumptions C13_regression_race_decode_table.

Theorem C13_regression_race_crc16init : exists sched, race_witness prog_lha zero_store sched S_crc16init.
Proof. exact race_crc16init. Qed.
Print Assumptions C13_regression_race_crc16init.

Theorem C13_regression_race_crc16tbl : exists sched, race_witness prog_lha zero_store sched S_crc16tbl.
Proof. exact race_crc16tbl. Qed.
Print Assumptions C13_regression_race_crc16tbl.

Theorem C13_regression_race_debug_index : exists sched, race_witness prog_compress zero_store sched S_debug_index.
Proof. exact race_debug_index. Qed.
Print Assumptions C13_regression_race_debug_index.

Theorem C13_regression_race_lst : exists sched, race_witness prog_disk disk_store sched S_lst.
Proof. exact race_lst. Qed.
Print Assumptions C13_regression_race_lst.

Theorem C13_regression_race_can_dupfd_cloexec : exists sched, race_witness prog_dup dup_store sched S_can_dupfd.
Proof. exact race_can_dupfd_cloexec. Qed.
Print Assumptions C13_regression_race_can_dupfd_cloexec.

Theorem C13_regression_race_dos_initialised : exists sched, race_witness prog_dos zero_store sched S_dos_init.
Proof. exact race_dos_initialised. Qed.
Print Assumptions C13_regression_race_dos_initialised.

Theorem C13_regression_race_dos_max_unix : exists sched, race_witness prog_dos zero_store sched S_dos_max.
Proof. exact race_dos_max_unix. Qed.
Print Assumptions C13_regression_race_dos_max_unix.

Theorem C13_regression_race_dos_min_unix : exists sched, race_witness prog_dos zero_store sched S_dos_min.
Proof. exact race_dos_min_unix. Qed.
Print Assumptions C13_regression_race_dos_min_unix.

Theorem C13_regression_race_str : exists sched, race_witness prog_version zero_store sched S_str.
Proof. exact race_str. Qed.
Print Assumptions C13_regression_race_str.

(* a C library call that keeps hidden process-wide state (row "libc:mbrtowc(NULL)" of the statics table: the
   conversion state when the caller passes no mbstate_t): both handles are about to update it, no lock *)
Theorem C13_hidden_libc_state_races : exists sched, race_witness prog_mbstate mbstate_store sched S_mbstate.
Proof. exact race_mbstate. Qed.
Print Assumptions C13_hidden_libc_state_races.

(* ... and the result one handle sees depends on the other: its ASCII name fails to convert *)
Theorem C13_hidden_libc_state_result : differs prog_mbstate mbstate_store (Private 0 "out2").
Proof. exact mbstate_result_differs. Qed.
Print Assumptions C13_hidden_libc_state_result.

(* a race_witness is in particular a race in the sense excluded by C13_policy_race_free_partial *)
Theorem C13_race_witness_is_race : forall p s0 sched n, race_witness p s0 sched n -> race_after p sched n.
Proof. exact race_witness_race_after. Qed.
Print Assumptions C13_race_witness_is_race.

(* ------------------------------------------------------------------ observable differences (same former
   code sites; this is what the harness digests would show again)
   differs p s0 l: an interleaving of p - every branch condition of the modelled paths true in it and
   in the sequential run - after which location l differs from the sequential run. *)

(* default_inode: two handles reading two tar headers each; thread 0's second entry gets ino 3
   instead of 2 ... *)
Theorem C13_regression_default_inode_ino : differs prog_tar zero_store (Private 0 "ino2").
Proof. exact default_inode_ino_differs. Qed.
Print Assumptions C13_regression_default_inode_ino.

(* ... and the order-independent observable the harness digests (ino of the 2nd entry minus ino of
   the 1st, which is 1 in EVERY sequential use of whole handles) is 2 *)
Theorem C13_regression_default_inode_delta : differs prog_tar zero_store (Private 0 "delta").
Proof. exact default_inode_delta_differs. Qed.
Print Assumptions C13_regression_default_inode_delta.

(* torn ++default_inode: entries of two different handles get the SAME synthesised inode *)
Theorem C13_regression_default_inode_duplicate : exists tr,
  interleaving prog_tar tr /\ guards_ok tr zero_store = true /\
  exec_trace tr zero_store (Private 0 "ino1") = exec_trace tr zero_store (Private 1 "ino1").
Proof. exact default_inode_duplicate. Qed.
Print Assumptions C13_regression_default_inode_duplicate.

(* crc16init is set before crc16tbl is filled: a second LHA reader computes its CRC from a zero table *)
Theorem C13_regression_crc16_result : differs prog_lha zero_store (Private 1 "crc").
Proof. exact crc16_result_differs. Qed.
Print Assumptions C13_regression_crc16_result.

(* static lst: a disk reader dereferences the other handle's stat pointer *)
Theorem C13_regression_lst_pointer : differs prog_disk disk_store (Private 0 "lst_used").
Proof. exact lst_pointer_differs. Qed.
Print Assumptions C13_regression_lst_pointer.

(* ------------------------------------------------------------------ non-vacuity
   a concrete 3-thread program that reads a constant table and updates a lock-protected shared counter
   satisfies the hypotheses (for a table that meets statics_ok), has a non-sequential interleaving,
   and that interleaving gives every thread its sequential result while the counter is really
   written by all of them. *)
Example C13_nonvacuous :
  statics_ok good_table = true /\
  policy_ok (policy_of_table good_table) prog_good /\
  trace_of sched_good prog_good = Some trace_good /\ interleaving prog_good trace_good /\
  map fst trace_good <> map fst (seq_trace prog_good) /\
  map (fun t => exec_trace trace_good good_store (Private t "out")) [0;1;2]%nat = [38; 40; 42]%Z /\
  map (fun t => exec_trace (seq_trace prog_good) good_store (Private t "out")) [0;1;2]%nat = [38; 40; 42]%Z /\
  exec_trace trace_good good_store (Shared S_counter) = 106%Z.
Proof. exact good_example. Qed.
