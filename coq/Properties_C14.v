(* C14 - Entry objects are coherent: getters reflect setters, clones are equal.
   Property theorems only; each is closed by [exact] of a lemma of Entry/EntryProofs.v.
   The model (Entry/EntryDefs.v, [step false]) is the behaviour of the tree with fixes/C14-*.diff
   applied; [step true] is the behaviour before the fixes, used for the *_refuted statements. *)
From Coq Require Import List ZArith NArith Bool Permutation.
From LA Require Import Base.Val Gen.EntryConsts Entry.EntryDefs Entry.EntryProofs.
Import ListNotations.
Local Open Scope Z_scope.

(* For EVERY finite program of setters / unsetters / copy_stat / clear / clone / swap, after EVERY
   step, every getter of the object and of its clone returns what the abstract "last relevant
   setter wins" specification says: the return value of the call is equal, all getter groups are
   equal (times, ids, mode / perm / filetype, dev / rdev split and combined, is-set flags, link
   names, strings, sparse map, struct stat) and the xattr enumeration is a permutation. *)
Theorem C14_refines : forall ms : list mop,
  Forall2 (fun a b : Z * obs * option obs =>
             fst (fst a) = fst (fst b) /\
             (obs_nox (snd (fst a)) = obs_nox (snd (fst b)) /\ Permutation (o_xattr (snd (fst a))) (o_xattr (snd (fst b)))) /\
             match snd a, snd b with
             | None, None => True
             | Some x, Some y => obs_nox x = obs_nox y /\ Permutation (o_xattr x) (o_xattr y)
             | _, _ => False
             end)
          (mrun false (init, None) ms) (sp_mrun (spec_init, None) ms).
Proof. exact refines. Qed.
Print Assumptions C14_refines.

(* the same, one call at a time, from ANY object satisfying the invariant (reachable or not) *)
Theorem C14_step_refines : forall e o, Inv e ->
  abs (fst (step false e o)) = fst (sp_step (abs e) o) /\
  snd (step false e o) = snd (sp_step (abs e) o) /\
  Inv (fst (step false e o)).
Proof. exact step_ok. Qed.
Print Assumptions C14_step_refines.

(* nanoseconds normalised into seconds: FIX_NS (C truncating / and %, then the negative branch)
   leaves 0 <= nsec < 10^9 and, unless the seconds leave int64, preserves the instant *)
Theorem C14_fix_ns_normal : forall t ns t' ns',
  fix_ns t ns = (t', ns') ->
  0 <= ns' < FIX_NS_DIV /\
  (- 2^63 <= t + ns / FIX_NS_DIV < 2^63 -> t' * FIX_NS_DIV + ns' = t * FIX_NS_DIV + ns).
Proof. exact fix_ns_normal. Qed.
Print Assumptions C14_fix_ns_normal.

Theorem C14_fix_ns_is_floor_division : forall t ns,
  fix_ns t ns = (s64 (t + ns / FIX_NS_DIV), ns mod FIX_NS_DIV).
Proof. exact fix_ns_floor. Qed.
Print Assumptions C14_fix_ns_is_floor_division.

(* file type versus permission bits inside mode: a partition, on every reachable object *)
Theorem C14_mode_partition : forall e, reach e ->
  Z.lor (g_filetype e) (g_perm e) = mode e /\ Z.land (g_filetype e) (g_perm e) = 0 /\
  g_filetype e = Z.land AE_IFMT (mode e).
Proof. exact (fun e H => mode_split e (reach_Inv e H)). Qed.
Print Assumptions C14_mode_partition.

(* hard-link versus symlink target: never both *)
Theorem C14_link_exclusive : forall e, reach e -> g_hardlink e = None \/ g_symlink e = None.
Proof. exact (fun e H => link_exclusive e (reach_Inv e H)). Qed.
Print Assumptions C14_link_exclusive.

(* split versus combined device numbers *)
Theorem C14_dev_consistent : forall e, reach e ->
  g_dev (dev e) = dev_make (g_major (dev e)) (g_minor (dev e)) /\
  rdev_guard e (g_dev (rdev e)) = dev_make (rdev_guard e (g_major (rdev e))) (rdev_guard e (g_minor (rdev e))).
Proof. exact (fun e H => dev_consistent e (reach_Inv e H)). Qed.
Print Assumptions C14_dev_consistent.

Theorem C14_dev_roundtrip :
  (forall d, 0 <= d < 2^64 -> dev_make (dev_major d) (dev_minor d) = d) /\
  (forall a b, dev_major (dev_make a b) = u32 a /\ dev_minor (dev_make a b) = u32 b).
Proof. exact (conj dev_make_split (fun a b => conj (dev_major_make a b) (dev_minor_make a b))). Qed.
Print Assumptions C14_dev_roundtrip.

(* archive_entry_stat never returns a stale structure *)
Theorem C14_stat_coherent : forall e, reach e ->
  snd (do_stat e) = stat_compute e /\ stat_compute e = sp_stat (abs e).
Proof. exact (fun e H => stat_coherent e (reach_Inv e H)). Qed.
Print Assumptions C14_stat_coherent.

(* the sparse map is always ascending, disjoint and merged *)
Theorem C14_sparse_sorted : forall e, reach e -> sp_wf (sparse_r e).
Proof. exact reach_sparse_wf. Qed.
Print Assumptions C14_sparse_sorted.

(* a clone is indistinguishable from the original through every getter (xattrs: as a multiset) *)
Theorem C14_clone_equal : forall e, reach e ->
  obs_nox (snd (observe (clone false e))) = obs_nox (snd (observe e)) /\
  Permutation (o_xattr (snd (observe (clone false e)))) (o_xattr (snd (observe e))).
Proof. exact (fun e H => clone_equal e (reach_Inv e H)). Qed.
Print Assumptions C14_clone_equal.

(* later changes to one do not affect the other (structural in a functional model; the real
   objects are checked for it by the correspondence harness after every step) *)
Theorem C14_clone_independent : forall lg e c o, snd (fst (mstep lg (e, Some c) (MOp o))) = Some c.
Proof. exact clone_independent. Qed.
Print Assumptions C14_clone_independent.

(* the multibyte, wide and UTF-8 views of a string agree: for the three-form lazy-conversion
   string of archive_string.c, if the locale conversions are mutually inverse on the encodings of
   a text, every view returns the encoding of that text, whichever form was stored and in
   whatever order the views are read *)
Theorem C14_views_agree : forall (T : Type) (em eu : T -> bytes) (ew : T -> list N) (c : conv) (t : T) gs m,
  (m2w c (em t) = Some (ew t) /\ w2m c (ew t) = Some (em t) /\ u2m c (eu t) = Some (em t) /\ m2u c (em t) = Some (eu t)) ->
  repr T em eu ew m t ->
  ms_gets c gs m = map (fun g => expected T em eu ew g t) gs.
Proof. exact views_agree. Qed.
Print Assumptions C14_views_agree.

Theorem C14_views_setters : forall (T : Type) (em eu : T -> bytes) (ew : T -> list N) (c : conv) (t : T),
  conv_ok T em eu ew c t ->
  repr T em eu ew (ms_copy_mbs (em t)) t /\ repr T em eu ew (ms_copy_utf8 (eu t)) t /\
  repr T em eu ew (ms_copy_wcs (ew t)) t /\
  repr T em eu ew (fst (ms_update_utf8 c (eu t))) t /\ snd (ms_update_utf8 c (eu t)) = true.
Proof. exact setters_repr. Qed.
Print Assumptions C14_views_setters.

(* the regenerated AE_SET_* constants are pairwise distinct single bits and none is unknown to the model *)
Theorem C14_ae_set_bits : forallb is_bit AE_SET_ALL = true /\ NoDup AE_SET_ALL /\ AE_SET_UNKNOWN_COUNT = 0.
Proof. exact AE_SET_wf. Qed.
Print Assumptions C14_ae_set_bits.

(* ---------------------------------------------------------------- findings: the tree before the fixes *)
(* F-C14-1  archive_entry_set_symlink(e,"sym"); archive_entry_copy_hardlink(e,"hard"):
   archive_entry_hardlink() and archive_entry_symlink() both return "hard" *)
Theorem C14_legacy_copy_hardlink_refuted :
  let ops := [OLink LSym VSet (Some str_sym); OLink LHard VCopy (Some str_hard)] in
  g_hardlink (run_lg true ops) = Some str_hard /\ g_symlink (run_lg true ops) = Some str_hard /\
  g_hardlink (run_lg false ops) = Some str_hard /\ g_symlink (run_lg false ops) = None.
Proof. exact legacy_copy_hardlink. Qed.
Print Assumptions C14_legacy_copy_hardlink_refuted.

Theorem C14_legacy_refines_refuted :
  exists ms, ~ Forall2 out_rel (mrun true (init, None) ms) (sp_mrun (spec_init, None) ms).
Proof. exact legacy_refines_refuted. Qed.
Print Assumptions C14_legacy_refines_refuted.

(* F-C14-2  archive_entry_set_dev(e, makedev(3,4)); archive_entry_set_devmajor(e, 5): devminor() = 0 *)
Theorem C14_legacy_set_devmajor_refuted :
  let ops := [ODev DDev PComb (dev_make 3 4); ODev DDev PMaj 5] in
  g_minor (dev (run_lg true ops)) = 0 /\ g_minor (dev (run_lg false ops)) = 4 /\
  g_major (dev (run_lg false ops)) = 5 /\ g_dev (dev (run_lg false ops)) = dev_make 5 4.
Proof. exact legacy_set_devmajor. Qed.
Print Assumptions C14_legacy_set_devmajor_refuted.

(* F-C14-3  set_size(100); sparse_add_entry(10,50); set_size(20); clone: the clone lost the block *)
Theorem C14_legacy_clone_sparse_refuted :
  let e := run_lg true [OId KSize 100; OSparseAdd 10 50; OId KSize 20] in
  o_sparse (snd (observe e)) = [(10, 50)] /\ o_sparse (snd (observe (clone true e))) = [] /\
  o_sparse (snd (observe (clone false e))) = [(10, 50)].
Proof. exact legacy_clone_sparse. Qed.
Print Assumptions C14_legacy_clone_sparse_refuted.

(* F-C14-4  set_mode(0100644); stat(); acl_add_entry(ACCESS, rwx, USER_OBJ): mode() = 0100744 but
   archive_entry_stat()->st_mode = 0100644 (the cached structure is not invalidated) *)
Theorem C14_legacy_stat_stale_refuted :
  let ms := [MOp (OMode 33188); MOp (OAclSpecial TUserObj 7)] in
  (exists r o c, nth 1 (mrun true (init, None) ms) (0, snd (observe init), None) = (r, o, c) /\
                 nth 0 (o_mode o) 0 = 33252 /\ nth 10 (o_stat o) 0 = 33188) /\
  (exists r o c, nth 1 (mrun false (init, None) ms) (0, snd (observe init), None) = (r, o, c) /\
                 nth 0 (o_mode o) 0 = 33252 /\ nth 10 (o_stat o) 0 = 33252).
Proof. exact legacy_stat_stale. Qed.
Print Assumptions C14_legacy_stat_stale_refuted.

(* non-vacuity: a concrete program exercising coupled fields; the object is reachable, the clone
   keeps its link name and its (reversed) xattr list while the original is changed *)
Example C14_nonvacuous :
  let ms := [MOp (OLink LSym VSet (Some str_sym)); MOp (OTime KM 5 (-1)); MOp (ODev DDev PComb (dev_make 3 4));
             MOp (OXattrAdd [97%N] [1%N]); MOp (OXattrAdd [98%N] [2%N]); MClone;
             MOp (OLink LHard VCopy (Some str_hard)); MOp (ODev DDev PMaj 5); MOp (OMode 33188)] in
  match last (mrun false (init, None) ms) (0, snd (observe init), None) with
  | (_, o, Some c) =>
      o_hardlink o = Some str_hard /\ o_symlink o = None /\ o_symlink c = Some str_sym /\ o_hardlink c = None /\
      nth 3 (o_times o) (0, 0, 0) = (4, 999999999, AE_SET_MTIME) /\
      o_dev o = [dev_make 5 4; AE_SET_DEV; 5; 4; 0; 0; 0; 0] /\ nth 0 (o_dev c) 0 = dev_make 3 4 /\
      o_mode o = [33188; 420; AE_SET_PERM; 32768; AE_SET_FILETYPE] /\
      o_xattr o = [([98%N], [2%N]); ([97%N], [1%N])] /\ o_xattr c = [([97%N], [1%N]); ([98%N], [2%N])]
  | _ => False
  end.
Proof. vm_compute. repeat split; reflexivity. Qed.

(* ------------------------------------------------------------------ file flags: the two bitmaps and their text
   (Entry/FflagsDefs.v over the fileflags[] table regenerated from this build, Gen/FflagsTable.v) *)
From LA Require Gen.FflagsTable Entry.FflagsDefs Entry.FflagsProofs.
Module Fflags.
Import Gen.FflagsTable Entry.FflagsDefs Entry.FflagsProofs.
Local Open Scope N_scope.

(* "Setting the bitmaps clears any stored text": whatever the entry held before - a text with unknown tokens, a
   non-canonical spelling, a cached rendering - after set_fflags the text getter prints the new bitmaps and nothing else *)
Theorem C14_fflags_set_discards_text : forall st s c,
  snd (fstep (fst (fstep st (SetFflags s c))) GetText) =
  OText (if (ulong s =? 0) && (ulong c =? 0) then None else fflagstostr (ulong s) (ulong c)) /\
  snd (fstep (fst (fstep st (SetFflags s c))) GetBits) = OBits (ulong s) (ulong c).
Proof. intros. split; [apply text_after_set_fflags | apply bits_after_set_fflags]. Qed.
Print Assumptions C14_fflags_set_discards_text.

(* the text setter stores the text as given and the bitmaps it parses to, and reports the first unknown token *)
Theorem C14_fflags_copy_text : forall st t,
  let st1 := fst (fstep st (CopyText t)) in
  snd (fstep st1 GetText) = OText (Some t) /\
  snd (fstep st1 GetBits) = OBits (fst (fst (strtofflags t))) (snd (fst (strtofflags t))) /\
  snd (fstep st (CopyText t)) = OFailed (snd (strtofflags t)).
Proof. exact after_copy_text. Qed.
Print Assumptions C14_fflags_copy_text.

(* the getter's cache is not observable: same text again, bitmaps untouched; a clone is equal; clear resets *)
Theorem C14_fflags_getters_pure : forall st,
  let st1 := fst (fstep st GetText) in
  fstep st1 GetText = (st1, snd (fstep st GetText)) /\ fset st1 = fset st /\ fclear st1 = fclear st /\
  fstep st Clone = (st, ONone) /\ fst (fstep st Clear) = f0.
Proof.
  intro st. destruct (get_text_stable st) as (A & B & C). repeat split; [exact A | exact B | exact C].
Qed.
Print Assumptions C14_fflags_getters_pure.

(* ae_fflagstostr: what it writes (text, commas, terminating NUL) fits what it allocated - for ANY table *)
Theorem C14_fflags_buffer_fits : forall tbl bs bc, emit tbl bs bc <> [] ->
  N.of_nat (length (join (emit tbl bs bc))) + 1 <= alloc_len tbl (N.lor bs bc).
Proof. exact written_fits. Qed.
Print Assumptions C14_fflags_buffer_fits.

(* the regenerated table of THIS build passes the decidable conditions of the round-trip theorem: every row is one
   bit on one side, names are "no..." without separators, and either spelling of a row is found (first match) with
   the row's own effect; and every wide name spells its narrow name *)
Theorem C14_fflags_table_wf : wf_table fileflags = true /\ WNAMES_AGREE = true.
Proof. vm_compute. split; reflexivity. Qed.
Print Assumptions C14_fflags_table_wf.

(* getters reflect setters through the text form: disjoint bitmaps made of bits this platform knows print to a text
   that parses back to exactly those bitmaps, with every token recognised *)
Theorem C14_fflags_text_roundtrip : forall s c,
  N.land s c = 0 -> N.land s (known fileflags) = s -> N.land c (known fileflags) = c ->
  match fflagstostr s c with
  | Some t => strtofflags t = (s, c, None)
  | None => s = 0 /\ c = 0
  end.
Proof. intros s c. apply (fflags_text_roundtrip fileflags s c). exact (proj1 C14_fflags_table_wf). Qed.
Print Assumptions C14_fflags_text_roundtrip.

(* non-vacuity: "nodump,no-such-flag" then set_fflags with exactly the bitmaps it parsed to prints "nodump";
   and (sappnd set, nodump cleared) prints "sappnd,dump" *)
Example C14_fflags_nonvacuous :
  let nodump := [110; 111; 100; 117; 109; 112] in
  let junk := nodump ++ [44; 110; 111; 45; 115; 117; 99; 104] in
  snd (frun f0 [CopyText junk; GetBits; GetText; SetFflags 64 0; GetText]) =
    [OFailed (Some 7); OBits 64 0; OText (Some junk); ONone; OText (Some nodump)] /\
  fflagstostr 32 64 = Some [115; 97; 112; 112; 110; 100; 44; 100; 117; 109; 112] /\
  N.land 32 (known fileflags) = 32 /\ N.land 64 (known fileflags) = 64.
Proof. vm_compute. repeat split; reflexivity. Qed.
End Fflags.
