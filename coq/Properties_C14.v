From Coq Require Import List ZArith Bool.
From LA Require Import Base.Val Gen.EntryConsts Entry.EntryDefs Entry.EntryProofs.
Theorem C14_placeholder : True. Proof. exact placeholder. Qed.
Print Assumptions C14_placeholder.
