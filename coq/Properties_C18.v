(* C18 - Character-set conversion of names is correct and bounded.
   Property theorems only, each closed by [exact] of a lemma of Entry/UtfProofs.v.  The model is
   Entry/UtfDefs.v (transcription of _utf8_to_unicode, utf8_to_unicode, cesu8_to_unicode,
   unicode_to_utf8, utf16_to_unicode, unicode_to_utf16be/le, archive_string_ensure,
   archive_string_append_unicode, strncat_from_utf8_to_utf8, archive_strncpy_l in a UTF-8 locale);
   the table utf8_count[256], UNICODE_MAX, UNICODE_R_CHAR, the surrogate bounds and the SCONV_*
   bits are regenerated from archive_string.c (Gen/UtfTable.v).
   Finite-domain facts (all 1,112,064 scalar values; all byte combinations the decoders accept) are
   kernel-checked exhaustive evaluations (Entry/UtfSweep*.v: vm_compute casts), lifted to
   universally quantified statements; the string-level theorems are inductions over unbounded lists.
   NOT covered: archive_string_normalize_C/D (the converter installed by *_from_charset objects),
   iconv-backed charsets, wide characters (libc mbrtowc/wcrtomb), the archive formats. *)
From Coq Require Import List ZArith NArith Bool.
From LA Require Import Gen.UtfTable Entry.UtfDefs Entry.UtfBase Entry.UtfProofs.
Import ListNotations.
Local Open Scope N_scope.

(* the regenerated table is the range table of UTF-8 lead bytes (every theorem below that mentions
   _utf8_to_unicode depends on the table only through this fact) *)
Theorem C18_table : forall ch, utf8_count ch = utf8_class ch.
Proof. exact utf8_count_class. Qed.
Print Assumptions C18_table.

(* (a) EVERY Unicode scalar value u but U+0000 (1,112,063 values: 1..0x10FFFF minus D800..DFFF):
   decoding what unicode_to_utf8 wrote, followed by any bytes, gives back (its length, u).
   U+0000 is excluded because _utf8_to_unicode treats a NUL byte as end of string (returns 0). *)
Theorem C18_utf8_scalar_round_trip : forall u tail, is_scalar u = true -> u <> 0 ->
  utf8_to_unicode (unicode_to_utf8 4 u ++ tail) = (Z.of_N (len (unicode_to_utf8 4 u)), u) /\
  cesu8_to_unicode (unicode_to_utf8 4 u ++ tail) = (Z.of_N (len (unicode_to_utf8 4 u)), u).
Proof. intros u tail A B. split; [exact (utf8_rt_tail u tail A B)|exact (cesu8_rt_tail u tail A B)]. Qed.
Print Assumptions C18_utf8_scalar_round_trip.

(* (b) the same for UTF-16 in both byte orders, all 1,112,064 scalar values, surrogate pairs included *)
Theorem C18_utf16_scalar_round_trip : forall be u tail, is_scalar u = true ->
  utf16_to_unicode be (unicode_to_utf16 be 4 u ++ tail) = (Z.of_N (len (unicode_to_utf16 be 4 u)), u).
Proof. exact utf16_rt_tail. Qed.
Print Assumptions C18_utf16_scalar_round_trip.

(* the encoders write the encodings of the Unicode Standard (utf8_spec/utf16_spec are written with
   div and mod, not with the shifts and masks of the C code) ... *)
Theorem C18_encoders_standard : forall u, u <= 1114111 ->
  unicode_to_utf8 4 u = utf8_spec u /\ forall be, unicode_to_utf16 be 4 u = utf16_spec be u.
Proof. intros u H. split; [exact (utf8_enc_spec u H)|intros be; exact (utf16_enc_spec be u H)]. Qed.
Print Assumptions C18_encoders_standard.

(* ... and refuse (return 0, write nothing) exactly when the room is smaller than the 1..4 bytes needed *)
Theorem C18_encoders_room :
  unparse_ok unicode_to_utf8 /\ unparse_ok (unicode_to_utf16 true) /\ unparse_ok (unicode_to_utf16 false).
Proof. split; [exact utf8_unparse_ok|split; apply utf16_unparse_ok]. Qed.
Print Assumptions C18_encoders_room.

(* (c) string level, lists of any length: UTF-8 -> UTF-16 -> UTF-8 through
   archive_string_append_unicode is the identity, status 0 at both steps (the second step goes
   through the enlarge-and-retry path) *)
Theorem C18_string_round_trip : forall be us, Forall scalar_nz us ->
  exists c1 c2,
    append_unicode (flag_8_to_16 be) (mkAstr 0 []) (enc8 us) = (0%Z, mkAstr c1 (enc16s be us)) /\
    append_unicode (flag_16_to_8 be) (mkAstr 0 []) (enc16s be us) = (0%Z, mkAstr c2 (enc8 us)).
Proof. exact string_round_trip. Qed.
Print Assumptions C18_string_round_trip.

(* appending to a destination that already holds bytes keeps them *)
Theorem C18_append_keeps_destination : forall be a us, Forall scalar_nz us ->
  (exists cap', append_unicode (flag_8_to_16 be) a (enc8 us) = (0%Z, mkAstr cap' (a_buf a ++ enc16s be us))) /\
  (exists cap', strncat_utf8_utf8 a (enc8 us) = (0%Z, mkAstr cap' (a_buf a ++ enc8 us))).
Proof. intros be a us H. split; [exact (append_unicode_8_to_16 be a us H)|exact (strncat_utf8_utf8_valid a us H)]. Qed.
Print Assumptions C18_append_keeps_destination.

(* (d) strictness: a positive count from utf8_to_unicode means that the first n bytes are the
   shortest-form UTF-8 of the scalar value returned: overlong forms, surrogates, values above
   0x10FFFF, truncated sequences, stray continuation bytes, C0 C1 F5..FF all give n <= 0 *)
Theorem C18_decode_strict_utf8 : forall s n u, bytes_ok s -> utf8_to_unicode s = (n, u) -> (0 < n)%Z ->
  is_scalar u = true /\ u <> 0 /\ n = Z.of_N (len (unicode_to_utf8 4 u)) /\
  firstn (Z.to_nat n) s = unicode_to_utf8 4 u.
Proof. exact utf8_to_unicode_strict. Qed.
Print Assumptions C18_decode_strict_utf8.

(* cesu8_to_unicode accepts, in addition, a high+low surrogate written as two 3-byte sequences
   (documented CESU-8 leniency) and nothing else *)
Theorem C18_decode_strict_cesu8 : forall s n u, bytes_ok s -> cesu8_to_unicode s = (n, u) -> (0 < n)%Z ->
  src8_form (firstn (Z.to_nat n) s) u.
Proof. exact cesu8_strict. Qed.
Print Assumptions C18_decode_strict_cesu8.

Theorem C18_decode_strict_utf16 : forall be s n u, bytes_ok s -> utf16_to_unicode be s = (n, u) -> (0 < n)%Z ->
  is_scalar u = true /\ n = Z.of_N (len (unicode_to_utf16 be 4 u)) /\
  firstn (Z.to_nat n) s = unicode_to_utf16 be 4 u.
Proof. exact utf16_strict. Qed.
Print Assumptions C18_decode_strict_utf16.

(* (d, consequence) status 0 is returned only for well-formed input, and then the output is the
   encoding of exactly the scalar values of the input - never a different valid name.
   [pieces] are the consecutive encoded characters of the input. *)
Theorem C18_status0_utf8_to_utf16 : forall be a s a', bytes_ok s -> nul_free s ->
  append_unicode (flag_8_to_16 be) a s = (0%Z, a') ->
  exists pieces us, s = concat pieces /\ Forall2 src8_form pieces us /\ a_buf a' = a_buf a ++ enc16s be us.
Proof. exact status0_8_to_16. Qed.
Print Assumptions C18_status0_utf8_to_utf16.

Theorem C18_status0_utf16_to_utf8 : forall be a s a', bytes_ok s ->
  append_unicode (flag_16_to_8 be) a s = (0%Z, a') ->
  exists pieces us, s = concat pieces /\ Forall2 (dst16_form be) pieces us /\ a_buf a' = a_buf a ++ enc8 us.
Proof. exact status0_16_to_8. Qed.
Print Assumptions C18_status0_utf16_to_utf8.

Theorem C18_status0_utf8_to_utf8 : forall a s a', bytes_ok s -> nul_free s ->
  strncat_utf8_utf8 a s = (0%Z, a') ->
  exists pieces us, s = concat pieces /\ Forall2 src8_form pieces us /\ a_buf a' = a_buf a ++ enc8 us.
Proof. exact status0_8_to_8. Qed.
Print Assumptions C18_status0_utf8_to_utf8.

(* REFUTED: "status 0 implies the input was valid UTF-8".  The CESU-8 pair ED A0 80 ED B0 80 is not
   UTF-8 (utf8_to_unicode refuses it) but both UTF-8-reading converters turn it into U+10000 with
   status 0.  This is the documented behaviour of strncat_from_utf8_to_utf8 ("surrogate pairs
   canonicalized"); the three theorems above state exactly what status 0 does imply. *)
Theorem C18_status0_implies_strict_utf8_refuted : exists s,
  bytes_ok s /\ nul_free s /\ (fst (utf8_to_unicode s) < 0)%Z /\
  fst (strncat_utf8_utf8 (mkAstr 0 []) s) = 0%Z /\
  fst (append_unicode (flag_8_to_16 true) (mkAstr 0 []) s) = 0%Z.
Proof.
  exists cesu_witness. destruct cesu_witness_facts as [A [B C]]. rewrite A, B, C.
  repeat split; try reflexivity.
  - repeat constructor.
  - intros H. cbn in H. repeat (destruct H as [H|H]; [discriminate|]). exact H.
Qed.
Print Assumptions C18_status0_implies_strict_utf8_refuted.

(* (e) progress: a decoder that does not return 0 consumes between 1 and len bytes *)
Theorem C18_decoders_progress :
  parse_ok utf8_raw /\ parse_ok utf8_to_unicode /\ parse_ok cesu8_to_unicode /\
  parse_ok (utf16_to_unicode true) /\ parse_ok (utf16_to_unicode false).
Proof. exact decoders_progress. Qed.
Print Assumptions C18_decoders_progress.

(* (e)+(f) archive_string_append_unicode, ANY flag, ANY input bytes, ANY destination: the loop ends
   within [S (length s)] iterations and 6 tries per character (status is 0 or -1, never the model's
   ERR_FUEL), no decoder result leads beyond the input (never ERR_OVERREAD), every write and the
   1 or 2 terminating NUL bytes stay below buffer_length (never ERR_OVERFLOW), and the old content
   of the destination is kept *)
Theorem C18_append_unicode_bounded : forall flag a s st a',
  append_unicode flag a s = (st, a') ->
  status_ok st /\
  len (a_buf a') + (if snd (au_unparser flag) =? 2 then 2 else 1) <= a_cap a' /\
  exists w, a_buf a' = a_buf a ++ w.
Proof. exact append_unicode_safe. Qed.
Print Assumptions C18_append_unicode_bounded.

(* the same for strncat_from_utf8_to_utf8 on NUL-free input ... *)
Theorem C18_utf8_to_utf8_bounded : forall a s st a', nul_free s ->
  strncat_utf8_utf8 a s = (st, a') ->
  status_ok st /\ len (a_buf a') + 1 <= a_cap a' /\ exists w, a_buf a' = a_buf a ++ w.
Proof. exact strncat_utf8_utf8_safe. Qed.
Print Assumptions C18_utf8_to_utf8_bounded.

(* ... which is what archive_strncat_l always passes (mbsnbytes stops at the first NUL): for every
   byte string and each of the six conversion objects the result is status 0 or -1 *)
Theorem C18_strncpy_l_bounded : forall from_charset cs s st a',
  strncpy_l from_charset cs s = (st, a') -> status_ok st.
Proof. exact strncpy_l_safe. Qed.
Print Assumptions C18_strncpy_l_bounded.

(* REFUTED without the NUL-free hypothesis: on ED A0 80 00 41 41 (high surrogate, NUL, >= 2 more
   bytes) cesu8_to_unicode returns 0 inside strncat_from_utf8_to_utf8, which then appends U+FFFD
   and retries at the same position: no fuel is enough (the C function would not return).  Latent
   only: no caller passes a buffer with an embedded NUL. *)
Theorem C18_utf8_loop_nul_no_progress_refuted : exists s, forall fuel a ret,
  fst (u8u8_loop fuel s a ret) = ERR_FUEL.
Proof. exists nul_witness. exact u8u8_no_progress. Qed.
Print Assumptions C18_utf8_loop_nul_no_progress_refuted.

(* non-vacuity: "h e-acute euro grinning-face" (U+0068 U+00E9 U+20AC U+1F600) really goes through the
   converters; the UTF-16 -> UTF-8 direction really enlarges the buffer (41 -> 82 bytes for
   20 x U+20AC); an overlong form, a lone surrogate, a value above 0x10FFFF, a truncated sequence
   and an unpaired UTF-16 surrogate are all refused *)
Example C18_nonvacuous_scalars : Forall scalar_nz [104; 233; 8364; 128512].
Proof. repeat constructor; discriminate. Qed.
Example C18_nonvacuous_utf8 : enc8 [104; 233; 8364; 128512] = [104; 195; 169; 226; 130; 172; 240; 159; 152; 128].
Proof. vm_compute. reflexivity. Qed.
Example C18_nonvacuous_to_utf16le :
  append_unicode (flag_8_to_16 false) (mkAstr 0 []) (enc8 [104; 233; 8364; 128512]) =
    (0%Z, mkAstr 32 [104; 0; 233; 0; 172; 32; 61; 216; 0; 222]).
Proof. vm_compute. reflexivity. Qed.
Example C18_nonvacuous_retry :
  append_unicode (flag_16_to_8 true) (mkAstr 0 []) (enc16s true (repeat 8364 20)) =
    (0%Z, mkAstr 82 (enc8 (repeat 8364 20))).
Proof. vm_compute. reflexivity. Qed.
Example C18_nonvacuous_refusals :
  utf8_to_unicode [192; 175] = ((-2)%Z, 65533) /\
  utf8_to_unicode [224; 128; 175] = ((-3)%Z, 65533) /\
  utf8_to_unicode [237; 160; 128] = ((-3)%Z, 55296) /\
  utf8_to_unicode [244; 144; 128; 128] = ((-4)%Z, 65533) /\
  utf8_to_unicode [226; 130] = ((-2)%Z, 65533) /\
  utf16_to_unicode true [216; 0; 0; 65] = ((-2)%Z, 65533) /\
  fst (strncat_utf8_utf8 (mkAstr 0 []) [65; 192; 175]) = (-1)%Z.
Proof. vm_compute. repeat split; reflexivity. Qed.
