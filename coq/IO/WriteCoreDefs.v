(* Executable model of the innermost write pseudo-filter of libarchive/archive_write.c
   (archive_write_client_open / _write / _close), of __archive_write_filter, of the raw format
   writer's API-level behaviour (archive_write_set_format_raw.c, _archive_write_header / _data /
   _finish_entry / _close / _free) and of memory_write (archive_write_open_memory.c).
   Definitions only; lemmas are in WriteCoreProofs.v.

   Representation.  The copy buffer  state->buffer .. state->next  is the list [buf] (its filled
   part); state->buffer_size = bytes_per_block = [bs]; state->avail = bs - length buf.  Bytes of
   the buffer beyond state->next are never read before being written, so they are not modelled.
   Sizes are [nat] (list lengths); C uses size_t/ssize_t on them and write_data caps a request at
   INT_MAX, so no wrap-around is reachable; bytes_in_last_block is an int and is kept in Z.

   The client write callback is a deterministic state machine  cb : C -> bytes -> C * Z
   (state, offered bytes) -> (new state, returned ssize_t).  Two instances: [plan_cb] (a script of
   responses, used by the harness callback) and [memory_write].  The model records every
   invocation: bytes offered, value returned, bytes accepted (= the first `returned' offered bytes). *)
From Coq Require Import List ZArith NArith Bool Arith.
From LA Require Import Base.Val Gen.Defines.
Import ListNotations.
Local Open Scope Z_scope.

(* value produced when a fuelled loop runs out of fuel; proved unreachable (WriteCoreProofs) *)
Definition MODEL_FUEL : Z := -99.

Record inv := mkInv {
  i_buf : bytes;      (* the bytes offered: p[0 .. to_write) *)
  i_ret : Z;          (* value returned by the callback *)
}.
Definition i_off (i : inv) : nat := length (i_buf i).
Definition i_acc (i : inv) : bytes := firstn (Z.to_nat (i_ret i)) (i_buf i).

Section Client.
Context {C : Type}.
Variable cb : C -> bytes -> C * Z.

(* archive_write.c:442-454 and 532-547
     while (to_write > 0) { bytes_written = client_writer(p, to_write);
       if (bytes_written <= 0) FATAL; if ((size_t)bytes_written > to_write) FATAL "write overrun";
       p += bytes_written; to_write -= bytes_written; }                                          *)
Fixpoint write_all (fuel : nat) (c : C) (p : bytes) : C * list inv * Z :=
  match p with
  | [] => (c, [], ARCHIVE_OK)
  | _ :: _ =>
    match fuel with
    | O => (c, [], MODEL_FUEL)
    | S f =>
      let '(c1, bw) := cb c p in
      if bw <=? 0 then (c1, [mkInv p bw], ARCHIVE_FATAL)
      else if Z.of_nat (length p) <? bw then (c1, [mkInv p bw], ARCHIVE_FATAL)
      else let '(c2, tr, st) := write_all f c1 (skipn (Z.to_nat bw) p) in
           (c2, mkInv p bw :: tr, st)
    end
  end.

(* archive_write.c:415-425 (buffer_size == 0)
     while (remaining > 0) { bytes_written = client_writer(buff, remaining);
       if (bytes_written <= 0) return FATAL; remaining -= bytes_written; buff += bytes_written; }
   No overrun test here: a return value above `remaining' makes remaining negative and ends the
   loop with ARCHIVE_OK; skipn gives the same result. *)
Fixpoint pass_through (fuel : nat) (c : C) (buff : bytes) : C * list inv * Z :=
  match buff with
  | [] => (c, [], ARCHIVE_OK)
  | _ :: _ =>
    match fuel with
    | O => (c, [], MODEL_FUEL)
    | S f =>
      let '(c1, bw) := cb c buff in
      if bw <=? 0 then (c1, [mkInv buff bw], ARCHIVE_FATAL)
      else let '(c2, tr, st) := pass_through f c1 (skipn (Z.to_nat bw) buff) in
           (c2, mkInv buff bw :: tr, st)
    end
  end.

(* archive_write.c:460-468
     while ((size_t)remaining >= state->buffer_size) { bytes_written = client_writer(buff, buffer_size);
       if (bytes_written <= 0) return FATAL; buff += bytes_written; remaining -= bytes_written; }
   Returns the unsent tail as 4th component.  (A callback returning more than it was offered is
   outside the callback contract; C would then run `remaining' negative.  The theorems assume
   ret <= offered, which holds for both callback instances below.) *)
Fixpoint direct (fuel : nat) (bs : nat) (c : C) (buff : bytes) : C * list inv * Z * bytes :=
  if (length buff <? bs)%nat then (c, [], ARCHIVE_OK, buff)
  else
    match fuel with
    | O => (c, [], MODEL_FUEL, buff)
    | S f =>
      let blk := firstn bs buff in
      let '(c1, bw) := cb c blk in
      if bw <=? 0 then (c1, [mkInv blk bw], ARCHIVE_FATAL, buff)
      else let '(c2, tr, st, rest) := direct f bs c1 (skipn (Z.to_nat bw) buff) in
           (c2, mkInv blk bw :: tr, st, rest)
    end.

(* archive_write_client_write, first part (archive_write.c:427-458): "If the copy buffer isn't
   empty, try to fill it ... if it's full, write it out".  Result: (buffer content, callback
   state, invocations, status, data not yet consumed).  After a failed flush state->next/avail
   are NOT reset: the buffer stays full. *)
Definition fill_phase (fuel bs : nat) (buf : bytes) (c : C) (data : bytes)
  : bytes * C * list inv * Z * bytes :=
  let avail := (bs - length buf)%nat in
  (* if (state->avail < state->buffer_size) : the copy buffer is not empty *)
  if (avail <? bs)%nat then
    let to_copy := if (avail <? length data)%nat then avail else length data in
    let buf' := buf ++ firstn to_copy data in
    let data' := skipn to_copy data in
    (* if (state->avail == 0) : write the full buffer out *)
    if ((bs - length buf') =? 0)%nat then
      let '(c', tr, st) := write_all fuel c buf' in
      if st <? 0 then (buf', c', tr, st, data')
      else ([], c', tr, ARCHIVE_OK, data')
    else (buf', c, [], ARCHIVE_OK, data')
  else (buf, c, [], ARCHIVE_OK, data).

(* archive_write_client_write.  Result: (new buffer content, callback state, invocations, status).
   On every `return (ARCHIVE_FATAL)' the buffer state is what C leaves behind. *)
Definition client_write (bs : nat) (buf : bytes) (c : C) (data : bytes) : bytes * C * list inv * Z :=
  let fuel := S (length buf + length data) in
  if (bs =? 0)%nat then
    let '(c1, tr, st) := pass_through fuel c data in (buf, c1, tr, st)
  else
    let '(buf1, c1, tr1, st1, data1) := fill_phase fuel bs buf c data in
    if st1 <? 0 then (buf1, c1, tr1, st1)
    else
      let '(c2, tr2, st2, rest) := direct fuel bs c1 data1 in
      if st2 <? 0 then (buf1, c2, tr1 ++ tr2, st2)
      else (* if (remaining > 0) memcpy(state->next, buff, remaining) *)
           (buf1 ++ rest, c2, tr1 ++ tr2, ARCHIVE_OK).

(* archive_write.c:515-524, all operands ssize_t (64 bit); |bytes_in_last_block|, bytes_per_block
   < 2^31 and block_length <= bytes_per_block, so the product stays below 2^63 (lemma
   target_no_overflow).  C division truncates: Z.quot. *)
Definition last_block_target (bpb bibl block_length : Z) : Z :=
  let t := if bibl <=? 0 then bpb
           else bibl * Z.quot (block_length + bibl - 1) bibl in
  if bpb <? t then bpb else t.

(* number of zero bytes appended to a pending last block of [fill] bytes; an empty buffer
   (state->next == state->buffer) is not written at all *)
Definition padlen (bs : nat) (bibl : Z) (fill : nat) : nat :=
  match fill with
  | O => O
  | S _ =>
    let bl := Z.of_nat fill in
    let t := last_block_target (Z.of_nat bs) bibl bl in
    if bl <? t then Z.to_nat (t - bl) else 0%nat
  end.

(* archive_write_client_close, the part before client_closer / free:
   if (state->next != state->buffer) { pad; while (to_write > 0) ... break with FATAL } *)
Definition client_close (bs : nat) (bibl : Z) (buf : bytes) (c : C) : C * list inv * Z :=
  match buf with
  | [] => (c, [], ARCHIVE_OK)
  | _ :: _ =>
    let block := buf ++ repeat 0%N (padlen bs bibl (length buf)) in
    write_all (S (length block)) c block
  end.

(* __archive_write_filter on the client filter (state OPEN): zero-length writes never reach it *)
Definition filter_write (bs : nat) (buf : bytes) (c : C) (data : bytes) : bytes * C * list inv * Z :=
  match data with
  | [] => (buf, c, [], ARCHIVE_OK)
  | _ :: _ => client_write bs buf c data
  end.

(* a whole stream: every chunk through __archive_write_filter, then the close.  One result per
   call: the invocations made during it and its status. *)
Fixpoint writes (bs : nat) (buf : bytes) (c : C) (chunks : list bytes)
  : bytes * C * list (list inv * Z) :=
  match chunks with
  | [] => (buf, c, [])
  | d :: ds =>
    let '(buf1, c1, tr, st) := filter_write bs buf c d in
    let '(buf2, c2, res) := writes bs buf1 c1 ds in
    (buf2, c2, (tr, st) :: res)
  end.

Definition session (bs : nat) (bibl : Z) (c : C) (chunks : list bytes) : C * list (list inv * Z) :=
  let '(buf, c1, res) := writes bs [] c chunks in
  let '(c2, tr, st) := client_close bs bibl buf c1 in
  (c2, res ++ [(tr, st)]).

(* ---------------------------------------------------------------- API level, raw format *)
Inductive astate := SNew | SHeader | SData | SClosed | SFatal.

Record api := mkApi {
  a_state : astate;        (* a->archive.state *)
  a_fopen : bool;          (* client filter state == ARCHIVE_WRITE_FILTER_STATE_OPEN *)
  a_buf : bytes;
  a_bibl : Z;              (* a->bytes_in_last_block, read at close time *)
  a_entries : nat;         (* raw->entries_written *)
  a_closer : nat;          (* number of client_closer invocations *)
  a_leaked : bool;         (* handle freed while the client filter's state/buffer were still allocated *)
  a_cb : C
}.

Inductive op :=
| OHeader | OData (d : bytes) | OSetBibl (z : Z) | OFinish | OClose | OFree.

(* archive_write_set_bytes_per_block: negative values are ignored (the default of
   archive_write_new stays; Gen/WriteCore.v: default_bytes_per_block) *)
Definition effective_bpb (dflt arg : Z) : nat := Z.to_nat (if arg <? 0 then dflt else arg).

(* archive_write_open2 + archive_write_client_open with an opener returning [oret];
   [fix_bibl]: memory_write_open replaces bytes_in_last_block -1 by 1. *)
Definition api_open (bibl : Z) (oret : Z) (fix_bibl : bool) (c : C) : api * Z :=
  let bibl' := if fix_bibl && (bibl =? -1) then 1 else bibl in
  if oret =? ARCHIVE_OK then (mkApi SHeader true [] bibl' 0 0 false c, ARCHIVE_OK)
  else if oret <? ARCHIVE_WARN then
    (* client_open frees its state; filters_close finds no open filter (r1 = OK); filters are
       freed; archive state stays NEW *)
    (mkApi SNew false [] bibl' 0 0 false c, oret)
  else (* the error is returned but the handle goes on to state HEADER with a FATAL filter *)
    (mkApi SHeader false [] bibl' 0 0 false c, oret).

Definition set_state (a : api) (s : astate) : api :=
  mkApi s (a_fopen a) (a_buf a) (a_bibl a) (a_entries a) (a_closer a) (a_leaked a) (a_cb a).

(* __archive_check_magic with a state outside the allowed set: state := FATAL, return FATAL *)
Definition bad_state (a : api) : api * list inv * Z := (set_state a SFatal, [], ARCHIVE_FATAL).

(* _archive_write_close past the NEW/CLOSED shortcut (raw: no finish_entry, no format_close):
   __archive_write_filters_close on the single client filter, then a->archive.state *)
Definition api_close_core (bs : nat) (a : api) : api * list inv * Z :=
  let s' := match a_state a with SFatal => SFatal | _ => SClosed end in
  if a_fopen a then
    let '(c1, tr, st) := client_close bs (a_bibl a) (a_buf a) (a_cb a) in
    (mkApi s' false [] (a_bibl a) (a_entries a) (S (a_closer a)) (a_leaked a) c1, tr,
     if st <? ARCHIVE_OK then st else ARCHIVE_OK)
  else (set_state a s', [], ARCHIVE_OK).

Definition api_close (bs : nat) (a : api) : api * list inv * Z :=
  match a_state a with
  | SNew | SClosed => (a, [], ARCHIVE_OK)
  | _ => api_close_core bs a
  end.

(* What archive_write_free does with a handle in state FATAL (read from the source on every run,
   Gen/WriteCore.v, and handed to the model by WriteCoreRun.v):
     FreeSkips          : nothing is closed (the pinned snapshot): an open client filter leaks
     FreeClientReleases : archive_write_client_free releases a still-open client without writing
     FreeClosesFilters  : _archive_write_free runs __archive_write_filters_close (current tree):
                          archive_write_client_close flushes the pending padded block through the
                          write callback, calls the client closer and frees; status = worst *)
Inductive free_mode := FreeSkips | FreeClientReleases | FreeClosesFilters.

Definition api_step (fm : free_mode) (bs : nat) (a : api) (o : op) : api * list inv * Z :=
  match o with
  | OHeader =>
    match a_state a with
    | SHeader | SData =>
      (* finish_entry: OK, state HEADER; no filter has a flush; archive_write_raw_header *)
      if (0 <? a_entries a)%nat then (set_state a SFatal, [], ARCHIVE_FATAL)
      else (mkApi SData (a_fopen a) (a_buf a) (a_bibl a) (S (a_entries a)) (a_closer a)
                  (a_leaked a) (a_cb a), [], ARCHIVE_OK)
    | _ => bad_state a
    end
  | OData d =>
    match a_state a with
    | SData =>
      if negb (a_fopen a) then (a, [], ARCHIVE_FATAL)
      else
        let '(buf1, c1, tr, st) := filter_write bs (a_buf a) (a_cb a) d in
        (mkApi SData true buf1 (a_bibl a) (a_entries a) (a_closer a) (a_leaked a) c1, tr,
         if 0 <=? st then Z.of_nat (length d) else st)
    | _ => bad_state a
    end
  | OSetBibl z =>
    match a_state a with
    | SFatal => bad_state a
    | _ => (mkApi (a_state a) (a_fopen a) (a_buf a) z (a_entries a) (a_closer a) (a_leaked a)
                  (a_cb a), [], ARCHIVE_OK)
    end
  | OFinish =>
    match a_state a with
    | SHeader | SData => (set_state a SHeader, [], ARCHIVE_OK)
    | _ => bad_state a
    end
  | OClose => api_close bs a
  | OFree =>
    (* _archive_write_free: archive_write_close unless the state is FATAL; in state FATAL see
       [free_mode]; then format_free (OK) and the filters are freed *)
    match a_state a with
    | SFatal =>
      match fm with
      | FreeClosesFilters => api_close_core bs a
      | FreeClientReleases =>
        if a_fopen a then
          (mkApi SFatal false (a_buf a) (a_bibl a) (a_entries a) (S (a_closer a))
                 (a_leaked a) (a_cb a), [], ARCHIVE_OK)
        else (a, [], ARCHIVE_OK)
      | FreeSkips =>
        (mkApi SFatal false (a_buf a) (a_bibl a) (a_entries a) (a_closer a)
               (a_leaked a || a_fopen a) (a_cb a), [], ARCHIVE_OK)
      end
    | _ => api_close bs a
    end
  end.

Fixpoint api_run (fm : free_mode) (bs : nat) (a : api) (ops : list op) : api * list (api * list inv * Z) :=
  match ops with
  | [] => (a, [])
  | o :: os =>
    let '(a1, tr, st) := api_step fm bs a o in
    let '(a2, res) := api_run fm bs a1 os in
    (a2, (a1, tr, st) :: res)
  end.

End Client.

(* ---------------------------------------------------------------- callback instances *)
(* the scripted callback of harness/writeCore.c: one response per invocation, then accept all *)
Inductive resp := Accept (k : N) | Fail.

Definition plan_cb (pl : list resp) (p : bytes) : list resp * Z :=
  match pl with
  | [] => ([], Z.of_nat (length p))
  | Accept k :: pl' => (pl', Z.min (Z.of_N k) (Z.of_nat (length p)))
  | Fail :: pl' => (pl', -1)
  end.

(* archive_write_open_memory.c: memory_write.  m_data = buff[0 .. used) *)
Record mem := mkMem { m_used : nat; m_size : nat; m_data : bytes }.

Definition memory_write (m : mem) (p : bytes) : mem * Z :=
  if (m_size m <? m_used m + length p)%nat then (m, ARCHIVE_FATAL)
  else (mkMem (m_used m + length p) (m_size m) (m_data m ++ p), Z.of_nat (length p)).
