(* C06 - lemmas about the models of IO/ReadDataDefs.v *)
From Coq Require Import List ZArith NArith Bool Lia.
From LA Require Import Base.Val Gen.Defines IO.ReadDataDefs.
Import ListNotations.
Local Open Scope Z_scope.

(* ------------------------------------------------------------------------------------------ *)
(** * lists of bytes *)

Lemma blen_nonneg : forall b, 0 <= blen b.
Proof. intros; unfold blen; lia. Qed.

Lemma blen_app : forall a b, blen (a ++ b) = blen a + blen b.
Proof. intros; unfold blen; rewrite app_length; lia. Qed.

Lemma blen_nil : blen [] = 0.
Proof. reflexivity. Qed.

Lemma blen_zero_nil : forall b, blen b = 0 -> b = [].
Proof. intros [|x b] H; [reflexivity|]. unfold blen in H; simpl in H; lia. Qed.

Lemma blen_zeros : forall n, 0 <= n -> blen (zeros n) = n.
Proof. intros; unfold blen, zeros; rewrite repeat_length; lia. Qed.

Lemma zeros_nonpos : forall n, n <= 0 -> zeros n = [].
Proof. intros n H; unfold zeros. replace (Z.to_nat n) with O by lia. reflexivity. Qed.

Lemma zeros_add : forall a b, 0 <= a -> 0 <= b -> zeros (a + b) = zeros a ++ zeros b.
Proof. intros; unfold zeros. rewrite Z2Nat.inj_add by lia. apply repeat_app. Qed.

Lemma blen_firstn : forall c b, 0 <= c <= blen b -> blen (firstn (Z.to_nat c) b) = c.
Proof. intros c b H; unfold blen in *; rewrite firstn_length; lia. Qed.

Lemma blen_skipn : forall c b, 0 <= c <= blen b -> blen (skipn (Z.to_nat c) b) = blen b - c.
Proof. intros c b H; unfold blen in *; rewrite skipn_length; lia. Qed.

(* taking n + m elements of p ++ X when p has n elements *)
Lemma firstn_piece : forall (p X : bytes) s, blen p <= s ->
  firstn (Z.to_nat s) (p ++ X) = p ++ firstn (Z.to_nat (s - blen p)) X.
Proof.
  intros p X s H. unfold blen in *.
  replace (Z.to_nat s) with (length p + Z.to_nat (s - Z.of_nat (length p)))%nat by lia.
  apply firstn_app_2.
Qed.

Lemma skipn_piece : forall (p X : bytes) s, blen p <= s ->
  skipn (Z.to_nat s) (p ++ X) = skipn (Z.to_nat (s - blen p)) X.
Proof.
  intros p X s H. unfold blen in *. rewrite skipn_app.
  rewrite skipn_all2 by lia. simpl. f_equal. lia.
Qed.

Lemma firstn_add : forall (X : bytes) a b, 0 <= a -> 0 <= b ->
  firstn (Z.to_nat (a + b)) X = firstn (Z.to_nat a) X ++ firstn (Z.to_nat b) (skipn (Z.to_nat a) X).
Proof.
  intros X a b Ha Hb. rewrite Z2Nat.inj_add by lia.
  generalize (Z.to_nat a) as n, (Z.to_nat b) as m. clear.
  intros n; revert X. induction n as [|n IH]; intros X m; simpl.
  - reflexivity.
  - destruct X as [|x X]; simpl.
    + now rewrite firstn_nil.
    + now rewrite IH.
Qed.

Lemma skipn_add : forall (X : bytes) a b, 0 <= a -> 0 <= b ->
  skipn (Z.to_nat (a + b)) X = skipn (Z.to_nat b) (skipn (Z.to_nat a) X).
Proof.
  intros X a b Ha Hb. rewrite Z2Nat.inj_add by lia.
  generalize (Z.to_nat a) as n, (Z.to_nat b) as m. clear.
  intros n; revert X. induction n as [|n IH]; intros X m; simpl.
  - reflexivity.
  - destruct X as [|x X]; simpl.
    + now rewrite skipn_nil.
    + now rewrite IH.
Qed.

(* ------------------------------------------------------------------------------------------ *)
(** * archive_read_data: never more than the request (any source, any state, both loops) *)

Lemma rd_loop_le : forall fx fuel st src s br ret w st' src',
  rd_loop fx fuel st src s br = (ret, w, st', src') ->
  blen w <= Z.max 0 s /\ (0 <= ret -> ret = br + blen w).
Proof.
  intros fx fuel. induction fuel as [|f IH]; intros st src s br ret w st' src' H.
  - simpl in H. inversion H; subst. rewrite blen_nil. split; [lia|]. unfold FUEL_ERR; lia.
  - cbn [rd_loop] in H.
    destruct (s <=? 0) eqn:Es.
    { inversion H; subst. rewrite blen_nil. split; lia. }
    apply Z.leb_gt in Es.
    destruct ((if (r_off st =? r_out st) && (blen (r_block st) =? 0)
               then next_block src (r_block st) (r_off st)
               else (ARCHIVE_OK, r_block st, r_off st, src))) as [[[r blk] off] src1] eqn:Enb.
    destruct ((r_off st =? r_out st) && (blen (r_block st) =? 0) && (r =? ARCHIVE_EOF)
              && (negb fx || (off <=? r_out st))) eqn:E1.
    { inversion H; subst. rewrite blen_nil. split; lia. }
    destruct ((r_off st =? r_out st) && (blen (r_block st) =? 0) && (r <? ARCHIVE_OK)) eqn:E2.
    { inversion H; subst. rewrite blen_nil. split; [lia|].
      apply andb_prop in E2. destruct E2 as [_ E2]. apply Z.ltb_lt in E2. unfold ARCHIVE_OK in E2. lia. }
    destruct (off <? r_out st) eqn:E3.
    { inversion H; subst. rewrite blen_nil. split; [lia|]. unfold ARCHIVE_RETRY. lia. }
    apply Z.ltb_ge in E3.
    set (zl := if r_out st + s <? off then s else if r_out st <? off then off - r_out st else 0) in *.
    set (cl := if 0 <? s - zl then Z.min (blen blk) (s - zl) else 0) in *.
    destruct (rd_loop fx f (mkR (skipn (Z.to_nat cl) blk) (off + cl) (r_out st + zl + cl)) src1
                      (s - zl - cl) (br + zl + cl)) as [[[ret0 o] st0] src0] eqn:Er.
    inversion H; subst. clear H.
    apply IH in Er. destruct Er as [Hw Hr].
    assert (Hzl : 0 <= zl <= s).
    { unfold zl. destruct (r_out st + s <? off) eqn:A; [lia|].
      apply Z.ltb_ge in A. destruct (r_out st <? off) eqn:B; [apply Z.ltb_lt in B|]; lia. }
    assert (Hcl : 0 <= cl <= s - zl /\ cl <= blen blk).
    { unfold cl. pose proof (blen_nonneg blk). destruct (0 <? s - zl) eqn:A; [apply Z.ltb_lt in A|apply Z.ltb_ge in A]; lia. }
    rewrite !blen_app, blen_zeros, blen_firstn by lia.
    split; [lia|]. intros Hret. specialize (Hr Hret). lia.
Qed.

Theorem read_data_le : forall fx st src s ret w st' src',
  read_data_call fx st src s = (ret, w, st', src') -> 0 <= s ->
  ret <= s /\ blen (visible ret w) <= s /\ (0 <= ret -> ret = blen (visible ret w)).
Proof.
  intros fx st src s ret w st' src' H Hs. unfold read_data_call in H.
  apply rd_loop_le in H. destruct H as [Hw Hr].
  unfold visible. destruct (ret <? 0) eqn:E.
  - apply Z.ltb_lt in E. rewrite blen_nil. lia.
  - apply Z.ltb_ge in E. specialize (Hr E). lia.
Qed.

(* ------------------------------------------------------------------------------------------ *)
(** * archive_read_data delivers the dense rendering, whatever the request sizes *)

Definition ev_of (b : Z * bytes) : ev := EvBlk (fst b) (snd b).
Definition bsrc (bl : list (Z * bytes)) (eof : option Z) (c : Z) : source := mkSrc (map ev_of bl) eof c.

(* what is still due to the client: pending zeros, rest of the current block, rest of the source *)
Definition pending (st : rstate) (bl : list (Z * bytes)) (eof : option Z) : bytes :=
  zeros (r_off st - r_out st) ++ r_block st ++ render_from (r_off st + blen (r_block st)) bl eof.

Definition need (st : rstate) : bool := (r_off st =? r_out st) && (blen (r_block st) =? 0).

(* the end-of-entry offset, if any, does not lie beyond the last block: no trailing hole *)
Fixpoint no_trailing (pos : Z) (bl : list (Z * bytes)) (eof : option Z) : Prop :=
  match bl with
  | [] => match eof with Some e => e <= pos | None => True end
  | (o, d) :: r => no_trailing (o + blen d) r eof
  end.

Definition rinv (fx : bool) (st : rstate) (bl : list (Z * bytes)) (eof : option Z) : Prop :=
  r_out st <= r_off st /\
  wf_from (r_off st + blen (r_block st)) bl eof /\
  (fx = true \/ no_trailing (r_off st + blen (r_block st)) bl eof).

Definition rd_tail (fx : bool) (f : nat) (blk : bytes) (off out : Z) (src1 : source) (s br : Z)
  : Z * bytes * rstate * source :=
  if off <? out then (ARCHIVE_RETRY, [], mkR blk off out, src1)
  else
    let zl := if out + s <? off then s else if out <? off then off - out else 0 in
    let s2 := s - zl in
    let out2 := out + zl in
    let cl := if 0 <? s2 then Z.min (blen blk) s2 else 0 in
    let st2 := mkR (skipn (Z.to_nat cl) blk) (off + cl) (out2 + cl) in
    let '(ret, o, st', src') := rd_loop fx f st2 src1 (s2 - cl) (br + zl + cl) in
    (ret, zeros zl ++ firstn (Z.to_nat cl) blk ++ o, st', src').

Lemma rd_loop_S : forall fx f st src s br,
  rd_loop fx (S f) st src s br =
  if s <=? 0 then (br, [], st, src) else
  let '(r, blk, off, src1) :=
    if need st then next_block src (r_block st) (r_off st)
    else (ARCHIVE_OK, r_block st, r_off st, src) in
  if need st && (r =? ARCHIVE_EOF) && (negb fx || (off <=? r_out st)) then (br, [], mkR blk off (r_out st), src1)
  else if need st && (r <? ARCHIVE_OK) then (r, [], mkR blk off (r_out st), src1)
  else rd_tail fx f blk off (r_out st) src1 s br.
Proof. reflexivity. Qed.

(* the statement proved of every call: the first s pending bytes come out, the rest stays pending *)
Definition Q (fx : bool) (eof : option Z) (res : Z * bytes * rstate * source)
    (st : rstate) (bl : list (Z * bytes)) (s br : Z) : Prop :=
  exists st' bl' c',
    res = (br + blen (firstn (Z.to_nat s) (pending st bl eof)),
           firstn (Z.to_nat s) (pending st bl eof), st', bsrc bl' eof c') /\
    rinv fx st' bl' eof /\
    pending st' bl' eof = skipn (Z.to_nat s) (pending st bl eof).

Lemma fill_copy : forall out off (blk X : bytes) s,
  0 < s -> out <= off ->
  let zl := if out + s <? off then s else if out <? off then off - out else 0 in
  let cl := if 0 <? s - zl then Z.min (blen blk) (s - zl) else 0 in
  0 <= zl /\ 0 <= cl <= blen blk /\ zl + cl <= s /\
  zeros (off - out) ++ blk ++ X =
    (zeros zl ++ firstn (Z.to_nat cl) blk) ++
    (zeros ((off + cl) - (out + zl + cl)) ++ skipn (Z.to_nat cl) blk ++ X) /\
  out + zl + cl <= off + cl /\
  (0 < s - zl - cl -> off + cl = out + zl + cl /\ skipn (Z.to_nat cl) blk = []).
Proof.
  intros out off blk X s Hs Hoo zl cl.
  pose proof (blen_nonneg blk) as Hb.
  assert (Hzl : 0 <= zl <= s /\ zl <= off - out /\ (zl < s -> zl = off - out)).
  { unfold zl. destruct (out + s <? off) eqn:A; [apply Z.ltb_lt in A; lia|apply Z.ltb_ge in A].
    destruct (out <? off) eqn:B; [apply Z.ltb_lt in B|apply Z.ltb_ge in B]; lia. }
  assert (Hcl : 0 <= cl <= blen blk /\ cl <= s - zl /\ (0 < s - zl - cl -> cl = blen blk) /\ (zl = s -> cl = 0)).
  { unfold cl. destruct (0 <? s - zl) eqn:A; [apply Z.ltb_lt in A|apply Z.ltb_ge in A]; lia. }
  repeat split; try lia.
  - rewrite <- app_assoc.
    replace (off - out) with (zl + (off + cl - (out + zl + cl))) by lia.
    rewrite zeros_add by lia. rewrite <- app_assoc. f_equal.
    destruct (Z.eq_dec zl s) as [E|E].
    + replace cl with 0 by lia. reflexivity.
    + replace (off + cl - (out + zl + cl)) with 0 by lia.
      change (zeros 0) with (@nil N). cbn [app].
      rewrite (app_assoc (firstn _ _)), firstn_skipn. reflexivity.
  - apply blen_zero_nil. rewrite blen_skipn by lia. lia.
Qed.

Lemma Q_zero : forall fx eof f st bl c br,
  rinv fx st bl eof -> Q fx eof (rd_loop fx (S f) st (bsrc bl eof c) 0 br) st bl 0 br.
Proof.
  intros. exists st, bl, c. rewrite rd_loop_S. cbn [Z.leb Z.compare Z.to_nat firstn skipn].
  rewrite blen_nil, Z.add_0_r. auto.
Qed.

(* at the end of the source with nothing left to fill: both loops return at once *)
Lemma Q_end : forall fx eof f st c s br,
  rinv fx st [] eof -> need st = true -> 0 <= s ->
  (negb fx || (match eof with Some o => o | None => r_off st end <=? r_out st)) = true ->
  Q fx eof (rd_loop fx (S f) st (bsrc [] eof c) s br) st [] s br.
Proof.
  intros fx eof f st c s br Hinv Hn Hs Hc.
  destruct (Z.eq_dec s 0) as [->|Hs0]; [now apply Q_zero|].
  unfold need in Hn. apply andb_prop in Hn. destruct Hn as [Ho Hb].
  apply Z.eqb_eq in Ho. apply Z.eqb_eq in Hb. apply blen_zero_nil in Hb.
  destruct Hinv as (Hoo & Hwf & Hnt). rewrite Hb in Hwf, Hnt. rewrite blen_nil, Z.add_0_r in Hwf, Hnt.
  cbn [wf_from no_trailing] in Hwf, Hnt.
  assert (Hp : pending st [] eof = []).
  { unfold pending. rewrite Hb, blen_nil, Z.add_0_r. cbn [render_from app].
    rewrite zeros_nonpos by lia. destruct eof as [e|]; [|reflexivity].
    cbn [app]. apply zeros_nonpos.
    destruct Hnt as [->|Hnt]; [|lia]. cbn [negb orb] in Hc. apply Z.leb_le in Hc. lia. }
  rewrite rd_loop_S. destruct (s <=? 0) eqn:Es; [apply Z.leb_le in Es; lia|].
  unfold need. rewrite Ho, Z.eqb_refl, Hb. cbn [blen length Z.of_nat Z.eqb andb].
  unfold bsrc, next_block. cbn [map s_evs s_eof s_calls].
  change (ARCHIVE_EOF =? ARCHIVE_EOF) with true. cbn [andb].
  rewrite Ho in Hc. rewrite Hc.
  exists (mkR [] (match eof with Some o => o | None => r_out st end) (r_out st)), [], (c + 1).
  rewrite Hp, firstn_nil, skipn_nil, blen_nil, Z.add_0_r.
  split; [reflexivity|]. split.
  - unfold rinv. cbn [r_off r_out r_block]. rewrite blen_nil, Z.add_0_r. cbn [wf_from no_trailing].
    destruct eof as [e|]; repeat split; try lia; right; lia.
  - unfold pending. cbn [r_off r_out r_block]. rewrite blen_nil, Z.add_0_r. cbn [render_from app].
    destruct eof as [e|].
    + assert (e <= r_out st).
      { destruct Hnt as [->|Hnt]; [|lia]. cbn [negb orb] in Hc. apply Z.leb_le in Hc. lia. }
      rewrite !zeros_nonpos by lia. reflexivity.
    + rewrite zeros_nonpos by lia. reflexivity.
Qed.

Lemma Q_pending_eq : forall fx eof res st bl st1 bl1 s br,
  pending st bl eof = pending st1 bl1 eof -> Q fx eof res st1 bl1 s br -> Q fx eof res st bl s br.
Proof. unfold Q. intros fx eof res st bl st1 bl1 s br E H. rewrite E. exact H. Qed.

Lemma pending_st2 : forall blk off out cl bl eof, 0 <= cl <= blen blk ->
  pending (mkR (skipn (Z.to_nat cl) blk) (off + cl) out) bl eof =
  zeros (off + cl - out) ++ skipn (Z.to_nat cl) blk ++ render_from (off + blen blk) bl eof.
Proof.
  intros. unfold pending. cbn [r_block r_off r_out]. rewrite blen_skipn by lia.
  replace (off + cl + (blen blk - cl)) with (off + blen blk) by lia. reflexivity.
Qed.

(* zero fill + copy + the rest of the loop, given the statement for the rest of the loop *)
Lemma Q_tail : forall fx eof f blk off out bl1 c1 s br,
  0 < s -> rinv fx (mkR blk off out) bl1 eof ->
  (forall zl cl,
     zl = (if out + s <? off then s else if out <? off then off - out else 0) ->
     cl = (if 0 <? s - zl then Z.min (blen blk) (s - zl) else 0) ->
     Q fx eof (rd_loop fx f (mkR (skipn (Z.to_nat cl) blk) (off + cl) (out + zl + cl))
                       (bsrc bl1 eof c1) (s - zl - cl) (br + zl + cl))
       (mkR (skipn (Z.to_nat cl) blk) (off + cl) (out + zl + cl)) bl1 (s - zl - cl) (br + zl + cl)) ->
  Q fx eof (rd_tail fx f blk off out (bsrc bl1 eof c1) s br) (mkR blk off out) bl1 s br.
Proof.
  intros fx eof f blk off out bl1 c1 s br Hs Hinv HR.
  destruct Hinv as (Hoo & Hwf & Hnt). cbn [r_block r_off r_out] in Hoo, Hwf, Hnt.
  unfold rd_tail. destruct (off <? out) eqn:E; [apply Z.ltb_lt in E; lia|]. clear E.
  pose proof (fill_copy out off blk (render_from (off + blen blk) bl1 eof) s Hs Hoo) as F.
  cbv zeta in F.
  set (zl := if out + s <? off then s else if out <? off then off - out else 0) in *.
  set (cl := if 0 <? s - zl then Z.min (blen blk) (s - zl) else 0) in *.
  specialize (HR zl cl eq_refl eq_refl).
  destruct F as (Hzl & Hcl & Hsum & Heq & Hle & Hneed).
  destruct HR as (st' & bl' & c' & Hres & Hinv' & Hpend').
  rewrite Hres. exists st', bl', c'.
  assert (HP : pending (mkR blk off out) bl1 eof =
               (zeros zl ++ firstn (Z.to_nat cl) blk) ++
               pending (mkR (skipn (Z.to_nat cl) blk) (off + cl) (out + zl + cl)) bl1 eof).
  { rewrite pending_st2 by lia. unfold pending at 1. cbn [r_block r_off r_out]. exact Heq. }
  assert (HL : blen (zeros zl ++ firstn (Z.to_nat cl) blk) = zl + cl).
  { rewrite blen_app, blen_zeros, blen_firstn by lia. reflexivity. }
  rewrite HP. rewrite firstn_piece by (rewrite HL; lia). rewrite skipn_piece by (rewrite HL; lia). rewrite HL.
  replace (s - (zl + cl)) with (s - zl - cl) by lia.
  split; [|split; [exact Hinv'|exact Hpend']].
  rewrite (blen_app (zeros zl ++ firstn (Z.to_nat cl) blk)), HL, <- app_assoc.
  match goal with |- (?a, _, _, _) = (?b, _, _, _) => replace b with a by lia end.
  reflexivity.
Qed.

Lemma rd_loop_dense : forall fx eof fuel st bl c s br,
  rinv fx st bl eof -> (1 <= fuel)%nat ->
  (0 < s -> (length bl + (if need st then 0 else 1) + 3 <= fuel)%nat) -> 0 <= s ->
  Q fx eof (rd_loop fx fuel st (bsrc bl eof c) s br) st bl s br.
Proof.
  intros fx eof fuel. induction fuel as [|f IH]; intros st bl c s br Hinv Hf HM Hs; [lia|].
  destruct (Z.eq_dec s 0) as [->|Hs0]; [now apply Q_zero|].
  assert (Hs' : 0 < s) by lia. specialize (HM Hs').
  (* the rest of an iteration, from the induction hypothesis *)
  assert (TAIL : forall blk off out bl1 c1,
            rinv fx (mkR blk off out) bl1 eof -> (length bl1 + 3 <= f)%nat ->
            Q fx eof (rd_tail fx f blk off out (bsrc bl1 eof c1) s br) (mkR blk off out) bl1 s br).
  { intros blk off out bl1 c1 Hinv1 Hm1. apply Q_tail; [exact Hs'|exact Hinv1|].
    intros zl cl Ezl Ecl.
    destruct Hinv1 as (Hoo & Hwf & Hnt). cbn [r_block r_off r_out] in Hoo, Hwf, Hnt.
    pose proof (fill_copy out off blk [] s Hs' Hoo) as F. cbv zeta in F.
    rewrite <- Ezl in F. rewrite <- Ecl in F.
    destruct F as (Hzl & Hcl & Hsum & _ & Hle & Hneed).
    apply IH.
    - unfold rinv. cbn [r_block r_off r_out]. rewrite blen_skipn by lia.
      replace (off + cl + (blen blk - cl)) with (off + blen blk) by lia. auto.
    - lia.
    - intros Hrem. destruct (Hneed Hrem) as [Ho Hb]. unfold need. cbn [r_block r_off r_out].
      rewrite Hb, Ho, Z.eqb_refl. cbn. lia.
    - lia. }
  destruct (need st) eqn:En.
  - pose proof En as En'. unfold need in En'. apply andb_prop in En'. destruct En' as [Ho Hb].
    apply Z.eqb_eq in Ho. apply Z.eqb_eq in Hb. apply blen_zero_nil in Hb.
    destruct bl as [|[o d] bl'].
    + (* end of the source *)
      destruct (negb fx || (match eof with Some o => o | None => r_off st end <=? r_out st)) eqn:Ec.
      { apply Q_end; auto. }
      apply orb_false_elim in Ec. destruct Ec as [Efx Ele].
      apply negb_false_iff in Efx. apply Z.leb_gt in Ele. subst fx.
      destruct eof as [e|]; [|lia].
      rewrite rd_loop_S. destruct (s <=? 0) eqn:Es; [apply Z.leb_le in Es; lia|]. rewrite En.
      unfold bsrc at 1. unfold next_block. cbn [map s_evs s_eof s_calls].
      change (ARCHIVE_EOF =? ARCHIVE_EOF) with true. change (ARCHIVE_EOF <? ARCHIVE_OK) with false.
      cbn [andb negb orb].
      destruct (e <=? r_out st) eqn:E2; [apply Z.leb_le in E2; lia|].
      change (mkSrc [] (Some e) (c + 1)) with (bsrc [] (Some e) (c + 1)).
      destruct Hinv as (Hoo & Hwf & Hnt). rewrite Hb, blen_nil, Z.add_0_r in Hwf. cbn [wf_from] in Hwf.
      apply (Q_pending_eq true (Some e) _ st [] (mkR [] e (r_out st)) []).
      { unfold pending. cbn [r_block r_off r_out]. rewrite Hb, blen_nil, !Z.add_0_r. cbn [render_from app].
        rewrite Ho, !Z.sub_diag. change (zeros 0) with (@nil N). cbn [app]. rewrite app_nil_r. reflexivity. }
      apply Q_tail; [exact Hs'| |].
      { unfold rinv. cbn [r_block r_off r_out]. rewrite blen_nil, Z.add_0_r. cbn [wf_from]. repeat split; try lia; now left. }
      intros zl cl Ezl Ecl.
      assert (Hoe : r_out st <= e) by lia.
      pose proof (fill_copy (r_out st) e [] [] s Hs' Hoe) as F. cbv zeta in F.
      rewrite <- Ezl in F. rewrite <- Ecl in F. rewrite blen_nil in F.
      destruct F as (Hzl & Hcl & Hsum & _ & Hle & Hneed).
      assert (Hcl0 : cl = 0) by lia. clear Ecl. subst cl. cbn [Z.to_nat skipn]. rewrite !Z.add_0_r. rewrite Z.sub_0_r.
      destruct f as [|f']; [lia|].
      assert (Hinv2 : rinv true (mkR [] e (r_out st + zl)) [] (Some e)).
      { unfold rinv. cbn [r_block r_off r_out]. rewrite blen_nil, Z.add_0_r. cbn [wf_from]. repeat split; try lia; now left. }
      destruct (Z.eq_dec (s - zl) 0) as [E0|E0].
      { rewrite E0. apply Q_zero. exact Hinv2. }
      apply Q_end; [exact Hinv2| |lia|].
      { assert (Hr : 0 < s - zl - 0) by lia. destruct (Hneed Hr) as [Ho2 _].
        unfold need. cbn [r_block r_off r_out]. replace (r_out st + zl) with e by lia.
        rewrite Z.eqb_refl. reflexivity. }
      { cbn [r_off r_out]. assert (Hr : 0 < s - zl - 0) by lia. destruct (Hneed Hr) as [Ho2 _].
        replace (r_out st + zl) with e by lia. rewrite Z.leb_refl. apply orb_true_r. }
    + (* a block is fetched *)
      rewrite rd_loop_S. destruct (s <=? 0) eqn:Es; [apply Z.leb_le in Es; lia|]. rewrite En.
      unfold bsrc at 1. unfold next_block. cbn [map s_evs s_eof s_calls ev_of fst snd].
      change (ARCHIVE_OK =? ARCHIVE_EOF) with false. change (ARCHIVE_OK <? ARCHIVE_OK) with false.
      cbn [andb].
      change (mkSrc (map ev_of bl') eof (c + 1)) with (bsrc bl' eof (c + 1)).
      destruct Hinv as (Hoo & Hwf & Hnt). rewrite Hb, blen_nil, Z.add_0_r in Hwf, Hnt.
      cbn [wf_from no_trailing] in Hwf, Hnt. destruct Hwf as [Hwo Hwf].
      apply (Q_pending_eq fx eof _ st ((o, d) :: bl') (mkR d o (r_out st)) bl').
      { unfold pending. cbn [r_block r_off r_out]. rewrite Hb, blen_nil, Z.add_0_r. cbn [render_from app].
        rewrite Ho, Z.sub_diag. change (zeros 0) with (@nil N). reflexivity. }
      apply TAIL.
      * unfold rinv. cbn [r_block r_off r_out]. repeat split; try lia; auto.
      * cbn [length] in HM. lia.
  - (* zeros or block bytes are still pending: nothing is fetched *)
    rewrite rd_loop_S. destruct (s <=? 0) eqn:Es; [apply Z.leb_le in Es; lia|]. rewrite En.
    cbn [andb]. destruct st as [blk off out]. cbn [r_block r_off r_out].
    apply TAIL; [exact Hinv|lia].
Qed.

Definition sumz (rs : list Z) : Z := fold_right Z.add 0 rs.

Lemma sumz_nonneg : forall rs, Forall (fun s => 0 <= s) rs -> 0 <= sumz rs.
Proof. induction 1 as [|x l Hx Hl IH]; cbn [sumz fold_right]; [lia|]. fold (sumz l). lia. Qed.

(* every call returns exactly the next min(s, what is left) bytes of the pending rendering *)
Definition call_ok (s : Z) (p : Z * bytes) : Prop := 0 <= fst p <= s /\ fst p = blen (snd p).

Lemma read_data_seq_dense : forall fx eof rs st bl c,
  rinv fx st bl eof -> Forall (fun s => 0 <= s) rs ->
  exists l st' bl' c',
    read_data_seq fx st (bsrc bl eof c) rs = (l, st', bsrc bl' eof c') /\
    concat (map snd l) = firstn (Z.to_nat (sumz rs)) (pending st bl eof) /\
    Forall2 call_ok rs l /\ rinv fx st' bl' eof.
Proof.
  intros fx eof rs. induction rs as [|s rs IH]; intros st bl c Hinv Hrs.
  - exists [], st, bl, c. cbn [read_data_seq map concat sumz fold_right Z.to_nat firstn]. split; [reflexivity|]. split; [reflexivity|]. split; [constructor|exact Hinv].
  - inversion Hrs as [|? ? Hs Hrs']; subst.
    cbn [read_data_seq]. unfold read_data_call.
    destruct (rd_loop_dense fx eof (rd_fuel (bsrc bl eof c)) st bl c s 0 Hinv) as (st1 & bl1 & c1 & Hres & Hinv1 & Hp1).
    { unfold rd_fuel. lia. }
    { intros _. unfold rd_fuel, bsrc. cbn [s_evs]. rewrite map_length. destruct (need st); lia. }
    { exact Hs. }
    rewrite Hres.
    destruct (IH st1 bl1 c1 Hinv1 Hrs') as (l & st' & bl' & c' & Hseq & Hcat & Hall & Hinv').
    rewrite Hseq.
    set (W := firstn (Z.to_nat s) (pending st bl eof)) in *.
    assert (HW : 0 <= blen W <= s).
    { split; [apply blen_nonneg|]. unfold W, blen. rewrite firstn_length. lia. }
    assert (Hvis : visible (0 + blen W) W = W).
    { unfold visible. destruct (0 + blen W <? 0) eqn:E; [apply Z.ltb_lt in E; lia|reflexivity]. }
    rewrite Hvis.
    exists ((0 + blen W, W) :: l), st', bl', c'. split; [reflexivity|]. split; [|split; [|exact Hinv']].
    + cbn [map snd concat sumz fold_right]. rewrite Hcat, Hp1.
      pose proof (sumz_nonneg rs Hrs'). fold (sumz rs). rewrite firstn_add by lia. reflexivity.
    + constructor; [|exact Hall]. unfold call_ok. cbn [fst snd]. lia.
Qed.

Lemma src_of_bsrc : forall bl eof, src_of bl eof = bsrc bl eof 0.
Proof. reflexivity. Qed.

Lemma pending_init : forall bl eof, pending r_init bl eof = render bl eof.
Proof. reflexivity. Qed.

(* The repaired loop: for every well-formed block list and EVERY sequence of request sizes, the bytes
   returned, concatenated, are the first (sum of the requests) bytes of the dense rendering: leading,
   interior and trailing holes zero-filled, independent of the buffer sizes; every return value is
   a byte count <= the request. *)
Theorem read_data_dense : forall bl eof rs,
  wf_from 0 bl eof -> Forall (fun s => 0 < s) rs ->
  let l := fst (fst (read_data_seq true r_init (src_of bl eof) rs)) in
  concat (map snd l) = firstn (Z.to_nat (sumz rs)) (render bl eof) /\ Forall2 call_ok rs l.
Proof.
  intros bl eof rs Hwf Hrs.
  assert (Hrs' : Forall (fun s => 0 <= s) rs) by (eapply Forall_impl; [|exact Hrs]; cbn; intros; lia).
  destruct (read_data_seq_dense true eof rs r_init bl 0) as (l & st' & bl' & c' & Hseq & Hcat & Hall & _); auto.
  { unfold rinv. cbn. repeat split; auto; lia. }
  cbv zeta. rewrite src_of_bsrc, Hseq. cbn [fst]. rewrite <- pending_init. auto.
Qed.

(* The pinned loop delivers the same, provided the entry has no trailing hole (the end-of-entry
   offset is absent or equals the end of the last block) - exactly the inputs it handles. *)
Theorem read_data_dense_no_trailing_hole : forall fx bl eof rs,
  wf_from 0 bl eof -> no_trailing 0 bl eof -> Forall (fun s => 0 < s) rs ->
  let l := fst (fst (read_data_seq fx r_init (src_of bl eof) rs)) in
  concat (map snd l) = firstn (Z.to_nat (sumz rs)) (render bl eof) /\ Forall2 call_ok rs l.
Proof.
  intros fx bl eof rs Hwf Hnt Hrs.
  assert (Hrs' : Forall (fun s => 0 <= s) rs) by (eapply Forall_impl; [|exact Hrs]; cbn; intros; lia).
  destruct (read_data_seq_dense fx eof rs r_init bl 0) as (l & st' & bl' & c' & Hseq & Hcat & Hall & _); auto.
  { unfold rinv. cbn. repeat split; auto; lia. }
  cbv zeta. rewrite src_of_bsrc, Hseq. cbn [fst]. rewrite <- pending_init. auto.
Qed.

(* hence: two request sequences with the same total deliver the same bytes *)
Corollary read_data_buffer_independent : forall bl eof rs1 rs2,
  wf_from 0 bl eof -> Forall (fun s => 0 < s) rs1 -> Forall (fun s => 0 < s) rs2 -> sumz rs1 = sumz rs2 ->
  concat (map snd (fst (fst (read_data_seq true r_init (src_of bl eof) rs1)))) =
  concat (map snd (fst (fst (read_data_seq true r_init (src_of bl eof) rs2)))).
Proof.
  intros bl eof rs1 rs2 Hwf H1 H2 E.
  destruct (read_data_dense bl eof rs1 Hwf H1) as [A _].
  destruct (read_data_dense bl eof rs2 Hwf H2) as [B _].
  cbv zeta in A, B. rewrite A, B, E. reflexivity.
Qed.

(* F-C06-1: the pinned loop loses a trailing hole when the end of the data is met at the start of a
   call.  Entry of size 10000 with data only at [1000,1100), two requests of 1100 bytes. *)
Definition witness_blocks : list (Z * bytes) := [(1000, repeat 7%N 100)].
Definition witness_eof : option Z := Some 10000.
Definition witness_requests : list Z := [1100; 1100].

Theorem read_data_dense_refuted :
  exists bl eof rs, wf_from 0 bl eof /\ Forall (fun s => 0 < s) rs /\
    concat (map snd (fst (fst (read_data_seq false r_init (src_of bl eof) rs)))) <>
    firstn (Z.to_nat (sumz rs)) (render bl eof).
Proof.
  exists witness_blocks, witness_eof, witness_requests. split; [|split].
  - cbn. lia.
  - repeat constructor.
  - intros H. apply (f_equal (@length N)) in H. vm_compute in H. discriminate.
Qed.

(* the same requests, repaired loop: 2200 bytes *)
Example witness_repaired :
  map fst (fst (fst (read_data_seq true r_init (src_of witness_blocks witness_eof) witness_requests))) = [1100; 1100] /\
  map fst (fst (fst (read_data_seq false r_init (src_of witness_blocks witness_eof) witness_requests))) = [1100; 0].
Proof. vm_compute. split; reflexivity. Qed.

(* archive_read_data_block hands the format's blocks through unchanged, then the end-of-entry offset *)
Lemma read_block_all_blocks : forall bl eof cur,
  read_block_all (map ev_of bl) eof cur =
  map (fun b => (ARCHIVE_OK, fst b, snd b)) bl ++
  [(ARCHIVE_EOF, match eof with Some o => o | None => fold_left (fun _ b => fst b) bl cur end, [])].
Proof.
  induction bl as [|[o d] bl IH]; intros eof cur; cbn [map read_block_all ev_of fst snd app fold_left].
  - reflexivity.
  - rewrite IH. reflexivity.
Qed.

(* ------------------------------------------------------------------------------------------ *)
(** * next_header: the header sequence of well-formed scripted entries does not depend on the actions *)

Definition bo (src : source) : Prop := Forall (fun e => exists o d, e = EvBlk o d) (s_evs src).

Lemma next_block_bo : forall src b o r blk off src1,
  next_block src b o = (r, blk, off, src1) -> bo src -> bo src1.
Proof.
  intros src b o r blk off src1 H Hbo. unfold next_block in H. unfold bo in *.
  destruct (s_evs src) as [|[o' d'|c'] rest] eqn:E; inversion H; subst; cbn [s_evs].
  - constructor.
  - now inversion Hbo.
  - now inversion Hbo.
Qed.

Lemma rd_loop_bo : forall fx fuel st src s br ret w st' src',
  rd_loop fx fuel st src s br = (ret, w, st', src') -> bo src -> bo src'.
Proof.
  intros fx fuel. induction fuel as [|f IH]; intros st src s br ret w st' src' H Hbo.
  - simpl in H. now inversion H; subst.
  - cbn [rd_loop] in H.
    destruct (s <=? 0); [now inversion H; subst|].
    destruct ((if (r_off st =? r_out st) && (blen (r_block st) =? 0)
               then next_block src (r_block st) (r_off st)
               else (ARCHIVE_OK, r_block st, r_off st, src))) as [[[r blk] off] src1] eqn:Enb.
    assert (Hbo1 : bo src1).
    { destruct ((r_off st =? r_out st) && (blen (r_block st) =? 0)).
      - eapply next_block_bo; eauto.
      - now inversion Enb; subst. }
    destruct ((r_off st =? r_out st) && (blen (r_block st) =? 0) && (r =? ARCHIVE_EOF)
              && (negb fx || (off <=? r_out st))); [now inversion H; subst|].
    destruct ((r_off st =? r_out st) && (blen (r_block st) =? 0) && (r <? ARCHIVE_OK)); [now inversion H; subst|].
    destruct (off <? r_out st); [now inversion H; subst|].
    match type of H with context [rd_loop fx f ?a ?b ?c ?d] =>
      destruct (rd_loop fx f a b c d) as [[[ret0 o] st0] src0] eqn:Er end.
    inversion H; subst. eapply IH; eauto.
Qed.

Lemma drain_blocks_bo : forall evs eof c,
  Forall (fun e => exists o d, e = EvBlk o d) evs ->
  exists c', drain_blocks evs eof c = (ARCHIVE_EOF, mkSrc [] eof c').
Proof.
  induction evs as [|e evs IH]; intros eof c H; cbn [drain_blocks].
  - eauto.
  - inversion H as [|? ? [o [d ->]] Hr]; subst. apply IH. exact Hr.
Qed.

(* the drain reads the callback to its end when the format has no skip function *)
Lemma data_skip_bo : forall hs src, bo src ->
  exists src', data_skip hs src = (ARCHIVE_OK, src') /\ s_evs src' = [] /\ bo src'.
Proof.
  intros hs src Hbo. unfold data_skip. destruct hs.
  - eexists. split; [reflexivity|]. split; [reflexivity|constructor].
  - destruct (drain_blocks_bo (s_evs src) (s_eof src) (s_calls src) Hbo) as [c' E]. rewrite E.
    eexists. split; [reflexivity|]. split; [reflexivity|constructor].
Qed.

Lemma do_actions_bo : forall fx hs acts st src indata res src' d,
  do_actions fx hs st src indata acts = (res, src', d) -> bo src -> bo src'.
Proof.
  intros fx hs acts. induction acts as [|a acts IH]; intros st src indata res src' d H Hbo.
  - cbn in H. now inversion H; subst.
  - cbn [do_actions] in H. destruct a as [s| |].
    + unfold read_data_call in H.
      destruct (rd_loop fx (rd_fuel src) st src s 0) as [[[ret w] st1] src1] eqn:E.
      destruct (do_actions fx hs st1 src1 indata acts) as [[l src2] d2] eqn:E2.
      inversion H; subst. eapply IH; eauto. eapply rd_loop_bo; eauto.
    + destruct (next_block src [] (-1)) as [[[rc blk] off] src1] eqn:E.
      destruct (do_actions fx hs st src1 indata acts) as [[l src2] d2] eqn:E2.
      inversion H; subst. eapply IH; eauto. eapply next_block_bo; eauto.
    + destruct (data_skip_bo hs src Hbo) as (src1 & E & _ & Hbo1). rewrite E in H.
      destruct (do_actions fx hs st src1 false acts) as [[l src2] d2] eqn:E2.
      inversion H; subst. eapply IH; eauto.
Qed.

(* every header comes back ARCHIVE_OK and the run ends with ARCHIVE_EOF, for every choice of
   actions on every entry (read with any sizes, blocks, prefix, explicit skip, nothing), both loops,
   with or without a skip callback *)
Theorem headers_independent : forall fx hs es res fin srcs,
  Forall (fun e => bo (ec_src e)) es ->
  run_entries fx hs ARCHIVE_OK es = (res, fin, srcs) ->
  map fst res = map (fun _ => ARCHIVE_OK) es /\ fin = ARCHIVE_EOF.
Proof.
  intros fx hs es. induction es as [|e es IH]; intros res fin srcs Hbo H.
  - cbn in H. inversion H; subst. split; reflexivity.
  - cbn [run_entries] in H. change (ARCHIVE_OK <? ARCHIVE_OK) with false in H.
    change (negb (ARCHIVE_OK =? ARCHIVE_OK)) with false in H. cbv iota in H.
    inversion Hbo as [|? ? Hbe Hbes]; subst.
    destruct (do_actions fx hs r_init (ec_src e) true (ec_acts e)) as [[r src1] indata] eqn:Ea.
    pose proof (do_actions_bo _ _ _ _ _ _ _ _ _ Ea Hbe) as Hb1.
    assert (Hd : exists src2, (if indata then data_skip hs src1 else (ARCHIVE_OK, src1)) = (ARCHIVE_OK, src2)).
    { destruct indata.
      - destruct (data_skip_bo hs src1 Hb1) as (src2 & E & _). exists src2. auto.
      - exists src1. reflexivity. }
    destruct Hd as (src2 & Ed). rewrite Ed in H.
    change (ARCHIVE_OK =? ARCHIVE_FATAL) with false in H. cbv iota in H.
    destruct (run_entries fx hs ARCHIVE_OK es) as [[l fin'] srcs'] eqn:Er.
    replace (negb (ARCHIVE_OK =? ARCHIVE_OK)) with false in H by reflexivity. cbv iota in H.
    destruct (IH l fin' srcs' Hbes eq_refl) as (A & B).
    inversion H; subst. cbn [map fst]. rewrite A. split; auto.
Qed.

(* ------------------------------------------------------------------------------------------ *)
(** * the tar reader's body state machine *)

Fixpoint wf_sl (pos : Z) (sl : list sblock) (disk : Z) : Prop :=
  match sl with
  | [] => pos <= disk
  | sb :: r => pos <= sb_off sb /\ 0 <= sb_rem sb /\ wf_sl (sb_off sb + sb_rem sb) r disk
  end.

Lemma wf_sl_weaken : forall sl pos pos' disk, pos' <= pos -> wf_sl pos sl disk -> wf_sl pos' sl disk.
Proof. destruct sl as [|sb r]; cbn [wf_sl]; intros; [lia|]. intuition lia. Qed.

Lemma wf_sl_le : forall sl pos disk, wf_sl pos sl disk -> pos <= disk.
Proof.
  induction sl as [|sb r IH]; cbn [wf_sl]; intros pos disk H; [exact H|].
  destruct H as (A & B & C). apply IH in C. lia.
Qed.

Lemma wf_sl_drop : forall sl pos disk, wf_sl pos sl disk -> wf_sl pos (drop_exhausted sl) disk.
Proof.
  induction sl as [|sb r IH]; intros pos disk H; cbn [drop_exhausted]; [exact H|].
  destruct (sb_rem sb =? 0) eqn:E; [|exact H].
  apply Z.eqb_eq in E. cbn [wf_sl] in H. destruct H as (A & B & C).
  apply IH. eapply wf_sl_weaken; [|exact C]. lia.
Qed.

Lemma drop_head_nonzero : forall sl sb r, drop_exhausted sl = sb :: r -> sb_rem sb <> 0.
Proof.
  induction sl as [|x l IH]; intros sb r H; cbn [drop_exhausted] in H; [discriminate|].
  destruct (sb_rem x =? 0) eqn:E; [eauto|]. inversion H; subst. apply Z.eqb_neq in E. exact E.
Qed.

Lemma consume_chunk : forall sm n, sm_chunk (snd (consume sm n)) = sm_chunk sm /\ sm_total (snd (consume sm n)) = sm_total sm.
Proof.
  intros. unfold consume. destruct (n <? 0); [auto|]. destruct (n =? 0); [auto|].
  destruct (sm_pos sm + n <=? sm_total sm); auto.
Qed.

Lemma ahead1_pos : forall sm av, 0 < sm_chunk sm -> ahead1 sm = Some av -> 1 <= av <= sm_total sm - sm_pos sm.
Proof.
  intros sm av Hc H. unfold ahead1 in H. destruct (sm_total sm <=? sm_pos sm) eqn:E; [discriminate|].
  apply Z.leb_gt in E. inversion H; subst.
  pose proof (Z.mod_pos_bound (sm_pos sm) (sm_chunk sm) Hc). lia.
Qed.

(* blocks returned with ARCHIVE_OK: at or after [pos], inside the entry's size, and the list stays well-formed *)
Lemma tar_read_loop_within : forall fuel t sm off0 sz0 pos rc off sz t' sm',
  tar_read_loop fuel t sm off0 sz0 = (rc, off, sz, t', sm') ->
  wf_sl pos (t_sl t) (t_disk t) -> 0 <= t_ebr t -> 0 < sm_chunk sm -> rc = ARCHIVE_OK ->
  pos <= off /\ 0 <= sz /\ off + sz <= t_disk t /\
  wf_sl (off + sz) (t_sl t') (t_disk t') /\ 0 <= t_ebr t' /\ t_disk t' = t_disk t /\ sm_chunk sm' = sm_chunk sm.
Proof.
  induction fuel as [|f IH]; intros t sm off0 sz0 pos rc off sz t' sm' H Hwf Hebr Hch Hrc.
  - cbn in H. inversion H; subst. discriminate.
  - cbn [tar_read_loop] in H.
    set (sm1 := if t_unc t =? 0 then sm else snd (consume sm (t_unc t))) in *.
    assert (Hch1 : sm_chunk sm1 = sm_chunk sm).
    { unfold sm1. destruct (t_unc t =? 0); [reflexivity|apply consume_chunk]. }
    pose proof (wf_sl_drop _ _ _ Hwf) as Hwd.
    destruct (drop_exhausted (t_sl t)) as [|sb rest] eqn:Ed.
    { destruct (consume sm1 (t_pad t)) as [c sm2]. destruct (c <? 0); inversion H; subst; discriminate. }
    destruct (t_ebr t =? 0) eqn:Ee.
    { destruct (consume sm1 (t_pad t)) as [c sm2]. destruct (c <? 0); inversion H; subst; discriminate. }
    apply Z.eqb_neq in Ee.
    destruct (ahead1 sm1) as [av|] eqn:Ea; [|inversion H; subst; discriminate].
    apply ahead1_pos in Ea; [|lia].
    cbn [wf_sl] in Hwd. destruct Hwd as (W1 & W2 & W3).
    set (n0 := if t_ebr t <? av then t_ebr t else av) in *.
    set (n := if sb_rem sb <? n0 then sb_rem sb else n0) in *.
    assert (Hn : 0 <= n /\ n <= sb_rem sb /\ n <= t_ebr t).
    { unfold n, n0. destruct (t_ebr t <? av) eqn:A; [apply Z.ltb_lt in A|apply Z.ltb_ge in A];
      destruct (sb_rem sb <? _) eqn:B; try apply Z.ltb_lt in B; try apply Z.ltb_ge in B; lia. }
    pose proof (wf_sl_le _ _ _ W3) as Wle.
    destruct (sb_hole sb).
    + eapply IH with (pos := pos) in H; eauto.
      * cbn [t_disk t_sl t_ebr] in H. rewrite Hch1 in H. intuition lia.
      * cbn [t_sl t_disk wf_sl sb_off sb_rem]. repeat split; try lia.
        replace (sb_off sb + n + (sb_rem sb - n)) with (sb_off sb + sb_rem sb) by lia. exact W3.
      * cbn [t_ebr]. lia.
      * lia.
    + inversion H; subst. cbn [t_sl t_disk t_ebr wf_sl sb_off sb_rem].
      repeat split; try lia.
      replace (sb_off sb + n + (sb_rem sb - n)) with (sb_off sb + sb_rem sb) by lia. exact W3.
Qed.

Fixpoint within (pos disk : Z) (l : list (Z * Z * Z * Z)) : Prop :=
  match l with
  | [] => True
  | (rc, off, sz, _) :: r => rc = ARCHIVE_OK -> pos <= off /\ 0 <= sz /\ off + sz <= disk /\ within (off + sz) disk r
  end.

(* blocks_within_size: for a well-formed sparse list (offsets increasing, entries not overlapping,
   all inside the entry's size) the blocks handed out have increasing, non-overlapping offsets and
   stay within the size - whatever the chunking of the input *)
Theorem blocks_within_size : forall n t sm pos,
  wf_sl pos (t_sl t) (t_disk t) -> 0 <= t_ebr t -> 0 < sm_chunk sm ->
  within pos (t_disk t) (fst (fst (tar_read_all n t sm))).
Proof.
  induction n as [|n IH]; intros t sm pos Hwf Hebr Hch; cbn [tar_read_all]; [exact I|].
  unfold tar_read_data.
  destruct (tar_read_loop (tar_fuel t) t sm (-1) 0) as [[[[rc off] sz] t1] sm1] eqn:E.
  destruct (rc =? ARCHIVE_OK) eqn:Erc.
  - apply Z.eqb_eq in Erc.
    destruct (tar_read_loop_within _ _ _ _ _ _ _ _ _ _ _ E Hwf Hebr Hch Erc) as (A & B & C & D & F & G & K).
    specialize (IH t1 sm1 (off + sz)).
    destruct (tar_read_all n t1 sm1) as [[l t2] sm2] eqn:E2. cbn [fst within]. intros _.
    rewrite G in IH, D. cbn [fst] in IH. repeat split; try lia. apply IH; [exact D|exact F|lia].
  - cbn [fst within]. intros A. apply Z.eqb_neq in Erc. contradiction.
Qed.

(* ---- where the stream stands after the entry *)

Definition no_holes (sl : list sblock) : Prop := Forall (fun sb => sb_hole sb = false) sl.

(* the stream position at which the next header starts *)
Definition T (t : tar) (sm : stream) : Z :=
  sm_pos sm + t_unc t + Z.min (sum_rem (t_sl t)) (t_ebr t) + t_pad t.

Definition wfT (t : tar) (sm : stream) : Prop :=
  Forall (fun sb => 0 <= sb_rem sb) (t_sl t) /\ 0 <= t_ebr t /\ 0 <= t_unc t /\ 0 <= t_pad t /\
  0 < sm_chunk sm /\ T t sm <= sm_total sm.

Lemma sum_rem_nonneg : forall sl, Forall (fun sb => 0 <= sb_rem sb) sl -> 0 <= sum_rem sl.
Proof. induction 1 as [|x l Hx Hl IH]; cbn [sum_rem fold_right]; [lia|]. fold (sum_rem l). lia. Qed.

Lemma sum_rem_drop : forall sl, sum_rem (drop_exhausted sl) = sum_rem sl.
Proof.
  induction sl as [|sb r IH]; cbn [drop_exhausted]; [reflexivity|].
  destruct (sb_rem sb =? 0) eqn:E; [|reflexivity].
  apply Z.eqb_eq in E. rewrite IH. cbn [sum_rem fold_right]. fold (sum_rem r). lia.
Qed.

Lemma Forall_drop : forall (P : sblock -> Prop) sl, Forall P sl -> Forall P (drop_exhausted sl).
Proof.
  induction sl as [|sb r IH]; intros H; cbn [drop_exhausted]; [exact H|].
  destruct (sb_rem sb =? 0); [apply IH; now inversion H|exact H].
Qed.

Lemma sum_data_no_holes : forall sl, no_holes sl -> sum_data sl = sum_rem sl.
Proof.
  induction 1 as [|x l Hx Hl IH]; cbn [sum_data sum_rem fold_right]; [reflexivity|].
  fold (sum_data l). fold (sum_rem l). rewrite Hx, IH. reflexivity.
Qed.

Lemma consume_ok : forall sm n, 0 <= n -> sm_pos sm + n <= sm_total sm ->
  exists c, consume sm n = (c, mkStream (sm_total sm) (sm_chunk sm) (sm_pos sm + n)) /\ 0 <= c.
Proof.
  intros sm n Hn Hle. unfold consume.
  destruct (n <? 0) eqn:A; [apply Z.ltb_lt in A; lia|].
  destruct (n =? 0) eqn:B.
  - apply Z.eqb_eq in B. subst. exists 0. rewrite Z.add_0_r. destruct sm; split; [reflexivity|lia].
  - destruct (sm_pos sm + n <=? sm_total sm) eqn:C; [|apply Z.leb_gt in C; lia].
    exists n. split; [reflexivity|lia].
Qed.

Lemma tar_read_loop_T : forall fuel t sm off0 sz0 rc off sz t' sm',
  (Z.to_nat (t_ebr t) + 1 <= fuel)%nat -> wfT t sm ->
  tar_read_loop fuel t sm off0 sz0 = (rc, off, sz, t', sm') ->
  (rc = ARCHIVE_OK \/ rc = ARCHIVE_EOF) /\ wfT t' sm' /\ T t' sm' = T t sm /\
  (rc = ARCHIVE_OK -> t_ebr t' < t_ebr t) /\
  (rc = ARCHIVE_EOF -> sm_pos sm' = T t sm) /\
  (no_holes (t_sl t) -> no_holes (t_sl t')).
Proof.
  induction fuel as [|f IH]; intros t sm off0 sz0 rc off sz t' sm' Hf Hw H; [lia|].
  destruct Hw as (Hrem & Hebr & Hunc & Hpad & Hch & HT).
  cbn [tar_read_loop] in H.
  pose proof (sum_rem_nonneg _ Hrem) as Hsum.
  (* the bytes of the block handed out last are consumed first *)
  set (sm1 := if t_unc t =? 0 then sm else snd (consume sm (t_unc t))) in *.
  assert (H1 : sm1 = mkStream (sm_total sm) (sm_chunk sm) (sm_pos sm + t_unc t)).
  { unfold sm1. destruct (t_unc t =? 0) eqn:E.
    - apply Z.eqb_eq in E. rewrite E, Z.add_0_r. now destruct sm.
    - destruct (consume_ok sm (t_unc t)) as (c & Ec & _); [lia|unfold T in HT; lia|]. now rewrite Ec. }
  clearbody sm1. subst sm1.
  pose proof (sum_rem_drop (t_sl t)) as Hsd.
  pose proof (Forall_drop _ _ Hrem) as Hrd.
  assert (EOFCASE : forall sl', sl' = drop_exhausted (t_sl t) -> (sl' = [] \/ t_ebr t = 0) ->
            forall res, (let '(c, sm2) := consume (mkStream (sm_total sm) (sm_chunk sm) (sm_pos sm + t_unc t)) (t_pad t) in
                 if c <? 0 then (ARCHIVE_FATAL, off0, sz0, mkTar sl' (t_ebr t) 0 (t_pad t) (t_disk t), sm2)
                 else (ARCHIVE_EOF, t_disk t, 0, mkTar sl' (t_ebr t) 0 0 (t_disk t), sm2)) = res ->
            res = (ARCHIVE_EOF, t_disk t, 0, mkTar sl' (t_ebr t) 0 0 (t_disk t),
                   mkStream (sm_total sm) (sm_chunk sm) (T t sm)) /\ Z.min (sum_rem (t_sl t)) (t_ebr t) = 0).
  { intros sl' Esl Hz res Hres.
    assert (Hm : Z.min (sum_rem (t_sl t)) (t_ebr t) = 0).
    { destruct Hz as [Hz|Hz]; [|lia]. rewrite <- Hsd, <- Esl, Hz. cbn. lia. }
    destruct (consume_ok (mkStream (sm_total sm) (sm_chunk sm) (sm_pos sm + t_unc t)) (t_pad t)) as (c & Ec & Hc);
      [lia|cbn [sm_pos sm_total]; unfold T in HT; lia|].
    rewrite Ec in Hres. destruct (c <? 0) eqn:E; [apply Z.ltb_lt in E; lia|].
    cbn [sm_pos sm_total sm_chunk] in Hres. subst res. split; [|exact Hm].
    f_equal. f_equal. unfold T. lia. }
  destruct (drop_exhausted (t_sl t)) as [|sb rest] eqn:Ed.
  { destruct (EOFCASE [] eq_refl (or_introl eq_refl) _ H) as [E Hm]. inversion E; subst.
    split; [now right|]. split; [|split; [|split; [|split]]].
    - unfold wfT, T. cbn [t_sl t_ebr t_unc t_pad sm_pos sm_chunk sm_total sum_rem fold_right]. repeat split; try lia; auto.
      unfold T in HT. lia.
    - unfold T at 1. cbn [t_sl t_ebr t_unc t_pad sm_pos sum_rem fold_right]. lia.
    - discriminate.
    - reflexivity.
    - intros _. constructor. }
  destruct (t_ebr t =? 0) eqn:Ee.
  { apply Z.eqb_eq in Ee.
    destruct (EOFCASE (sb :: rest) eq_refl (or_intror Ee) _ H) as [E Hm]. inversion E; subst.
    split; [now right|]. split; [|split; [|split; [|split]]].
    - unfold wfT, T. cbn [t_sl t_ebr t_unc t_pad sm_pos sm_chunk sm_total]. rewrite Ee.
      pose proof (sum_rem_nonneg _ Hrd). repeat split; try lia; auto. unfold T in HT. lia.
    - unfold T at 1. cbn [t_sl t_ebr t_unc t_pad sm_pos]. rewrite Ee.
      pose proof (sum_rem_nonneg _ Hrd). lia.
    - discriminate.
    - reflexivity.
    - intros Hnh. rewrite <- Ed. apply Forall_drop. exact Hnh. }
  clear EOFCASE. apply Z.eqb_neq in Ee.
  pose proof (drop_head_nonzero _ _ _ Ed) as Hnz.
  inversion Hrd as [|? ? Hsb Hrest]; subst.
  assert (Hsum' : sum_rem (t_sl t) = sb_rem sb + sum_rem rest).
  { rewrite <- Hsd. reflexivity. }
  pose proof (sum_rem_nonneg _ Hrest) as Hsr.
  destruct (ahead1 (mkStream (sm_total sm) (sm_chunk sm) (sm_pos sm + t_unc t))) as [av|] eqn:Ea.
  2:{ exfalso. unfold ahead1 in Ea. cbn [sm_total sm_pos sm_chunk] in Ea.
      destruct (sm_total sm <=? sm_pos sm + t_unc t) eqn:E; [|discriminate].
      apply Z.leb_le in E. unfold T in HT. lia. }
  apply ahead1_pos in Ea; [|exact Hch]. cbn [sm_total sm_pos] in Ea.
  set (n0 := if t_ebr t <? av then t_ebr t else av) in *.
  set (n := if sb_rem sb <? n0 then sb_rem sb else n0) in *.
  assert (Hn : 1 <= n /\ n <= sb_rem sb /\ n <= t_ebr t /\ n <= av).
  { unfold n, n0. destruct (t_ebr t <? av) eqn:A; [apply Z.ltb_lt in A|apply Z.ltb_ge in A];
    destruct (sb_rem sb <? _) eqn:B; try apply Z.ltb_lt in B; try apply Z.ltb_ge in B; lia. }
  set (t2 := mkTar (mkSB (sb_off sb + n) (sb_rem sb - n) (sb_hole sb) :: rest) (t_ebr t - n) n (t_pad t) (t_disk t)) in *.
  set (sm1 := mkStream (sm_total sm) (sm_chunk sm) (sm_pos sm + t_unc t)) in *.
  assert (HT2 : T t2 sm1 = T t sm).
  { unfold T, t2, sm1. cbn [t_sl t_ebr t_unc t_pad sm_pos sum_rem fold_right sb_rem]. fold (sum_rem rest). lia. }
  assert (Hw2 : wfT t2 sm1).
  { unfold wfT. rewrite HT2. unfold t2, sm1. cbn [t_sl t_ebr t_unc t_pad sm_chunk sm_total].
    repeat split; try lia. constructor; [cbn [sb_rem]; lia|exact Hrest]. }
  assert (Hnh2 : no_holes (t_sl t) -> no_holes (t_sl t2)).
  { intros Hnh. pose proof (Forall_drop _ _ Hnh) as Hd. rewrite Ed in Hd. inversion Hd; subst.
    unfold t2. cbn [t_sl]. constructor; [cbn [sb_hole]; assumption|assumption]. }
  destruct (sb_hole sb).
  - eapply IH in H; [|unfold t2; cbn [t_ebr]; lia|exact Hw2].
    destruct H as (A & B & C & D & E & F).
    split; [exact A|]. split; [exact B|]. split; [lia|]. split; [|split].
    + intros Hr. specialize (D Hr). unfold t2 in D. cbn [t_ebr] in D. lia.
    + intros Hr. rewrite (E Hr). exact HT2.
    + auto.
  - inversion H; subst. split; [now left|]. split; [exact Hw2|]. split; [exact HT2|]. split; [|split].
    + intros _. unfold t2. cbn [t_ebr]. lia.
    + discriminate.
    + exact Hnh2.
Qed.

Lemma tar_read_data_T : forall t sm off0 sz0 rc off sz t' sm',
  wfT t sm -> tar_read_data t sm off0 sz0 = (rc, off, sz, t', sm') ->
  (rc = ARCHIVE_OK \/ rc = ARCHIVE_EOF) /\ wfT t' sm' /\ T t' sm' = T t sm /\
  (rc = ARCHIVE_OK -> t_ebr t' < t_ebr t) /\
  (rc = ARCHIVE_EOF -> sm_pos sm' = T t sm) /\
  (no_holes (t_sl t) -> no_holes (t_sl t')).
Proof.
  intros t sm off0 sz0 rc off sz t' sm' Hw H. unfold tar_read_data in H.
  eapply tar_read_loop_T; [|exact Hw|exact H]. unfold tar_fuel. lia.
Qed.

(* the reader never fails and never runs out of fuel on a well-formed state with enough input *)
Corollary tar_read_data_no_error : forall t sm off0 sz0,
  wfT t sm -> let rc := fst (fst (fst (fst (tar_read_data t sm off0 sz0)))) in rc = ARCHIVE_OK \/ rc = ARCHIVE_EOF.
Proof.
  intros t sm off0 sz0 Hw. destruct (tar_read_data t sm off0 sz0) as [[[[rc off] sz] t'] sm'] eqn:E.
  cbn [fst]. eapply tar_read_data_T in E; eauto. tauto.
Qed.

Lemma tar_skip_T : forall fxs t sm, wfT t sm -> (fxs = true \/ no_holes (t_sl t)) ->
  exists t', tar_skip fxs t sm = (ARCHIVE_OK, t', mkStream (sm_total sm) (sm_chunk sm) (T t sm)).
Proof.
  intros fxs t sm (Hrem & Hebr & Hunc & Hpad & Hch & HT) Hf. unfold tar_skip.
  assert (E : (if fxs then sum_rem (t_sl t) else sum_data (t_sl t)) = sum_rem (t_sl t)).
  { destruct Hf as [->|Hnh]; [reflexivity|]. destruct fxs; [reflexivity|]. now apply sum_data_no_holes. }
  rewrite E. pose proof (sum_rem_nonneg _ Hrem) as Hsum.
  set (rq := if t_ebr t <? sum_rem (t_sl t) then t_ebr t else sum_rem (t_sl t)).
  assert (Hrq : rq = Z.min (sum_rem (t_sl t)) (t_ebr t)).
  { unfold rq. destruct (t_ebr t <? sum_rem (t_sl t)) eqn:A; [apply Z.ltb_lt in A|apply Z.ltb_ge in A]; lia. }
  destruct (consume_ok sm (rq + t_pad t + t_unc t)) as (c & Ec & Hc); [lia|unfold T in HT; lia|].
  rewrite Ec. destruct (c <? 0) eqn:A; [apply Z.ltb_lt in A; lia|].
  eexists. f_equal. f_equal. unfold T. lia.
Qed.

Lemma tar_read_all_T : forall n t sm l t' sm',
  wfT t sm -> tar_read_all n t sm = (l, t', sm') ->
  wfT t' sm' /\ T t' sm' = T t sm /\ (no_holes (t_sl t) -> no_holes (t_sl t')) /\
  ((exists b, In b l /\ fst (fst (fst b)) = ARCHIVE_EOF) -> sm_pos sm' = T t sm) /\
  ((Z.to_nat (t_ebr t) + 1 <= n)%nat -> exists b, In b l /\ fst (fst (fst b)) = ARCHIVE_EOF).
Proof.
  induction n as [|n IH]; intros t sm l t' sm' Hw H; cbn [tar_read_all] in H.
  - inversion H; subst. split; [exact Hw|]. split; [reflexivity|]. split; [auto|]. split.
    + intros (b & Hb & _). destruct Hb.
    + intros Hn. lia.
  - destruct (tar_read_data t sm (-1) 0) as [[[[rc off] sz] t1] sm1] eqn:E.
    destruct (tar_read_data_T _ _ _ _ _ _ _ _ _ Hw E) as (A & B & C & D & F & G).
    destruct (rc =? ARCHIVE_OK) eqn:Erc.
    + apply Z.eqb_eq in Erc. subst rc.
      destruct (tar_read_all n t1 sm1) as [[l2 t2] sm2] eqn:E2.
      inversion H; subst.
      destruct (IH _ _ _ _ _ B E2) as (A2 & B2 & C2 & D2 & F2).
      split; [exact A2|]. split; [lia|]. split; [auto|]. split.
      * intros (b & [Hb|Hb] & He).
        { subst b. cbn [fst] in He. discriminate. }
        { rewrite <- C. apply D2. eauto. }
      * intros Hn. specialize (D eq_refl). destruct F2 as (b & Hb & He); [destruct B as (_ & X & _); lia|].
        exists b. split; [now right|exact He].
    + inversion H; subst. destruct A as [A|A]; [subst; discriminate|]. subst rc.
      split; [exact B|]. split; [exact C|]. split; [exact G|]. split.
      * intros _. rewrite (F eq_refl). reflexivity.
      * intros _. eexists. split; [left; reflexivity|reflexivity].
Qed.

(* skip_equiv: after any number k of block reads, archive_read_format_tar_skip leaves the stream at
   the position where reading every block up to ARCHIVE_EOF leaves it: padding, bytes handed out and
   not yet consumed, and sparse holes are accounted for exactly.  For the pinned skip function this
   needs a sparse list without Solaris hole entries. *)
Theorem skip_equiv : forall fxs k n t sm,
  wfT t sm -> (fxs = true \/ no_holes (t_sl t)) -> (Z.to_nat (t_ebr t) + 1 <= n)%nat ->
  let '(_, t1, sm1) := tar_read_all k t sm in
  let '(rc, _, sm2) := tar_skip fxs t1 sm1 in
  let '(l, _, sm3) := tar_read_all n t sm in
  rc = ARCHIVE_OK /\ (exists b, In b l /\ fst (fst (fst b)) = ARCHIVE_EOF) /\ sm_pos sm2 = sm_pos sm3.
Proof.
  intros fxs k n t sm Hw Hf Hn.
  destruct (tar_read_all k t sm) as [[l1 t1] sm1] eqn:E1.
  destruct (tar_read_all_T _ _ _ _ _ _ Hw E1) as (A1 & B1 & C1 & _ & _).
  destruct (tar_skip_T fxs t1 sm1 A1) as (t2 & E2).
  { destruct Hf as [Hf|Hf]; [now left|right; auto]. }
  rewrite E2.
  destruct (tar_read_all n t sm) as [[l3 t3] sm3] eqn:E3.
  destruct (tar_read_all_T _ _ _ _ _ _ Hw E3) as (A3 & B3 & C3 & D3 & F3).
  specialize (F3 Hn). split; [reflexivity|]. split; [exact F3|].
  cbn [sm_pos]. rewrite (D3 F3). exact B1.
Qed.

(* F-C06-2: the pinned skip function does not count Solaris hole entries although the read path
   consumes them: data [0,100), stored hole [100,1000), data [1000,1200), 336 bytes of padding *)
Definition solaris_witness : tar :=
  mkTar [mkSB 0 100 false; mkSB 100 900 true; mkSB 1000 200 false] 1200 0 336 1200.
Definition solaris_stream : stream := mkStream 4096 512 0.

Theorem skip_equiv_refuted :
  exists t sm, wfT t sm /\
    sm_pos (snd (tar_skip false t sm)) <> sm_pos (snd (tar_read_all 2000 t sm)) /\
    sm_pos (snd (tar_skip true t sm)) = sm_pos (snd (tar_read_all 2000 t sm)).
Proof.
  exists solaris_witness, solaris_stream. split; [|split].
  - unfold wfT, T. cbn. repeat split; try lia. repeat constructor; cbn; lia.
  - vm_compute. discriminate.
  - vm_compute. reflexivity.
Qed.
