(* Proofs about the multi-node model (MultiNodeDefs): the dataset table stays truthful, an in-range
   seek lands exactly on the requested offset of the concatenated stream whatever the split into
   nodes, reading on delivers the rest of the concatenation, and the block the filter holds always
   belongs to the node that is still open (the last holds for ALL scripts, refused seeks included). *)
From Coq Require Import List ZArith NArith Bool Lia Arith.
From LA Require Import Base.Val IO.MultiNodeDefs.
Import ListNotations.
Local Open Scope Z_scope.

(* ---------------- lists ---------------- *)
Lemma zlen_app {A} (a b : list A) : zlen (a ++ b) = zlen a + zlen b.
Proof. unfold zlen. rewrite app_length. lia. Qed.
Lemma zlen_nonneg {A} (a : list A) : 0 <= zlen a.
Proof. unfold zlen. lia. Qed.
Lemma zlen_nil {A} : zlen (@nil A) = 0. Proof. reflexivity. Qed.

Lemma skipn_add {A} (a b : nat) (l : list A) : skipn (a + b) l = skipn b (skipn a l).
Proof.
  revert l. induction a as [|a IH]; intros l; [reflexivity|].
  destruct l as [|x l]; cbn [Nat.add skipn]; [destruct b; reflexivity|apply IH].
Qed.

Lemma skipn_app_exact {A} (a b : list A) (k : nat) : k = length a -> skipn k (a ++ b) = b.
Proof. intros ->. rewrite skipn_app, skipn_all, Nat.sub_diag. reflexivity. Qed.

Lemma skipn_app_le {A} (a b : list A) (k : nat) : (k <= length a)%nat -> skipn k (a ++ b) = skipn k a ++ b.
Proof. intros H. rewrite skipn_app. replace (k - length a)%nat with 0%nat by lia. reflexivity. Qed.

Lemma firstn_nil_skipn {A} (n : nat) (l : list A) : (0 < n)%nat -> firstn n l = [] -> l = [].
Proof. intros Hn H. destruct l; [reflexivity|]. destruct n; [lia|discriminate]. Qed.

Lemma split_nth {A} (l : list A) (i : nat) (d : A) :
  (i < length l)%nat -> l = firstn i l ++ nth i l d :: skipn (S i) l.
Proof.
  revert i. induction l as [|x l IH]; intros i H; [simpl in H; lia|].
  destruct i as [|i]; [reflexivity|]. cbn [firstn nth skipn app]. f_equal. apply IH. simpl in H. lia.
Qed.

Lemma skipn_S_nth {A} (l : list A) (i : nat) (d : A) :
  (i < length l)%nat -> skipn i l = nth i l d :: skipn (S i) l.
Proof.
  revert i. induction l as [|x l IH]; intros i H; [simpl in H; lia|].
  destruct i as [|i]; [reflexivity|]. cbn [nth skipn]. apply IH. simpl in H. lia.
Qed.

(* ---------------- prefix sums ---------------- *)
Definition sz (ns : list bytes) (i : nat) : Z := zlen (nth i ns []).
Definition pre (ns : list bytes) (i : nat) : Z := zlen (concat (firstn i ns)).
Definition total (ns : list bytes) : Z := zlen (concat ns).

Lemma pre_0 ns : pre ns 0 = 0. Proof. reflexivity. Qed.
Lemma pre_S ns i : (i < length ns)%nat -> pre ns (S i) = pre ns i + sz ns i.
Proof.
  intros H. unfold pre, sz.
  rewrite (split_nth ns i [] H) at 1.
  rewrite firstn_app, firstn_firstn, firstn_length.
  replace (Nat.min (S i) i) with i by lia. replace (Nat.min i (length ns)) with i by lia.
  replace (S i - i)%nat with 1%nat by lia. cbn [firstn].
  rewrite concat_app, zlen_app. cbn [concat]. rewrite app_nil_r. reflexivity.
Qed.
Lemma pre_all ns : pre ns (length ns) = total ns.
Proof. unfold pre, total. rewrite firstn_all. reflexivity. Qed.
Lemma pre_nonneg ns i : 0 <= pre ns i. Proof. apply zlen_nonneg. Qed.
Lemma pre_mono ns i j : (i <= j <= length ns)%nat -> pre ns i <= pre ns j.
Proof.
  intros [Hij Hj]. induction j as [|j IH].
  - replace i with 0%nat by lia. lia.
  - destruct (Nat.eq_dec i (S j)) as [->|Hne]; [lia|].
    rewrite pre_S by lia. pose proof (zlen_nonneg (nth j ns [])). unfold sz. assert (pre ns i <= pre ns j) by (apply IH; lia). lia.
Qed.
Lemma pre_le_total ns i : (i <= length ns)%nat -> pre ns i <= total ns.
Proof. intros H. rewrite <- pre_all. apply pre_mono. lia. Qed.
Lemma pre_S_le_total ns i : (i < length ns)%nat -> pre ns i + sz ns i <= total ns.
Proof. intros H. rewrite <- pre_S by exact H. apply pre_le_total. lia. Qed.

(* the tail of the concatenation seen from offset p of node c *)
Definition restf (ns : list bytes) (c : nat) (p : Z) : bytes :=
  skipn (Z.to_nat p) (nth c ns []) ++ concat (skipn (S c) ns).

Lemma restf_flat ns c p :
  (c < length ns)%nat -> 0 <= p <= sz ns c ->
  restf ns c p = skipn (Z.to_nat (pre ns c + p)) (concat ns).
Proof.
  intros Hc Hp. unfold restf.
  assert (HF : concat ns = concat (firstn c ns) ++ nth c ns [] ++ concat (skipn (S c) ns)).
  { rewrite (split_nth ns c [] Hc) at 1. rewrite concat_app. reflexivity. }
  rewrite HF.
  pose proof (pre_nonneg ns c) as H0.
  rewrite Z2Nat.inj_add by lia. rewrite skipn_add.
  rewrite skipn_app_exact by (unfold pre, zlen; rewrite Nat2Z.id; reflexivity).
  rewrite skipn_app_le by (unfold sz, zlen in Hp; lia). reflexivity.
Qed.

Lemma restf_next ns c : (S c < length ns)%nat -> restf ns (S c) 0 = concat (skipn (S c) ns).
Proof.
  intros H. unfold restf. change (Z.to_nat 0) with 0%nat.
  rewrite (skipn_S_nth ns (S c) [] H). reflexivity.
Qed.

(* ---------------- the node reader ---------------- *)
Definition rest (s : mst) : bytes := restf (nodes s) (cursor s) (npos s).
Definition flat (s : mst) : bytes := concat (nodes s).

Record CInv (s : mst) : Prop := {
  ci_cur : (cursor s < nnodes s)%nat;
  ci_pos : 0 <= npos s <= nsize s (cursor s);
  ci_bs : (0 < bsz s)%nat }.

Lemma firstn_skipn_len {A} (n : nat) (X : list A) : X = firstn n X ++ skipn (length (firstn n X)) X.
Proof.
  revert X. induction n as [|n IH]; intros X; [reflexivity|].
  destruct X as [|x X]; [reflexivity|]. cbn [firstn length skipn app]. f_equal. apply IH.
Qed.

Lemma mread_loop_spec : forall fuel s, CInv s -> (nnodes s - cursor s <= fuel)%nat ->
  CInv (snd (mread_loop fuel s)) /\
  nodes (snd (mread_loop fuel s)) = nodes s /\ bsz (snd (mread_loop fuel s)) = bsz s /\
  tab (snd (mread_loop fuel s)) = tab s /\ fpos (snd (mread_loop fuel s)) = fpos s /\
  rest s = fst (mread_loop fuel s) ++ rest (snd (mread_loop fuel s)) /\
  (fst (mread_loop fuel s) = [] -> rest (snd (mread_loop fuel s)) = [] /\ meof (snd (mread_loop fuel s)) = true) /\
  (fst (mread_loop fuel s) <> [] ->
     meof (snd (mread_loop fuel s)) = meof s /\ powner (snd (mread_loop fuel s)) = cursor (snd (mread_loop fuel s))) /\
  (pending s = [] -> pending (snd (mread_loop fuel s)) = []).
Proof.
  induction fuel as [|f IH]; intros s HC Hf.
  - destruct HC as [Hc _ _]. lia.
  - cbn [mread_loop].
    remember (skipn (Z.to_nat (npos s)) (node s (cursor s))) as X eqn:EX.
    destruct (firstn (bsz s) X) as [|b0 bl] eqn:EB.
    + (* nothing left in this node *)
      assert (HX : X = []) by (eapply firstn_nil_skipn; [apply (ci_bs _ HC)|exact EB]).
      assert (HR : rest s = concat (skipn (S (cursor s)) (nodes s))).
      { unfold rest, restf. fold (node s (cursor s)). rewrite <- EX, HX. reflexivity. }
      destruct (Nat.eqb (S (cursor s)) (nnodes s)) eqn:EL.
      * apply Nat.eqb_eq in EL. cbn [fst snd nodes bsz tab fpos meof pending cursor npos].
        assert (HR0 : rest s = []).
        { rewrite HR. unfold nnodes in EL. rewrite EL, skipn_all. reflexivity. }
        split; [destruct HC; constructor; assumption|].
        repeat (split; [reflexivity|]).
        split; [intros _; split; [exact HR0|reflexivity]|].
        split; [intros H; exfalso; apply H; reflexivity|].
        intros H; exact H.
      * apply Nat.eqb_neq in EL.
        assert (Hsw : switch s (S (cursor s)) =
                      mkM (nodes s) (bsz s) (S (cursor s)) 0 (tab s) [] (powner s) (meof s) (fpos s)).
        { unfold switch. destruct (Nat.eqb (cursor s) (S (cursor s))) eqn:E; [apply Nat.eqb_eq in E; lia|reflexivity]. }
        rewrite Hsw.
        set (s1 := mkM (nodes s) (bsz s) (S (cursor s)) 0 (tab s) [] (powner s) (meof s) (fpos s)).
        assert (Hlt : (S (cursor s) < nnodes s)%nat) by (pose proof (ci_cur _ HC); lia).
        assert (HC1 : CInv s1).
        { constructor; cbn; [exact Hlt| |apply (ci_bs _ HC)].
          unfold nsize. pose proof (zlen_nonneg (node s1 (S (cursor s)))). unfold node in *. cbn in *. lia. }
        assert (Hf1 : (nnodes s1 - cursor s1 <= f)%nat) by (cbn; unfold nnodes in *; cbn; lia).
        destruct (IH s1 HC1 Hf1) as (A1 & A2 & A3 & A4 & A5 & A6 & A7 & A8 & A9).
        split; [exact A1|]. split; [exact A2|]. split; [exact A3|]. split; [exact A4|]. split; [exact A5|].
        split.
        { rewrite HR. rewrite <- A6. unfold rest, s1. cbn [nodes cursor npos].
          symmetry. apply restf_next. exact Hlt. }
        split; [exact A7|]. split; [exact A8|].
        intros _. apply A9. reflexivity.
    + (* a block *)
      cbn [fst snd nodes bsz tab fpos meof pending cursor npos powner].
      assert (HXs : X = (b0 :: bl) ++ skipn (length (b0 :: bl)) X).
      { rewrite <- EB. apply firstn_skipn_len. }
      assert (Hlen : zlen (b0 :: bl) <= nsize s (cursor s) - npos s).
      { pose proof (ci_pos _ HC) as Hp.
        assert (length (b0 :: bl) <= length X)%nat by (rewrite <- EB, firstn_length; lia).
        assert (length X = length (node s (cursor s)) - Z.to_nat (npos s))%nat by (rewrite EX, skipn_length; reflexivity).
        unfold nsize, zlen in *. lia. }
      split.
      { constructor; [apply (ci_cur _ HC)| |apply (ci_bs _ HC)].
        change (0 <= npos s + zlen (b0 :: bl) <= nsize s (cursor s)).
        pose proof (ci_pos _ HC). pose proof (zlen_nonneg (b0 :: bl)). lia. }
      repeat (split; [reflexivity|]).
      split.
      { unfold rest, restf. cbn [nodes cursor npos]. fold (node s (cursor s)).
        pose proof (ci_pos _ HC) as Hp.
        rewrite Z2Nat.inj_add by (try apply zlen_nonneg; lia). rewrite skipn_add. rewrite <- EX.
        unfold zlen at 1. rewrite Nat2Z.id. rewrite app_assoc. rewrite <- HXs. reflexivity. }
      split; [intros H; discriminate H|].
      split; [intros _; split; reflexivity|].
      intros H; exact H.
Qed.

(* ---------------- the dataset table ---------------- *)

(* every recorded begin_position / total_size is either "unknown" or the truth; node 0 begins at 0 *)
Definition TOK (ns : list bytes) (tb : tabf) : Prop :=
  fst (tb 0%nat) = 0 /\
  forall i, (i < length ns)%nat ->
    (fst (tb i) = -1 \/ fst (tb i) = pre ns i) /\ (snd (tb i) = -1 \/ snd (tb i) = sz ns i).

Lemma sz_nonneg ns i : 0 <= sz ns i. Proof. apply zlen_nonneg. Qed.

Lemma TOK_upd_b ns tb c : TOK ns tb -> TOK ns (upd_b tb (S c) (pre ns (S c))).
Proof.
  intros [H0 H]. split; [unfold upd_b; cbn [Nat.eqb]; exact H0|].
  intros i Hi. unfold upd_b. destruct (Nat.eqb i (S c)) eqn:E.
  - apply Nat.eqb_eq in E. subst i. cbn [fst snd]. split; [right; reflexivity|apply (H _ Hi)].
  - apply (H _ Hi).
Qed.
Lemma TOK_upd_t ns tb c : TOK ns tb -> TOK ns (upd_t tb c (sz ns c)).
Proof.
  intros [H0 H]. split.
  - unfold upd_t. destruct (Nat.eqb 0 c); cbn [fst]; exact H0.
  - intros i Hi. unfold upd_t. destruct (Nat.eqb i c) eqn:E.
    + apply Nat.eqb_eq in E. subst i. cbn [fst snd]. split; [apply (H _ Hi)|right; reflexivity].
    + apply (H _ Hi).
Qed.
Lemma upd_b_same tb i v : fst (upd_b tb i v i) = v.
Proof. unfold upd_b. rewrite Nat.eqb_refl. reflexivity. Qed.
Lemma upd_t_same tb i v : upd_t tb i v i = (fst (tb i), v).
Proof. unfold upd_t. rewrite Nat.eqb_refl. reflexivity. Qed.

Lemma TOK_tab0 ns : TOK ns tab0.
Proof.
  split; [reflexivity|]. intros i _. unfold tab0. destruct i; cbn; [split; [right; reflexivity|left; reflexivity]|split; left; reflexivity].
Qed.

Section SeekSet.
Variable ns : list bytes.
Variable off : Z.
Let n := length ns.

Lemma set_loop1_spec : forall fuel tb c,
  TOK ns tb -> (c < n)%nat -> fst (tb c) = pre ns c -> (c = 0%nat \/ pre ns c <= off) ->
  let r := set_loop1 fuel n tb c off in
  TOK ns (fst r) /\ (snd r < n)%nat /\ fst (fst r (snd r)) = pre ns (snd r) /\
  (snd r = 0%nat \/ pre ns (snd r) <= off).
Proof.
  induction fuel as [|f IH]; intros tb c HT Hc Hb Hle; cbn [set_loop1]; [cbn; auto|].
  destruct ((fst (tb c) <? 0) || (snd (tb c) <? 0) || (fst (tb c) + snd (tb c) >? off) || (n <=? c + 1)%nat) eqn:E.
  - cbn. auto.
  - apply orb_false_iff in E. destruct E as [E E4]. apply orb_false_iff in E. destruct E as [E E3].
    apply orb_false_iff in E. destruct E as [E1 E2].
    apply Z.ltb_ge in E1, E2.
    assert (E3' : fst (tb c) + snd (tb c) <= off).
    { destruct (fst (tb c) + snd (tb c) >? off) eqn:G; [discriminate|]. rewrite Z.gtb_ltb in G. apply Z.ltb_ge in G. exact G. }
    apply Nat.leb_gt in E4.
    destruct HT as [H0 HT]. destruct (HT c Hc) as [_ [Ht|Ht]]; [lia|].
    assert (Hnext : fst (tb c) + snd (tb c) = pre ns (S c)) by (rewrite pre_S by exact Hc; lia).
    rewrite Hnext.
    apply IH.
    + apply TOK_upd_b. split; assumption.
    + unfold n in *. lia.
    + apply upd_b_same.
    + right. lia.
Qed.

Lemma set_loop2_spec : forall fuel tb c,
  TOK ns tb -> (c < n)%nat -> fst (tb c) = pre ns c -> (n - c <= fuel)%nat ->
  let r := set_loop2 fuel n (sz ns) tb c off in
  TOK ns (fst r) /\ (c <= snd r < n)%nat /\ fst (fst r (snd r)) = pre ns (snd r) /\
  snd (fst r (snd r)) = sz ns (snd r) /\
  (snd r = c \/ pre ns (snd r) <= off) /\
  (pre ns (snd r) + sz ns (snd r) > off \/ (n <= snd r + 1)%nat).
Proof.
  induction fuel as [|f IH]; intros tb c HT Hc Hb Hf; [lia|]. cbn [set_loop2].
  assert (Hb1 : fst (upd_t tb c (sz ns c) c) = pre ns c) by (rewrite upd_t_same; exact Hb).
  rewrite Hb1.
  destruct ((pre ns c + sz ns c >? off) || (n <=? c + 1)%nat) eqn:E.
  - cbn [fst snd]. split; [apply TOK_upd_t; exact HT|]. split; [lia|]. split; [exact Hb1|].
    split; [rewrite upd_t_same; reflexivity|]. split; [left; reflexivity|].
    apply orb_true_iff in E. destruct E as [E|E]; [left; rewrite Z.gtb_ltb in E; apply Z.ltb_lt in E; lia|right; apply Nat.leb_le in E; exact E].
  - apply orb_false_iff in E. destruct E as [E1 E2].
    rewrite Z.gtb_ltb in E1. apply Z.ltb_ge in E1. apply Nat.leb_gt in E2.
    assert (Hnext : pre ns c + sz ns c = pre ns (S c)) by (rewrite pre_S by exact Hc; reflexivity).
    rewrite Hnext.
    assert (HT1 : TOK ns (upd_b (upd_t tb c (sz ns c)) (S c) (pre ns (S c)))) by (apply TOK_upd_b, TOK_upd_t; exact HT).
    destruct (IH _ (S c) HT1 ltac:(unfold n in *; lia) (upd_b_same _ _ _) ltac:(lia)) as (A1 & A2 & A3 & A4 & A5 & A6).
    split; [exact A1|]. split; [lia|]. split; [exact A3|]. split; [exact A4|]. split; [|exact A6].
    right. destruct A5 as [A5|A5]; [rewrite A5; lia|exact A5].
Qed.
End SeekSet.

(* ---------------- the stream invariant ---------------- *)
Record SInv (s : mst) : Prop := {
  si_c : CInv s;
  si_t : TOK (nodes s) (tab s);
  si_f : 0 <= fpos s;
  si_stream : skipn (Z.to_nat (fpos s)) (flat s) = pending s ++ rest s;
  si_eof : meof s = true -> pending s = [] /\ rest s = [] }.

Lemma nsize_sz s : nsize s = sz (nodes s). Proof. reflexivity. Qed.

Lemma finish_seek_ok s tb c o :
  0 <= o -> 0 <= o + fst (tb c) ->
  finish_seek s tb c o = (o + fst (tb c), mkM (nodes s) (bsz s) c o tb [] (powner s) false (o + fst (tb c))).
Proof.
  intros Ho Hr. unfold finish_seek, node_seek_set.
  destruct (o <? 0) eqn:E1; [apply Z.ltb_lt in E1; lia|].
  rewrite E1. destruct (o + fst (tb c) >=? 0) eqn:E2; [reflexivity|].
  rewrite Z.geb_leb in E2. apply Z.leb_gt in E2. lia.
Qed.

Theorem seek_set_spec s off :
  SInv s -> 0 <= off <= total (nodes s) ->
  exists s', seek_set s off = (off, s') /\ SInv s' /\ fpos s' = off /\ pending s' = [] /\
             nodes s' = nodes s /\ bsz s' = bsz s.
Proof.
  intros HI Hoff. unfold seek_set, nnodes.
  pose proof (si_c _ HI) as HC. pose proof (ci_cur _ HC) as Hcur. unfold nnodes in Hcur.
  assert (Hn : (0 < length (nodes s))%nat) by lia.
  pose proof (set_loop1_spec (nodes s) off (length (nodes s)) (tab s) 0%nat (si_t _ HI) Hn
               (proj1 (si_t _ HI)) (or_introl eq_refl)) as L1.
  destruct (set_loop1 (length (nodes s)) (length (nodes s)) (tab s) 0 off) as [tb1 c1] eqn:E1.
  cbn [fst snd] in L1. destruct L1 as (T1 & Hc1 & Hb1 & Hle1).
  rewrite nsize_sz.
  pose proof (set_loop2_spec (nodes s) off (length (nodes s)) tb1 c1 T1 Hc1 Hb1 ltac:(lia)) as L2.
  destruct (set_loop2 (length (nodes s)) (length (nodes s)) (sz (nodes s)) tb1 c1 off) as [tb2 c2] eqn:E2.
  cbn [fst snd] in L2. destruct L2 as (T2 & Hc2 & Hb2 & Ht2 & Hle2 & Hbrk).
  assert (Hpre : pre (nodes s) c2 <= off).
  { destruct Hle2 as [->|H]; [|exact H]. destruct Hle1 as [->|H]; [rewrite pre_0; lia|exact H]. }
  assert (Hup : off - pre (nodes s) c2 <= sz (nodes s) c2).
  { destruct Hbrk as [H|H]; [lia|].
    assert (HH : pre (nodes s) c2 + sz (nodes s) c2 = total (nodes s)).
    { rewrite <- pre_all. replace (length (nodes s)) with (S c2) by lia. rewrite pre_S by lia. reflexivity. }
    lia. }
  rewrite Hb2, Ht2.
  destruct ((off - pre (nodes s) c2 <? 0) || (off - pre (nodes s) c2 >? sz (nodes s) c2)) eqn:EF.
  { apply orb_true_iff in EF. destruct EF as [EF|EF]; [apply Z.ltb_lt in EF; lia|rewrite Z.gtb_ltb in EF; apply Z.ltb_lt in EF; lia]. }
  rewrite finish_seek_ok by (rewrite ?Hb2; lia).
  rewrite Hb2. replace (off - pre (nodes s) c2 + pre (nodes s) c2) with off by lia.
  eexists. split; [reflexivity|].
  split; [|cbn; auto].
  constructor; cbn [nodes bsz cursor npos tab pending powner meof fpos moved_to].
  - constructor; cbn [nodes bsz cursor npos nnodes nsize node moved_to]; [unfold nnodes; cbn; lia| |apply (ci_bs _ HC)].
    change (0 <= off - pre (nodes s) c2 <= sz (nodes s) c2). lia.
  - exact T2.
  - lia.
  - unfold flat, rest. cbn [nodes cursor npos moved_to app].
    rewrite restf_flat; [|exact (proj2 Hc2)|lia].
    f_equal. f_equal. lia.
  - intros H; discriminate H.
Qed.

Theorem seek_set_refused s off :
  SInv s -> off < 0 \/ total (nodes s) < off -> fst (seek_set s off) = M_FATAL.
Proof.
  intros HI Hoff. unfold seek_set, nnodes.
  pose proof (si_c _ HI) as HC. pose proof (ci_cur _ HC) as Hcur. unfold nnodes in Hcur.
  assert (Hn : (0 < length (nodes s))%nat) by lia.
  destruct (set_loop1 (length (nodes s)) (length (nodes s)) (tab s) 0 off) as [tb1 c1] eqn:E1.
  rewrite nsize_sz.
  destruct (set_loop2 (length (nodes s)) (length (nodes s)) (sz (nodes s)) tb1 c1 off) as [tb2 c2] eqn:E2.
  destruct ((off - fst (tb2 c2) <? 0) || (off - fst (tb2 c2) >? snd (tb2 c2))) eqn:EF; [reflexivity|].
  exfalso.
  pose proof (set_loop1_spec (nodes s) off (length (nodes s)) (tab s) 0%nat (si_t _ HI) Hn
               (proj1 (si_t _ HI)) (or_introl eq_refl)) as L1.
  rewrite E1 in L1. cbn [fst snd] in L1. destruct L1 as (T1 & Hc1 & Hb1 & Hle1).
  pose proof (set_loop2_spec (nodes s) off (length (nodes s)) tb1 c1 T1 Hc1 Hb1 ltac:(lia)) as L2.
  rewrite E2 in L2. cbn [fst snd] in L2. destruct L2 as (T2 & Hc2 & Hb2 & Ht2 & Hle2 & Hbrk).
  rewrite Hb2, Ht2 in EF.
  apply orb_false_iff in EF. destruct EF as [EF1 EF2]. apply Z.ltb_ge in EF1.
  rewrite Z.gtb_ltb in EF2. apply Z.ltb_ge in EF2.
  pose proof (pre_nonneg (nodes s) c2). pose proof (pre_S_le_total (nodes s) c2 ltac:(lia)).
  destruct Hoff as [Hoff|Hoff]; lia.
Qed.

Section SeekEnd.
Variable ns : list bytes.
Let n := length ns.
Definition knownb (tb : tabf) (i : nat) : Prop := fst (tb i) = pre ns i /\ snd (tb i) = sz ns i.

Lemma end_loop1_spec : forall fuel tb c,
  TOK ns tb -> (c < n)%nat -> fst (tb c) = pre ns c -> (forall i, (i < c)%nat -> knownb tb i) ->
  let r := end_loop1 fuel n tb c in
  TOK ns (fst r) /\ (snd r < n)%nat /\ fst (fst r (snd r)) = pre ns (snd r) /\
  (forall i, (i < snd r)%nat -> knownb (fst r) i).
Proof.
  induction fuel as [|f IH]; intros tb c HT Hc Hb Hk; cbn [end_loop1]; [cbn; auto|].
  destruct ((fst (tb c) <? 0) || (snd (tb c) <? 0) || (n <=? c + 1)%nat) eqn:E; [cbn; auto|].
  apply orb_false_iff in E. destruct E as [E E3]. apply orb_false_iff in E. destruct E as [E1 E2].
  apply Z.ltb_ge in E1, E2. apply Nat.leb_gt in E3.
  destruct (proj2 HT c Hc) as [_ [Ht|Ht]]; [lia|].
  assert (Hnext : fst (tb c) + snd (tb c) = pre ns (S c)) by (rewrite pre_S by exact Hc; lia).
  rewrite Hnext. apply IH.
  - apply TOK_upd_b. exact HT.
  - unfold n in *. lia.
  - apply upd_b_same.
  - intros i Hi. unfold knownb, upd_b. destruct (Nat.eqb i (S c)) eqn:EQ; [apply Nat.eqb_eq in EQ; lia|].
    destruct (Nat.eq_dec i c) as [->|Hne]; [split; assumption|apply Hk; lia].
Qed.

Lemma end_loop2_spec : forall fuel tb c,
  TOK ns tb -> (c < n)%nat -> fst (tb c) = pre ns c -> (forall i, (i < c)%nat -> knownb tb i) ->
  (n - c <= fuel)%nat ->
  let r := end_loop2 fuel n (sz ns) tb c in
  TOK ns (fst (fst r)) /\ S (snd (fst r)) = n /\ snd r = total ns /\
  (forall i, (i <= snd (fst r))%nat -> knownb (fst (fst r)) i).
Proof.
  induction fuel as [|f IH]; intros tb c HT Hc Hb Hk Hf; [lia|]. cbn [end_loop2].
  assert (Hb1 : fst (upd_t tb c (sz ns c) c) = pre ns c) by (rewrite upd_t_same; exact Hb).
  rewrite Hb1.
  assert (Hk1 : forall i, (i <= c)%nat -> knownb (upd_t tb c (sz ns c)) i).
  { intros i Hi. unfold knownb, upd_t. destruct (Nat.eqb i c) eqn:EQ.
    - apply Nat.eqb_eq in EQ. subst i. cbn [fst snd]. split; [exact Hb|reflexivity].
    - apply Nat.eqb_neq in EQ. apply Hk. lia. }
  destruct (n <=? c + 1)%nat eqn:E.
  - apply Nat.leb_le in E. cbn [fst snd]. split; [apply TOK_upd_t; exact HT|]. split; [unfold n in *; lia|].
    split; [|exact Hk1].
    rewrite <- pre_all. replace (length ns) with (S c) by (unfold n in *; lia). rewrite pre_S by exact Hc. reflexivity.
  - apply Nat.leb_gt in E.
    assert (Hnext : pre ns c + sz ns c = pre ns (S c)) by (rewrite pre_S by exact Hc; reflexivity).
    rewrite Hnext. apply IH.
    + apply TOK_upd_b, TOK_upd_t. exact HT.
    + unfold n in *. lia.
    + apply upd_b_same.
    + intros i Hi. unfold knownb, upd_b. destruct (Nat.eqb i (S c)) eqn:EQ; [apply Nat.eqb_eq in EQ; lia|].
      apply Hk1. lia.
    + lia.
Qed.

Lemma end_loop3_spec : forall fuel tb c r off T,
  (forall i, (i <= c)%nat -> knownb tb i) -> r = pre ns c + sz ns c -> r + off = T -> 0 <= T <= r ->
  (c < fuel)%nat ->
  exists c3 r3 off3, end_loop3 fuel tb c r off = Some (c3, r3, off3) /\
  (c3 <= c)%nat /\ r3 + off3 = T /\ pre ns c3 <= T <= pre ns c3 + sz ns c3.
Proof.
  induction fuel as [|f IH]; intros tb c r off T Hk Hr HT HT0 Hf; [lia|]. cbn [end_loop3].
  destruct (Hk c (le_n _)) as [Kb Kt].
  destruct (r + off >=? fst (tb c)) eqn:E.
  - rewrite Z.geb_leb in E. apply Z.leb_le in E. exists c, r, off. split; [reflexivity|]. split; [lia|]. split; [exact HT|]. lia.
  - rewrite Z.geb_leb in E. apply Z.leb_gt in E.
    destruct c as [|c'].
    + rewrite Kb, pre_0 in E. lia.
    + destruct (Hk c' ltac:(lia)) as [Kb' Kt'].
      assert (Hpre : pre ns (S c') = pre ns c' + sz ns c').
      { destruct (le_lt_dec (length ns) c') as [Hge|Hlt]; [|apply pre_S; exact Hlt].
        unfold pre, sz. rewrite !firstn_all2 by lia. rewrite nth_overflow by lia. rewrite zlen_nil. lia. }
      destruct (IH tb c' (fst (tb c') + snd (tb c')) (off + snd (tb (S c'))) T) as (c3 & r3 & off3 & A0 & A1 & A2 & A3).
      * intros i Hi. apply Hk. lia.
      * rewrite Kb', Kt'. reflexivity.
      * rewrite Kb', Kt', Kt. lia.
      * rewrite Kb', Kt'. rewrite Kb in E. lia.
      * lia.
      * exists c3, r3, off3. split; [exact A0|]. split; [lia|]. split; [exact A2|exact A3].
Qed.

(* a target before the first byte is refused *)
Lemma end_loop3_before : forall fuel tb c r off,
  (forall i, (i <= c)%nat -> knownb tb i) -> r = pre ns c + sz ns c -> r + off < 0 ->
  end_loop3 fuel tb c r off = None.
Proof.
  induction fuel as [|f IH]; intros tb c r off Hk Hr HT; [reflexivity|]. cbn [end_loop3].
  destruct (Hk c (le_n _)) as [Kb Kt].
  destruct (r + off >=? fst (tb c)) eqn:E.
  - rewrite Z.geb_leb in E. apply Z.leb_le in E. pose proof (pre_nonneg ns c). lia.
  - destruct c as [|c']; [reflexivity|].
    destruct (Hk c' ltac:(lia)) as [Kb' Kt'].
    assert (Hpre : pre ns (S c') = pre ns c' + sz ns c').
    { destruct (le_lt_dec (length ns) c') as [Hge|Hlt]; [|apply pre_S; exact Hlt].
      unfold pre, sz. rewrite !firstn_all2 by lia. rewrite nth_overflow by lia. rewrite zlen_nil. lia. }
    apply IH.
    + intros i Hi. apply Hk. lia.
    + rewrite Kb', Kt'. reflexivity.
    + rewrite Kb', Kt', Kt. lia.
Qed.
End SeekEnd.

Lemma switch_nodes s i : nodes (switch s i) = nodes s /\ bsz (switch s i) = bsz s.
Proof. unfold switch. destruct (Nat.eqb (cursor s) i); split; reflexivity. Qed.

Theorem seek_end_spec s off :
  SInv s -> - total (nodes s) <= off <= 0 ->
  exists s', seek_end s off = (total (nodes s) + off, s') /\ SInv s' /\ fpos s' = total (nodes s) + off /\
             pending s' = [] /\ nodes s' = nodes s /\ bsz s' = bsz s.
Proof.
  intros HI Hoff. unfold seek_end, nnodes.
  pose proof (si_c _ HI) as HC. pose proof (ci_cur _ HC) as Hcur. unfold nnodes in Hcur.
  assert (Hn : (0 < length (nodes s))%nat) by lia.
  pose proof (end_loop1_spec (nodes s) (length (nodes s)) (tab s) 0%nat (si_t _ HI) Hn
               (proj1 (si_t _ HI)) ltac:(intros i Hi; lia)) as L1.
  destruct (end_loop1 (length (nodes s)) (length (nodes s)) (tab s) 0) as [tb1 c1] eqn:E1.
  cbn [fst snd] in L1. destruct L1 as (T1 & Hc1 & Hb1 & Hk1).
  rewrite nsize_sz.
  pose proof (end_loop2_spec (nodes s) (length (nodes s)) tb1 c1 T1 Hc1 Hb1 Hk1 ltac:(lia)) as L2.
  destruct (end_loop2 (length (nodes s)) (length (nodes s)) (sz (nodes s)) tb1 c1) as [[tb2 c2] r] eqn:E2.
  cbn [fst snd] in L2. destruct L2 as (T2 & Hc2 & Hr & Hk2).
  assert (Hrr : r = pre (nodes s) c2 + sz (nodes s) c2).
  { rewrite Hr, <- pre_all, <- Hc2. rewrite pre_S by lia. reflexivity. }
  destruct (end_loop3_spec (nodes s) (length (nodes s)) tb2 c2 r off (total (nodes s) + off) Hk2 Hrr
               ltac:(lia) ltac:(lia) ltac:(lia)) as (c3 & r3 & off3 & E3 & Hc3 & HT & Hin).
  rewrite E3.
  destruct (Hk2 c3 Hc3) as [Kb3 Kt3].
  rewrite Kb3, Kt3.
  destruct (r3 + off3 - pre (nodes s) c3 >? sz (nodes s) c3) eqn:EB.
  { rewrite Z.gtb_ltb in EB. apply Z.ltb_lt in EB. lia. }
  rewrite finish_seek_ok by (rewrite ?Kb3; lia).
  rewrite Kb3. replace (r3 + off3 - pre (nodes s) c3 + pre (nodes s) c3) with (total (nodes s) + off) by lia.
  destruct (switch_nodes (moved_to s c1 c2 (sz (nodes s) c2)) c3) as [SN SB]. cbn [moved_to nodes bsz] in SN, SB.
  rewrite SN, SB.
  eexists. split; [reflexivity|].
  split; [|cbn; auto].
  constructor; cbn [nodes bsz cursor npos tab pending powner meof fpos].
  - constructor; [unfold nnodes; cbn [nodes cursor]; lia| |apply (ci_bs _ HC)].
    change (0 <= r3 + off3 - pre (nodes s) c3 <= sz (nodes s) c3). lia.
  - exact T2.
  - lia.
  - unfold flat, rest. cbn [nodes cursor npos app].
    rewrite restf_flat; [|lia|lia].
    f_equal. f_equal. lia.
  - intros H; discriminate H.
Qed.

Theorem seek_end_refused s off :
  SInv s -> 0 < off \/ off < - total (nodes s) -> fst (seek_end s off) = M_FATAL.
Proof.
  intros HI Hoff. unfold seek_end, nnodes.
  pose proof (si_c _ HI) as HC. pose proof (ci_cur _ HC) as Hcur. unfold nnodes in Hcur.
  assert (Hn : (0 < length (nodes s))%nat) by lia.
  pose proof (end_loop1_spec (nodes s) (length (nodes s)) (tab s) 0%nat (si_t _ HI) Hn
               (proj1 (si_t _ HI)) ltac:(intros i Hi; lia)) as L1.
  destruct (end_loop1 (length (nodes s)) (length (nodes s)) (tab s) 0) as [tb1 c1] eqn:E1.
  cbn [fst snd] in L1. destruct L1 as (T1 & Hc1 & Hb1 & Hk1).
  rewrite nsize_sz.
  pose proof (end_loop2_spec (nodes s) (length (nodes s)) tb1 c1 T1 Hc1 Hb1 Hk1 ltac:(lia)) as L2.
  destruct (end_loop2 (length (nodes s)) (length (nodes s)) (sz (nodes s)) tb1 c1) as [[tb2 c2] r] eqn:E2.
  cbn [fst snd] in L2. destruct L2 as (T2 & Hc2 & Hr & Hk2).
  assert (Hrr : r = pre (nodes s) c2 + sz (nodes s) c2).
  { rewrite Hr, <- pre_all, <- Hc2. rewrite pre_S by lia. reflexivity. }
  destruct Hoff as [Hpos|Hneg].
  - (* beyond the end: the walk stops at once on the last node *)
    assert (E3 : end_loop3 (length (nodes s)) tb2 c2 r off = Some (c2, r, off)).
    { destruct (length (nodes s)) as [|f] eqn:EL; [lia|]. cbn [end_loop3].
      destruct (Hk2 c2 (le_n _)) as [Kb Kt]. rewrite Kb.
      destruct (r + off >=? pre (nodes s) c2) eqn:E; [reflexivity|].
      rewrite Z.geb_leb in E. apply Z.leb_gt in E. pose proof (sz_nonneg (nodes s) c2). lia. }
    rewrite E3. destruct (Hk2 c2 (le_n _)) as [Kb Kt]. rewrite Kb, Kt.
    destruct (r + off - pre (nodes s) c2 >? sz (nodes s) c2) eqn:EB; [reflexivity|].
    rewrite Z.gtb_ltb in EB. apply Z.ltb_ge in EB. lia.
  - rewrite (end_loop3_before (nodes s) (length (nodes s)) tb2 c2 r off Hk2 Hrr ltac:(lia)). reflexivity.
Qed.

(* SEEK_CUR is SEEK_SET relative to the filter position *)
Definition seek_target (s : mst) (off whence : Z) : option Z :=
  match whence with
  | 0 => Some off
  | 1 => Some (off + fpos s)
  | 2 => Some (total (nodes s) + off)
  | _ => None
  end.

Theorem mseek_spec s off wh t :
  SInv s -> seek_target s off wh = Some t -> 0 <= t <= total (nodes s) ->
  exists s', mseek s off wh = (t, s') /\ SInv s' /\ fpos s' = t /\ pending s' = [] /\
             nodes s' = nodes s /\ bsz s' = bsz s.
Proof.
  intros HI HT Hr. unfold seek_target in HT. unfold mseek.
  destruct wh as [|p|p]; [inversion HT; subst; apply seek_set_spec; assumption| |discriminate].
  destruct p as [p|p|]; try discriminate.
  - destruct p; try discriminate HT. inversion HT; subst.
    apply seek_end_spec; [exact HI|lia].
  - inversion HT; subst. apply seek_set_spec; assumption.
Qed.

(* ---------------- reading ---------------- *)
Lemma skipn_z_add {A} (a b : Z) (l : list A) : 0 <= a -> 0 <= b ->
  skipn (Z.to_nat (a + b)) l = skipn (Z.to_nat b) (skipn (Z.to_nat a) l).
Proof. intros Ha Hb. rewrite Z2Nat.inj_add by lia. apply skipn_add. Qed.

Lemma skipn_zlen_app {A} (b r : list A) : skipn (Z.to_nat (zlen b)) (b ++ r) = r.
Proof. apply skipn_app_exact. unfold zlen. rewrite Nat2Z.id. reflexivity. Qed.

Theorem read_block_spec s :
  SInv s ->
  SInv (snd (read_block s)) /\
  nodes (snd (read_block s)) = nodes s /\ bsz (snd (read_block s)) = bsz s /\
  fpos (snd (read_block s)) = fpos s + zlen (fst (read_block s)) /\
  skipn (Z.to_nat (fpos s)) (flat s) =
    fst (read_block s) ++ skipn (Z.to_nat (fpos (snd (read_block s)))) (flat s) /\
  (fst (read_block s) = [] -> skipn (Z.to_nat (fpos s)) (flat s) = []).
Proof.
  intros HI. unfold read_block.
  pose proof (si_stream _ HI) as HS. pose proof (si_f _ HI) as HF.
  destruct (pending s) as [|p0 pl] eqn:EP.
  - destruct (meof s) eqn:EE.
    + cbn [fst snd]. destruct (si_eof _ HI EE) as [_ HR].
      rewrite HR in HS. cbn [app] in HS.
      split; [exact HI|]. split; [reflexivity|]. split; [reflexivity|]. split; [rewrite zlen_nil; lia|].
      split; [rewrite HS; reflexivity|intros _; exact HS].
    + pose proof (mread_loop_spec (nnodes s) s (si_c _ HI) ltac:(lia)) as M.
      unfold mread. destruct (mread_loop (nnodes s) s) as [blk s1] eqn:EM. cbn [fst snd] in M |- *.
      destruct M as (C1 & N1 & B1 & T1 & F1 & R1 & Z1 & NZ1 & P1).
      cbn [app] in HS.
      assert (HS' : skipn (Z.to_nat (fpos s + zlen blk)) (flat s) = rest s1).
      { rewrite skipn_z_add by (try apply zlen_nonneg; lia). rewrite HS, R1. apply skipn_zlen_app. }
      split.
      { constructor; cbn [nodes bsz cursor npos tab pending powner meof fpos].
        - destruct C1 as [c1 c2 c3]. constructor; assumption.
        - rewrite N1, T1. apply (si_t _ HI).
        - rewrite F1. pose proof (zlen_nonneg blk). lia.
        - unfold flat, rest in HS' |- *. cbn [nodes cursor npos app]. rewrite N1 in HS' |- *. rewrite F1. exact HS'.
        - intros HE. split; [reflexivity|].
          destruct blk as [|b0 bl]; [apply Z1; reflexivity|].
          destruct NZ1 as [NZ _]; [discriminate|]. rewrite NZ in HE. rewrite EE in HE. discriminate. }
      split; [exact N1|]. split; [exact B1|]. split; [rewrite F1; reflexivity|].
      split.
      { cbn [fpos]. rewrite F1, HS', HS. exact R1. }
      intros ->. rewrite HS, R1. destruct Z1 as [Z1 _]; [reflexivity|]. rewrite Z1. reflexivity.
  - cbn [fst snd nodes bsz fpos].
    assert (HS' : skipn (Z.to_nat (fpos s + zlen (p0 :: pl))) (flat s) = rest s).
    { rewrite skipn_z_add by (try apply zlen_nonneg; lia). rewrite HS. apply skipn_zlen_app. }
    split.
    { constructor; cbn [nodes bsz cursor npos tab pending powner meof fpos].
      - destruct (si_c _ HI) as [c1 c2 c3]. constructor; assumption.
      - apply (si_t _ HI).
      - pose proof (zlen_nonneg (p0 :: pl)). lia.
      - exact HS'.
      - intros HE. destruct (si_eof _ HI HE) as [HP _]. rewrite EP in HP. discriminate. }
    split; [reflexivity|]. split; [reflexivity|]. split; [reflexivity|].
    split; [rewrite HS'; exact HS|intros H; discriminate H].
Qed.

Theorem mopen_spec ns bs :
  ns <> [] -> (0 < bs)%nat ->
  SInv (mopen ns bs) /\ fpos (mopen ns bs) = 0 /\ nodes (mopen ns bs) = ns /\ bsz (mopen ns bs) = bs.
Proof.
  intros Hns Hbs. unfold mopen.
  set (s0 := mkM ns bs 0 0 tab0 [] 0 false 0).
  assert (Hlen : (0 < length ns)%nat) by (destruct ns; [congruence|simpl; lia]).
  assert (C0 : CInv s0).
  { constructor; cbn; [exact Hlen| |exact Hbs]. pose proof (zlen_nonneg (node s0 0)). unfold nsize. cbn in *. lia. }
  assert (R0 : rest s0 = concat ns).
  { unfold rest. cbn [nodes cursor npos s0]. rewrite restf_flat; [|exact Hlen|pose proof (sz_nonneg ns 0); lia].
    rewrite pre_0. reflexivity. }
  pose proof (mread_loop_spec (nnodes s0) s0 C0 ltac:(lia)) as M.
  unfold mread. destruct (mread_loop (nnodes s0) s0) as [blk s1] eqn:EM. cbn [fst snd] in M.
  destruct M as (C1 & N1 & B1 & T1 & F1 & R1 & Z1 & NZ1 & P1).
  cbn [nodes bsz tab fpos meof s0] in N1, B1, T1, F1.
  destruct blk as [|b0 bl].
  - destruct Z1 as [Z1 E1]; [reflexivity|].
    rewrite Z1 in R1. cbn [app] in R1. rewrite R0 in R1.
    unfold rest in Z1. rewrite N1 in Z1.
    unfold switch. cbn [cursor].
    destruct (Nat.eqb (cursor s1) 0) eqn:EC.
    + cbn [fpos nodes bsz]. split; [|auto].
      constructor; cbn [nodes bsz cursor npos tab pending powner meof fpos].
      * destruct C1 as [c1 c2 c3]. constructor; assumption.
      * rewrite N1, T1. apply TOK_tab0.
      * lia.
      * unfold flat, rest. cbn [nodes cursor npos app Z.to_nat skipn]. rewrite N1, R1. symmetry. exact Z1.
      * intros _. split; [reflexivity|]. unfold rest. cbn [nodes cursor npos]. rewrite N1. exact Z1.
    + cbn [fpos nodes bsz]. split; [|auto].
      constructor; cbn [nodes bsz cursor npos tab pending powner meof fpos].
      * constructor; cbn [nodes bsz cursor npos nnodes]; [unfold nnodes; cbn [nodes]; rewrite N1; exact Hlen| |rewrite B1; exact Hbs].
        pose proof (zlen_nonneg (nth 0 (nodes s1) [])). unfold nsize, node. cbn [nodes]. lia.
      * rewrite N1, T1. apply TOK_tab0.
      * lia.
      * unfold flat, rest. cbn [nodes cursor npos app Z.to_nat skipn]. rewrite N1.
        rewrite restf_flat; [|exact Hlen|pose proof (sz_nonneg ns 0); lia]. rewrite pre_0. reflexivity.
      * intros _. split; [reflexivity|]. unfold rest. cbn [nodes cursor npos]. rewrite N1.
        rewrite restf_flat; [|exact Hlen|pose proof (sz_nonneg ns 0); lia]. rewrite pre_0. cbn. exact R1.
  - cbn [fpos nodes bsz]. split; [|auto].
    constructor; cbn [nodes bsz cursor npos tab pending powner meof fpos].
    + destruct C1 as [c1 c2 c3]. constructor; assumption.
    + rewrite N1, T1. apply TOK_tab0.
    + lia.
    + change (concat (nodes s1) = (b0 :: bl) ++ rest s1). rewrite N1, <- R0. exact R1.
    + intros HE. destruct NZ1 as [NZ _]; [discriminate|]. rewrite NZ in HE. discriminate HE.
Qed.

(* ---------------- the buffered block belongs to the node that is open: ALL scripts ---------------- *)
Definition Own (s : mst) : Prop := pending s = [] \/ powner s = cursor s.

Lemma mread_loop_owner : forall fuel s,
  fst (mread_loop fuel s) <> [] -> powner (snd (mread_loop fuel s)) = cursor (snd (mread_loop fuel s)).
Proof.
  induction fuel as [|f IH]; intros s H; cbn [mread_loop] in *; [exfalso; apply H; reflexivity|].
  destruct (firstn (bsz s) (skipn (Z.to_nat (npos s)) (node s (cursor s)))) as [|b0 bl].
  - destruct (Nat.eqb (S (cursor s)) (nnodes s)); [exfalso; apply H; reflexivity|]. apply IH. exact H.
  - reflexivity.
Qed.

Lemma switch_Own s i : Own s -> Own (switch s i) /\ cursor (switch s i) = i.
Proof.
  intros H. unfold switch. destruct (Nat.eqb (cursor s) i) eqn:E.
  - apply Nat.eqb_eq in E. split; [exact H|exact E].
  - split; [left; reflexivity|reflexivity].
Qed.

Lemma moved_to_Own s c1 c2 p : Own s -> Own (moved_to s c1 c2 p) /\ cursor (moved_to s c1 c2 p) = c2.
Proof.
  intros H. split; [|reflexivity]. unfold Own, moved_to. cbn [pending powner cursor].
  destruct (Nat.eqb (cursor s) c1 && Nat.eqb c1 c2) eqn:E; [|left; reflexivity].
  apply andb_true_iff in E. destruct E as [E1 E2]. apply Nat.eqb_eq in E1, E2.
  destruct H as [H|H]; [left; exact H|right; lia].
Qed.

Lemma finish_seek_Own s tb c o : Own s -> cursor s = c -> Own (snd (finish_seek s tb c o)).
Proof.
  intros H Hc. unfold finish_seek.
  destruct (node_seek_set o <? 0); [|destruct (node_seek_set o + fst (tb c) >=? 0)]; cbn [snd];
    unfold Own; cbn [pending powner cursor]; try (left; reflexivity);
    (destruct H as [H|H]; [left; exact H|right; lia]).
Qed.

Lemma adv_loop_Own : forall fuel s req acc, Own s -> Own (snd (adv_loop fuel s req acc)).
Proof.
  induction fuel as [|f IH]; intros s req acc H; cbn [adv_loop]; [exact H|].
  destruct (firstn (bsz s) (skipn (Z.to_nat (npos s)) (node s (cursor s)))) as [|b0 bl].
  - destruct (Nat.eqb (S (cursor s)) (nnodes s)); [cbn [snd]; left; reflexivity|].
    apply IH. apply switch_Own. exact H.
  - destruct (zlen (b0 :: bl) >=? req); [cbn [snd]; right; reflexivity|].
    apply IH. left. reflexivity.
Qed.

Lemma consume_Own s n : Own s -> Own (snd (consume s n)).
Proof.
  intros H. unfold consume.
  destruct (n <? 0); [exact H|]. destruct (n =? 0); [exact H|].
  assert (HA : Own (snd (advance s n))).
  { unfold advance.
    set (k := Z.min n (zlen (pending s))).
    set (s1 := mkM (nodes s) (bsz s) (cursor s) (npos s) (tab s) (skipn (Z.to_nat k) (pending s)) (powner s) (meof s) (fpos s + k)).
    assert (H1 : Own s1).
    { unfold Own, s1. cbn [pending powner cursor]. destruct H as [H|H]; [left; rewrite H; apply skipn_nil|right; exact H]. }
    destruct (n - k =? 0); [exact H1|].
    unfold skip_by_seek.
    destruct (65536 <? n - k).
    - cbn [fst snd nodes bsz cursor npos tab pending powner meof fpos].
      match goal with |- Own (snd (if ?c then _ else _)) => destruct c end;
        [cbn [snd]|apply adv_loop_Own]; unfold Own in *; cbn [pending powner cursor] in *; exact H1.
    - cbn [fst snd nodes bsz cursor npos tab pending powner meof fpos].
      match goal with |- Own (snd (if ?c then _ else _)) => destruct c end;
        [cbn [snd]|apply adv_loop_Own]; unfold Own in *; cbn [pending powner cursor] in *; exact H1. }
  destruct (advance s n) as [sk s']. cbn [snd] in HA.
  destruct (sk =? n); exact HA.
Qed.

Theorem mstep_Own s o : Own s -> Own (fst (mstep s o)).
Proof.
  intros H. destruct o as [|off wh|n]; cbn [mstep];
    [| |pose proof (consume_Own s n H) as HC; destruct (consume s n) as [r s']; exact HC].
  - unfold read_block. destruct (pending s) as [|p0 pl] eqn:EP.
    + destruct (meof s); [cbn [fst]; left; exact EP|].
      destruct (mread s) as [blk s1]. cbn [fst]. left. reflexivity.
    + cbn [fst]. left. reflexivity.
  - assert (SS : forall o', Own (snd (seek_set s o'))).
    { intros o'. unfold seek_set.
      destruct (set_loop1 (nnodes s) (nnodes s) (tab s) 0 o') as [tb1 c1].
      destruct (set_loop2 (nnodes s) (nnodes s) (nsize s) tb1 c1 o') as [tb2 c2].
      destruct (moved_to_Own s c1 c2 (nsize s c2) H) as [HO HC].
      destruct ((o' - fst (tb2 c2) <? 0) || (o' - fst (tb2 c2) >? snd (tb2 c2))).
      - cbn [snd]. unfold Own in *. cbn [pending powner cursor] in *. exact HO.
      - apply finish_seek_Own; assumption. }
    unfold mseek.
    destruct wh as [|p|p]; [destruct (seek_set s off) eqn:E; cbn [fst]; specialize (SS off); rewrite E in SS; exact SS| |cbn [fst]; exact H].
    destruct p as [p|p|].
    + cbn [fst]. exact H.
    + destruct p; try (cbn [fst]; exact H).
      destruct (seek_end s off) as [r s'] eqn:E. cbn [fst].
      assert (HS : Own (snd (seek_end s off))).
      { unfold seek_end.
        destruct (end_loop1 (nnodes s) (nnodes s) (tab s) 0) as [tb1 c1].
        destruct (end_loop2 (nnodes s) (nnodes s) (nsize s) tb1 c1) as [[tb2 c2] r0].
        destruct (moved_to_Own s c1 c2 (nsize s c2) H) as [HO HC].
        assert (HRef : Own (mkM (nodes (moved_to s c1 c2 (nsize s c2))) (bsz (moved_to s c1 c2 (nsize s c2))) c2
                                (npos (moved_to s c1 c2 (nsize s c2))) tb2 (pending (moved_to s c1 c2 (nsize s c2)))
                                (powner (moved_to s c1 c2 (nsize s c2))) (meof (moved_to s c1 c2 (nsize s c2)))
                                (fpos (moved_to s c1 c2 (nsize s c2))))).
        { unfold Own in *. cbn [pending powner cursor] in *. exact HO. }
        destruct (end_loop3 (nnodes s) tb2 c2 r0 off) as [[[c3 r3] off3]|]; [|exact HRef].
        destruct (r3 + off3 - fst (tb2 c3) >? snd (tb2 c3)); [exact HRef|].
        destruct (switch_Own _ c3 HO) as [HO2 HC2].
        apply finish_seek_Own; assumption. }
      rewrite E in HS. exact HS.
    + destruct (seek_set s (off + fpos s)) eqn:E. cbn [fst]. specialize (SS (off + fpos s)). rewrite E in SS. exact SS.
Qed.

Lemma mopen_Own ns bs : Own (mopen ns bs).
Proof.
  unfold mopen. set (s0 := mkM ns bs 0 0 tab0 [] 0 false 0).
  pose proof (mread_loop_owner (nnodes s0) s0) as M. unfold mread.
  destruct (mread_loop (nnodes s0) s0) as [blk s1]. cbn [fst snd] in M.
  destruct blk as [|b0 bl].
  - apply switch_Own. left. reflexivity.
  - right. cbn [powner cursor]. apply M. discriminate.
Qed.

Theorem mrun_Own : forall ops s, Own s -> Own (fst (mrun s ops)).
Proof.
  induction ops as [|o r IH]; intros s H; cbn [mrun]; [exact H|].
  pose proof (mstep_Own s o H) as H1.
  destruct (mstep s o) as [s1 x]. cbn [fst] in H1.
  specialize (IH s1 H1). destruct (mrun s1 r) as [s2 xs]. exact IH.
Qed.

(* ---------------- consume ---------------- *)
Lemma restf_advance ns c p d :
  0 <= p -> 0 <= d -> p + d <= sz ns c -> restf ns c (p + d) = skipn (Z.to_nat d) (restf ns c p).
Proof.
  intros Hp Hd Hle. unfold restf.
  rewrite skipn_z_add by assumption.
  rewrite skipn_app_le; [reflexivity|].
  rewrite skipn_length. unfold sz, zlen in Hle. lia.
Qed.

Lemma rest_length_le s : SInv s -> (length (rest s) <= length (flat s))%nat.
Proof.
  intros HI. pose proof (si_stream _ HI) as H.
  assert (length (pending s ++ rest s) <= length (flat s))%nat by (rewrite <- H, skipn_length; lia).
  rewrite app_length in H0. lia.
Qed.

Definition same_cfg (s s' : mst) : Prop := nodes s' = nodes s /\ bsz s' = bsz s.

Lemma adv_loop_spec : forall fuel s req acc,
  SInv s -> pending s = [] -> 0 < req ->
  (length (rest s) + (nnodes s - cursor s) <= fuel)%nat ->
  SInv (snd (adv_loop fuel s req acc)) /\ same_cfg s (snd (adv_loop fuel s req acc)) /\
  (req <= zlen (rest s) ->
     fst (adv_loop fuel s req acc) = acc + req /\ fpos (snd (adv_loop fuel s req acc)) = fpos s + req) /\
  (zlen (rest s) < req ->
     fst (adv_loop fuel s req acc) = acc + zlen (rest s) /\
     fpos (snd (adv_loop fuel s req acc)) = fpos s + zlen (rest s)).
Proof.
  induction fuel as [|f IH]; intros s req acc HI HP Hreq Hf.
  - pose proof (ci_cur _ (si_c _ HI)). lia.
  - cbn [adv_loop].
    pose proof (si_c _ HI) as HC. pose proof (si_stream _ HI) as HS. rewrite HP in HS. cbn [app] in HS.
    remember (skipn (Z.to_nat (npos s)) (node s (cursor s))) as X eqn:EX.
    destruct (firstn (bsz s) X) as [|b0 bl] eqn:EB.
    + assert (HX : X = []) by (eapply firstn_nil_skipn; [apply (ci_bs _ HC)|exact EB]).
      assert (HR : rest s = concat (skipn (S (cursor s)) (nodes s))).
      { unfold rest, restf. fold (node s (cursor s)). rewrite <- EX, HX. reflexivity. }
      destruct (Nat.eqb (S (cursor s)) (nnodes s)) eqn:EL.
      * apply Nat.eqb_eq in EL.
        assert (HR0 : rest s = []) by (rewrite HR; unfold nnodes in EL; rewrite EL, skipn_all; reflexivity).
        cbn [fst snd]. split.
        { constructor; cbn [nodes bsz cursor npos tab pending powner meof fpos].
          - destruct HC as [c1 c2 c3]. constructor; assumption.
          - apply (si_t _ HI).
          - apply (si_f _ HI).
          - cbn [app]. exact HS.
          - intros _. split; [reflexivity|exact HR0]. }
        split; [split; reflexivity|].
        rewrite HR0, zlen_nil. split; [intros; lia|]. intros _. cbn [fpos]. split; lia.
      * apply Nat.eqb_neq in EL.
        assert (Hsw : switch s (S (cursor s)) =
                      mkM (nodes s) (bsz s) (S (cursor s)) 0 (tab s) [] (powner s) (meof s) (fpos s)).
        { unfold switch. destruct (Nat.eqb (cursor s) (S (cursor s))) eqn:E; [apply Nat.eqb_eq in E; lia|reflexivity]. }
        rewrite Hsw.
        set (s1 := mkM (nodes s) (bsz s) (S (cursor s)) 0 (tab s) [] (powner s) (meof s) (fpos s)).
        assert (Hlt : (S (cursor s) < nnodes s)%nat) by (pose proof (ci_cur _ HC); lia).
        assert (HR1 : rest s1 = rest s).
        { rewrite HR. unfold rest, s1. cbn [nodes cursor npos]. apply restf_next. exact Hlt. }
        assert (HI1 : SInv s1).
        { constructor; cbn [nodes bsz cursor npos tab pending powner meof fpos s1].
          - constructor; cbn [nodes bsz cursor npos]; [exact Hlt| |apply (ci_bs _ HC)].
            pose proof (sz_nonneg (nodes s) (S (cursor s))). change (0 <= 0 <= sz (nodes s) (S (cursor s))). lia.
          - apply (si_t _ HI).
          - apply (si_f _ HI).
          - cbn [app]. change (skipn (Z.to_nat (fpos s)) (flat s) = rest s1). rewrite HR1. exact HS.
          - intros HE. split; [reflexivity|]. change (rest s1 = []). rewrite HR1. apply (si_eof _ HI HE). }
        destruct (IH s1 req acc HI1 eq_refl Hreq) as (A1 & A2 & A3 & A4).
        { rewrite HR1. change (nnodes s1) with (nnodes s). change (cursor s1) with (S (cursor s)). lia. }
        rewrite HR1 in A3, A4. split; [exact A1|]. split; [exact A2|]. split; [exact A3|exact A4].
    + assert (HXs : X = (b0 :: bl) ++ skipn (length (b0 :: bl)) X) by (rewrite <- EB; apply firstn_skipn_len).
      assert (Hlen : zlen (b0 :: bl) <= nsize s (cursor s) - npos s).
      { pose proof (ci_pos _ HC) as Hp.
        assert (length (b0 :: bl) <= length X)%nat by (rewrite <- EB, firstn_length; lia).
        assert (length X = length (node s (cursor s)) - Z.to_nat (npos s))%nat by (rewrite EX, skipn_length; reflexivity).
        unfold nsize, zlen in *. lia. }
      pose proof (ci_pos _ HC) as Hp.
      assert (Hn0 : 0 < zlen (b0 :: bl)) by (unfold zlen; cbn [length]; lia).
      assert (HRb : rest s = (b0 :: bl) ++ restf (nodes s) (cursor s) (npos s + zlen (b0 :: bl))).
      { unfold rest. rewrite restf_advance; [|lia|lia|change (sz (nodes s) (cursor s)) with (nsize s (cursor s)); lia].
        unfold restf at 2. fold (node s (cursor s)). rewrite <- EX.
        unfold restf. fold (node s (cursor s)). rewrite <- EX.
        set (T := concat (skipn (S (cursor s)) (nodes s))).
        set (X' := skipn (length (b0 :: bl)) X) in HXs.
        rewrite HXs. rewrite <- !app_assoc. rewrite skipn_zlen_app. reflexivity. }
      destruct (zlen (b0 :: bl) >=? req) eqn:EG.
      * rewrite Z.geb_leb in EG. apply Z.leb_le in EG. cbn [fst snd].
        assert (Hreq_rest : req <= zlen (rest s)).
        { rewrite HRb, zlen_app. pose proof (zlen_nonneg (restf (nodes s) (cursor s) (npos s + zlen (b0 :: bl)))). lia. }
        split.
        { constructor; cbn [nodes bsz cursor npos tab pending powner meof fpos].
          - constructor; [apply (ci_cur _ HC)| |apply (ci_bs _ HC)].
            change (0 <= npos s + zlen (b0 :: bl) <= nsize s (cursor s)). lia.
          - apply (si_t _ HI).
          - pose proof (si_f _ HI). lia.
          - change (skipn (Z.to_nat (fpos s + req)) (flat s) =
                    skipn (Z.to_nat req) (b0 :: bl) ++ restf (nodes s) (cursor s) (npos s + zlen (b0 :: bl))).
            pose proof (si_f _ HI).
            rewrite skipn_z_add by lia. rewrite HS, HRb.
            apply skipn_app_le. unfold zlen in EG. lia.
          - intros HE. destruct (si_eof _ HI HE) as [_ HR0]. rewrite HRb in HR0. discriminate HR0. }
        split; [split; reflexivity|].
        split; [intros _; cbn [fpos]; split; reflexivity|intros; lia].
      * rewrite Z.geb_leb in EG. apply Z.leb_gt in EG.
        set (s1 := mkM (nodes s) (bsz s) (cursor s) (npos s + zlen (b0 :: bl)) (tab s) [] (powner s) (meof s) (fpos s + zlen (b0 :: bl))).
        assert (HR1 : rest s = (b0 :: bl) ++ rest s1) by exact HRb.
        assert (HI1 : SInv s1).
        { constructor; cbn [nodes bsz cursor npos tab pending powner meof fpos s1].
          - constructor; [apply (ci_cur _ HC)| |apply (ci_bs _ HC)].
            change (0 <= npos s + zlen (b0 :: bl) <= nsize s (cursor s)). lia.
          - apply (si_t _ HI).
          - pose proof (si_f _ HI). lia.
          - cbn [app]. change (skipn (Z.to_nat (fpos s + zlen (b0 :: bl))) (flat s) = rest s1).
            pose proof (si_f _ HI). rewrite skipn_z_add by lia. rewrite HS, HR1. apply skipn_zlen_app.
          - intros HE. destruct (si_eof _ HI HE) as [_ HR0]. rewrite HR1 in HR0. discriminate HR0. }
        destruct (IH s1 (req - zlen (b0 :: bl)) (acc + zlen (b0 :: bl)) HI1 eq_refl ltac:(lia)) as (A1 & A2 & A3 & A4).
        { assert (length (rest s) = length (b0 :: bl) + length (rest s1))%nat by (rewrite HR1, app_length; reflexivity).
          cbn [length] in H. change (nnodes s1) with (nnodes s). change (cursor s1) with (cursor s). lia. }
        split; [exact A1|]. split; [exact A2|].
        assert (HZ : zlen (rest s) = zlen (b0 :: bl) + zlen (rest s1)) by (rewrite HR1, zlen_app; reflexivity).
        cbn [fpos s1] in A3, A4.
        split.
        { intros Hle. destruct A3 as [B1 B2]; [lia|]. split; [rewrite B1; lia|rewrite B2; lia]. }
        { intros Hgt. destruct A4 as [B1 B2]; [lia|]. split; [rewrite B1; lia|rewrite B2; lia]. }
Qed.

Lemma skip_by_seek_spec s req :
  SInv s -> pending s = [] -> 0 < req ->
  let sk := fst (skip_by_seek s req) in
  let s2 := snd (skip_by_seek s req) in
  0 <= sk <= req /\ sk <= zlen (rest s) /\ same_cfg s s2 /\ pending s2 = [] /\
  SInv (mkM (nodes s2) (bsz s2) (cursor s2) (npos s2) (tab s2) (pending s2) (powner s2) (meof s2) (fpos s2 + sk)) /\
  zlen (rest s2) = zlen (rest s) - sk /\ fpos s2 = fpos s.
Proof.
  intros HI HP Hreq. cbv zeta. unfold skip_by_seek.
  pose proof (si_c _ HI) as HC. pose proof (ci_pos _ HC) as Hp.
  pose proof (si_stream _ HI) as HS. rewrite HP in HS. cbn [app] in HS.
  destruct (65536 <? req) eqn:E64.
  - cbn [fst snd nodes bsz cursor npos tab pending powner meof fpos].
    destruct (nsize s (cursor s) <? npos s) eqn:E1; [apply Z.ltb_lt in E1; lia|].
    set (r := if nsize s (cursor s) - npos s <? req then nsize s (cursor s) - npos s else req).
    assert (Hr : 0 <= r <= req /\ r <= nsize s (cursor s) - npos s).
    { unfold r. destruct (nsize s (cursor s) - npos s <? req) eqn:E2; [apply Z.ltb_lt in E2|apply Z.ltb_ge in E2]; lia. }
    assert (HR2 : restf (nodes s) (cursor s) (npos s + r) = skipn (Z.to_nat r) (rest s)).
    { unfold rest. apply restf_advance; [lia|lia|change (sz (nodes s) (cursor s)) with (nsize s (cursor s)); lia]. }
    assert (Hrl : r <= zlen (rest s)).
    { unfold rest, restf. rewrite zlen_app. fold (node s (cursor s)).
      pose proof (zlen_nonneg (concat (skipn (S (cursor s)) (nodes s)))).
      assert (zlen (skipn (Z.to_nat (npos s)) (node s (cursor s))) = nsize s (cursor s) - npos s).
      { unfold nsize, zlen. rewrite skipn_length. unfold nsize, zlen in Hp. lia. }
      lia. }
    split; [lia|]. split; [exact Hrl|]. split; [split; reflexivity|]. split; [exact HP|].
    split.
    { constructor; cbn [nodes bsz cursor npos tab pending powner meof fpos].
      - constructor; [apply (ci_cur _ HC)| |apply (ci_bs _ HC)].
        change (0 <= npos s + r <= nsize s (cursor s)). lia.
      - apply (si_t _ HI).
      - pose proof (si_f _ HI). lia.
      - rewrite HP. cbn [app].
        change (skipn (Z.to_nat (fpos s + r)) (flat s) = restf (nodes s) (cursor s) (npos s + r)).
        pose proof (si_f _ HI). rewrite skipn_z_add by lia. rewrite HS. symmetry. exact HR2.
      - intros HE. split; [exact HP|]. destruct (si_eof _ HI HE) as [_ HR0].
        change (restf (nodes s) (cursor s) (npos s + r) = []). rewrite HR2, HR0. apply skipn_nil. }
    split; [|reflexivity].
    change (zlen (restf (nodes s) (cursor s) (npos s + r)) = zlen (rest s) - r).
    rewrite HR2. unfold zlen. rewrite skipn_length. unfold zlen in Hrl. lia.
  - cbn [fst snd]. split; [lia|]. split; [apply zlen_nonneg|]. split; [split; reflexivity|]. split; [exact HP|].
    split.
    { destruct HI as [c1 c2 c3 c4 c5]. constructor; cbn [nodes bsz cursor npos tab pending powner meof fpos]; try assumption.
      - destruct c1; constructor; assumption.
      - lia.
      - rewrite Z.add_0_r. exact c4. }
    split; [lia|reflexivity].
Qed.

Theorem advance_spec s n :
  SInv s -> 0 < n ->
  SInv (snd (advance s n)) /\ same_cfg s (snd (advance s n)) /\
  (n <= zlen (pending s) + zlen (rest s) ->
     fst (advance s n) = n /\ fpos (snd (advance s n)) = fpos s + n) /\
  (zlen (pending s) + zlen (rest s) < n ->
     fst (advance s n) = zlen (pending s) + zlen (rest s) /\
     fpos (snd (advance s n)) = fpos s + zlen (pending s) + zlen (rest s)).
Proof.
  intros HI Hn. unfold advance.
  set (k := Z.min n (zlen (pending s))).
  pose proof (zlen_nonneg (pending s)) as Hpl. pose proof (zlen_nonneg (rest s)) as Hrl.
  assert (Hk : 0 <= k <= n /\ k <= zlen (pending s)) by (unfold k; lia).
  set (s1 := mkM (nodes s) (bsz s) (cursor s) (npos s) (tab s) (skipn (Z.to_nat k) (pending s)) (powner s) (meof s) (fpos s + k)).
  pose proof (si_stream _ HI) as HS. pose proof (si_f _ HI) as HF.
  assert (HI1 : SInv s1).
  { constructor; cbn [nodes bsz cursor npos tab pending powner meof fpos s1].
    - destruct (si_c _ HI) as [c1 c2 c3]. constructor; assumption.
    - apply (si_t _ HI).
    - lia.
    - change (skipn (Z.to_nat (fpos s + k)) (flat s) = skipn (Z.to_nat k) (pending s) ++ rest s).
      rewrite skipn_z_add by lia. rewrite HS. apply skipn_app_le. unfold zlen in Hk. lia.
    - intros HE. destruct (si_eof _ HI HE) as [HP0 HR0]. split; [rewrite HP0; apply skipn_nil|exact HR0]. }
  destruct (n - k =? 0) eqn:E0.
  - apply Z.eqb_eq in E0. cbn [fst snd]. split; [exact HI1|]. split; [split; reflexivity|].
    split; [intros _; cbn [fpos s1]; split; [lia|f_equal; lia]|intros; lia].
  - apply Z.eqb_neq in E0.
    assert (Hkp : k = zlen (pending s)) by (unfold k in *; lia).
    assert (HP1 : pending s1 = []).
    { cbn [pending s1]. rewrite Hkp. unfold zlen. rewrite Nat2Z.id. apply skipn_all. }
    assert (HR1 : rest s1 = rest s) by reflexivity.
    pose proof (skip_by_seek_spec s1 (n - k) HI1 HP1 ltac:(lia)) as SK. cbv zeta in SK.
    destruct (skip_by_seek s1 (n - k)) as [sk s2]. cbn [fst snd] in SK.
    destruct SK as (K1 & K2 & K3 & K4 & K5 & K6 & K7).
    rewrite HR1 in K2, K6. cbn [fpos s1] in K7.
    set (s3 := mkM (nodes s2) (bsz s2) (cursor s2) (npos s2) (tab s2) (pending s2) (powner s2) (meof s2) (fpos s2 + sk)) in *.
    assert (C13 : same_cfg s s3) by (destruct K3 as [Ka Kb]; split; cbn [nodes bsz s3]; [rewrite Ka|rewrite Kb]; reflexivity).
    destruct (n - k - sk =? 0) eqn:E1.
    + apply Z.eqb_eq in E1. cbn [fst snd]. split; [exact K5|]. split; [exact C13|].
      split; [intros _; cbn [fpos s3]; split; lia|intros; lia].
    + apply Z.eqb_neq in E1.
      assert (HR3 : zlen (rest s3) = zlen (rest s) - sk) by exact K6.
      pose proof (adv_loop_spec (length (concat (nodes s)) + nnodes s + 1) s3 (n - k - sk) (k + sk) K5 K4 ltac:(lia)) as AL.
      destruct AL as (A1 & A2 & A3 & A4).
      { pose proof (rest_length_le s3 K5) as HL. unfold flat in HL. destruct C13 as [Ca Cb]. rewrite Ca in HL.
        unfold nnodes. rewrite Ca. lia. }
      split; [exact A1|].
      split; [destruct A2 as [Aa Ab]; destruct C13 as [Ca Cb]; split; congruence|].
      rewrite HR3 in A3, A4. cbn [fpos s3] in A3, A4.
      split.
      * intros Hle. destruct A3 as [B1 B2]; [lia|]. split; [rewrite B1; lia|rewrite B2; lia].
      * intros Hgt. destruct A4 as [B1 B2]; [lia|]. split; [rewrite B1; lia|rewrite B2; lia].
Qed.

Theorem consume_spec s n :
  SInv s ->
  SInv (snd (consume s n)) /\ same_cfg s (snd (consume s n)) /\
  (0 <= n <= zlen (pending s) + zlen (rest s) ->
     fst (consume s n) = n /\ fpos (snd (consume s n)) = fpos s + n) /\
  (n < 0 \/ zlen (pending s) + zlen (rest s) < n -> fst (consume s n) = M_FATAL).
Proof.
  intros HI. unfold consume.
  destruct (n <? 0) eqn:E1.
  - apply Z.ltb_lt in E1. cbn [fst snd]. split; [exact HI|]. split; [split; reflexivity|]. split; [lia|reflexivity].
  - apply Z.ltb_ge in E1. destruct (n =? 0) eqn:E2.
    + apply Z.eqb_eq in E2. cbn [fst snd]. split; [exact HI|]. split; [split; reflexivity|].
      pose proof (zlen_nonneg (pending s)). pose proof (zlen_nonneg (rest s)).
      split; [intros _; split; lia|intros [H1|H1]; lia].
    + apply Z.eqb_neq in E2.
      destruct (advance_spec s n HI ltac:(lia)) as (A1 & A2 & A3 & A4).
      destruct (advance s n) as [sk s']. cbn [fst snd] in *.
      destruct (sk =? n) eqn:E3; cbn [fst snd]; (split; [exact A1|]); (split; [exact A2|]).
      * apply Z.eqb_eq in E3. split.
        { intros Hle. destruct A3 as [B1 B2]; [lia|]. split; [exact B1|exact B2]. }
        { intros [Hl|Hg]; [lia|]. destruct A4 as [B1 _]; [exact Hg|]. lia. }
      * apply Z.eqb_neq in E3. split.
        { intros Hle. destruct A3 as [B1 _]; [lia|]. lia. }
        { intros _. reflexivity. }
Qed.

(* ---------------- refinement: outputs depend on the concatenation only ---------------- *)
Definition in_range (s : mst) (o : mop) : Prop :=
  match o with
  | MRead => True
  | MSeek off wh => exists t, seek_target s off wh = Some t /\ 0 <= t <= total (nodes s)
  | MConsume n => 0 <= n <= zlen (skipn (Z.to_nat (fpos s)) (flat s))
  end.

(* what an observer who knows only the concatenated stream [fl] and the position [a] may see *)
Definition out_ok (fl : bytes) (a : Z) (o : mop) (x : mout) (a' : Z) : Prop :=
  match o, x with
  | MRead, MBlk b p =>
      p = a + zlen b /\ a' = p /\ skipn (Z.to_nat a) fl = b ++ skipn (Z.to_nat p) fl /\
      (b = [] -> skipn (Z.to_nat a) fl = [])
  | MSeek off wh, MPos r p =>
      let t := match wh with 0 => off | 1 => off + a | _ => zlen fl + off end in
      r = t /\ p = t /\ a' = t
  | MConsume n, MCons r p => r = n /\ p = a + n /\ a' = p
  | _, _ => False
  end.

Theorem mstep_refines s o :
  SInv s -> in_range s o ->
  SInv (fst (mstep s o)) /\ nodes (fst (mstep s o)) = nodes s /\ bsz (fst (mstep s o)) = bsz s /\
  out_ok (flat s) (fpos s) o (snd (mstep s o)) (fpos (fst (mstep s o))).
Proof.
  intros HI HR. destruct o as [|off wh|n]; cbn [mstep].
  3:{ cbn [in_range] in HR.
      destruct (consume_spec s n HI) as (A1 & [A2 A2'] & A3 & A4).
      assert (HZ : zlen (skipn (Z.to_nat (fpos s)) (flat s)) = zlen (pending s) + zlen (rest s)).
      { rewrite (si_stream _ HI). apply zlen_app. }
      rewrite HZ in HR. destruct (A3 HR) as [B1 B2].
      destruct (consume s n) as [r s']. cbn [fst snd out_ok] in *.
      split; [exact A1|]. split; [exact A2|]. split; [exact A2'|]. split; [exact B1|]. split; [exact B2|reflexivity]. }
  - destruct (read_block_spec s HI) as (A1 & A2 & A3 & A4 & A5 & A6).
    destruct (read_block s) as [b s']. cbn [fst snd] in *.
    split; [exact A1|]. split; [exact A2|]. split; [exact A3|].
    split; [exact A4|]. split; [reflexivity|]. split; [exact A5|exact A6].
  - destruct HR as (t & HT & Ht).
    destruct (mseek_spec s off wh t HI HT Ht) as (s' & E & I' & F' & P' & N' & B').
    rewrite E. cbn [fst snd out_ok].
    split; [exact I'|]. split; [exact N'|]. split; [exact B'|].
    assert (Ht' : t = match wh with 0 => off | 1 => off + fpos s | _ => zlen (flat s) + off end).
    { unfold seek_target in HT. destruct wh as [|p|p]; [congruence| |discriminate].
      destruct p as [p|p|]; [discriminate| |congruence].
      destruct p; try discriminate. inversion HT. reflexivity. }
    rewrite <- Ht'. auto.
Qed.

Fixpoint ok_run (s : mst) (ops : list mop) : Prop :=
  match ops with
  | [] => True
  | o :: r => in_range s o /\ ok_run (fst (mstep s o)) r
  end.

Fixpoint outs_ok (fl : bytes) (a : Z) (ops : list mop) (xs : list mout) : Prop :=
  match ops, xs with
  | [], [] => True
  | o :: r, x :: xr => exists a', out_ok fl a o x a' /\ outs_ok fl a' r xr
  | _, _ => False
  end.

Theorem mrun_refines : forall ops s,
  SInv s -> ok_run s ops ->
  SInv (fst (mrun s ops)) /\ outs_ok (flat s) (fpos s) ops (snd (mrun s ops)).
Proof.
  induction ops as [|o r IH]; intros s HI HO; cbn [mrun]; [cbn; auto|].
  destruct HO as [HR HO].
  destruct (mstep_refines s o HI HR) as (I1 & N1 & B1 & O1).
  destruct (mstep s o) as [s1 x]. cbn [fst snd] in *.
  destruct (IH s1 I1 HO) as [I2 O2].
  destruct (mrun s1 r) as [s2 xs]. cbn [fst snd] in *.
  split; [exact I2|]. exists (fpos s1). split; [exact O1|].
  unfold flat in *. rewrite N1 in O2. exact O2.
Qed.

(* reading on until the end delivers exactly the rest of the concatenation *)
Fixpoint read_all (fuel : nat) (s : mst) : list bytes :=
  match fuel with
  | O => []
  | S f => let '(b, s') := read_block s in
           match b with [] => [] | _ => b :: read_all f s' end
  end.

Theorem read_all_spec : forall fuel s,
  SInv s -> (length (skipn (Z.to_nat (fpos s)) (flat s)) < fuel)%nat ->
  concat (read_all fuel s) = skipn (Z.to_nat (fpos s)) (flat s).
Proof.
  induction fuel as [|f IH]; intros s HI Hf; [lia|]. cbn [read_all].
  destruct (read_block_spec s HI) as (A1 & A2 & A3 & A4 & A5 & A6).
  destruct (read_block s) as [b s']. cbn [fst snd] in *.
  destruct b as [|b0 bl]; [rewrite A6 by reflexivity; reflexivity|].
  cbn [concat]. rewrite A5. f_equal.
  assert (HF : flat s' = flat s) by (unfold flat; rewrite A2; reflexivity).
  rewrite <- HF. apply IH; [exact A1|].
  rewrite HF. rewrite A5 in Hf. rewrite app_length in Hf. cbn [length] in Hf. lia.
Qed.

(* the headline statement: however the same byte stream is cut into nodes and blocks, an in-range
   seek from the freshly opened reader followed by reading to the end yields the same bytes *)
Theorem seek_read_split_independent ns1 ns2 bs1 bs2 off wh t fuel :
  concat ns1 = concat ns2 -> ns1 <> [] -> ns2 <> [] -> (0 < bs1)%nat -> (0 < bs2)%nat ->
  match wh with 0 => Some off | 1 => Some off | 2 => Some (zlen (concat ns1) + off) | _ => None end = Some t ->
  0 <= t <= zlen (concat ns1) -> (length (concat ns1) < fuel)%nat ->
  fst (mseek (mopen ns1 bs1) off wh) = t /\ fst (mseek (mopen ns2 bs2) off wh) = t /\
  concat (read_all fuel (snd (mseek (mopen ns1 bs1) off wh))) = skipn (Z.to_nat t) (concat ns1) /\
  concat (read_all fuel (snd (mseek (mopen ns2 bs2) off wh))) = skipn (Z.to_nat t) (concat ns1).
Proof.
  intros HC H1 H2 B1 B2 HT Ht Hf.
  assert (G : forall ns bs, concat ns = concat ns1 -> ns <> [] -> (0 < bs)%nat ->
              fst (mseek (mopen ns bs) off wh) = t /\
              concat (read_all fuel (snd (mseek (mopen ns bs) off wh))) = skipn (Z.to_nat t) (concat ns1)).
  { intros ns bs Hc Hn Hb.
    destruct (mopen_spec ns bs Hn Hb) as (I0 & F0 & N0 & Bz0).
    assert (HT' : seek_target (mopen ns bs) off wh = Some t).
    { unfold seek_target. rewrite F0, N0. unfold total. rewrite Hc.
      destruct wh as [|p|p]; [exact HT| |exact HT].
      destruct p as [p|p|]; [exact HT| |rewrite Z.add_0_r; exact HT]. destruct p; exact HT. }
    destruct (mseek_spec _ off wh t I0 HT' ltac:(rewrite N0; unfold total; rewrite Hc; exact Ht))
      as (s' & E & I' & F' & P' & N' & B').
    rewrite E. cbn [fst snd]. split; [reflexivity|].
    rewrite read_all_spec; [| exact I' |].
    - unfold flat. rewrite N', N0, F', Hc. reflexivity.
    - unfold flat. rewrite N', N0, Hc. rewrite skipn_length. lia. }
  destruct (G ns1 bs1 eq_refl H1 B1) as [G1 G2].
  destruct (G ns2 bs2 (eq_sym HC) H2 B2) as [G3 G4].
  auto.
Qed.
