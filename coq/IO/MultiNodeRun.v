(* val -> val front end of the multi-node model.
   case = (nodes bs ops)      nodes: list of byte strings, bs: block size of the node reader
     op: (0) read one block (ahead(1) + consume(avail)) | (1 n) consume n | (2 off whence) seek
   result = list of (0 block position) | (2 result position) *)
From Coq Require Import List ZArith NArith Bool.
From LA Require Import Base.Val IO.MultiNodeDefs.
Import ListNotations.

Definition mop_of (v : val) : mop :=
  match lval v with
  | VI 0%Z :: _ => MRead
  | VI 1%Z :: n :: _ => MConsume (zval n)
  | _ :: o :: w :: _ => MSeek (zval o) (zval w)
  | _ => MRead
  end.
Definition val_of_mout (o : mout) : val :=
  match o with
  | MBlk b p => VL [VI 0; VB b; VI p]
  | MPos r p => VL [VI 2; VI r; VI p]
  | MCons r p => VL [VI 1; VI r; VI p]
  end.
Definition run (v : val) : val :=
  let l := lval v in
  let s0 := mopen (map bval (lval (vnth l 0))) (Z.to_nat (zval (vnth l 1))) in
  let '(_, outs) := mrun s0 (map mop_of (lval (vnth l 2))) in
  VL (map val_of_mout outs).
