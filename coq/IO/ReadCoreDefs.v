(* Executable model of the client-facing read core of libarchive/archive_read.c:
   __archive_read_filter_ahead, __archive_read_filter_consume, advance_file_pointer,
   client_skip_proxy, __archive_read_filter_seek (single data node), over a scripted client.
   Definitions only.  Faithful to the code branch by branch; every pointer dereference outside
   the block it points into sets the [oob] flag (never set under the invariant - ReadCoreProofs). *)
From Coq Require Import List ZArith NArith Bool.
From LA Require Import Base.Val Gen.Defines.
Import ListNotations.
Local Open Scope N_scope.

Definition len {A} (l : list A) : N := N.of_nat (length l).
Definition take {A} (n : N) (l : list A) := firstn (N.to_nat n) l.
Definition drop {A} (n : N) (l : list A) := skipn (N.to_nat n) l.

(* ---------------- the client (what sits behind the callbacks) ---------------- *)
Inductive ract := RSize (n : N) | RErr | RZero.             (* n-th read callback invocation *)
Inductive sact := SkUpTo (k : N) | SkRet (v : Z).           (* n-th skip callback invocation:
                                                               honest skip of at most k bytes | return v without moving *)
Inductive kact := KOk | KErr (v : Z).                       (* n-th seek callback invocation *)

Record client := mkClient {
  cdata : bytes;          (* the byte source *)
  cpos : N;               (* its current offset *)
  rplan : list ract;      (* exhausted => hand out everything that is left in one block *)
  splan : list sact;      (* exhausted => skip min(request, left) *)
  kplan : list kact;      (* exhausted => KOk *)
  has_skip : bool;
  has_seek : bool
}.

Inductive rdres := RdBlk (b : bytes) | RdEof | RdErr.

Definition set_cpos (c : client) (p : N) (rp : list ract) : client :=
  mkClient (cdata c) p rp (splan c) (kplan c) (has_skip c) (has_seek c).

Definition client_read (c : client) : rdres * client :=
  match rplan c with
  | RErr :: tl => (RdErr, set_cpos c (cpos c) tl)
  | RZero :: tl => (RdEof, set_cpos c (cpos c) tl)
  | RSize n :: tl =>
    let b := take n (drop (cpos c) (cdata c)) in
    match b with
    | [] => (RdEof, set_cpos c (cpos c) tl)
    | _ => (RdBlk b, set_cpos c (cpos c + len b) tl)
    end
  | [] =>
    let b := drop (cpos c) (cdata c) in
    match b with
    | [] => (RdEof, c)
    | _ => (RdBlk b, set_cpos c (cpos c + len b) [])
    end
  end.

Definition left (c : client) : N := len (cdata c) - cpos c.

Definition client_skip (c : client) (request : Z) : Z * client :=
  let honest k :=
    let k' := N.min k (N.min (Z.to_N request) (left c)) in
    (Z.of_N k', cpos c + k') in
  match splan c with
  | SkUpTo k :: tl =>
    let '(r, p) := honest k in
    (r, mkClient (cdata c) p (rplan c) tl (kplan c) (has_skip c) (has_seek c))
  | SkRet v :: tl => (v, mkClient (cdata c) (cpos c) (rplan c) tl (kplan c) (has_skip c) (has_seek c))
  | [] => let '(r, p) := honest (Z.to_N request) in
          (r, mkClient (cdata c) p (rplan c) [] (kplan c) (has_skip c) (has_seek c))
  end.

(* seek callback: whence 0 = SEEK_SET, 1 = SEEK_CUR, 2 = SEEK_END; the scripted client clamps the
   target into [0, size] (as archive_read_open_memory does) and returns the new offset *)
Definition client_seek (c : client) (offset : Z) (whence : Z) : Z * client :=
  let pop := match kplan c with _ :: tl => tl | [] => [] end in
  match kplan c with
  | KErr v :: _ => (v, mkClient (cdata c) (cpos c) (rplan c) (splan c) pop (has_skip c) (has_seek c))
  | _ =>
    let base := (if whence =? 0 then 0 else if whence =? 1 then Z.of_N (cpos c) else Z.of_N (len (cdata c)))%Z in
    let t := (base + offset)%Z in
    let t' := (if t <? 0 then 0 else if Z.of_N (len (cdata c)) <? t then Z.of_N (len (cdata c)) else t)%Z in
    (t', mkClient (cdata c) (Z.to_N t') (rplan c) (splan c) pop (has_skip c) (has_seek c))
  end.

(* ---------------- struct archive_read_filter ---------------- *)
Record filt := mkFilt {
  bsize : N;         (* buffer_size *)
  boff : N;          (* next - buffer *)
  copy : bytes;      (* next[0 .. avail) ; avail = len copy *)
  ctotal : N;        (* client_total *)
  cavail : N;        (* client_avail *)
  cnext : N;         (* client_next - client_buff *)
  cbuf : bytes;      (* the block client_buff points to ([] = NULL) *)
  fpos : Z;          (* position *)
  feof : bool;       (* end_of_file *)
  ffatal : bool;     (* fatal *)
  oob : bool;        (* model-only: some access fell outside the block/buffer it addressed *)
  cl : client
}.

Definition init_filt (c : client) : filt := mkFilt 0 0 [] 0 0 0 [] 0 false false false c.

Definition avail (s : filt) : N := len (copy s).

(* the bytes client_next[0 .. client_avail) *)
Definition cwin (s : filt) : bytes := take (cavail s) (drop (cnext s) (cbuf s)).

Inductive ares := Win (w : bytes) | Null (av : Z).

Definition two64 : N := 18446744073709551616.

(* "Double the buffer; watch for overflow."  None = integer overflow => fatal *)
Fixpoint grow_loop (fuel : nat) (s t m : N) : option N :=
  match fuel with
  | O => None
  | S k => if s <? m then
             let t' := (2 * t) mod two64 in
             if t' <=? s then None else grow_loop k t' t' m
           else Some s
  end.
Definition grow_size (bs m : N) : option N :=
  let s := if bs =? 0 then m else bs in grow_loop 66 s bs m.

Definition upd_buf (s : filt) (bs bo : N) (cp : bytes) (cn ca : N) : filt :=
  mkFilt bs bo cp (ctotal s) ca cn (cbuf s) (fpos s) (feof s) (ffatal s) (oob s) (cl s).
Definition set_oob (s : filt) : filt :=
  mkFilt (bsize s) (boff s) (copy s) (ctotal s) (cavail s) (cnext s) (cbuf s) (fpos s) (feof s) (ffatal s) true (cl s).
Definition set_client_state (s : filt) (ct ca cn : N) (cb : bytes) (e f : bool) (c : client) : filt :=
  mkFilt (bsize s) (boff s) (copy s) ct ca cn cb (fpos s) e f (oob s) c.

(* one iteration of the for(;;) loop of __archive_read_filter_ahead *)
Definition ahead_iter (s : filt) (m : N) : (ares * filt) + filt :=
  let av := avail s in
  if (m <=? av) && (0 <? av) then inl (Win (copy s), s)
  else if (cavail s + av <=? ctotal s) && (m <=? cavail s + av) then
    (* roll back to the client buffer *)
    let bad := (cnext s <? av) || ((0 <? cavail s + av) && (len (cbuf s) <? (cnext s - av) + (cavail s + av))) in
    let s1 := upd_buf s (bsize s) 0 [] (cnext s - av) (cavail s + av) in
    let s2 := if bad then set_oob s1 else s1 in
    inl (Win (cwin s2), s2)
  else
    (* move data forward in the copy buffer if necessary *)
    let s1 := if (0 <? boff s) && (bsize s <? boff s + m)
              then upd_buf s (bsize s) 0 (copy s) (cnext s) (cavail s) else s in
    if cavail s1 =? 0 then
      if feof s1 then inl (Null (Z.of_N av), s1)
      else
        match client_read (cl s1) with
        | (RdErr, c') => inl (Null ARCHIVE_FATAL, set_client_state s1 0 0 0 [] (feof s1) true c')
        | (RdEof, c') => inl (Null (Z.of_N av), set_client_state s1 0 0 0 [] true (ffatal s1) c')
        | (RdBlk b, c') => inr (set_client_state s1 (len b) (len b) 0 b (feof s1) (ffatal s1) c')
        end
    else
      (* ensure the copy buffer is big enough, then add client data to it *)
      let grown := bsize s1 <? m in
      match (if grown then grow_size (bsize s1) m else Some (bsize s1)) with
      | None => inl (Null ARCHIVE_FATAL,
                     mkFilt (bsize s1) (boff s1) (copy s1) (ctotal s1) (cavail s1) (cnext s1) (cbuf s1)
                            (fpos s1) (feof s1) true (oob s1) (cl s1))
      | Some bs' =>
        let bo' := if grown then 0 else boff s1 in
        let bad_room := bs' <? bo' + av in
        let room := bs' - (bo' + av) in
        let t1 := if m <? room + av then m - av else room in
        let tocopy := if cavail s1 <? t1 then cavail s1 else t1 in
        let src := take tocopy (drop (cnext s1) (cbuf s1)) in
        let bad := bad_room || (len (cbuf s1) <? cnext s1 + tocopy) in
        let s2 := upd_buf s1 bs' bo' (copy s1 ++ src) (cnext s1 + tocopy) (cavail s1 - tocopy) in
        inr (if bad then set_oob s2 else s2)
      end.

Definition OUT_OF_FUEL : Z := (-999)%Z.

Fixpoint ahead_loop (fuel : nat) (s : filt) (m : N) : ares * filt :=
  match fuel with
  | O => (Null OUT_OF_FUEL, s)
  | S k => match ahead_iter s m with
           | inl r => r
           | inr s' => ahead_loop k s' m
           end
  end.

Definition ahead_fuel (s : filt) : nat := 3 * length (rplan (cl s)) + 8.

Definition ahead (s : filt) (m : N) : ares * filt :=
  if ffatal s then (Null ARCHIVE_FATAL, s)
  else ahead_loop (ahead_fuel s) s m.

(* ---------------- client_skip_proxy (after the fix: a negative skip result is returned) ------- *)
Fixpoint skip_loop (fuel : nat) (c : client) (request total : Z) : Z * client :=
  match fuel with
  | O => (OUT_OF_FUEL, c)
  | S k =>
    let '(get, c') := client_skip c request in
    if (get <? 0)%Z then (get, c')
    else
      let total' := (total + get)%Z in
      if (get =? 0)%Z || (get =? request)%Z then (total', c')
      else if (request <? get)%Z then (ARCHIVE_FATAL, c')
      else skip_loop k c' (request - get)%Z total'
  end.

Definition skip_proxy (s : filt) (request : Z) : Z * client :=
  let c := cl s in
  if (request =? 0)%Z then (0%Z, c)
  else if has_skip c then skip_loop (2 * length (splan c) + 4) c request 0%Z
  else if has_seek c && (65536 <? request)%Z then
    (* seeker used as skipper: node-relative offsets, never beyond the end of the node *)
    let '(before, c1) := client_seek c 0 1 in
    if (before <? 0)%Z then (0%Z, c1)
    else
      let '(end_, c2) := client_seek c1 0 2 in
      let req := (if end_ <? before then 0 else if end_ - before <? request then end_ - before else request)%Z in
      let '(after, c3) := client_seek c2 (before + req) 0 in
      if (after =? before + req)%Z then (req, c3) else (ARCHIVE_FATAL, c3)
  else (0%Z, c).

(* ---------------- advance_file_pointer ---------------- *)
Definition set_pos_client (s : filt) (p : Z) (c : client) : filt :=
  mkFilt (bsize s) (boff s) (copy s) (ctotal s) (cavail s) (cnext s) (cbuf s) p (feof s) (ffatal s) (oob s) c.

Fixpoint adv_read_loop (fuel : nat) (s : filt) (request total : Z) : Z * filt :=
  match fuel with
  | O => (OUT_OF_FUEL, s)
  | S k =>
    match client_read (cl s) with
    | (RdErr, c') =>
      ((-1)%Z, mkFilt (bsize s) (boff s) (copy s) (ctotal s) (cavail s) (cnext s) [] (fpos s) (feof s) true (oob s) c')
    | (RdEof, c') =>
      (total, mkFilt (bsize s) (boff s) (copy s) (ctotal s) (cavail s) (cnext s) [] (fpos s) true (ffatal s) (oob s) c')
    | (RdBlk b, c') =>
      let n := Z.of_N (len b) in
      if (request <=? n)%Z then
        ((total + request)%Z,
         mkFilt (bsize s) (boff s) (copy s) (len b) (len b - Z.to_N request) (Z.to_N request) b
                (fpos s + request)%Z (feof s) (ffatal s) (oob s) c')
      else
        adv_read_loop k
          (mkFilt (bsize s) (boff s) (copy s) (ctotal s) (cavail s) (cnext s) b (fpos s + n)%Z (feof s) (ffatal s) (oob s) c')
          (request - n)%Z (total + n)%Z
    end
  end.

Definition advance (s : filt) (request : Z) : Z * filt :=
  if ffatal s then ((-1)%Z, s)
  else
    (* use up the copy buffer first *)
    let m1 := Z.min request (Z.of_N (avail s)) in
    let s1 := mkFilt (bsize s) (boff s + Z.to_N m1) (drop (Z.to_N m1) (copy s)) (ctotal s) (cavail s) (cnext s)
                     (cbuf s) (fpos s + m1)%Z (feof s) (ffatal s) (oob s) (cl s) in
    let r1 := (request - m1)%Z in
    (* then the client buffer *)
    let m2 := Z.min r1 (Z.of_N (cavail s1)) in
    let s2 := mkFilt (bsize s1) (boff s1) (copy s1) (ctotal s1) (cavail s1 - Z.to_N m2) (cnext s1 + Z.to_N m2)
                     (cbuf s1) (fpos s1 + m2)%Z (feof s1) (ffatal s1) (oob s1) (cl s1) in
    let r2 := (r1 - m2)%Z in
    let tot := (m1 + m2)%Z in
    if (r2 =? 0)%Z then (tot, s2)
    else
      (* can_skip is always 1 for the client filter *)
      let '(sk, c') := skip_proxy s2 r2 in
      if (sk <? 0)%Z then
        (sk, mkFilt (bsize s2) (boff s2) (copy s2) (ctotal s2) (cavail s2) (cnext s2) (cbuf s2) (fpos s2)
                    (feof s2) true (oob s2) c')
      else
        let s3 := set_pos_client s2 (fpos s2 + sk)%Z c' in
        let r3 := (r2 - sk)%Z in
        let tot3 := (tot + sk)%Z in
        if (r3 =? 0)%Z then (tot3, s3)
        else adv_read_loop (length (rplan (cl s3)) + 3) s3 r3 tot3.

(* __archive_read_filter_consume *)
Definition consume (s : filt) (request : Z) : Z * filt :=
  if (request <? 0)%Z then (ARCHIVE_FATAL, s)
  else if (request =? 0)%Z then (0%Z, s)
  else
    let '(sk, s') := advance s request in
    if (sk =? request)%Z then (sk, s') else (ARCHIVE_FATAL, s').

(* __archive_read_filter_seek, one data node (cursor stays 0, begin_position 0).
   whence: 0 SET, 1 CUR, 2 END *)
Definition seek (s : filt) (offset : Z) (whence : Z) : Z * filt :=
  if ffatal s then (ARCHIVE_FATAL, s)
  else if negb ((whence =? 0) || (whence =? 1) || (whence =? 2))%Z then (ARCHIVE_FATAL, s)
  else if negb (has_seek (cl s)) then (ARCHIVE_FAILED, s)
       (* can_seek is 1; without a seek callback client_seek_proxy fails on the first SEEK_END probe *)
  else
    let finish (r : Z) (c : client) : Z * filt :=
      if (0 <=? r)%Z then
        (r, mkFilt (bsize s) 0 [] (ctotal s) 0 (cnext s) (cbuf s) r false (ffatal s) (oob s) c)
      else (r, set_pos_client s (fpos s) c) in
    if (whence =? 0)%Z || (whence =? 1)%Z then
      let off := (if whence =? 1 then offset + fpos s else offset)%Z in
      let '(sz, c1) := client_seek (cl s) 0 2 in          (* size probe: seek(0, SEEK_END) *)
      if (sz <? 0)%Z then (sz, set_pos_client s (fpos s) c1)
      else if (off <? 0)%Z || (sz <? off)%Z then (ARCHIVE_FATAL, set_pos_client s (fpos s) c1)
      else let '(r, c2) := client_seek c1 off 0 in finish r c2
    else if (whence =? 2)%Z then
      let '(sz, c1) := client_seek (cl s) 0 2 in
      if (sz <? 0)%Z then (sz, set_pos_client s (fpos s) c1)
      else
        (* a target before the first or beyond the last byte is refused after the size probe *)
        let off := (sz + offset)%Z in
        if (off <? 0)%Z || (sz <? off)%Z then (ARCHIVE_FATAL, set_pos_client s (fpos s) c1)
        else
        let '(r, c2) := client_seek c1 off 0 in
        if (r <? ARCHIVE_OK)%Z then (r, set_pos_client s (fpos s) c2) else finish r c2
    else (ARCHIVE_FATAL, s).

(* ---------------- abstraction ---------------- *)
(* everything the reader can still see, in stream order *)
Definition rest (s : filt) : bytes := copy s ++ cwin s ++ drop (cpos (cl s)) (cdata (cl s)).

(* ---------------- operation scripts ---------------- *)
Inductive rop := OAhead (m : N) | OConsume (n : Z) | OSeek (off wh : Z).
Inductive rout := RAhead (r : ares) (pos : Z) | RConsume (r : Z) (pos : Z) | RSeek (r : Z) (pos : Z).

Definition rstep (s : filt) (o : rop) : filt * rout :=
  match o with
  | OAhead m => let '(r, s') := ahead s m in (s', RAhead r (fpos s'))
  | OConsume n => let '(r, s') := consume s n in (s', RConsume r (fpos s'))
  | OSeek off wh => let '(r, s') := seek s off wh in (s', RSeek r (fpos s'))
  end.

Fixpoint rrun (s : filt) (ops : list rop) : filt * list rout :=
  match ops with
  | [] => (s, [])
  | o :: tl => let '(s1, r) := rstep s o in
               let '(s2, rs) := rrun s1 tl in (s2, r :: rs)
  end.

(* ---------------- choose_filters: the filter pipeline is bounded ---------------- *)
(* What the bidders and the filter initialisers do is an oracle: [bids d] = the bids made at depth d
   (in bidder order), [init_ok d] = whether the winner's init succeeds, [probe_ok] = whether the
   final one-byte read-ahead succeeds.  Returns (status, number of filters pushed). *)
Fixpoint best_bidder (bids : list Z) (best : Z) (found : bool) : bool :=
  match bids with
  | [] => found
  | b :: tl => if (best <? b)%Z then best_bidder tl b true else best_bidder tl best found
  end.

Fixpoint choose_loop (fuel : nat) (depth : nat) (bids : nat -> list Z) (init_ok : nat -> bool)
         (probe_ok : bool) : Z * nat :=
  match fuel with
  | O => (ARCHIVE_FATAL, depth)                      (* "Input requires too many filters" *)
  | S k =>
    if best_bidder (bids depth) 0%Z false then
      if init_ok depth then choose_loop k (S depth) bids init_ok probe_ok
      else (ARCHIVE_FATAL, S depth)
    else if probe_ok then (ARCHIVE_OK, depth) else (ARCHIVE_FATAL, depth)
  end.

Definition choose_filters (bids : nat -> list Z) (init_ok : nat -> bool) (probe_ok : bool) : Z * nat :=
  choose_loop (N.to_nat MAX_NUMBER_FILTERS) 0 bids init_ok probe_ok.
