(* Executable model of the multi-volume ("data node") layer of libarchive/archive_read.c:
   the dataset table (begin_position, total_size) maintained by __archive_read_filter_seek, its three
   whence cases with their cursor-walking loops, client_switch_proxy (close + open of the next node),
   the end-of-node switch inside __archive_read_filter_ahead, and the open-time probe of
   archive_read_open1 / choose_filters.  The client is a set of honest seekable nodes (read returns
   min(block size, what is left), lseek semantics for the seeker).  The filter's copy buffer is not in
   this model (ReadCoreDefs has it, over a single node); a read here is "ahead(1) then consume
   everything the window holds", which after open or a seek is exactly one client block.
   Definitions only. *)
From Coq Require Import List ZArith NArith Bool.
From LA Require Import Base.Val.
Import ListNotations.
Local Open Scope Z_scope.

Definition zlen {A} (l : list A) : Z := Z.of_nat (length l).
Definition M_FATAL : Z := -30.

(* dataset[i].begin_position, dataset[i].total_size; -1 = not yet known *)
Definition tabf := nat -> Z * Z.
Definition upd_b (tb : tabf) (i : nat) (v : Z) : tabf := fun j => if Nat.eqb j i then (v, snd (tb j)) else tb j.
Definition upd_t (tb : tabf) (i : nat) (v : Z) : tabf := fun j => if Nat.eqb j i then (fst (tb j), v) else tb j.
Definition tab0 : tabf := fun j => if Nat.eqb j 0 then (0, -1) else (-1, -1).   (* archive_read_open1: dataset[0].begin_position = 0 *)

Record mst := mkM {
  nodes : list bytes;   (* the data nodes, in order (client.dataset[i].data) *)
  bsz : nat;            (* block size of the node reader *)
  cursor : nat;         (* client.cursor *)
  npos : Z;             (* offset of the descriptor of the open node *)
  tab : tabf;
  pending : bytes;      (* client block read ahead and not yet consumed *)
  powner : nat;         (* ghost: the node whose read callback handed out [pending]; the block lives in
                           that node's buffer, which is released when the node is closed *)
  meof : bool;          (* filter->end_of_file *)
  fpos : Z              (* filter->position *)
}.

Definition nnodes (s : mst) : nat := length (nodes s).
Definition node (s : mst) (i : nat) : bytes := nth i (nodes s) [].
Definition nsize (s : mst) (i : nat) : Z := zlen (node s i).

Definition with_client (s : mst) (c : nat) (p : Z) : mst :=
  mkM (nodes s) (bsz s) c p (tab s) (pending s) (powner s) (meof s) (fpos s).

(* client_switch_proxy: nothing when already there, else close + open (offset 0); the block the old
   node handed out dies with it (client_buff/client_avail are cleared) *)
Definition switch (s : mst) (i : nat) : mst :=
  if Nat.eqb (cursor s) i then s
  else mkM (nodes s) (bsz s) i 0 (tab s) [] (powner s) (meof s) (fpos s).

(* the read loop of __archive_read_filter_ahead at the client: a zero-length read on a node that is
   not the last one switches to the next node and retries; on the last node it is end of file *)
Fixpoint mread_loop (fuel : nat) (s : mst) : bytes * mst :=
  match fuel with
  | O => ([], s)
  | S f =>
    let blk := firstn (bsz s) (skipn (Z.to_nat (npos s)) (node s (cursor s))) in
    match blk with
    | _ :: _ => (blk, mkM (nodes s) (bsz s) (cursor s) (npos s + zlen blk) (tab s) (pending s) (cursor s) (meof s) (fpos s))
    | [] =>
      if Nat.eqb (S (cursor s)) (nnodes s) then
        ([], mkM (nodes s) (bsz s) (cursor s) (npos s) (tab s) (pending s) (powner s) true (fpos s))
      else mread_loop f (switch s (S (cursor s)))
    end
  end.
Definition mread (s : mst) : bytes * mst := mread_loop (nnodes s) s.

(* archive_read_open1: probe one block (choose_filters), then go back to node 0 unless data is buffered *)
Definition mopen (ns : list bytes) (bs : nat) : mst :=
  let s0 := mkM ns bs 0 0 tab0 [] 0 false 0 in
  let '(blk, s1) := mread s0 in
  let s2 := mkM (nodes s1) (bsz s1) (cursor s1) (npos s1) (tab s1) blk (powner s1) (meof s1) 0 in
  match blk with [] => switch s2 0 | _ => s2 end.

(* ahead(1) + consume(avail) *)
Definition read_block (s : mst) : bytes * mst :=
  match pending s with
  | _ :: _ => (pending s, mkM (nodes s) (bsz s) (cursor s) (npos s) (tab s) [] (powner s) (meof s) (fpos s + zlen (pending s)))
  | [] =>
    if meof s then ([], s)
    else let '(blk, s1) := mread s in
         (blk, mkM (nodes s1) (bsz s1) (cursor s1) (npos s1) (tab s1) [] (powner s1) (meof s1) (fpos s1 + zlen blk))
  end.

(* the net effect of the client_switch_proxy calls of a seek loop that visits nodes c1, c1+1, .., c2
   and ends with a SEEK_END on c2: the buffered block survives only if no call changed the node *)
Definition moved_to (s : mst) (c1 c2 : nat) (p : Z) : mst :=
  mkM (nodes s) (bsz s) c2 p (tab s)
      (if Nat.eqb (cursor s) c1 && Nat.eqb c1 c2 then pending s else []) (powner s) (meof s) (fpos s).

(* ---- __archive_read_filter_seek ---- *)
(* SEEK_SET, first loop: walk over nodes whose extent is already known *)
Fixpoint set_loop1 (fuel n : nat) (tb : tabf) (c : nat) (off : Z) : tabf * nat :=
  match fuel with
  | O => (tb, c)
  | S f =>
    let b := fst (tb c) in let t := snd (tb c) in
    if (b <? 0) || (t <? 0) || (b + t >? off) || (n <=? c + 1)%nat then (tb, c)
    else set_loop1 f n (upd_b tb (S c) (b + t)) (S c) off
  end.
(* second loop: switch to the node, learn its size with SEEK_END, go on while the target lies beyond it *)
Fixpoint set_loop2 (fuel n : nat) (size : nat -> Z) (tb : tabf) (c : nat) (off : Z) : tabf * nat :=
  match fuel with
  | O => (tb, c)
  | S f =>
    let tb1 := upd_t tb c (size c) in
    let b := fst (tb1 c) in
    if (b + size c >? off) || (n <=? c + 1)%nat then (tb1, c)
    else set_loop2 f n size (upd_b tb1 (S c) (b + size c)) (S c) off
  end.

Fixpoint end_loop1 (fuel n : nat) (tb : tabf) (c : nat) : tabf * nat :=
  match fuel with
  | O => (tb, c)
  | S f =>
    let b := fst (tb c) in let t := snd (tb c) in
    if (b <? 0) || (t <? 0) || (n <=? c + 1)%nat then (tb, c)
    else end_loop1 f n (upd_b tb (S c) (b + t)) (S c)
  end.
Fixpoint end_loop2 (fuel n : nat) (size : nat -> Z) (tb : tabf) (c : nat) : tabf * nat * Z :=
  match fuel with
  | O => (tb, c, 0)
  | S f =>
    let tb1 := upd_t tb c (size c) in
    let r := fst (tb1 c) + size c in
    if (n <=? c + 1)%nat then (tb1, c, r)
    else end_loop2 f n size (upd_b tb1 (S c) r) (S c)
  end.
(* third loop: walk back from the last node to the one holding the target; None = the target lies
   before the first byte (the code returns ARCHIVE_FATAL), also the error value for exhausted fuel *)
Fixpoint end_loop3 (fuel : nat) (tb : tabf) (c : nat) (r off : Z) : option (nat * Z * Z) :=
  match fuel with
  | O => None
  | S f =>
    if r + off >=? fst (tb c) then Some (c, r, off)
    else let off1 := off + snd (tb c) in
         match c with
         | O => None
         | S c' => end_loop3 f tb c' (fst (tb c') + snd (tb c')) off1
         end
  end.

(* the honest node seeker, SEEK_SET: lseek() refuses negative offsets, accepts anything else *)
Definition node_seek_set (o : Z) : Z := if o <? 0 then M_FATAL else o.

Definition finish_seek (s : mst) (tb : tabf) (c : nat) (o : Z) : Z * mst :=
  let r0 := node_seek_set o in
  if r0 <? 0 then (r0, mkM (nodes s) (bsz s) c (npos s) tb (pending s) (powner s) (meof s) (fpos s))
  else
    let r := r0 + fst (tb c) in
    if r >=? 0 then (r, mkM (nodes s) (bsz s) c o tb [] (powner s) false r)
    else (r, mkM (nodes s) (bsz s) c o tb (pending s) (powner s) (meof s) (fpos s)).

Definition seek_set (s : mst) (off : Z) : Z * mst :=
  let n := nnodes s in
  let '(tb1, c1) := set_loop1 n n (tab s) 0%nat off in
  let '(tb2, c2) := set_loop2 n n (nsize s) tb1 c1 off in
  let o := off - fst (tb2 c2) in
  let s2 := moved_to s c1 c2 (nsize s c2) in
  if (o <? 0) || (o >? snd (tb2 c2)) then
    (M_FATAL, mkM (nodes s2) (bsz s2) c2 (npos s2) tb2 (pending s2) (powner s2) (meof s2) (fpos s2))
  else finish_seek s2 tb2 c2 o.

Definition seek_end (s : mst) (off : Z) : Z * mst :=
  let n := nnodes s in
  let '(tb1, c1) := end_loop1 n n (tab s) 0%nat in
  let '(tb2, c2, r) := end_loop2 n n (nsize s) tb1 c1 in
  (* the client now sits at the end of node c2 *)
  let s2 := moved_to s c1 c2 (nsize s c2) in
  let refused := (M_FATAL, mkM (nodes s2) (bsz s2) c2 (npos s2) tb2 (pending s2) (powner s2) (meof s2) (fpos s2)) in
  match end_loop3 n tb2 c2 r off with
  | None => refused
  | Some (c3, r3, off3) =>
    let o := (r3 + off3) - fst (tb2 c3) in
    if o >? snd (tb2 c3) then refused      (* beyond the last byte *)
    else finish_seek (switch s2 c3) tb2 c3 o   (* client_switch_proxy(c3) reopens when c3 <> c2 *)
  end.

(* whence: 0 SEEK_SET, 1 SEEK_CUR, 2 SEEK_END, anything else is refused *)
Definition mseek (s : mst) (off whence : Z) : Z * mst :=
  match whence with
  | 0 => seek_set s off
  | 1 => seek_set s (off + fpos s)
  | 2 => seek_end s off
  | _ => (M_FATAL, s)
  end.

(* ---- __archive_read_filter_consume / advance_file_pointer ---- *)
(* client_skip_proxy for a client with a seek callback and no skip callback: requests over 64k are
   skipped with the seeker, inside the current node only *)
Definition skip_by_seek (s : mst) (req : Z) : Z * mst :=
  if 65536 <? req then
    let before := npos s in
    let end_ := nsize s (cursor s) in
    let r := if end_ <? before then 0 else if end_ - before <? req then end_ - before else req in
    (r, mkM (nodes s) (bsz s) (cursor s) (before + r) (tab s) (pending s) (powner s) (meof s) (fpos s))
  else (0, s).

(* the read loop of advance_file_pointer: read and discard, switching nodes at their ends;
   returns the number of bytes skipped here *)
Fixpoint adv_loop (fuel : nat) (s : mst) (req acc : Z) : Z * mst :=
  match fuel with
  | O => (acc, s)
  | S f =>
    let blk := firstn (bsz s) (skipn (Z.to_nat (npos s)) (node s (cursor s))) in
    match blk with
    | [] =>
      if Nat.eqb (S (cursor s)) (nnodes s) then
        (acc, mkM (nodes s) (bsz s) (cursor s) (npos s) (tab s) [] (powner s) true (fpos s))
      else adv_loop f (switch s (S (cursor s))) req acc
    | _ :: _ =>
      let n := zlen blk in
      if n >=? req then
        (acc + req, mkM (nodes s) (bsz s) (cursor s) (npos s + n) (tab s) (skipn (Z.to_nat req) blk) (cursor s)
                        (meof s) (fpos s + req))
      else adv_loop f (mkM (nodes s) (bsz s) (cursor s) (npos s + n) (tab s) [] (powner s) (meof s) (fpos s + n))
                    (req - n) (acc + n)
    end
  end.

Definition advance (s : mst) (request : Z) : Z * mst :=
  (* the client buffer first *)
  let k := Z.min request (zlen (pending s)) in
  let s1 := mkM (nodes s) (bsz s) (cursor s) (npos s) (tab s) (skipn (Z.to_nat k) (pending s)) (powner s) (meof s) (fpos s + k) in
  let req := request - k in
  if req =? 0 then (k, s1)
  else
    let '(sk, s2) := skip_by_seek s1 req in
    let s3 := mkM (nodes s2) (bsz s2) (cursor s2) (npos s2) (tab s2) (pending s2) (powner s2) (meof s2) (fpos s2 + sk) in
    if req - sk =? 0 then (k + sk, s3)
    else adv_loop (length (concat (nodes s)) + nnodes s + 1) s3 (req - sk) (k + sk).

Definition consume (s : mst) (request : Z) : Z * mst :=
  if request <? 0 then (M_FATAL, s)
  else if request =? 0 then (0, s)
  else let '(sk, s') := advance s request in
       if sk =? request then (sk, s') else (M_FATAL, s').

Inductive mop := MRead | MSeek (off whence : Z) | MConsume (n : Z).
Inductive mout := MBlk (b : bytes) (p : Z) | MPos (r : Z) (p : Z) | MCons (r : Z) (p : Z).

Definition mstep (s : mst) (o : mop) : mst * mout :=
  match o with
  | MRead => let '(b, s') := read_block s in (s', MBlk b (fpos s'))
  | MSeek off wh => let '(r, s') := mseek s off wh in (s', MPos r (fpos s'))
  | MConsume n => let '(r, s') := consume s n in (s', MCons r (fpos s'))
  end.

Fixpoint mrun (s : mst) (ops : list mop) : mst * list mout :=
  match ops with
  | [] => (s, [])
  | o :: r => let '(s1, x) := mstep s o in let '(s2, xs) := mrun s1 r in (s2, x :: xs)
  end.
