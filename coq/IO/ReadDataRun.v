(* val -> val front end of the readData models (correspondence protocol, see harness/readData.c). *)
From Coq Require Import List ZArith NArith Bool.
From LA Require Import Base.Val Gen.Defines IO.ReadDataDefs.
Import ListNotations.
Local Open Scope Z_scope.

Definition ev_of_val (v : val) : ev :=
  match lval v with
  | VI 0 :: o :: d :: _ => EvBlk (zval o) (bval d)
  | _ :: c :: _ => EvErr (zval c)
  | _ => EvErr ARCHIVE_FATAL
  end.

Definition eof_of_val (v : val) : option Z :=
  match lval v with e :: _ => Some (zval e) | [] => None end.

Definition act_of_val (v : val) : action :=
  match lval v with
  | VI 0 :: s :: _ => ARead (zval s)
  | VI 1 :: _ => ABlock
  | _ => ASkip
  end.

Definition entry_of_val (v : val) : entry_case :=
  let l := lval v in
  mkEC (mkSrc (map ev_of_val (lval (vnth l 0))) (eof_of_val (vnth l 1)) 0)
       (map act_of_val (lval (vnth l 3))).

Definition val_of_ares (r : aresult) : val :=
  match r with
  | RRead ret b => VL [VI ret; VB b]
  | RBlock st off b => VL [VI st; VI off; VB b]
  | RSkip st => VL [VI st]
  end.

Definition run_script (l : list val) : val :=
  let has_skip := boolval (vnth l 1) in
  let ents := lval (vnth l 2) in
  let fx := boolval (vnth l 3) in
  let es := map entry_of_val ents in
  let '(res, fin, srcs) := run_entries fx has_skip ARCHIVE_OK es in
  let counts := map (fun p : entry_case * source =>
                       VL [VI (s_calls (snd p));
                           VI (Z.of_nat (length (s_evs (ec_src (fst p)))) - Z.of_nat (length (s_evs (snd p))))])
                    (combine es srcs) in
  VL [VL (map (fun p : Z * list aresult => VL (VI (fst p) :: map val_of_ares (snd p))) res);
      VI fin; VL counts].

Definition sb_of_val (v : val) : sblock :=
  let l := lval v in mkSB (zval (vnth l 0)) (zval (vnth l 1)) (boolval (vnth l 2)).

Definition run_tar (l : list val) : val :=
  let sm := mkStream (zval (vnth l 1)) (Z.max 1 (zval (vnth l 2))) 0 in
  let t := mkTar (map sb_of_val (lval (vnth l 3))) (zval (vnth l 4)) (zval (vnth l 5))
                 (zval (vnth l 6)) (zval (vnth l 7)) in
  let nreads := zval (vnth l 8) in
  let do_skip := boolval (vnth l 9) in
  let fxs := boolval (vnth l 10) in
  let n := if nreads <? 0 then (length (t_sl t) + Z.to_nat (Z.max 0 (t_ebr t)) + 2)%nat
           else Z.to_nat nreads in
  let '(blocks, t1, sm1) := tar_read_all n t sm in
  let '(sk, sm2) := if do_skip then let '(rc, _, sm') := tar_skip fxs t1 sm1 in ([VI rc], sm')
                    else ([], sm1) in
  VL [VL (map (fun b : Z * Z * Z * Z =>
                 let '(rc, off, sz, pos) := b in VL [VI rc; VI off; VI sz; VI pos; VI 1]) blocks);
      VL sk; VI (sm_pos sm2)].

Definition run (v : val) : val :=
  let l := lval v in
  match vnth l 0 with
  | VI 0 => run_script l
  | VI 2 => run_tar l
  | _ => VErr 1
  end.
