(* val -> val front end of the write-core model (correspondence protocol).
   case  = (0 bpb_arg (bibl)? oret (plan..) (ops..))     raw format, scripted callback
         | (1 bpb_arg (bibl)? size (ops..))              raw format, archive_write_open_memory
   plan item: k >= 0 = accept at most k bytes, negative = fail;  op: (0) header, (1 xdata) data,
   (2 z) set_bytes_in_last_block, (3) finish_entry, (4) close, (5) free.
   result = (open_status ((status ((offered ret xaccepted)..))..) closer_calls)       mode 0
          | (open_status ((status used)..) xcontent leaked)                                   mode 1 *)
From Coq Require Import List ZArith NArith Bool.
From LA Require Import Base.Val Gen.Defines Gen.WriteCore IO.WriteCoreDefs.
Import ListNotations.
Local Open Scope Z_scope.

Definition resp_of_val (v : val) : resp :=
  let z := zval v in if z <? 0 then Fail else Accept (Z.to_N z).

Definition op_of_val (v : val) : op :=
  match lval v with
  | VI 0 :: _ => OHeader
  | VI 1 :: d :: _ => OData (bval d)
  | VI 2 :: z :: _ => OSetBibl (zval z)
  | VI 3 :: _ => OFinish
  | VI 4 :: _ => OClose
  | _ => OFree
  end.

Definition val_of_inv (i : inv) : val :=
  VL [VI (Z.of_nat (i_off i)); VI (i_ret i); VB (i_acc i)].

Definition bibl_of_val (v : val) : Z :=
  match lval v with z :: _ => zval z | [] => default_bytes_in_last_block end.

Definition tree_free_mode : free_mode :=
  if free_closes_filters_when_fatal then FreeClosesFilters
  else if client_free_closes_open_client then FreeClientReleases else FreeSkips.

Definition run_plan (l : list val) : val :=
  let bs := effective_bpb default_bytes_per_block (zval (vnth l 1)) in
  let bibl := bibl_of_val (vnth l 2) in
  let oret := zval (vnth l 3) in
  let pl := map resp_of_val (lval (vnth l 4)) in
  let ops := map op_of_val (lval (vnth l 5)) in
  let '(a0, ost) := api_open bibl oret false pl in
  let '(a1, res) := api_run plan_cb tree_free_mode bs a0 ops in
  VL [VI ost;
      VL (map (fun r : api * list inv * Z =>
                 let '(_, tr, st) := r in VL [VI st; VL (map val_of_inv tr)]) res);
      VI (Z.of_nat (a_closer a1)); Vbool (a_leaked a1)].

Definition run_mem (l : list val) : val :=
  let bs := effective_bpb default_bytes_per_block (zval (vnth l 1)) in
  let bibl := bibl_of_val (vnth l 2) in
  let size := Z.to_nat (zval (vnth l 3)) in
  let ops := map op_of_val (lval (vnth l 4)) in
  let '(a0, ost) := api_open bibl ARCHIVE_OK true (mkMem 0 size []) in
  let '(a1, res) := api_run memory_write tree_free_mode bs a0 ops in
  VL [VI ost;
      VL (map (fun r : api * list inv * Z =>
                 let '(a, _, st) := r in VL [VI st; VI (Z.of_nat (m_used (a_cb a)))]) res);
      VB (m_data (a_cb a1)); Vbool (a_leaked a1)].

Definition run (v : val) : val :=
  let l := lval v in
  match vnth l 0 with
  | VI 0 => run_plan l
  | VI 1 => run_mem l
  | _ => VErr 1
  end.
