(* Lemmas about the read-core model (ReadCoreDefs.v). *)
From Coq Require Import List ZArith NArith Bool Lia.
From LA Require Import Base.Val Gen.Defines IO.ReadCoreDefs.
Import ListNotations.
Local Open Scope N_scope.

(* ---------------- lists with N indices ---------------- *)
Lemma len_app {A} (a b : list A) : len (a ++ b) = len a + len b.
Proof. unfold len; rewrite app_length; lia. Qed.

Lemma len_nil {A} : len (@nil A) = 0.
Proof. reflexivity. Qed.

Lemma len_0_nil {A} (l : list A) : len l = 0 -> l = [].
Proof. unfold len; destruct l; simpl; [auto|lia]. Qed.

Lemma len_take {A} n (l : list A) : len (take n l) = N.min n (len l).
Proof. unfold len, take; rewrite firstn_length; lia. Qed.

Lemma len_drop {A} n (l : list A) : len (drop n l) = len l - n.
Proof. unfold len, drop; rewrite skipn_length; lia. Qed.

Lemma take_drop {A} n (l : list A) : take n l ++ drop n l = l.
Proof. apply firstn_skipn. Qed.

Lemma take_all {A} n (l : list A) : len l <= n -> take n l = l.
Proof. unfold len, take; intros; apply firstn_all2; lia. Qed.

Lemma drop_all {A} n (l : list A) : len l <= n -> drop n l = [].
Proof. unfold len, drop; intros; apply skipn_all2; lia. Qed.

Lemma drop_0 {A} (l : list A) : drop 0 l = l.
Proof. reflexivity. Qed.

Lemma take_0 {A} (l : list A) : take 0 l = [].
Proof. reflexivity. Qed.

Lemma drop_drop {A} a b (l : list A) : drop a (drop b l) = drop (a + b) l.
Proof.
  unfold drop. replace (N.to_nat (a + b)) with (N.to_nat b + N.to_nat a)%nat by lia.
  revert l; induction (N.to_nat b) as [|k IH]; intros l; simpl; auto.
  destruct l; simpl; [destruct (N.to_nat a); reflexivity|apply IH].
Qed.

Lemma drop_add {A} a b (l : list A) : drop (a + b) l = drop b (drop a l).
Proof. rewrite drop_drop; f_equal; lia. Qed.

Lemma take_app_l {A} n (a b : list A) : n <= len a -> take n (a ++ b) = take n a.
Proof.
  unfold len, take; intros H. rewrite firstn_app.
  replace (N.to_nat n - length a)%nat with 0%nat by lia. simpl; apply app_nil_r.
Qed.

Lemma drop_app_l {A} n (a b : list A) : n <= len a -> drop n (a ++ b) = drop n a ++ b.
Proof.
  unfold len, drop; intros H. rewrite skipn_app.
  replace (N.to_nat n - length a)%nat with 0%nat by lia. reflexivity.
Qed.

Lemma drop_app_exact {A} (a b : list A) : drop (len a) (a ++ b) = b.
Proof.
  unfold len, drop. rewrite Nat2N.id, skipn_app, skipn_all, Nat.sub_diag. reflexivity.
Qed.

Lemma take_app_exact {A} (a b : list A) : take (len a) (a ++ b) = a.
Proof.
  unfold len, take. rewrite Nat2N.id, firstn_app, firstn_all, Nat.sub_diag. simpl; apply app_nil_r.
Qed.

(* take (a+b) l = take a l ++ take b (drop a l) *)
Lemma take_add {A} a b (l : list A) : take (a + b) l = take a l ++ take b (drop a l).
Proof.
  unfold take, drop. replace (N.to_nat (a + b)) with (N.to_nat a + N.to_nat b)%nat by lia.
  revert l; induction (N.to_nat a) as [|k IH]; intros l; simpl; auto.
  destruct l; simpl; [destruct (N.to_nat b); reflexivity|f_equal; apply IH].
Qed.

Lemma drop_take_comm {A} a b (l : list A) : drop a (take (a + b) l) = take b (drop a l).
Proof.
  unfold take, drop. rewrite skipn_firstn_comm. f_equal; lia.
Qed.

(* two decompositions of one list: the shorter tail is a suffix of the longer one *)
Lemma app_suffix {A} (u a v b : list A) :
  u ++ a = v ++ b -> len a <= len b -> exists w, b = w ++ a /\ u = v ++ w.
Proof.
  revert v; induction u as [|x u IH]; intros v H Hl.
  - simpl in H; subst a. rewrite len_app in Hl.
    assert (len v = 0) by lia. apply len_0_nil in H; subst v. exists []; auto.
  - destruct v as [|y v].
    + simpl in H; subst b. exists (x :: u); auto.
    + simpl in H; inversion H; subst y.
      destruct (IH v H2 Hl) as (w & -> & ->). exists w; auto.
Qed.

Definition prefix {A} (w l : list A) : Prop := exists t, l = w ++ t.

(* ---------------- the client ---------------- *)
Definition cstream (c : client) : bytes := drop (cpos c) (cdata c).

Definition good_ract (a : ract) : Prop := match a with RSize n => 0 < n | _ => False end.
Definition nofault (c : client) : Prop := Forall good_ract (rplan c).

(* number of read-callback invocations that can still return data *)
Definition mu (c : client) : nat :=
  (length (rplan c) + match cstream c with [] => 0 | _ => 1 end)%nat.

Lemma take_nonempty {A} n (l : list A) : 0 < n -> l <> [] -> take n l <> [].
Proof.
  unfold take; intros Hn Hl. destruct l; [congruence|].
  destruct (N.to_nat n) eqn:E; [lia|simpl; discriminate].
Qed.

Lemma client_read_spec c r c' :
  nofault c -> client_read c = (r, c') ->
  nofault c' /\ cdata c' = cdata c /\ splan c' = splan c /\ kplan c' = kplan c /\
  has_skip c' = has_skip c /\ has_seek c' = has_seek c /\
  match r with
  | RdBlk b => b <> [] /\ cstream c = b ++ cstream c' /\ (mu c' < mu c)%nat /\
               (length (rplan c') <= length (rplan c))%nat
  | RdEof => cstream c = [] /\ cstream c' = [] /\ (length (rplan c') <= length (rplan c))%nat
  | RdErr => False
  end.
Proof.
  unfold nofault, client_read; intros Hn H.
  destruct (rplan c) as [|a tl] eqn:EP.
  - destruct (drop (cpos c) (cdata c)) as [|x b] eqn:ED.
    + inversion H; subst; rewrite EP; repeat split; auto; unfold cstream; rewrite ED; auto.
    + inversion H; subst; clear H; unfold set_cpos; simpl; repeat split; auto; try discriminate.
      * unfold cstream; simpl. rewrite drop_add, ED.
        rewrite (drop_all (len (x :: b))) by lia. rewrite app_nil_r; reflexivity.
      * unfold mu, cstream; simpl. rewrite EP, ED; simpl.
        rewrite drop_add, ED, (drop_all (len (x :: b))) by lia. simpl; lia.
  - inversion Hn as [|? ? Ha Htl]; subst.
    destruct a as [n| |]; simpl in Ha; try contradiction.
    destruct (take n (drop (cpos c) (cdata c))) as [|x b] eqn:ET.
    + inversion H; subst; clear H; unfold set_cpos; simpl; repeat split; auto.
      * destruct (drop (cpos c) (cdata c)) eqn:ED; [unfold cstream; rewrite ED; auto|].
        exfalso; refine (take_nonempty n _ Ha _ ET); discriminate.
      * unfold cstream; simpl.
        destruct (drop (cpos c) (cdata c)) eqn:ED; auto.
        exfalso; refine (take_nonempty n _ Ha _ ET); discriminate.
    + inversion H; subst; clear H; unfold set_cpos; simpl; repeat split; auto; try discriminate.
      * unfold cstream; simpl. rewrite drop_add, app_comm_cons. fold (cstream c).
        rewrite <- ET. fold (cstream c).
        rewrite len_take.
        destruct (N.le_ge_cases n (len (cstream c))) as [Hle|Hge].
        -- rewrite N.min_l by lia. symmetry; apply take_drop.
        -- rewrite N.min_r by lia. rewrite (take_all n) by lia. rewrite drop_all by lia.
           rewrite app_nil_r; reflexivity.
      * unfold mu, cstream; simpl. rewrite EP; simpl.
        destruct (drop (cpos c) (cdata c)) eqn:ED; [unfold take in ET; destruct (N.to_nat n); discriminate|].
        destruct (drop (cpos c + len (x :: b)) (cdata c)); lia.
Qed.

(* ---------------- grow_size ---------------- *)
Definition two63 : N := 9223372036854775808.

Lemma grow_loop_ge f : forall s t m r, grow_loop f s t m = Some r -> s <= r /\ m <= r.
Proof.
  induction f as [|k IH]; intros s t m r H; cbn [grow_loop] in H; [discriminate|].
  destruct (s <? m) eqn:E.
  - cbv zeta in H. destruct ((2 * t) mod two64 <=? s) eqn:E2; [discriminate|].
    apply IH in H. apply N.leb_gt in E2. lia.
  - inversion H; subst. apply N.ltb_ge in E. lia.
Qed.

Lemma grow_loop_some f : forall t m, 0 < t -> m <= two63 -> m <= t * 2 ^ (N.of_nat f) ->
  exists r, grow_loop (S f) t t m = Some r.
Proof.
  induction f as [|k IH]; intros t m Ht Hm Hb.
  - simpl in *. rewrite N.mul_1_r in Hb.
    destruct (t <? m) eqn:E; [apply N.ltb_lt in E; lia|eauto].
  - cbn [grow_loop]. destruct (t <? m) eqn:E; [|eauto].
    apply N.ltb_lt in E.
    assert (H2 : (2 * t) mod two64 = 2 * t).
    { apply N.mod_small. unfold two63, two64 in *. lia. }
    rewrite H2. destruct (2 * t <=? t) eqn:E2; [apply N.leb_le in E2; lia|].
    apply IH; try lia.
    rewrite Nat2N.inj_succ, N.pow_succ_r' in Hb. lia.
Qed.

Lemma grow_size_ok bs m : bs < m -> m <= two63 ->
  exists r, grow_size bs m = Some r /\ m <= r /\ bs <= r.
Proof.
  intros Hlt Hm; unfold grow_size.
  destruct (bs =? 0) eqn:E.
  - apply N.eqb_eq in E; subst. simpl.
    assert (m <? m = false) by (apply N.ltb_ge; lia).
    cbn [grow_loop]. rewrite H. exists m; repeat split; lia.
  - apply N.eqb_neq in E.
    destruct (grow_loop_some 65 bs m) as [r Hr]; try lia.
    { assert (two63 <= bs * 2 ^ N.of_nat 65).
      { change (N.of_nat 65) with 65. unfold two63.
        assert (1 <= bs) by lia. change (2 ^ 65) with 36893488147419103232. lia. }
      lia. }
    exists r; split; [exact Hr|]. apply grow_loop_ge in Hr. lia.
Qed.

(* ---------------- invariant ---------------- *)
Definition fresh (s : filt) : Prop := cnext s + cavail s = ctotal s /\ ctotal s = len (cbuf s).

Record Inv (s : filt) : Prop := mkInv {
  inv_oob : oob s = false;
  inv_buf : boff s + avail s <= bsize s;
  inv_fresh : (copy s <> [] \/ 0 < cavail s) -> fresh s;
  inv_tail : copy s <> [] -> exists u v, u ++ copy s = v ++ take (cnext s) (cbuf s);
  inv_eof : feof s = true -> cstream (cl s) = [];
  inv_nf : nofault (cl s)
}.

Lemma init_Inv c : nofault c -> Inv (init_filt c).
Proof.
  intros H; constructor; cbn [init_filt oob boff bsize copy cavail cnext cbuf ctotal feof cl].
  - reflexivity.
  - unfold avail; cbn [init_filt copy]. unfold len; simpl; lia.
  - intros [F|F]; [congruence|lia].
  - intros F; congruence.
  - discriminate.
  - exact H.
Qed.

Lemma cwin_fresh s : fresh s -> cwin s = drop (cnext s) (cbuf s).
Proof.
  intros [H1 H2]; unfold cwin. apply take_all. rewrite len_drop. lia.
Qed.

Lemma rest_eq s : rest s = copy s ++ cwin s ++ cstream (cl s).
Proof. reflexivity. Qed.

Definition res_ok (r : ares) (rst : bytes) (m : N) : Prop :=
  match r with
  | Win w => prefix w rst /\ m <= len w /\ (0 < len w \/ m = 0)
  | Null a => a = Z.of_N (len rst) /\ len rst < m
  end.

Definition M (s : filt) (m : N) : nat :=
  (3 * mu (cl s) + (if (cavail s =? 0)%N then 0 else if (avail s <? m)%N then 2 else 1))%nat.

(* the skip plan may only be consumed from the front *)
Definition same_client_cfg (c c' : client) : Prop :=
  cdata c' = cdata c /\ (exists pre, splan c = pre ++ splan c') /\ kplan c' = kplan c /\
  has_skip c' = has_skip c /\ has_seek c' = has_seek c.

Lemma same_cfg_refl c : same_client_cfg c c.
Proof. split; [reflexivity|split; [exists []; reflexivity|repeat split]]. Qed.

Lemma same_cfg_of_eq c c' :
  cdata c' = cdata c -> splan c' = splan c -> kplan c' = kplan c ->
  has_skip c' = has_skip c -> has_seek c' = has_seek c -> same_client_cfg c c'.
Proof. intros A B C0 D E. split; [auto|split; [exists []; rewrite B; reflexivity|auto]]. Qed.

Lemma same_cfg_trans c1 c2 c3 : same_client_cfg c1 c2 -> same_client_cfg c2 c3 -> same_client_cfg c1 c3.
Proof.
  intros (A1 & (p1 & B1) & C1 & D1 & E1) (A2 & (p2 & B2) & C2 & D2 & E2).
  split; [congruence|split; [exists (p1 ++ p2); rewrite B1, B2, app_assoc; reflexivity|repeat split; congruence]].
Qed.

Definition step_ok (s s' : filt) : Prop :=
  Inv s' /\ rest s' = rest s /\ fpos s' = fpos s /\ ffatal s' = false /\
  same_client_cfg (cl s) (cl s') /\ (length (rplan (cl s')) <= length (rplan (cl s)))%nat.

Lemma len_pos_nonnil {A} (l : list A) : l <> [] -> 0 < len l.
Proof. destruct l; [congruence|unfold len; simpl; lia]. Qed.

Lemma nonnil_len_pos {A} (l : list A) : 0 < len l -> l <> [].
Proof. destruct l; [unfold len; simpl; lia|discriminate]. Qed.

Ltac step_ok_tac :=
  unfold step_ok; split; [|split; [|split; [|split; [|split]]]].

Lemma ahead_iter_spec s m :
  Inv s -> m <= two63 -> ffatal s = false ->
  match ahead_iter s m with
  | inl (r, s') => step_ok s s' /\ res_ok r (rest s) m
  | inr s' => step_ok s s' /\ (M s' m < M s m)%nat
  end.
Proof.
  intros HI Hm Hf. pose proof HI as HI0. destruct HI as [Ioob Ibuf Ifresh Itail Ieof Inf].
  unfold ahead_iter.
  set (av := avail s) in *.
  destruct ((m <=? av) && (0 <? av)) eqn:EA.
  { (* satisfied from the copy buffer *)
    apply andb_prop in EA; destruct EA as [E1 E2]. apply N.leb_le in E1. apply N.ltb_lt in E2.
    split.
    - step_ok_tac; auto; try apply same_cfg_refl; try lia.
    - simpl. split; [exists (cwin s ++ cstream (cl s)); reflexivity|]. fold (avail s); fold av. lia. }
  destruct ((cavail s + av <=? ctotal s) && (m <=? cavail s + av)) eqn:EB.
  { (* roll back *)
    apply andb_prop in EB; destruct EB as [E1 E2]. apply N.leb_le in E1. apply N.leb_le in E2.
    destruct (copy s) as [|x cp] eqn:EC.
    - (* copy buffer empty *)
      assert (Hav : av = 0) by (unfold av, avail; rewrite EC; reflexivity).
      rewrite Hav in *. rewrite !N.add_0_r, N.sub_0_r in *.
      assert (Hbad : (cnext s <? 0) || (0 <? cavail s) && (len (cbuf s) <? cnext s + cavail s) = false).
      { assert (HN : cnext s <? 0 = false) by (apply N.ltb_ge; lia). rewrite HN. cbn [orb].
        destruct (0 <? cavail s) eqn:E3; cbn [andb]; auto.
        apply N.ltb_lt in E3. destruct (Ifresh (or_intror E3)) as [F1 F2].
        apply N.ltb_ge. lia. }
      rewrite Hbad.
      set (s1 := upd_buf s (bsize s) 0 [] (cnext s) (cavail s)).
      assert (Hcw : cwin s1 = cwin s) by reflexivity.
      split.
      + step_ok_tac; try reflexivity; auto.
        * constructor; cbn [s1 upd_buf oob boff bsize copy cavail cnext cbuf ctotal feof cl].
          -- exact Ioob.
          -- unfold avail; cbn [copy]. unfold len; simpl; lia.
          -- intros [F|F]; [congruence|]. apply Ifresh; auto.
          -- congruence.
          -- exact Ieof.
          -- exact Inf.
        * rewrite !rest_eq, Hcw, EC. reflexivity.
        * apply same_cfg_refl.
      + cbn [res_ok]. rewrite Hcw. split; [|split].
        * exists (cstream (cl s)). rewrite rest_eq, EC. reflexivity.
        * destruct (N.eq_dec (cavail s) 0) as [Z|NZ]; [lia|].
          assert (HP : 0 < cavail s) by lia.
          destruct (Ifresh (or_intror HP)) as [F1 F2].
          rewrite cwin_fresh by (split; auto). rewrite len_drop. lia.
        * destruct (N.eq_dec (cavail s) 0) as [Z|NZ]; [right; lia|left].
          assert (HP : 0 < cavail s) by lia.
          destruct (Ifresh (or_intror HP)) as [F1 F2].
          rewrite cwin_fresh by (split; auto). rewrite len_drop. lia.
    - (* copy buffer non-empty: its bytes are still in the client block *)
      rewrite <- EC in *.
      assert (Hne : copy s <> []) by (rewrite EC; discriminate).
      destruct (Ifresh (or_introl Hne)) as [F1 F2].
      assert (Hle : av <= cnext s) by lia.
      destruct (Itail Hne) as (u & v & Huv).
      assert (Hlt : len (copy s) <= len (take (cnext s) (cbuf s))).
      { rewrite len_take. fold (avail s). fold av. lia. }
      destruct (app_suffix _ _ _ _ Huv Hlt) as (w & Hw & _).
      assert (Hlw : len w = cnext s - av).
      { assert (HH : len (take (cnext s) (cbuf s)) = len w + len (copy s)) by (rewrite Hw, len_app; reflexivity).
        rewrite len_take in HH. fold (avail s) in HH. fold av in HH. lia. }
      assert (Hcb : cbuf s = w ++ copy s ++ drop (cnext s) (cbuf s)).
      { rewrite <- (take_drop (cnext s) (cbuf s)) at 1. rewrite Hw, <- app_assoc. reflexivity. }
      assert (Hdrop : drop (cnext s - av) (cbuf s) = copy s ++ drop (cnext s) (cbuf s)).
      { rewrite Hcb at 1. rewrite <- Hlw. apply drop_app_exact. }
      assert (Hbad : (cnext s <? av) || (0 <? cavail s + av) && (len (cbuf s) <? cnext s - av + (cavail s + av)) = false).
      { assert (HA : cnext s <? av = false) by (apply N.ltb_ge; lia). rewrite HA; simpl.
        assert (HB : len (cbuf s) <? cnext s - av + (cavail s + av) = false) by (apply N.ltb_ge; lia).
        rewrite HB. apply andb_false_r. }
      rewrite Hbad.
      set (s1 := upd_buf s (bsize s) 0 [] (cnext s - av) (cavail s + av)).
      assert (Hcw : cwin s1 = copy s ++ cwin s).
      { unfold cwin at 1; cbn [s1 upd_buf cavail cnext cbuf]. rewrite Hdrop.
        rewrite cwin_fresh by (split; auto).
        apply take_all. rewrite len_app, len_drop. fold (avail s); fold av. lia. }
      split.
      + step_ok_tac; try reflexivity; auto.
        * constructor; cbn [s1 upd_buf oob boff bsize copy cavail cnext cbuf ctotal feof cl].
          -- exact Ioob.
          -- unfold avail; cbn [copy]. unfold len; simpl; lia.
          -- intros _. unfold fresh; cbn [s1 upd_buf cnext cavail ctotal cbuf]. lia.
          -- congruence.
          -- exact Ieof.
          -- exact Inf.
        * rewrite !rest_eq, Hcw. cbn [s1 upd_buf copy cl]. rewrite <- app_assoc. reflexivity.
        * apply same_cfg_refl.
      + cbn [res_ok]. rewrite Hcw. split; [|split].
        * exists (cstream (cl s)). rewrite rest_eq, <- app_assoc. reflexivity.
        * rewrite len_app. rewrite cwin_fresh by (split; auto). rewrite len_drop.
          fold (avail s); fold av. lia.
        * left. rewrite len_app. pose proof (len_pos_nonnil _ Hne). lia. }
  (* neither: first the optional compaction *)
  set (s1 := if (0 <? boff s) && (bsize s <? boff s + m)
             then upd_buf s (bsize s) 0 (copy s) (cnext s) (cavail s) else s).
  assert (H1same : copy s1 = copy s /\ cavail s1 = cavail s /\ cnext s1 = cnext s /\ cbuf s1 = cbuf s /\
                   ctotal s1 = ctotal s /\ cl s1 = cl s /\ feof s1 = feof s /\ ffatal s1 = ffatal s /\
                   fpos s1 = fpos s /\ oob s1 = oob s /\ bsize s1 = bsize s /\
                   boff s1 + av <= bsize s /\ (boff s1 = 0 \/ boff s1 + m <= bsize s)).
  { unfold s1. destruct ((0 <? boff s) && (bsize s <? boff s + m)) eqn:EM;
      cbn [upd_buf copy cavail cnext cbuf ctotal cl feof ffatal fpos oob bsize boff].
    - repeat split; auto; try lia.
    - repeat split; auto.
      apply andb_false_iff in EM. destruct EM as [E|E].
      + apply N.ltb_ge in E. left; lia.
      + apply N.ltb_ge in E. right; lia. }
  destruct H1same as (Hc1 & Hca1 & Hcn1 & Hcb1 & Hct1 & Hcl1 & He1 & Hf1 & Hp1 & Ho1 & Hbs1 & Hb1 & Hb1').
  clearbody s1.
  assert (Hav1 : avail s1 = av) by (unfold avail, av; rewrite Hc1; reflexivity).
  assert (HI1 : Inv s1).
  { constructor.
    - congruence.
    - rewrite Hbs1, Hav1; exact Hb1.
    - rewrite Hc1, Hca1. unfold fresh. rewrite Hcn1, Hca1, Hct1, Hcb1. exact Ifresh.
    - rewrite Hc1, Hcn1, Hcb1. exact Itail.
    - rewrite Hcl1, He1. exact Ieof.
    - rewrite Hcl1; exact Inf. }
  assert (Hrest1 : rest s1 = rest s).
  { rewrite !rest_eq. unfold cwin. rewrite Hc1, Hca1, Hcn1, Hcb1, Hcl1. reflexivity. }
  destruct (cavail s1 =? 0) eqn:ECA.
  { (* client buffer used up *)
    apply N.eqb_eq in ECA. rewrite Hca1 in ECA.
    assert (Hcw0 : cwin s = []) by (unfold cwin; rewrite ECA; reflexivity).
    assert (Havm : av < m).
    { apply andb_false_iff in EA. apply andb_false_iff in EB. rewrite ECA in EB.
      destruct EA as [E|E]; [apply N.leb_gt in E; lia|]. apply N.ltb_ge in E.
      assert (av = 0) by lia.
      destruct EB as [E'|E']; [apply N.leb_gt in E'; lia|apply N.leb_gt in E'; lia]. }
    destruct (feof s1) eqn:EE.
    - (* end of file already seen *)
      assert (EEs : feof s = true) by congruence.
      split.
      + step_ok_tac; auto; try congruence.
        * rewrite Hcl1; apply same_cfg_refl.
        * rewrite Hcl1; lia.
      + cbn [res_ok]. rewrite rest_eq, Hcw0, (Ieof EEs), !app_nil_r. fold (avail s). fold av. split; auto.
    - destruct (client_read (cl s1)) as [r c'] eqn:ER.
      rewrite Hcl1 in ER.
      pose proof (client_read_spec _ _ _ Inf ER) as (Hnf' & Hcd & Hsp & Hkp & Hhs & Hhk & Hr).
      destruct r as [b| |]; [| |contradiction].
      + (* a new block *)
        destruct Hr as (Hbne & Hstream & Hmu & Hlen).
        split.
        * step_ok_tac; cbn [set_client_state fpos ffatal cl]; try congruence.
          -- constructor; cbn [set_client_state oob boff bsize copy cavail cnext cbuf ctotal feof cl]; try congruence.
             ++ unfold avail; cbn [set_client_state copy]. fold (avail s1). rewrite Hbs1, Hav1; exact Hb1.
             ++ intros _. unfold fresh; cbn [set_client_state cnext cavail ctotal cbuf]. lia.
             ++ intros _. exists [], (copy s1). rewrite take_0, app_nil_r; reflexivity.
          -- rewrite !rest_eq. cbn [set_client_state copy cl]. unfold cwin at 1; cbn [set_client_state cavail cnext cbuf].
             rewrite Hc1, Hcw0, Hstream. rewrite drop_0, take_all by lia. reflexivity.
          -- apply same_cfg_of_eq; auto.
        * unfold M; cbn [set_client_state cl cavail copy]. rewrite ECA.
          assert (HZ : len b =? 0 = false).
          { apply N.eqb_neq. pose proof (len_pos_nonnil _ Hbne). lia. }
          rewrite HZ. rewrite N.eqb_refl.
          match goal with |- context [(?a <? m)%N] => destruct (a <? m)%N end; lia.
      + (* end of input *)
        destruct Hr as (Hs0 & Hs0' & Hlen).
        split.
        * step_ok_tac; cbn [set_client_state fpos ffatal cl]; try congruence.
          -- constructor; cbn [set_client_state oob boff bsize copy cavail cnext cbuf ctotal feof cl]; try congruence.
             ++ unfold avail; cbn [set_client_state copy]. fold (avail s1). rewrite Hbs1, Hav1; exact Hb1.
             ++ intros _. unfold fresh; cbn [set_client_state cnext cavail ctotal cbuf]. unfold len; simpl; lia.
             ++ intros _. exists [], (copy s1). rewrite app_nil_r; reflexivity.
          -- rewrite !rest_eq. cbn [set_client_state copy cl]. unfold cwin at 1; cbn [set_client_state cavail cnext cbuf].
             rewrite Hc1, Hcw0, Hs0, Hs0'. reflexivity.
          -- apply same_cfg_of_eq; auto.
        * cbn [res_ok]. rewrite rest_eq, Hcw0, Hs0, !app_nil_r. fold (avail s). fold av. split; auto. }
  (* copy more client data into the copy buffer *)
  apply N.eqb_neq in ECA. rewrite Hca1 in ECA.
  assert (Hcapos : 0 < cavail s) by lia.
  destruct (Ifresh (or_intror Hcapos)) as [F1 F2].
  assert (Havm : av < m).
  { apply andb_false_iff in EA. apply andb_false_iff in EB.
    destruct (N.lt_ge_cases av m) as [|Hge]; auto. exfalso.
    destruct EA as [E|E]; [apply N.leb_gt in E; lia|]. apply N.ltb_ge in E.
    destruct EB as [E'|E']; apply N.leb_gt in E'; lia. }
  set (grown := bsize s1 <? m).
  assert (Hg : exists bs', (if grown then grow_size (bsize s1) m else Some (bsize s1)) = Some bs' /\
                 m <= bs' /\ bsize s <= bs' /\ (grown = false -> bs' = bsize s)).
  { unfold grown. destruct (bsize s1 <? m) eqn:EG.
    - apply N.ltb_lt in EG. destruct (grow_size_ok _ _ EG Hm) as (r & Hr & H1 & H2).
      exists r; repeat split; auto; [rewrite <- Hbs1; auto|discriminate].
    - apply N.ltb_ge in EG. exists (bsize s1); repeat split; auto; rewrite <- Hbs1; lia. }
  destruct Hg as (bs' & Hgs & Hmb & Hbb & Hng). rewrite Hgs.
  set (bo' := if grown then 0 else boff s1).
  assert (Hbo : bo' + av <= bs' /\ bo' + m <= bs').
  { unfold bo'. destruct grown eqn:EG.
    - split; [|lia]. lia.
    - rewrite (Hng eq_refl). split; [exact Hb1|].
      destruct Hb1' as [Z|Z]; [rewrite Z|exact Z].
      unfold grown in EG. apply N.ltb_ge in EG. rewrite Hbs1 in EG. lia. }
  destruct Hbo as [Hbo1 Hbo2].
  cbv zeta. fold grown. fold bo'.
  assert (Hbr : bs' <? bo' + av = false) by (apply N.ltb_ge; lia).
  rewrite Hbr. cbn [orb].
  set (room := bs' - (bo' + av)).
  assert (Hroom : m - av <= room) by (unfold room; lia).
  assert (Ht1 : (if m <? room + av then m - av else room) = m - av).
  { destruct (m <? room + av) eqn:E; auto. apply N.ltb_ge in E. lia. }
  rewrite Ht1.
  set (tocopy := if cavail s1 <? m - av then cavail s1 else m - av).
  assert (Htc : tocopy = N.min (cavail s) (m - av)).
  { unfold tocopy. rewrite Hca1. destruct (cavail s <? m - av) eqn:E.
    - apply N.ltb_lt in E; lia.
    - apply N.ltb_ge in E; lia. }
  assert (Htcpos : 0 < tocopy) by lia.
  assert (Htcle : tocopy <= cavail s) by lia.
  assert (Hnb : len (cbuf s1) <? cnext s1 + tocopy = false).
  { apply N.ltb_ge. rewrite Hcb1, Hcn1. lia. }
  rewrite Hnb.
  set (src := take tocopy (drop (cnext s1) (cbuf s1))).
  assert (Hlsrc : len src = tocopy).
  { unfold src. rewrite len_take, len_drop, Hcb1, Hcn1. lia. }
  assert (Hsplit : src ++ take (cavail s - tocopy) (drop (cnext s + tocopy) (cbuf s)) = cwin s).
  { unfold src, cwin. rewrite Hcn1, Hcb1.
    replace (cavail s) with (tocopy + (cavail s - tocopy)) at 2 by lia.
    rewrite take_add, drop_add. reflexivity. }
  split.
  - step_ok_tac; cbn [upd_buf fpos ffatal cl]; try congruence.
    + constructor; cbn [upd_buf oob boff bsize copy cavail cnext cbuf ctotal feof cl]; try congruence.
      * unfold avail; cbn [upd_buf copy]. rewrite len_app, Hlsrc. fold (avail s1). rewrite Hav1. unfold room in *. lia.
      * intros _. unfold fresh; cbn [upd_buf cnext cavail ctotal cbuf]; rewrite ?Hcn1, ?Hca1, ?Hct1, ?Hcb1; lia.
      * intros _. rewrite Hcn1, Hcb1.
        assert (Htk : take (cnext s + tocopy) (cbuf s) = take (cnext s) (cbuf s) ++ src).
        { unfold src. rewrite Hcn1, Hcb1. apply take_add. }
        destruct (copy s1) as [|y cp1] eqn:EC1.
        -- exists (take (cnext s) (cbuf s)), []. rewrite Htk. reflexivity.
        -- rewrite <- EC1 in *. rewrite Hc1.
           destruct (Itail ltac:(rewrite <- Hc1, EC1; discriminate)) as (u & v & Huv).
           exists u, v. rewrite Htk, !app_assoc, Huv. reflexivity.
      * destruct HI1; auto.
    + rewrite !rest_eq. cbn [upd_buf copy cl]. unfold cwin at 1; cbn [upd_buf cavail cnext cbuf].
      rewrite Hc1, Hcn1, Hca1, Hcb1, Hcl1, <- app_assoc.
      f_equal. rewrite app_assoc, Hsplit. reflexivity.
    + rewrite Hcl1; apply same_cfg_refl.
    + rewrite Hcl1; lia.
  - unfold M, avail; cbn [upd_buf cl cavail copy]. rewrite Hcl1, Hca1.
    assert (HZ : cavail s =? 0 = false) by (apply N.eqb_neq; lia). rewrite HZ.
    fold (avail s). fold av. assert (HL : av <? m = true) by (apply N.ltb_lt; lia). rewrite HL.
    destruct (cavail s - tocopy =? 0) eqn:E0; [lia|].
    apply N.eqb_neq in E0.
    assert (tocopy = m - av) by lia.
    rewrite len_app, Hlsrc. fold (avail s1). rewrite Hav1.
    assert (HG : av + tocopy <? m = false) by (apply N.ltb_ge; lia). rewrite HG. lia.
Qed.

Lemma step_ok_trans s1 s2 s3 : step_ok s1 s2 -> step_ok s2 s3 -> step_ok s1 s3.
Proof.
  intros (I2 & R2 & P2 & F2 & S2 & L2) (I3 & R3 & P3 & F3 & S3 & L3).
  step_ok_tac; auto; try congruence; [eapply same_cfg_trans; eauto|lia].
Qed.

Lemma ahead_loop_spec m : m <= two63 -> forall fuel s,
  Inv s -> ffatal s = false -> (M s m < fuel)%nat ->
  step_ok s (snd (ahead_loop fuel s m)) /\ res_ok (fst (ahead_loop fuel s m)) (rest s) m.
Proof.
  intros Hm; induction fuel as [|k IH]; intros s HI Hf HM; [lia|].
  cbn [ahead_loop].
  pose proof (ahead_iter_spec s m HI Hm Hf) as H.
  destruct (ahead_iter s m) as [[r s']|s'].
  - exact H.
  - destruct H as [Hs Hlt].
    pose proof Hs as (I' & R' & P' & F' & _).
    destruct (IH s' I' F' ltac:(lia)) as [H1 H2].
    split; [eapply step_ok_trans; eauto|]. rewrite <- R'. exact H2.
Qed.

Lemma M_bound s m : (M s m < ahead_fuel s)%nat.
Proof.
  unfold M, ahead_fuel, mu.
  destruct (cstream (cl s)); destruct (cavail s =? 0)%N; try destruct (avail s <? m)%N; lia.
Qed.

(* __archive_read_filter_ahead on a fault-free client: the window is a prefix of the bytes still to
   come, at least [m] long; NULL only when fewer than [m] bytes are left, with *avail = that count;
   nothing observable moves. *)
Lemma ahead_spec s m r s' :
  Inv s -> ffatal s = false -> m <= two63 -> ahead s m = (r, s') ->
  step_ok s s' /\ res_ok r (rest s) m.
Proof.
  intros HI Hf Hm H; unfold ahead in H; rewrite Hf in H.
  pose proof (ahead_loop_spec m Hm (ahead_fuel s) s HI Hf (M_bound s m)) as [H1 H2].
  rewrite H in H1, H2. auto.
Qed.

(* the out-of-fuel value is unreachable *)
Lemma ahead_never_out_of_fuel s m r s' :
  Inv s -> ffatal s = false -> m <= two63 -> ahead s m = (r, s') -> r <> Null OUT_OF_FUEL.
Proof.
  intros HI Hf Hm H; destruct (ahead_spec _ _ _ _ HI Hf Hm H) as [_ Hr].
  intros ->; simpl in Hr. destruct Hr as [Hr _]. unfold OUT_OF_FUEL in Hr. lia.
Qed.

(* ---------------- advance_file_pointer / consume (no skip, no seek callbacks) ---------------- *)
Definition plain (c : client) : Prop := has_skip c = false /\ has_seek c = false.

Lemma skip_proxy_plain s r : plain (cl s) -> skip_proxy s r = (0%Z, cl s).
Proof.
  intros [H1 H2]; unfold skip_proxy. rewrite H1, H2. destruct (r =? 0)%Z; reflexivity.
Qed.

Lemma Inv_stale s :
  oob s = false -> boff s <= bsize s -> copy s = [] -> cavail s = 0 -> (feof s = true -> cstream (cl s) = []) ->
  nofault (cl s) -> Inv s.
Proof.
  intros H1 Hb H2 H3 H4 H5; constructor; auto.
  - unfold avail; rewrite H2. unfold len; simpl; lia.
  - intros [F|F]; [congruence|lia].
  - congruence.
Qed.

Lemma rest_stale s : copy s = [] -> cavail s = 0 -> rest s = cstream (cl s).
Proof. intros H1 H2; rewrite rest_eq; unfold cwin; rewrite H1, H2. reflexivity. Qed.

Lemma adv_read_loop_spec : forall fuel s req tot r s',
  oob s = false -> boff s <= bsize s -> copy s = [] -> cavail s = 0 -> nofault (cl s) -> ffatal s = false ->
  (feof s = true -> cstream (cl s) = []) ->
  (0 < req)%Z -> (mu (cl s) < fuel)%nat ->
  adv_read_loop fuel s req tot = (r, s') ->
  let n := Z.min req (Z.of_N (len (cstream (cl s)))) in
  r = (tot + n)%Z /\ Inv s' /\ rest s' = drop (Z.to_N n) (cstream (cl s)) /\
  fpos s' = (fpos s + n)%Z /\ ffatal s' = false /\ same_client_cfg (cl s) (cl s').
Proof.
  induction fuel as [|k IH]; intros s req tot r s' Ho Hbb Hc Hca Hnf Hff Heof Hreq Hmu H; [lia|].
  cbn [adv_read_loop] in H.
  destruct (client_read (cl s)) as [rd c'] eqn:ER.
  pose proof (client_read_spec _ _ _ Hnf ER) as (Hnf' & Hcd & Hsp & Hkp & Hhs & Hhk & Hr).
  destruct rd as [b| |]; [| |contradiction].
  - destruct Hr as (Hbne & Hstream & Hmu' & Hlen).
    pose proof (len_pos_nonnil _ Hbne) as Hbpos.
    assert (Hfe : feof s = false).
    { destruct (feof s); auto. rewrite (Heof eq_refl) in Hstream.
      destruct b; [congruence|discriminate]. }
    destruct (req <=? Z.of_N (len b))%Z eqn:E.
    + apply Z.leb_le in E. inversion H; subst; clear H.
      assert (Hn : Z.min req (Z.of_N (len (cstream (cl s)))) = req).
      { rewrite Hstream, len_app. lia. }
      cbv zeta. rewrite Hn.
      split; [reflexivity|]. split; [|split; [|split; [|split]]]; cbn [fpos ffatal cl]; auto.
      * constructor; cbn [oob boff bsize copy cavail cnext cbuf ctotal feof cl]; auto.
        -- unfold avail; cbn [copy]; rewrite Hc. unfold len; simpl. lia.
        -- intros _. unfold fresh; cbn [cnext cavail ctotal cbuf]. lia.
        -- congruence.
        -- congruence.
      * rewrite rest_eq. cbn [copy cl]. rewrite Hc. unfold cwin; cbn [cavail cnext cbuf].
        rewrite Hstream. rewrite drop_app_l by lia. cbn [app]. f_equal.
        apply take_all. rewrite len_drop. lia.
      * apply same_cfg_of_eq; auto.
    + apply Z.leb_gt in E.
      set (s1 := mkFilt (bsize s) (boff s) (copy s) (ctotal s) (cavail s) (cnext s) b
                        (fpos s + Z.of_N (len b))%Z (feof s) (ffatal s) (oob s) c') in *.
      assert (Hmu1 : (mu (cl s1) < k)%nat) by (cbn [s1 cl]; lia).
      destruct (IH s1 (req - Z.of_N (len b))%Z (tot + Z.of_N (len b))%Z r s') as (R1 & I1 & Rs1 & P1 & F1 & C1);
        cbn [s1 oob copy cavail cl ffatal feof boff bsize]; auto; try lia.
      { intros F; congruence. }
      cbn [s1 cl fpos] in *.
      assert (Hn : Z.min req (Z.of_N (len (cstream (cl s)))) =
                   (Z.of_N (len b) + Z.min (req - Z.of_N (len b)) (Z.of_N (len (cstream c'))))%Z).
      { rewrite Hstream, len_app. lia. }
      cbv zeta. rewrite Hn.
      split; [lia|]. split; [exact I1|]. split; [|split; [lia|split; [exact F1|]]].
      * rewrite Rs1, Hstream.
        set (q := Z.min (req - Z.of_N (len b)) (Z.of_N (len (cstream c')))).
        assert (0 <= q)%Z by (unfold q; lia).
        replace (Z.to_N (Z.of_N (len b) + q)) with (len b + Z.to_N q) by lia.
        rewrite drop_add, drop_app_exact. reflexivity.
      * eapply same_cfg_trans; [apply same_cfg_of_eq; eauto|exact C1].
  - destruct Hr as (Hs0 & Hs0' & Hlen). inversion H; subst; clear H.
    assert (Hn : Z.min req (Z.of_N (len (cstream (cl s)))) = 0%Z).
    { rewrite Hs0. unfold len; simpl. lia. }
    cbv zeta. rewrite Hn.
    split; [lia|]. split; [|split; [|split; [|split]]]; cbn [fpos ffatal cl]; auto; try lia.
    + apply Inv_stale; cbn [oob copy cavail feof cl boff bsize]; auto.
    + rewrite rest_stale by (cbn [copy cavail]; auto). cbn [cl]. rewrite Hs0, Hs0'. reflexivity.
    + apply same_cfg_of_eq; auto.
Qed.

(* ---------------- honest skip callbacks ---------------- *)
Definition honest_sact (a : sact) : Prop := match a with SkUpTo _ => True | SkRet _ => False end.
(* a client whose skip callback (if any) skips at most what it is asked and reports it truthfully,
   and that has no seek callback *)
Definition skippable (c : client) : Prop := has_seek c = false /\ Forall honest_sact (splan c).

Lemma plain_skippable_loop c : has_skip c = false -> has_seek c = false -> True.
Proof. trivial. Qed.

Lemma client_skip_honest c req g c' :
  (0 < req)%Z -> Forall honest_sact (splan c) -> client_skip c req = (g, c') ->
  (0 <= g <= Z.min req (Z.of_N (left c)))%Z /\ cpos c' = cpos c + Z.to_N g /\
  cdata c' = cdata c /\ rplan c' = rplan c /\ kplan c' = kplan c /\
  has_skip c' = has_skip c /\ has_seek c' = has_seek c /\ Forall honest_sact (splan c') /\
  (exists pre, splan c = pre ++ splan c') /\
  (length (splan c') < length (splan c) \/ splan c = [] /\ splan c' = [] /\ g = Z.min req (Z.of_N (left c)))%nat.
Proof.
  intros Hreq Hh H. unfold client_skip in H.
  destruct (splan c) as [|a tl] eqn:EP.
  - inversion H; subst; clear H. cbn [cpos cdata rplan splan kplan has_skip has_seek].
    assert (HG : Z.of_N (N.min (Z.to_N req) (N.min (Z.to_N req) (left c))) = Z.min req (Z.of_N (left c))) by lia.
    rewrite HG. repeat split; auto; try lia.
    + exists []; reflexivity.
  - inversion Hh as [|? ? Ha Htl]; subst. destruct a as [k|v]; [|contradiction].
    inversion H; subst; clear H. cbn [cpos cdata rplan splan kplan has_skip has_seek].
    repeat split; auto; try lia.
    + exists [SkUpTo k]; reflexivity.
Qed.

Lemma cstream_after_skip c c' t :
  cdata c' = cdata c -> cpos c' = cpos c + t -> cstream c' = drop t (cstream c).
Proof. intros A B. unfold cstream. rewrite A, B, drop_add. reflexivity. Qed.

Lemma left_len c : left c = len (cstream c).
Proof. unfold left, cstream. rewrite len_drop. reflexivity. Qed.

Lemma skip_loop_spec : forall fuel c req tot r c',
  (0 < req)%Z -> Forall honest_sact (splan c) ->
  (2 * length (splan c) + (if (left c =? 0)%N then 0 else 1) + 1 < fuel)%nat ->
  skip_loop fuel c req tot = (r, c') ->
  exists t, (0 <= t <= Z.min req (Z.of_N (left c)))%Z /\ r = (tot + t)%Z /\
    cpos c' = cpos c + Z.to_N t /\ cdata c' = cdata c /\ rplan c' = rplan c /\ kplan c' = kplan c /\
    has_skip c' = has_skip c /\ has_seek c' = has_seek c /\ Forall honest_sact (splan c') /\
    (exists pre, splan c = pre ++ splan c').
Proof.
  induction fuel as [|k IH]; intros c req tot r c' Hreq Hh Hf H; [lia|].
  cbn [skip_loop] in H.
  destruct (client_skip c req) as [g c1] eqn:EC.
  destruct (client_skip_honest _ _ _ _ Hreq Hh EC) as (G & P & D & R & K & S1 & S2 & Hh1 & (pre & Hpre) & Hlen).
  assert (E0 : (g <? 0)%Z = false) by (apply Z.ltb_ge; lia). rewrite E0 in H.
  destruct ((g =? 0)%Z || (g =? req)%Z) eqn:E1.
  - inversion H; subst; clear H. exists g. repeat split; auto; try lia. exists pre; auto.
  - apply orb_false_iff in E1. destruct E1 as [Eg0 Egr]. apply Z.eqb_neq in Eg0. apply Z.eqb_neq in Egr.
    assert (E2 : (req <? g)%Z = false) by (apply Z.ltb_ge; lia). rewrite E2 in H.
    assert (Hleft1 : left c1 = left c - Z.to_N g) by (unfold left; rewrite D, P; lia).
    apply IH in H; try lia; auto.
    + destruct H as (t & T & -> & P2 & D2 & R2 & K2 & S3 & S4 & Hh2 & (pre2 & Hpre2)).
      exists (g + t)%Z. rewrite Hleft1 in T.
      split; [lia|]. split; [lia|]. split; [rewrite P2, P; lia|].
      split; [congruence|]. split; [congruence|]. split; [congruence|]. split; [congruence|].
      split; [congruence|]. split; [exact Hh2|].
      exists (pre ++ pre2). rewrite Hpre, Hpre2, app_assoc. reflexivity.
    + destruct Hlen as [Hl|(E & E' & Hg)].
      * destruct (left c1 =? 0); destruct (left c =? 0); lia.
      * (* plan exhausted: this skip took everything that was left *)
        rewrite E in Hf. rewrite E'. cbn [length] in *.
        assert (left c1 = 0) by (rewrite Hleft1; lia).
        rewrite H0. cbn [N.eqb].
        destruct (left c =? 0) eqn:EL; [apply N.eqb_eq in EL; lia|]. lia.
Qed.

Lemma skip_proxy_spec s r sk c' :
  skippable (cl s) -> (0 < r)%Z -> skip_proxy s r = (sk, c') ->
  exists t, (0 <= t <= Z.min r (Z.of_N (left (cl s))))%Z /\ sk = t /\
    cpos c' = cpos (cl s) + Z.to_N t /\ cdata c' = cdata (cl s) /\ rplan c' = rplan (cl s) /\
    kplan c' = kplan (cl s) /\ has_skip c' = has_skip (cl s) /\ has_seek c' = has_seek (cl s) /\
    Forall honest_sact (splan c') /\ (exists pre, splan (cl s) = pre ++ splan c').
Proof.
  intros [Hk Hh] Hr H. unfold skip_proxy in H.
  assert (E : (r =? 0)%Z = false) by (apply Z.eqb_neq; lia). rewrite E in H.
  destruct (has_skip (cl s)) eqn:ES.
  - apply skip_loop_spec in H; auto.
    + destruct H as (t & T & -> & P & D & R & K & S1 & S2 & Hh' & Hpre).
      exists t. rewrite Z.add_0_l. repeat split; auto; try lia; try congruence.
    + destruct (left (cl s) =? 0); lia.
  - rewrite Hk in H. cbn [andb] in H. inversion H; subst; clear H.
    exists 0%Z. repeat split; auto; try lia. exists []; reflexivity.
Qed.

Lemma plain_skippable c : has_skip c = false -> has_seek c = false -> splan c = [] -> skippable c.
Proof. intros _ B E. split; [exact B|rewrite E; constructor]. Qed.

Lemma drop_copy_tail (cp : bytes) (m1 : N) u v T :
  u ++ cp = v ++ T -> exists u', u' ++ drop m1 cp = v ++ T.
Proof.
  intros H. exists (u ++ take m1 cp). rewrite <- app_assoc, take_drop. exact H.
Qed.

Lemma advance_spec s req r s' :
  Inv s -> ffatal s = false -> skippable (cl s) -> (0 < req)%Z ->
  advance s req = (r, s') ->
  let n := Z.min req (Z.of_N (len (rest s))) in
  r = n /\ Inv s' /\ rest s' = drop (Z.to_N n) (rest s) /\ fpos s' = (fpos s + n)%Z /\
  ffatal s' = false /\ same_client_cfg (cl s) (cl s').
Proof.
  intros HI Hf Hpl Hreq H. pose proof HI as [Ioob Ibuf Ifresh Itail Ieof Inf].
  unfold advance in H. rewrite Hf in H.
  set (av := avail s) in *.
  set (m1 := Z.min req (Z.of_N av)) in *.
  assert (Hm1 : (0 <= m1 <= Z.of_N av)%Z /\ (m1 <= req)%Z) by (unfold m1; lia).
  set (s1 := mkFilt (bsize s) (boff s + Z.to_N m1) (drop (Z.to_N m1) (copy s)) (ctotal s) (cavail s) (cnext s)
                    (cbuf s) (fpos s + m1)%Z (feof s) false (oob s) (cl s)) in *.
  cbn [s1 cavail bsize boff copy ctotal cnext cbuf fpos feof ffatal oob cl] in H.
  set (r1 := (req - m1)%Z) in *.
  set (m2 := Z.min r1 (Z.of_N (cavail s))) in *.
  assert (Hm2 : (0 <= m2 <= Z.of_N (cavail s))%Z /\ (m2 <= r1)%Z) by (unfold m2, r1; lia).
  set (s2 := mkFilt (bsize s) (boff s + Z.to_N m1) (drop (Z.to_N m1) (copy s)) (ctotal s)
                    (cavail s - Z.to_N m2) (cnext s + Z.to_N m2) (cbuf s) (fpos s + m1 + m2)%Z
                    (feof s) false (oob s) (cl s)) in *.
  (* facts about the two buffer stages *)
  assert (Hcopy2 : r1 <> 0%Z -> drop (Z.to_N m1) (copy s) = []).
  { intros Hr1. apply drop_all. fold (avail s); fold av. unfold r1, m1 in *. lia. }
  assert (Hm2z : drop (Z.to_N m1) (copy s) <> [] -> m2 = 0%Z).
  { intros Hne. destruct (Z.eq_dec r1 0) as [Z0|NZ]; [unfold m2; lia|]. elim Hne; auto. }
  assert (Hfr2 : (drop (Z.to_N m1) (copy s) <> [] \/ 0 < cavail s - Z.to_N m2) -> fresh s).
  { intros [F|F]; apply Ifresh.
    - left. intros E; rewrite E in F. unfold drop in F. rewrite skipn_nil in F. congruence.
    - right; lia. }
  assert (HI2 : Inv s2).
  { constructor; cbn [s2 oob boff bsize copy cavail cnext cbuf ctotal feof cl]; auto.
    - unfold avail; cbn [s2 copy]. rewrite len_drop. fold (avail s); fold av. lia.
    - intros F. destruct (Hfr2 F) as [F1 F2]. unfold fresh; cbn [s2 cnext cavail ctotal cbuf]. lia.
    - intros Hne. rewrite (Hm2z Hne). cbn [Z.to_N]. rewrite N.add_0_r.
      assert (Hne0 : copy s <> []).
      { intros E; rewrite E in Hne. unfold drop in Hne. rewrite skipn_nil in Hne. congruence. }
      destruct (Itail Hne0) as (u & v & Huv).
      destruct (drop_copy_tail _ (Z.to_N m1) _ _ _ Huv) as (u' & Hu'). exists u', v. exact Hu'. }
  assert (Hrest2 : rest s2 = drop (Z.to_N (m1 + m2)) (rest s)).
  { rewrite !rest_eq. cbn [s2 copy cl]. unfold cwin at 1; cbn [s2 cavail cnext cbuf].
    replace (Z.to_N (m1 + m2)) with (Z.to_N m1 + Z.to_N m2) by lia.
    destruct (Z.eq_dec m2 0) as [Z0|NZ].
    - rewrite Z0. cbn [Z.to_N]. rewrite !N.add_0_r, N.sub_0_r.
      rewrite drop_app_l by (fold (avail s); fold av; lia). reflexivity.
    - assert (Hr1 : r1 <> 0%Z) by (unfold m2 in NZ; lia).
      assert (Hm1av : Z.to_N m1 = av) by (unfold r1, m1 in *; lia).
      rewrite (Hcopy2 Hr1). cbn [app].
      assert (Hfr : fresh s) by (apply Ifresh; right; lia).
      rewrite (drop_add (Z.to_N m1) (Z.to_N m2)).
      rewrite Hm1av.
      unfold av, avail.
      rewrite drop_app_exact.
      rewrite drop_app_l.
      2:{ rewrite cwin_fresh by auto. rewrite len_drop. destruct Hfr; lia. }
      f_equal. rewrite cwin_fresh by auto. destruct Hfr as [F1 F2].
      rewrite drop_drop. replace (Z.to_N m2 + cnext s) with (cnext s + Z.to_N m2) by lia.
      apply take_all. rewrite len_drop. lia. }
  destruct (r1 - m2 =? 0)%Z eqn:E2.
  - apply Z.eqb_eq in E2. inversion H; subst; clear H.
    assert (Hn : Z.min req (Z.of_N (len (rest s))) = (m1 + m2)%Z).
    { rewrite rest_eq, !len_app. fold (avail s); fold av.
      assert (Z.of_N (cavail s) <= Z.of_N (len (cwin s)) \/ r1 = 0%Z)%Z.
      { destruct (Z.eq_dec r1 0); auto. left.
        destruct (N.eq_dec (cavail s) 0) as [Z0|NZ]; [lia|].
        assert (Hfr : fresh s) by (apply Ifresh; right; lia).
        rewrite cwin_fresh by auto. destruct Hfr. rewrite len_drop. lia. }
      unfold r1, m1, m2 in *. lia. }
    cbv zeta. rewrite Hn.
    split; [reflexivity|]. split; [exact HI2|]. split; [exact Hrest2|].
    split; [cbn [s2 fpos]; lia|]. split; [reflexivity|apply same_cfg_refl].
  - apply Z.eqb_neq in E2.
    assert (Hr1 : r1 <> 0%Z) by (unfold m2 in *; lia).
    assert (Hm2c : Z.to_N m2 = cavail s) by (unfold m2 in *; lia).
    assert (Hr2pos : (0 < r1 - m2)%Z) by (unfold m2, r1, m1 in *; lia).
    destruct (skip_proxy s2 (r1 - m2)) as [sk c'] eqn:ESK.
    assert (Hsk2 : skippable (cl s2)) by (cbn [s2 cl]; exact Hpl).
    destruct (skip_proxy_spec _ _ _ _ Hsk2 Hr2pos ESK) as
      (t & T & -> & P & D & R & K & S1 & S2 & Hh' & (pre & Hpre)).
    cbn [s2 cl] in T, P, D, R, K, S1, S2, Hpre.
    assert (E0 : (t <? 0)%Z = false) by (apply Z.ltb_ge; lia). rewrite E0 in H.
    set (s3 := set_pos_client s2 (fpos s2 + t)%Z c') in *.
    assert (Hcfg3 : same_client_cfg (cl s) c').
    { split; [auto|split; [exists pre; auto|repeat split; auto]]. }
    assert (Hnf3 : nofault c') by (unfold nofault; rewrite R; exact Inf).
    assert (Hcs3 : cstream c' = drop (Z.to_N t) (cstream (cl s))) by (apply cstream_after_skip; auto).
    assert (Hrs2 : rest s2 = cstream (cl s)).
    { rewrite rest_stale; [reflexivity| |]; cbn [s2 copy cavail]; [exact (Hcopy2 Hr1)|lia]. }
    assert (Hlen : Z.of_N (len (rest s)) = (m1 + m2 + Z.of_N (len (cstream (cl s))))%Z).
    { assert (HH : len (rest s2) = len (rest s) - Z.to_N (m1 + m2)) by (rewrite Hrest2, len_drop; reflexivity).
      rewrite Hrs2 in HH.
      assert (Z.to_N (m1 + m2) <= len (rest s)).
      { rewrite rest_eq, !len_app. fold (avail s); fold av.
        assert (cavail s <= len (cwin s)).
        { destruct (N.eq_dec (cavail s) 0) as [Z0|NZ]; [lia|].
          assert (Hfr : fresh s) by (apply Ifresh; right; lia).
          rewrite cwin_fresh by auto. destruct Hfr. rewrite len_drop. lia. }
        unfold r1, m1, m2 in *. lia. }
      lia. }
    rewrite left_len in T.
    assert (Hc3 : copy s3 = []) by (cbn [s3 set_pos_client copy s2]; auto).
    assert (Hca3 : cavail s3 = 0) by (cbn [s3 set_pos_client cavail s2]; lia).
    assert (Hrest3 : rest s3 = drop (Z.to_N (m1 + m2 + t)) (rest s)).
    { rewrite rest_stale by auto. cbn [s3 set_pos_client cl]. rewrite Hcs3, <- Hrs2, Hrest2.
      replace (Z.to_N (m1 + m2 + t)) with (Z.to_N (m1 + m2) + Z.to_N t) by lia.
      rewrite drop_add. reflexivity. }
    assert (Heof3 : feof s = true -> cstream c' = []).
    { intros F. rewrite Hcs3, (Ieof F). unfold drop. apply skipn_nil. }
    destruct (r1 - m2 - t =? 0)%Z eqn:E3.
    + apply Z.eqb_eq in E3. inversion H; subst; clear H.
      assert (Hn : Z.min req (Z.of_N (len (rest s))) = (m1 + m2 + t)%Z) by (unfold r1 in *; lia).
      cbv zeta. rewrite Hn.
      split; [reflexivity|]. split; [|split; [exact Hrest3|split; [cbn [s3 set_pos_client fpos s2]; lia|split; [reflexivity|exact Hcfg3]]]].
      apply Inv_stale; cbn [s3 set_pos_client oob boff bsize copy cavail feof cl s2]; auto; try lia.
    + apply Z.eqb_neq in E3.
      apply adv_read_loop_spec in H; auto; try lia;
        try (cbn [s3 set_pos_client oob boff bsize cl ffatal feof fpos s2 copy cavail]; auto; lia).
      2:{ cbn [s3 set_pos_client cl s2]. unfold mu. rewrite R. destruct (cstream c'); lia. }
      cbn [s3 set_pos_client oob boff bsize cl ffatal feof fpos s2] in H.
      destruct H as (R1 & I1 & Rs1 & P1 & F1 & C1).
      assert (Hlen3 : Z.of_N (len (cstream c')) = (Z.of_N (len (cstream (cl s))) - t)%Z).
      { rewrite Hcs3, len_drop. lia. }
      assert (Hn : Z.min req (Z.of_N (len (rest s))) =
                   (m1 + m2 + t + Z.min (r1 - m2 - t) (Z.of_N (len (cstream c'))))%Z).
      { unfold r1 in *. lia. }
      cbv zeta. rewrite Hn.
      split; [lia|]. split; [exact I1|]. split; [|split; [lia|split; [exact F1|eapply same_cfg_trans; eauto]]].
      rewrite Rs1.
      set (q := Z.min (r1 - m2 - t) (Z.of_N (len (cstream c')))).
      assert (0 <= q)%Z by (unfold q; lia).
      assert (Hrs3 : cstream c' = rest s3) by (rewrite rest_stale by auto; reflexivity).
      rewrite Hrs3, Hrest3.
      replace (Z.to_N (m1 + m2 + t + q)) with (Z.to_N (m1 + m2 + t) + Z.to_N q) by lia.
      rewrite drop_add. reflexivity.
Qed.

(* __archive_read_filter_consume *)
Lemma consume_spec s req r s' :
  Inv s -> ffatal s = false -> skippable (cl s) -> consume s req = (r, s') ->
  Inv s' /\ ffatal s' = false /\ same_client_cfg (cl s) (cl s') /\
  ((req < 0)%Z /\ r = ARCHIVE_FATAL /\ s' = s \/
   (0 <= req <= Z.of_N (len (rest s)))%Z /\ r = req /\
       rest s' = drop (Z.to_N req) (rest s) /\ fpos s' = (fpos s + req)%Z \/
   (Z.of_N (len (rest s)) < req)%Z /\ r = ARCHIVE_FATAL /\ rest s' = []).
Proof.
  intros HI Hf Hpl H. unfold consume in H.
  destruct (req <? 0)%Z eqn:E1.
  { apply Z.ltb_lt in E1. inversion H; subst.
    split; [auto|split; [auto|split; [apply same_cfg_refl|left; auto]]]. }
  apply Z.ltb_ge in E1.
  destruct (req =? 0)%Z eqn:E2.
  { apply Z.eqb_eq in E2. inversion H; subst.
    split; [auto|split; [auto|split; [apply same_cfg_refl|right; left]]].
    repeat split; try lia; try (rewrite Z.add_0_r; reflexivity). }
  apply Z.eqb_neq in E2.
  destruct (advance s req) as [sk s1] eqn:EA.
  assert (Hpos : (0 < req)%Z) by lia.
  destruct (advance_spec _ _ _ _ HI Hf Hpl Hpos EA) as (R & I1 & Rs & P & F & C0).
  destruct (sk =? req)%Z eqn:E3.
  - apply Z.eqb_eq in E3. injection H as Hr Hs. rewrite <- Hs, <- Hr. clear Hr Hs.
    split; [auto|split; [auto|split; [auto|right; left]]].
    assert (Hn : Z.min req (Z.of_N (len (rest s))) = req) by lia.
    rewrite Hn in *. repeat split; auto; lia.
  - apply Z.eqb_neq in E3. injection H as Hr Hs. rewrite <- Hs, <- Hr. clear Hr Hs.
    split; [auto|split; [auto|split; [auto|right; right]]].
    assert (Hn : Z.min req (Z.of_N (len (rest s))) = Z.of_N (len (rest s))) by lia.
    rewrite Hn in *. repeat split; try lia; auto.
    rewrite Rs. apply drop_all. lia.
Qed.

(* ---------------- client programs (format parsers) ---------------- *)
(* A parser is any deterministic program that looks at the first [m] bytes of each window it asks
   for (or at the byte count reported with NULL) and at the results of its consume calls - the idiom
   every libarchive format reader follows.  The continuations are arbitrary Coq functions. *)
Inductive parser (R : Type) : Type :=
| PDone (r : R)
| PAhead (m : N) (k : bytes + Z -> parser R)
| PConsume (n : Z) (k : Z -> parser R).
Arguments PDone {R}. Arguments PAhead {R}. Arguments PConsume {R}.

Definition observe (m : N) (r : ares) : bytes + Z :=
  match r with Win w => inl (take m w) | Null a => inr a end.

Fixpoint prun {R} (p : parser R) (s : filt) : R * filt :=
  match p with
  | PDone r => (r, s)
  | PAhead m k => let '(r, s') := ahead s m in prun (k (observe m r)) s'
  | PConsume n k => let '(r, s') := consume s n in prun (k r) s'
  end.

Inductive wf_parser {R} : parser R -> Prop :=
| wf_done r : wf_parser (PDone r)
| wf_ahead m k : 0 < m -> m <= two63 -> (forall o, wf_parser (k o)) -> wf_parser (PAhead m k)
| wf_consume n k : (forall o, wf_parser (k o)) -> wf_parser (PConsume n k).

Lemma prefix_take {A} (w l : list A) m : prefix w l -> m <= len w -> take m w = take m l.
Proof. intros [t ->] H. symmetry; apply take_app_l; exact H. Qed.

Lemma prefix_len {A} (w l : list A) : prefix w l -> len w <= len l.
Proof. intros [t ->]. rewrite len_app. lia. Qed.

Definition good (s : filt) : Prop := Inv s /\ ffatal s = false /\ skippable (cl s).

Lemma Forall_app_r {A} (P : A -> Prop) (a b : list A) : Forall P (a ++ b) -> Forall P b.
Proof. induction a; simpl; auto. intros H; inversion H; auto. Qed.

Lemma plain_same c c' : same_client_cfg c c' -> skippable c -> skippable c'.
Proof.
  intros (_ & (pre & Hp) & _ & A & B) [P1 P2]; split; [congruence|].
  rewrite Hp in P2. eapply Forall_app_r; eauto.
Qed.

Theorem parser_independent {R} (p : parser R) : wf_parser p -> forall s1 s2,
  good s1 -> good s2 -> rest s1 = rest s2 ->
  fst (prun p s1) = fst (prun p s2).
Proof.
  induction 1 as [r|m k Hpos Hm Hk IH|n k Hk IH]; intros s1 s2 (I1 & F1 & P1) (I2 & F2 & P2) HR; cbn [prun].
  - reflexivity.
  - destruct (ahead s1 m) as [r1 t1] eqn:E1. destruct (ahead s2 m) as [r2 t2] eqn:E2.
    destruct (ahead_spec _ _ _ _ I1 F1 Hm E1) as ((J1 & R1 & _ & G1 & C1 & _) & O1).
    destruct (ahead_spec _ _ _ _ I2 F2 Hm E2) as ((J2 & R2 & _ & G2 & C2 & _) & O2).
    assert (Hobs : observe m r1 = observe m r2).
    { rewrite HR in O1. destruct r1 as [w1|a1]; destruct r2 as [w2|a2]; cbn [res_ok observe] in *.
      - destruct O1 as (Q1 & L1 & _). destruct O2 as (Q2 & L2 & _).
        rewrite (prefix_take _ _ _ Q1 L1), (prefix_take _ _ _ Q2 L2). reflexivity.
      - destruct O1 as (Q1 & L1 & _). destruct O2 as (_ & L2). apply prefix_len in Q1. lia.
      - destruct O2 as (Q2 & L2 & _). destruct O1 as (_ & L1). apply prefix_len in Q2. lia.
      - destruct O1 as [-> _]. destruct O2 as [-> _]. reflexivity. }
    rewrite Hobs. apply IH.
    + split; [auto|split; [auto|eapply plain_same; eauto]].
    + split; [auto|split; [auto|eapply plain_same; eauto]].
    + congruence.
  - destruct (consume s1 n) as [r1 t1] eqn:E1. destruct (consume s2 n) as [r2 t2] eqn:E2.
    destruct (consume_spec _ _ _ _ I1 F1 P1 E1) as (J1 & G1 & C1 & D1).
    destruct (consume_spec _ _ _ _ I2 F2 P2 E2) as (J2 & G2 & C2 & D2).
    rewrite HR in D1.
    assert (Hres : r1 = r2 /\ rest t1 = rest t2).
    { destruct D1 as [(A1 & B1 & X1)|[(A1 & B1 & X1 & _)|(A1 & B1 & X1)]];
      destruct D2 as [(A2 & B2 & X2)|[(A2 & B2 & X2 & _)|(A2 & B2 & X2)]]; try lia; subst; split; congruence. }
    destruct Hres as [-> HR']. apply IH; auto.
    + split; [auto|split; [auto|eapply plain_same; eauto]].
    + split; [auto|split; [auto|eapply plain_same; eauto]].
Qed.

(* headline for C05: the same bytes behind any two fault-free read-callback partitions *)
Definition mk_plain_client (data : bytes) (plan : list ract) : client :=
  mkClient data 0 plan [] [] false false.

Lemma rest_init c : cpos c = 0 -> rest (init_filt c) = cdata c.
Proof. intros H. rewrite rest_eq. unfold cstream; cbn [init_filt copy cl]. unfold cwin; cbn [init_filt cavail cnext cbuf]. rewrite H. reflexivity. Qed.

Theorem partition_independent {R} (p : parser R) data plan1 plan2 :
  wf_parser p -> Forall good_ract plan1 -> Forall good_ract plan2 ->
  fst (prun p (init_filt (mk_plain_client data plan1))) =
  fst (prun p (init_filt (mk_plain_client data plan2))).
Proof.
  intros Hp H1 H2. apply parser_independent; [exact Hp| | |].
  - split; [apply init_Inv; exact H1|split; [reflexivity|split; [reflexivity|constructor]]].
  - split; [apply init_Inv; exact H2|split; [reflexivity|split; [reflexivity|constructor]]].
  - rewrite !rest_init by reflexivity. reflexivity.
Qed.

(* ---------------- C01: windows stay inside what the client delivered; no out-of-bounds flag ------ *)
Lemma ahead_in_bounds s m r s' :
  Inv s -> ffatal s = false -> m <= two63 -> ahead s m = (r, s') ->
  oob s' = false /\
  match r with
  | Win w => prefix w (rest s) /\ m <= len w
  | Null a => a = Z.of_N (len (rest s)) /\ len (rest s) < m
  end.
Proof.
  intros HI Hf Hm H. destruct (ahead_spec _ _ _ _ HI Hf Hm H) as ((J & _) & O).
  split; [apply J|]. destruct r; cbn [res_ok] in O; tauto.
Qed.

(* ---------------- C08: failures are sticky ---------------- *)
Lemma ahead_fatal_sticky s m : ffatal s = true -> ahead s m = (Null ARCHIVE_FATAL, s).
Proof. intros H; unfold ahead; rewrite H; reflexivity. Qed.

Lemma advance_fatal_sticky s n : ffatal s = true -> advance s n = ((-1)%Z, s).
Proof. intros H; unfold advance; rewrite H; reflexivity. Qed.

Lemma consume_fatal_sticky s n : ffatal s = true -> (0 < n)%Z -> consume s n = (ARCHIVE_FATAL, s).
Proof.
  intros H Hn; unfold consume.
  assert (E1 : (n <? 0)%Z = false) by (apply Z.ltb_ge; lia).
  assert (E2 : (n =? 0)%Z = false) by (apply Z.eqb_neq; lia).
  rewrite E1, E2, (advance_fatal_sticky _ _ H).
  assert (E3 : (-1 =? n)%Z = false) by (apply Z.eqb_neq; lia). rewrite E3. reflexivity.
Qed.

Lemma seek_fatal_sticky s o w : ffatal s = true -> seek s o w = (ARCHIVE_FATAL, s).
Proof. intros H; unfold seek; rewrite H; reflexivity. Qed.

(* a read-callback error met by read-ahead: FATAL is reported and the filter becomes fatal *)
Lemma ahead_read_error s m tl :
  ffatal s = false -> copy s = [] -> cavail s = 0 -> feof s = false -> 0 < m ->
  rplan (cl s) = RErr :: tl ->
  exists s', ahead s m = (Null ARCHIVE_FATAL, s') /\ ffatal s' = true.
Proof.
  intros Hf Hc Hca He Hm Hp. unfold ahead, ahead_fuel. rewrite Hf, Hp.
  cbn [length]. replace (3 * S (length tl) + 8)%nat with (S (3 * S (length tl) + 7))%nat by lia.
  cbn [ahead_loop]. unfold ahead_iter.
  assert (Hav : avail s = 0) by (unfold avail; rewrite Hc; reflexivity).
  rewrite Hav, Hca.
  assert (E1 : (m <=? 0) = false) by (apply N.leb_gt; lia).
  rewrite E1. cbn [andb]. rewrite N.add_0_r, E1, andb_false_r.
  destruct ((0 <? boff s) && (bsize s <? boff s + m));
    cbn [upd_buf cavail feof cl]; rewrite ?Hca, ?He; cbn [N.eqb];
    unfold client_read; rewrite Hp; eexists; split; reflexivity.
Qed.

(* ---------------- corollaries used by the property files ---------------- *)
Lemma consume_in_bounds s req r s' :
  Inv s -> ffatal s = false -> skippable (cl s) -> consume s req = (r, s') ->
  Inv s' /\ (r = req \/ r = ARCHIVE_FATAL).
Proof.
  intros HI Hf Hp H.
  destruct (consume_spec _ _ _ _ HI Hf Hp H) as (I & _ & _ & [(_ & -> & _)|[(_ & -> & _)|(_ & -> & _)]]); auto.
Qed.

Lemma short_input_ahead s m r s' :
  Inv s -> ffatal s = false -> m <= two63 -> ahead s m = (r, s') -> len (rest s) < m ->
  r = Null (Z.of_N (len (rest s))) /\ rest s' = rest s.
Proof.
  intros HI Hf Hm H Hlt.
  destruct (ahead_spec _ _ _ _ HI Hf Hm H) as ((_ & HR & _) & O).
  destruct r as [w|a]; cbn [res_ok] in O.
  - destruct O as (P & L & _). apply prefix_len in P. lia.
  - destruct O as [-> _]. auto.
Qed.

Lemma short_input_consume s req r s' :
  Inv s -> ffatal s = false -> skippable (cl s) -> consume s req = (r, s') ->
  (Z.of_N (len (rest s)) < req)%Z -> r = ARCHIVE_FATAL.
Proof.
  intros HI Hf Hp H Hlt.
  destruct (consume_spec _ _ _ _ HI Hf Hp H) as (_ & _ & _ & [(_ & -> & _)|[(A & _)|(_ & -> & _)]]); auto; lia.
Qed.

Lemma fatal_sticky s : ffatal s = true ->
  (forall m, ahead s m = (Null ARCHIVE_FATAL, s)) /\
  (forall n, (0 < n)%Z -> consume s n = (ARCHIVE_FATAL, s)) /\
  (forall o w, seek s o w = (ARCHIVE_FATAL, s)).
Proof.
  intros H; split; [|split]; intros.
  - apply ahead_fatal_sticky; auto.
  - apply consume_fatal_sticky; auto.
  - apply seek_fatal_sticky; auto.
Qed.

Lemma skip_error_returned c request v tl fuel :
  splan c = SkRet v :: tl -> (v < 0)%Z ->
  skip_loop (S fuel) c request 0 = (v, snd (client_skip c request)).
Proof.
  intros Hp Hv. cbn [skip_loop].
  unfold client_skip at 1. rewrite Hp.
  assert (E : (v <? 0)%Z = true) by (apply Z.ltb_lt; lia). rewrite E.
  unfold client_skip; rewrite Hp; reflexivity.
Qed.

Theorem skip_transparent {R} (p : parser R) data plan1 plan2 sk :
  wf_parser p -> Forall good_ract plan1 -> Forall good_ract plan2 -> Forall honest_sact sk ->
  fst (prun p (init_filt (mkClient data 0 plan1 sk [] true false))) =
  fst (prun p (init_filt (mk_plain_client data plan2))).
Proof.
  intros Hp H1 H2 Hs. apply parser_independent; [exact Hp| | |].
  - split; [apply init_Inv; exact H1|split; [reflexivity|split; [reflexivity|exact Hs]]].
  - split; [apply init_Inv; exact H2|split; [reflexivity|split; [reflexivity|constructor]]].
  - rewrite !rest_init by reflexivity. reflexivity.
Qed.

(* ---------------- choose_filters ---------------- *)
Lemma choose_loop_bound fuel : forall depth bids init_ok probe_ok st d,
  choose_loop fuel depth bids init_ok probe_ok = (st, d) ->
  (depth <= d <= depth + fuel)%nat /\ (st = ARCHIVE_OK -> d < depth + fuel)%nat.
Proof.
  induction fuel as [|k IH]; intros depth bids init_ok probe_ok st d H; cbn [choose_loop] in H.
  - inversion H; subst. split; [lia|]. intros E; discriminate.
  - destruct (best_bidder (bids depth) 0%Z false).
    + destruct (init_ok depth).
      * apply IH in H. destruct H as [H1 H2]. split; [lia|]. intros E; specialize (H2 E); lia.
      * inversion H; subst. split; [lia|]. intros E; discriminate.
    + destruct probe_ok; inversion H; subst; (split; [lia|]); intros E; try discriminate; lia.
Qed.

(* whatever the bidders answer: never more than MAX_NUMBER_FILTERS filters are pushed, success means
   strictly fewer, and the loop terminates (structural on the regenerated constant) *)
Lemma choose_filters_bounded bids init_ok probe_ok st d :
  choose_filters bids init_ok probe_ok = (st, d) ->
  (d <= N.to_nat MAX_NUMBER_FILTERS)%nat /\ (st = ARCHIVE_OK -> d < N.to_nat MAX_NUMBER_FILTERS)%nat.
Proof.
  intros H. apply choose_loop_bound in H. destruct H as [[_ H1] H2]. split; [lia|]. intros E; specialize (H2 E); lia.
Qed.

(* ---------------- truncated input (C08) ---------------- *)
(* what a parser sees: the first m bytes of each window (or the count reported with NULL), and the result of
   each consume *)
Inductive pevent : Type :=
| EvAhead (m : N) (o : bytes + Z)
| EvConsume (n : Z) (r : Z).

Fixpoint ptrace {R} (p : parser R) (s : filt) : list pevent :=
  match p with
  | PDone _ => []
  | PAhead m k => let '(r, s') := ahead s m in EvAhead m (observe m r) :: ptrace (k (observe m r)) s'
  | PConsume n k => let '(r, s') := consume s n in EvConsume n r :: ptrace (k r) s'
  end.

(* the event reports that the input ended early: NULL with fewer bytes than asked for, or a refused consume *)
Definition reports_short (e : pevent) : Prop :=
  match e with
  | EvAhead m (inr a) => (a < Z.of_N m)%Z
  | EvAhead _ (inl _) => False
  | EvConsume n r => r = ARCHIVE_FATAL /\ (0 <= n)%Z
  end.

(* t1 (seen on the cut input) equals t2 (seen on the whole input) event by event until t1 reports the end *)
Inductive same_until_short : list pevent -> list pevent -> Prop :=
| sus_nil : same_until_short [] []
| sus_same e t1 t2 : same_until_short t1 t2 -> same_until_short (e :: t1) (e :: t2)
| sus_short e t1 t2 : reports_short e -> same_until_short (e :: t1) t2.

Lemma prefix_drop {A} (a l : list A) n : prefix a l -> n <= len a -> prefix (drop n a) (drop n l).
Proof. intros [t ->] H. exists t. apply drop_app_l. exact H. Qed.

(* Whatever is delivered from an input that ends early is what the complete input delivers at that point: the
   two runs of any parser agree event by event - same windows, same consume results - until the run on the short
   input is TOLD that the input ended (NULL with the count of bytes left, or ARCHIVE_FATAL from consume).
   No block layout, skip behaviour or position of the cut makes the core hand out bytes the complete input
   does not have there, or report success for bytes that are missing. *)
Theorem truncation_prefix {R} (p : parser R) : wf_parser p -> forall s1 s2,
  good s1 -> good s2 -> prefix (rest s1) (rest s2) ->
  same_until_short (ptrace p s1) (ptrace p s2).
Proof.
  induction 1 as [r|m k Hpos Hm Hk IH|n k Hk IH]; intros s1 s2 (I1 & F1 & P1) (I2 & F2 & P2) HP; cbn [ptrace].
  - constructor.
  - destruct (ahead s1 m) as [r1 t1] eqn:E1. destruct (ahead s2 m) as [r2 t2] eqn:E2.
    destruct (ahead_spec _ _ _ _ I1 F1 Hm E1) as ((J1 & R1 & _ & G1 & C1 & _) & O1).
    destruct (ahead_spec _ _ _ _ I2 F2 Hm E2) as ((J2 & R2 & _ & G2 & C2 & _) & O2).
    destruct r1 as [w1|a1]; cbn [res_ok observe] in *.
    + destruct O1 as (Q1 & L1 & _).
      assert (Lr : m <= len (rest s1)) by (apply prefix_len in Q1; lia).
      assert (Lr2 : len (rest s1) <= len (rest s2)) by (apply prefix_len; exact HP).
      destruct r2 as [w2|a2]; cbn [res_ok observe] in *.
      * destruct O2 as (Q2 & L2 & _).
        assert (Hobs : take m w1 = take m w2).
        { rewrite (prefix_take _ _ _ Q1 L1), (prefix_take _ _ _ Q2 L2). apply (prefix_take _ _ _ HP Lr). }
        rewrite Hobs. apply sus_same. apply IH.
        -- split; [auto|split; [auto|eapply plain_same; eauto]].
        -- split; [auto|split; [auto|eapply plain_same; eauto]].
        -- rewrite R1, R2. exact HP.
      * destruct O2 as (_ & L2). lia.
    + destruct O1 as [-> L1]. apply sus_short. cbn [reports_short]. lia.
  - destruct (consume s1 n) as [r1 t1] eqn:E1. destruct (consume s2 n) as [r2 t2] eqn:E2.
    destruct (consume_spec _ _ _ _ I1 F1 P1 E1) as (J1 & G1 & C1 & D1).
    destruct (consume_spec _ _ _ _ I2 F2 P2 E2) as (J2 & G2 & C2 & D2).
    assert (Lr2 : len (rest s1) <= len (rest s2)) by (apply prefix_len; exact HP).
    destruct D1 as [(A1 & B1 & X1)|[(A1 & B1 & X1 & _)|(A1 & B1 & X1)]].
    + (* negative request: refused on both sides, nothing moves *)
      destruct D2 as [(A2 & B2 & X2)|[(A2 & B2 & X2 & _)|(A2 & B2 & X2)]]; try lia.
      subst. apply sus_same. apply IH; [split; [auto|split; auto] | split; [auto|split; auto] | exact HP].
    + destruct D2 as [(A2 & B2 & X2)|[(A2 & B2 & X2 & _)|(A2 & B2 & X2)]]; try lia.
      subst r1 r2. apply sus_same. apply IH.
      * split; [auto|split; [auto|eapply plain_same; eauto]].
      * split; [auto|split; [auto|eapply plain_same; eauto]].
      * rewrite X1, X2. apply prefix_drop; [exact HP | lia].
    + subst r1. apply sus_short. cbn [reports_short]. split; [reflexivity | lia].
Qed.

(* headline for C08: an input cut at any offset, behind any two fault-free read-callback partitions *)
Theorem truncated_input_prefix {R} (p : parser R) data cut plan1 plan2 :
  wf_parser p -> Forall good_ract plan1 -> Forall good_ract plan2 ->
  same_until_short (ptrace p (init_filt (mk_plain_client (take cut data) plan1)))
                   (ptrace p (init_filt (mk_plain_client data plan2))).
Proof.
  intros Hp G1 G2. apply truncation_prefix; [exact Hp | | |].
  - split; [apply init_Inv; exact G1|split; [reflexivity|split; [reflexivity|constructor]]].
  - split; [apply init_Inv; exact G2|split; [reflexivity|split; [reflexivity|constructor]]].
  - rewrite !rest_init by reflexivity. cbn [cdata mk_plain_client].
    exists (drop cut data). unfold take, drop. symmetry. apply firstn_skipn.
Qed.
