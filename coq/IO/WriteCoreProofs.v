(* Lemmas about the write-core model (IO/WriteCoreDefs.v).  Stdlib only, no axioms. *)
From Coq Require Import List ZArith NArith Bool Arith Lia.
From LA Require Import Base.Val Gen.Defines IO.WriteCoreDefs.
Import ListNotations.
Local Open Scope Z_scope.

(* ---------------------------------------------------------------- vocabulary *)
Definition acc (tr : list inv) : bytes := concat (map i_acc tr).
Definition good (tr : list inv) : Prop := Forall (fun i => 0 < i_ret i) tr.
Definition failed_last (tr : list inv) : Prop :=
  exists tr0 i, tr = tr0 ++ [i] /\ good tr0 /\ i_ret i <= 0.
Definition prefix (a b : bytes) : Prop := exists r, a ++ r = b.
Definition flat (res : list (list inv * Z)) : list inv := concat (map fst res).
Definition all_ok (res : list (list inv * Z)) : Prop := Forall (fun r => snd r = ARCHIVE_OK) res.
Definition zeros (n : nat) : bytes := repeat 0%N n.

(* the invocations up to and including the first one the callback refused *)
Fixpoint upto_fail (tr : list inv) : list inv :=
  match tr with
  | [] => []
  | i :: t => if i_ret i <=? 0 then [i] else i :: upto_fail t
  end.

(* buffer invariant between calls that returned OK: the copy buffer is never left full *)
Definition Inv (bs : nat) (buf : bytes) : Prop :=
  (bs = 0%nat -> buf = []) /\ (0 < bs -> length buf < bs)%nat.

Lemma ok_is_0 : ARCHIVE_OK = 0. Proof. reflexivity. Qed.
Lemma fatal_neg : ARCHIVE_FATAL < 0. Proof. reflexivity. Qed.
Lemma fatal_ltb : (ARCHIVE_FATAL <? 0) = true. Proof. reflexivity. Qed.
Lemma ok_ltb : (ARCHIVE_OK <? 0) = false. Proof. reflexivity. Qed.

Lemma acc_app : forall a b, acc (a ++ b) = acc a ++ acc b.
Proof. intros. unfold acc. rewrite map_app, concat_app. reflexivity. Qed.

Lemma acc_cons : forall i t, acc (i :: t) = i_acc i ++ acc t.
Proof. reflexivity. Qed.

Lemma good_app : forall a b, good a -> good b -> good (a ++ b).
Proof. intros. apply Forall_app. split; assumption. Qed.

Lemma good_nil : good []. Proof. constructor. Qed.

Lemma failed_last_cons : forall i t, 0 < i_ret i -> failed_last t -> failed_last (i :: t).
Proof.
  intros i t Hi (t0 & j & E & G & F). subst. exists (i :: t0), j. split; [reflexivity|].
  split; [constructor; assumption | assumption].
Qed.

Lemma failed_last_single : forall i, i_ret i <= 0 -> failed_last [i].
Proof. intros. exists [], i. split; [reflexivity|]. split; [constructor|assumption]. Qed.

Lemma failed_last_app : forall a b, good a -> failed_last b -> failed_last (a ++ b).
Proof.
  intros a b Ga (t0 & j & E & G & F). subst. exists (a ++ t0), j.
  rewrite app_assoc. split; [reflexivity|]. split; [apply good_app; assumption | assumption].
Qed.

Lemma failed_last_not_good : forall t, failed_last t -> good t -> False.
Proof.
  intros t (t0 & j & E & G & F) H. subst. apply Forall_app in H. destruct H as [_ H].
  inversion H; subst. lia.
Qed.

Lemma prefix_refl : forall a, prefix a a.
Proof. intros. exists []. apply app_nil_r. Qed.

Lemma prefix_app_r : forall a b c, prefix a b -> prefix a (b ++ c).
Proof. intros a b c [r E]. exists (r ++ c). rewrite app_assoc, E. reflexivity. Qed.

Lemma prefix_app_l : forall a b c, prefix b c -> prefix (a ++ b) (a ++ c).
Proof. intros a b c [r E]. exists r. rewrite <- app_assoc, E. reflexivity. Qed.

Lemma upto_fail_good : forall t, good t -> upto_fail t = t.
Proof.
  induction t; intros H; [reflexivity|]. inversion H; subst. cbn [upto_fail].
  destruct (i_ret a <=? 0) eqn:E; [apply Z.leb_le in E; lia|]. rewrite IHt; auto.
Qed.

Lemma upto_fail_stop : forall a b rest, good a -> failed_last b -> upto_fail (a ++ b ++ rest) = a ++ b.
Proof.
  intros a b rest Ga (t0 & j & E & G & F). subst b.
  assert (H : forall l, good l -> upto_fail (l ++ [j] ++ rest) = l ++ [j]).
  { induction l; intros Hl.
    - cbn. destruct (i_ret j <=? 0) eqn:E; [reflexivity | apply Z.leb_gt in E; lia].
    - inversion Hl; subst. cbn [app upto_fail].
      destruct (i_ret a0 <=? 0) eqn:E; [apply Z.leb_le in E; lia|]. f_equal. apply IHl; auto. }
  replace (a ++ (t0 ++ [j]) ++ rest) with ((a ++ t0) ++ [j] ++ rest)
    by (rewrite <- !app_assoc; reflexivity).
  rewrite H by (apply good_app; assumption). rewrite app_assoc. reflexivity.
Qed.

Lemma iacc_mk : forall p bw, i_acc (mkInv p bw) = firstn (Z.to_nat bw) p.
Proof. reflexivity. Qed.

Lemma iacc_refused : forall p bw, bw <= 0 -> i_acc (mkInv p bw) = [].
Proof. intros. rewrite iacc_mk. replace (Z.to_nat bw) with 0%nat by lia. reflexivity. Qed.

Lemma skipn_length_lt : forall (p : bytes) n, (0 < n)%nat -> p <> [] -> (length (skipn n p) < length p)%nat.
Proof. intros. rewrite skipn_length. destruct p; [congruence|]. cbn [length]. lia. Qed.

(* ---------------------------------------------------------------- the three loops *)
Section Loops.
Context {C : Type}.
Variable cb : C -> bytes -> C * Z.
(* the callback contract: never claims more than it was offered *)
Hypothesis cb_ok : forall c p, snd (cb c p) <= Z.of_nat (length p).

Lemma write_all_spec : forall fuel p c c' tr st,
  (length p < fuel)%nat -> write_all cb fuel c p = (c', tr, st) ->
  (st = ARCHIVE_OK /\ good tr /\ acc tr = p) \/
  (st = ARCHIVE_FATAL /\ failed_last tr /\ exists r, acc tr ++ r = p /\ r <> []).
Proof.
  induction fuel; intros p c c' tr st Hf H; [lia|].
  destruct p as [|x q].
  - cbn in H. inversion H; subst. left. repeat split; constructor.
  - cbn [write_all] in H. set (p := x :: q) in *.
    pose proof (cb_ok c p) as Hok. destruct (cb c p) as [c1 bw] eqn:Ecb. cbn [snd] in Hok.
    destruct (bw <=? 0) eqn:E1.
    + apply Z.leb_le in E1. inversion H; subst. right. split; [reflexivity|]. split.
      * apply failed_last_single. assumption.
      * exists p. split; [|subst p; congruence]. unfold acc. cbn [map concat].
        rewrite iacc_refused by assumption. reflexivity.
    + apply Z.leb_gt in E1. destruct (Z.of_nat (length p) <? bw) eqn:E2; [apply Z.ltb_lt in E2; lia|].
      destruct (write_all cb fuel c1 (skipn (Z.to_nat bw) p)) as [[c2 tr2] st2] eqn:Er.
      inversion H; subst c' tr st. clear H.
      apply IHfuel in Er.
      2:{ assert (length (skipn (Z.to_nat bw) p) < length p)%nat
            by (apply skipn_length_lt; [lia | subst p; congruence]). lia. }
      destruct Er as [(S1 & G & A) | (S1 & FL & r & A & Rn)].
      * left. split; [assumption|]. split; [constructor; assumption|].
        rewrite acc_cons, iacc_mk, A. apply firstn_skipn.
      * right. split; [assumption|]. split; [apply failed_last_cons; assumption|].
        exists r. split; [|assumption]. rewrite acc_cons, iacc_mk, <- app_assoc, A. apply firstn_skipn.
Qed.

Lemma pass_through_spec : forall fuel p c c' tr st,
  (length p < fuel)%nat -> pass_through cb fuel c p = (c', tr, st) ->
  (st = ARCHIVE_OK /\ good tr /\ acc tr = p) \/
  (st = ARCHIVE_FATAL /\ failed_last tr /\ exists r, acc tr ++ r = p /\ r <> []).
Proof.
  induction fuel; intros p c c' tr st Hf H; [lia|].
  destruct p as [|x q].
  - cbn in H. inversion H; subst. left. repeat split; constructor.
  - cbn [pass_through] in H. set (p := x :: q) in *.
    destruct (cb c p) as [c1 bw] eqn:Ecb.
    destruct (bw <=? 0) eqn:E1.
    + apply Z.leb_le in E1. inversion H; subst. right. split; [reflexivity|]. split.
      * apply failed_last_single. assumption.
      * exists p. split; [|subst p; congruence]. unfold acc. cbn [map concat].
        rewrite iacc_refused by assumption. reflexivity.
    + apply Z.leb_gt in E1.
      destruct (pass_through cb fuel c1 (skipn (Z.to_nat bw) p)) as [[c2 tr2] st2] eqn:Er.
      inversion H; subst c' tr st. clear H.
      apply IHfuel in Er.
      2:{ assert (length (skipn (Z.to_nat bw) p) < length p)%nat
            by (apply skipn_length_lt; [lia | subst p; congruence]). lia. }
      destruct Er as [(S1 & G & A) | (S1 & FL & r & A & Rn)].
      * left. split; [assumption|]. split; [constructor; assumption|].
        rewrite acc_cons, iacc_mk, A. apply firstn_skipn.
      * right. split; [assumption|]. split; [apply failed_last_cons; assumption|].
        exists r. split; [|assumption]. rewrite acc_cons, iacc_mk, <- app_assoc, A. apply firstn_skipn.
Qed.

Lemma direct_spec : forall fuel bs p c c' tr st rest,
  (0 < bs)%nat -> (length p < fuel)%nat -> direct cb fuel bs c p = (c', tr, st, rest) ->
  (st = ARCHIVE_OK /\ good tr /\ acc tr ++ rest = p /\ (length rest < bs)%nat) \/
  (st = ARCHIVE_FATAL /\ failed_last tr /\ prefix (acc tr) p).
Proof.
  induction fuel; intros bs p c c' tr st rest Hbs Hf H; [lia|].
  cbn [direct] in H. destruct (length p <? bs)%nat eqn:El.
  - apply Nat.ltb_lt in El. inversion H; subst. left. repeat split; try constructor; assumption.
  - apply Nat.ltb_ge in El.
    pose proof (cb_ok c (firstn bs p)) as Hok.
    destruct (cb c (firstn bs p)) as [c1 bw] eqn:Ecb. cbn [snd] in Hok.
    rewrite firstn_length_le in Hok by assumption.
    destruct (bw <=? 0) eqn:E1.
    + apply Z.leb_le in E1. inversion H; subst. right. split; [reflexivity|]. split.
      * apply failed_last_single. assumption.
      * eexists. unfold acc. cbn [map concat]. rewrite iacc_refused by assumption. cbn [app]. reflexivity.
    + apply Z.leb_gt in E1.
      destruct (direct cb fuel bs c1 (skipn (Z.to_nat bw) p)) as [[[c2 tr2] st2] rest2] eqn:Er.
      inversion H; subst c' tr st rest. clear H.
      assert (Hp : p <> []) by (destruct p; [cbn in El; lia | congruence]).
      apply IHfuel in Er; [|assumption|].
      2:{ assert (length (skipn (Z.to_nat bw) p) < length p)%nat
            by (apply skipn_length_lt; [lia | assumption]). lia. }
      assert (Ea : i_acc (mkInv (firstn bs p) bw) = firstn (Z.to_nat bw) p).
      { rewrite iacc_mk, firstn_firstn. f_equal. lia. }
      destruct Er as [(S1 & G & A & L) | (S1 & FL & r & A)].
      * left. split; [assumption|]. split; [constructor; assumption|]. split; [|assumption].
        rewrite acc_cons, Ea, <- app_assoc, A. apply firstn_skipn.
      * right. split; [assumption|]. split; [apply failed_last_cons; assumption|].
        exists r. rewrite acc_cons, Ea, <- app_assoc, A. apply firstn_skipn.
Qed.

End Loops.

(* ---------------------------------------------------------------- padding arithmetic *)
Lemma last_block_target_le : forall bpb bibl bl, last_block_target bpb bibl bl <= bpb.
Proof.
  intros. unfold last_block_target.
  destruct (bpb <? (if bibl <=? 0 then bpb else bibl * ((bl + bibl - 1) ÷ bibl))) eqn:E.
  - lia.
  - apply Z.ltb_ge in E. assumption.
Qed.

Lemma padlen_0 : forall bs bibl, padlen bs bibl 0 = 0%nat.
Proof. reflexivity. Qed.

Lemma padlen_bound : forall bs bibl fill, (fill <= bs)%nat -> (fill + padlen bs bibl fill <= bs)%nat.
Proof.
  intros bs bibl fill H. destruct fill as [|f]; [cbn; lia|].
  unfold padlen. set (bl := Z.of_nat (S f)).
  pose proof (last_block_target_le (Z.of_nat bs) bibl bl) as Ht.
  destruct (bl <? last_block_target (Z.of_nat bs) bibl bl) eqn:E; [|lia].
  apply Z.ltb_lt in E. subst bl. lia.
Qed.

Lemma padlen_bs0 : forall bibl fill, padlen 0 bibl fill = 0%nat.
Proof.
  intros. destruct fill as [|f]; [reflexivity|]. unfold padlen.
  pose proof (last_block_target_le (Z.of_nat 0) bibl (Z.of_nat (S f))) as Ht.
  destruct (Z.of_nat (S f) <? last_block_target (Z.of_nat 0) bibl (Z.of_nat (S f))) eqn:E; [|reflexivity].
  apply Z.ltb_lt in E. lia.
Qed.

(* ---------------------------------------------------------------- the client pseudo-filter *)
Section ClientLayer.
Context {C : Type}.
Variable cb : C -> bytes -> C * Z.
Hypothesis cb_ok : forall c p, snd (cb c p) <= Z.of_nat (length p).

Lemma fill_phase_spec : forall fuel bs buf c data buf1 c1 tr1 st1 data1,
  (0 < bs)%nat -> (length buf + length data < fuel)%nat ->
  fill_phase cb fuel bs buf c data = (buf1, c1, tr1, st1, data1) ->
  (st1 = ARCHIVE_OK /\ good tr1 /\ (length data1 <= length data)%nat /\
     ((length buf < bs)%nat ->
        (buf1 = [] /\ acc tr1 ++ data1 = buf ++ data) \/
        (data1 = [] /\ tr1 = [] /\ buf1 = buf ++ data /\ (length buf1 < bs)%nat))) \/
  (st1 = ARCHIVE_FATAL /\ failed_last tr1 /\ prefix (acc tr1) (buf ++ data)).
Proof.
  intros fuel bs buf c data buf1 c1 tr1 st1 data1 Hbs Hf H. unfold fill_phase in H.
  destruct (bs - length buf <? bs)%nat eqn:Ea.
  - set (to_copy := if (bs - length buf <? length data)%nat then (bs - length buf)%nat else length data) in *.
    assert (Htc : (to_copy <= length data)%nat).
    { subst to_copy. destruct (bs - length buf <? length data)%nat eqn:E; [apply Nat.ltb_lt in E|]; lia. }
    assert (Hsplit : (buf ++ firstn to_copy data) ++ skipn to_copy data = buf ++ data).
    { rewrite <- app_assoc, firstn_skipn. reflexivity. }
    assert (Hlen : length (buf ++ firstn to_copy data) = (length buf + to_copy)%nat).
    { rewrite app_length, firstn_length. lia. }
    destruct ((bs - length (buf ++ firstn to_copy data)) =? 0)%nat eqn:Efull.
    + destruct (write_all cb fuel c (buf ++ firstn to_copy data)) as [[c' tr] st] eqn:Ew.
      apply write_all_spec in Ew; [|assumption|lia].
      destruct Ew as [(S1 & G & A) | (S1 & FL & r & A & _)].
      * subst st. rewrite ok_ltb in H. inversion H; subst. left.
        split; [reflexivity|]. split; [assumption|]. split; [rewrite skipn_length; lia|].
        intros _. left. split; [reflexivity|]. rewrite A. assumption.
      * subst st. rewrite fatal_ltb in H. inversion H; subst. right.
        split; [reflexivity|]. split; [assumption|].
        exists (r ++ skipn to_copy data). rewrite app_assoc, A. assumption.
    + inversion H; subst. left. split; [reflexivity|]. split; [constructor|].
      split; [rewrite skipn_length; lia|].
      intros Hlt. right. apply Nat.eqb_neq in Efull.
      assert (to_copy = length data).
      { subst to_copy. destruct (bs - length buf <? length data)%nat eqn:E; [|reflexivity].
        exfalso. lia. }
      rewrite H0 in *. rewrite firstn_all, skipn_all. repeat split; try reflexivity.
      rewrite firstn_all in Efull. lia.
  - apply Nat.ltb_ge in Ea. inversion H; subst. left. split; [reflexivity|]. split; [constructor|].
    split; [lia|]. intros _. left. assert (length buf1 = 0%nat) by lia.
    destruct buf1; [|cbn in *; lia]. split; reflexivity.
Qed.

Lemma app_nil_both : forall (a b : bytes), a ++ b = [] -> a = [] /\ b = [].
Proof. intros. apply app_eq_nil. assumption. Qed.

Lemma client_write_spec : forall bs buf c data buf' c' tr st,
  client_write cb bs buf c data = (buf', c', tr, st) ->
  (st = ARCHIVE_OK /\ good tr /\ (Inv bs buf -> acc tr ++ buf' = buf ++ data /\ Inv bs buf')) \/
  (st = ARCHIVE_FATAL /\ failed_last tr /\ (Inv bs buf -> prefix (acc tr) (buf ++ data))).
Proof.
  intros bs buf c data buf' c' tr st H. unfold client_write in H.
  destruct (bs =? 0)%nat eqn:Ebs.
  - apply Nat.eqb_eq in Ebs.
    destruct (pass_through cb (S (length buf + length data)) c data) as [[c1 tr1] st1] eqn:Ep.
    inversion H; subst buf' c' tr st. clear H.
    apply pass_through_spec in Ep; [|lia].
    destruct Ep as [(S1 & G & A) | (S1 & FL & r & A & _)].
    + left. split; [assumption|]. split; [assumption|]. intros [I1 I2].
      rewrite (I1 Ebs). rewrite app_nil_r. split; [assumption|]. split; [reflexivity|lia].
    + right. split; [assumption|]. split; [assumption|]. intros [I1 I2].
      rewrite (I1 Ebs). exists r. assumption.
  - apply Nat.eqb_neq in Ebs. assert (Hbs : (0 < bs)%nat) by lia.
    destruct (fill_phase cb (S (length buf + length data)) bs buf c data)
      as [[[[buf1 c1] tr1] st1] data1] eqn:Ef.
    apply fill_phase_spec in Ef; [|assumption|lia].
    destruct Ef as [(S1 & G1 & L1 & K1) | (S1 & FL & P)].
    + subst st1. rewrite ok_ltb in H.
      destruct (direct cb (S (length buf + length data)) bs c1 data1) as [[[c2 tr2] st2] rest] eqn:Ed.
      apply (direct_spec cb cb_ok) in Ed; [|assumption|lia].
      destruct Ed as [(S2 & G2 & A2 & L2) | (S2 & FL2 & P2)].
      * subst st2. rewrite ok_ltb in H. inversion H; subst buf' c' tr st. clear H. left.
        split; [reflexivity|]. split; [apply good_app; assumption|].
        intros [I1 I2]. specialize (K1 (I2 Hbs)). rewrite acc_app.
        destruct K1 as [(B & A1) | (D & T & B & L)].
        -- subst buf1. cbn [app]. rewrite <- app_assoc, A2. split; [assumption|].
           split; [lia | intros _; assumption].
        -- subst data1 tr1. apply app_nil_both in A2. destruct A2 as [A2 R]. rewrite A2, R.
           unfold acc. cbn [map concat app]. rewrite app_nil_r. split; [assumption|].
           split; [lia | intros _; assumption].
      * subst st2. rewrite fatal_ltb in H. inversion H; subst buf' c' tr st. clear H. right.
        split; [reflexivity|]. split; [apply failed_last_app; assumption|].
        intros [I1 I2]. specialize (K1 (I2 Hbs)). rewrite acc_app.
        destruct K1 as [(B & A1) | (D & T & B & L)].
        -- rewrite <- A1. apply prefix_app_l. assumption.
        -- subst data1 tr1. destruct P2 as [r P2]. apply app_nil_both in P2. destruct P2 as [P2 _].
           rewrite P2. exists (buf ++ data). reflexivity.
    + subst st1. rewrite fatal_ltb in H. inversion H; subst buf' c' tr st. clear H. right.
      split; [reflexivity|]. split; [assumption|]. intros _. assumption.
Qed.

Lemma filter_write_spec : forall bs buf c data buf' c' tr st,
  filter_write cb bs buf c data = (buf', c', tr, st) ->
  (st = ARCHIVE_OK /\ good tr /\ (Inv bs buf -> acc tr ++ buf' = buf ++ data /\ Inv bs buf')) \/
  (st = ARCHIVE_FATAL /\ failed_last tr /\ (Inv bs buf -> prefix (acc tr) (buf ++ data))).
Proof.
  intros bs buf c data buf' c' tr st H. destruct data as [|x d].
  - cbn in H. inversion H; subst. left. split; [reflexivity|]. split; [constructor|].
    intros I. cbn [acc map concat app]. rewrite app_nil_r. split; [reflexivity | assumption].
  - cbn [filter_write] in H. apply client_write_spec in H. assumption.
Qed.

Lemma client_close_spec : forall bs bibl buf c c' tr st,
  client_close cb bs bibl buf c = (c', tr, st) ->
  (st = ARCHIVE_OK /\ good tr /\ acc tr = buf ++ zeros (padlen bs bibl (length buf))) \/
  (st = ARCHIVE_FATAL /\ failed_last tr /\ prefix (acc tr) (buf ++ zeros (padlen bs bibl (length buf)))).
Proof.
  intros bs bibl buf c c' tr st H. destruct buf as [|x q].
  - cbn in H. inversion H; subst. left. repeat split; constructor.
  - cbn [client_close] in H. apply (write_all_spec cb cb_ok) in H; [|lia].
    destruct H as [(S1 & G & A) | (S1 & FL & r & A & _)].
    + left. repeat split; assumption.
    + right. split; [assumption|]. split; [assumption|]. exists r. assumption.
Qed.

(* ---------------------------------------------------------------- whole streams *)
Definition call_rule (r : list inv * Z) : Prop :=
  (snd r = ARCHIVE_OK /\ good (fst r)) \/ (snd r = ARCHIVE_FATAL /\ failed_last (fst r)).

Lemma flat_cons : forall tr st res, flat ((tr, st) :: res) = tr ++ flat res.
Proof. reflexivity. Qed.

Lemma flat_app : forall a b, flat (a ++ b) = flat a ++ flat b.
Proof. intros. unfold flat. rewrite map_app, concat_app. reflexivity. Qed.

(* every call, in whatever state earlier failures left the buffer: FATAL exactly when an
   invocation made during that call was refused, and the call stops at that invocation *)
Lemma writes_status : forall chunks bs buf c buf' c' res,
  writes cb bs buf c chunks = (buf', c', res) -> Forall call_rule res.
Proof.
  induction chunks as [|d ds IH]; intros bs buf c buf' c' res H.
  - cbn in H. inversion H. constructor.
  - cbn [writes] in H.
    destruct (filter_write cb bs buf c d) as [[[buf1 c1] tr] st] eqn:Ef.
    destruct (writes cb bs buf1 c1 ds) as [[buf2 c2] res2] eqn:Ew.
    inversion H; subst buf' c' res. clear H. constructor.
    + apply filter_write_spec in Ef. unfold call_rule. cbn [fst snd]. tauto.
    + eapply IH. eassumption.
Qed.

Lemma writes_spec : forall chunks bs buf c buf' c' res,
  Inv bs buf -> writes cb bs buf c chunks = (buf', c', res) ->
  (all_ok res /\ good (flat res) /\ acc (flat res) ++ buf' = buf ++ concat chunks /\ Inv bs buf') \/
  (exists res1 trf res2, res = res1 ++ (trf, ARCHIVE_FATAL) :: res2 /\ all_ok res1 /\
      good (flat res1) /\ failed_last trf /\ prefix (acc (flat res1 ++ trf)) (buf ++ concat chunks)).
Proof.
  induction chunks as [|d ds IH]; intros bs buf c buf' c' res I H.
  - cbn in H. inversion H; subst. left. split; [constructor|]. split; [constructor|].
    cbn. rewrite app_nil_r. split; [reflexivity|assumption].
  - cbn [writes] in H.
    destruct (filter_write cb bs buf c d) as [[[buf1 c1] tr] st] eqn:Ef.
    destruct (writes cb bs buf1 c1 ds) as [[buf2 c2] res2] eqn:Ew.
    inversion H; subst buf' c' res. clear H. cbn [concat].
    apply filter_write_spec in Ef. destruct Ef as [(S1 & G & K) | (S1 & FL & K)].
    + destruct (K I) as [A I1]. apply (IH _ _ _ _ _ _ I1) in Ew.
      destruct Ew as [(O & G2 & A2 & I2) | (r1 & trf & r2 & E & O & G2 & FL & P)].
      * left. split; [constructor; [assumption|assumption]|]. rewrite flat_cons.
        split; [apply good_app; assumption|]. split; [|assumption].
        rewrite acc_app, <- app_assoc, A2, app_assoc, A, <- app_assoc. reflexivity.
      * right. exists ((tr, st) :: r1), trf, r2. subst res2. split; [reflexivity|].
        split; [constructor; assumption|]. rewrite flat_cons. split; [apply good_app; assumption|].
        split; [assumption|]. rewrite <- app_assoc, acc_app.
        replace (buf ++ d ++ concat ds) with (acc tr ++ buf1 ++ concat ds)
          by (rewrite app_assoc, A, <- app_assoc; reflexivity).
        apply prefix_app_l. assumption.
    + right. exists [], tr, res2. subst st. split; [reflexivity|]. split; [constructor|].
      split; [constructor|]. split; [assumption|]. cbn [flat map concat app].
      rewrite app_assoc. apply prefix_app_r. apply K. assumption.
Qed.

Lemma Inv_nil : forall bs, Inv bs [].
Proof. intros. split; [reflexivity | cbn; lia]. Qed.

Theorem session_status : forall bs bibl c chunks c' res,
  session cb bs bibl c chunks = (c', res) -> Forall call_rule res.
Proof.
  intros bs bibl c chunks c' res H. unfold session in H.
  destruct (writes cb bs [] c chunks) as [[buf c1] res1] eqn:Ew.
  destruct (client_close cb bs bibl buf c1) as [[c2 tr] st] eqn:Ec.
  inversion H; subst. apply Forall_app. split.
  - eapply writes_status. eassumption.
  - constructor; [|constructor]. apply client_close_spec in Ec. unfold call_rule. cbn [fst snd]. tauto.
Qed.

(* the stream seen by the callback: up to and including the first refused invocation it is a
   prefix of data ++ padding; with no refusal every call returns OK and it is all of it *)
Theorem session_spec : forall bs bibl c chunks c' res,
  session cb bs bibl c chunks = (c', res) ->
  exists n, (n = 0 \/ n < bs)%nat /\
    prefix (acc (upto_fail (flat res))) (concat chunks ++ zeros n) /\
    (good (flat res) -> all_ok res /\ acc (flat res) = concat chunks ++ zeros n).
Proof.
  intros bs bibl c chunks c' res H. unfold session in H.
  destruct (writes cb bs [] c chunks) as [[buf c1] res1] eqn:Ew.
  destruct (client_close cb bs bibl buf c1) as [[c2 tr] st] eqn:Ec.
  inversion H; subst c' res. clear H.
  apply (writes_spec _ _ _ _ _ _ _ (Inv_nil bs)) in Ew. cbn [app] in Ew.
  rewrite flat_app. cbn [flat map concat fst]. rewrite app_nil_r.
  destruct Ew as [(O & G & A & I) | (r1 & trf & r2 & E & O & G & FL & P)].
  - exists (padlen bs bibl (length buf)). split.
    { destruct I as [I1 I2]. destruct bs; [rewrite (I1 eq_refl); left; reflexivity|].
      assert (length buf < S bs)%nat by (apply I2; lia).
      pose proof (padlen_bound (S bs) bibl (length buf)).
      destruct buf; [left; reflexivity | right; cbn [length] in *; lia]. }
    apply client_close_spec in Ec. destruct Ec as [(S1 & Gc & Ac) | (S1 & FL & Pc)].
    + split.
      * rewrite upto_fail_good by (apply good_app; assumption).
        rewrite acc_app, Ac, <- A, app_assoc. apply prefix_refl.
      * intros _. split.
        -- apply Forall_app. split; [assumption|]. constructor; [assumption|constructor].
        -- rewrite acc_app, Ac, <- A, app_assoc. reflexivity.
    + split.
      * replace (flat res1 ++ tr) with (flat res1 ++ tr ++ []) by (rewrite app_nil_r; reflexivity).
        rewrite upto_fail_stop by assumption. rewrite acc_app, <- A, <- app_assoc.
        apply prefix_app_l. assumption.
      * intros Gall. exfalso. apply Forall_app in Gall. destruct Gall as [_ Gt].
        eapply failed_last_not_good; eassumption.
  - exists 0%nat. split; [left; reflexivity|]. subst res1. rewrite flat_app, flat_cons. split.
    + rewrite <- !app_assoc. rewrite upto_fail_stop by assumption. cbn [zeros repeat].
      rewrite app_nil_r. assumption.
    + intros Gall. exfalso. rewrite <- !app_assoc in Gall. apply Forall_app in Gall.
      destruct Gall as [_ Gall]. apply Forall_app in Gall. destruct Gall as [Gt _].
      eapply failed_last_not_good; eassumption.
Qed.

End ClientLayer.

(* ---------------------------------------------------------------- a callback that accepts what it is offered *)
Definition full (bs : nat) (i : inv) : Prop := i_off i = bs /\ i_ret i = Z.of_nat bs.
Definition whole (d : bytes) : inv := mkInv d (Z.of_nat (length d)).

Lemma full_acc_length : forall bs tr, Forall (full bs) tr -> length (acc tr) = (bs * length tr)%nat.
Proof.
  induction tr; intros H; [cbn; lia|]. inversion H; subst. rewrite acc_cons, app_length, IHtr by assumption.
  destruct H2 as [H2 H4]. unfold i_acc, i_off in *. rewrite H4, Nat2Z.id, firstn_length. cbn [length]. lia.
Qed.

Lemma iacc_whole : forall d, i_acc (whole d) = d.
Proof. intros. unfold whole. rewrite iacc_mk, Nat2Z.id. apply firstn_all. Qed.

Section AcceptAll.
Context {C : Type}.
Variable cb : C -> bytes -> C * Z.
(* [Good] : the callback states from which everything offered is accepted, now and later *)
Variable Good : C -> Prop.
Hypothesis Hacc : forall c p, Good c -> Good (fst (cb c p)) /\ snd (cb c p) = Z.of_nat (length p).

Lemma write_all_acc : forall fuel p c c' tr st,
  Good c -> p <> [] -> (0 < fuel)%nat -> write_all cb fuel c p = (c', tr, st) ->
  Good c' /\ st = ARCHIVE_OK /\ tr = [whole p].
Proof.
  intros fuel p c c' tr st G Hp Hf H. destruct fuel; [lia|]. destruct p as [|x q]; [congruence|].
  cbn [write_all] in H. set (p := x :: q) in *.
  destruct (Hacc c p G) as [G1 R]. destruct (cb c p) as [c1 bw]. cbn [fst snd] in *. subst bw.
  assert (L : (0 < length p)%nat) by (subst p; cbn; lia).
  destruct (Z.of_nat (length p) <=? 0) eqn:E1; [apply Z.leb_le in E1; lia|].
  rewrite Z.ltb_irrefl in H. rewrite Nat2Z.id, skipn_all in H.
  assert (W : write_all cb fuel c1 [] = (c1, [], ARCHIVE_OK)) by (destruct fuel; reflexivity).
  rewrite W in H. inversion H; subst. repeat split; assumption.
Qed.

Lemma pass_through_acc : forall fuel p c c' tr st,
  Good c -> p <> [] -> (0 < fuel)%nat -> pass_through cb fuel c p = (c', tr, st) ->
  Good c' /\ st = ARCHIVE_OK /\ tr = [whole p].
Proof.
  intros fuel p c c' tr st G Hp Hf H. destruct fuel; [lia|]. destruct p as [|x q]; [congruence|].
  cbn [pass_through] in H. set (p := x :: q) in *.
  destruct (Hacc c p G) as [G1 R]. destruct (cb c p) as [c1 bw]. cbn [fst snd] in *. subst bw.
  assert (L : (0 < length p)%nat) by (subst p; cbn; lia).
  destruct (Z.of_nat (length p) <=? 0) eqn:E1; [apply Z.leb_le in E1; lia|].
  rewrite Nat2Z.id, skipn_all in H.
  assert (W : pass_through cb fuel c1 [] = (c1, [], ARCHIVE_OK)) by (destruct fuel; reflexivity).
  rewrite W in H. inversion H; subst. repeat split; assumption.
Qed.

Lemma direct_acc : forall fuel bs p c c' tr st rest,
  Good c -> (0 < bs)%nat -> (length p < fuel)%nat -> direct cb fuel bs c p = (c', tr, st, rest) ->
  Good c' /\ st = ARCHIVE_OK /\ Forall (full bs) tr /\ acc tr ++ rest = p /\ (length rest < bs)%nat.
Proof.
  induction fuel; intros bs p c c' tr st rest G Hbs Hf H; [lia|].
  cbn [direct] in H. destruct (length p <? bs)%nat eqn:El.
  - apply Nat.ltb_lt in El. inversion H; subst. repeat split; try constructor; assumption.
  - apply Nat.ltb_ge in El.
    destruct (Hacc c (firstn bs p) G) as [G1 R].
    destruct (cb c (firstn bs p)) as [c1 bw]. cbn [fst snd] in *. subst bw.
    rewrite firstn_length_le in H by assumption.
    destruct (Z.of_nat bs <=? 0) eqn:E1; [apply Z.leb_le in E1; lia|].
    rewrite Nat2Z.id in H.
    destruct (direct cb fuel bs c1 (skipn bs p)) as [[[c2 tr2] st2] rest2] eqn:Er.
    inversion H; subst c' tr st rest. clear H.
    apply IHfuel in Er; [|assumption|assumption|rewrite skipn_length; lia].
    destruct Er as (G2 & S2 & F2 & A2 & L2). split; [assumption|]. split; [assumption|].
    split; [|split; [|assumption]].
    + constructor; [|assumption]. split; [unfold i_off; cbn [i_buf]; apply firstn_length_le; assumption | reflexivity].
    + rewrite acc_cons, iacc_mk, Nat2Z.id, firstn_firstn, Nat.min_id, <- app_assoc, A2. apply firstn_skipn.
Qed.

Lemma fill_phase_acc : forall fuel bs buf c data buf1 c1 tr1 st1 data1,
  Good c -> (0 < bs)%nat -> (0 < fuel)%nat -> (length buf < bs)%nat ->
  fill_phase cb fuel bs buf c data = (buf1, c1, tr1, st1, data1) ->
  Good c1 /\ st1 = ARCHIVE_OK /\ Forall (full bs) tr1 /\ (length data1 <= length data)%nat /\
  ((buf1 = [] /\ acc tr1 ++ data1 = buf ++ data) \/
   (data1 = [] /\ tr1 = [] /\ buf1 = buf ++ data /\ (length buf1 < bs)%nat)).
Proof.
  intros fuel bs buf c data buf1 c1 tr1 st1 data1 G Hbs Hf Hlt H. unfold fill_phase in H.
  destruct (bs - length buf <? bs)%nat eqn:Ea.
  - set (to_copy := if (bs - length buf <? length data)%nat then (bs - length buf)%nat else length data) in *.
    assert (Htc : (to_copy <= length data)%nat /\ (to_copy <= bs - length buf)%nat).
    { subst to_copy. destruct (bs - length buf <? length data)%nat eqn:E;
        [apply Nat.ltb_lt in E | apply Nat.ltb_ge in E]; lia. }
    assert (Hsplit : (buf ++ firstn to_copy data) ++ skipn to_copy data = buf ++ data).
    { rewrite <- app_assoc, firstn_skipn. reflexivity. }
    assert (Hlen : length (buf ++ firstn to_copy data) = (length buf + to_copy)%nat).
    { rewrite app_length, firstn_length. lia. }
    destruct ((bs - length (buf ++ firstn to_copy data)) =? 0)%nat eqn:Efull.
    + apply Nat.eqb_eq in Efull.
      assert (Hb : length (buf ++ firstn to_copy data) = bs) by lia.
      destruct (write_all cb fuel c (buf ++ firstn to_copy data)) as [[c' tr] st] eqn:Ew.
      apply write_all_acc in Ew; [|assumption| |assumption].
      2:{ intros E. rewrite E in Hb. cbn in Hb. lia. }
      destruct Ew as (G1 & S1 & T1). subst st tr. rewrite ok_ltb in H. inversion H. subst buf1 c1 tr1 st1 data1.
      split; [assumption|]. split; [reflexivity|]. split.
      { constructor; [|constructor]. split; [exact Hb | unfold whole; cbn [i_ret]; rewrite Hb; reflexivity]. }
      split; [rewrite skipn_length; lia|]. left. split; [reflexivity|].
      unfold acc. cbn [map concat]. rewrite iacc_whole, app_nil_r. assumption.
    + apply Nat.eqb_neq in Efull. inversion H; subst.
      split; [assumption|]. split; [reflexivity|]. split; [constructor|].
      split; [rewrite skipn_length; lia|]. right.
      assert (to_copy = length data).
      { subst to_copy. destruct (bs - length buf <? length data)%nat eqn:E; [|reflexivity]. exfalso. lia. }
      rewrite H0 in *. rewrite firstn_all, skipn_all. repeat split; try reflexivity.
      rewrite firstn_all in Efull. lia.
  - apply Nat.ltb_ge in Ea. inversion H; subst.
    split; [assumption|]. split; [reflexivity|]. split; [constructor|]. split; [lia|]. left.
    assert (length buf1 = 0%nat) by lia. destruct buf1; [|cbn in *; lia]. split; reflexivity.
Qed.

Lemma client_write_acc : forall bs buf c data buf' c' tr st,
  Good c -> (0 < bs)%nat -> (length buf < bs)%nat ->
  client_write cb bs buf c data = (buf', c', tr, st) ->
  Good c' /\ st = ARCHIVE_OK /\ Forall (full bs) tr /\ acc tr ++ buf' = buf ++ data /\
  (length buf' < bs)%nat.
Proof.
  intros bs buf c data buf' c' tr st G Hbs Hlt H. unfold client_write in H.
  destruct (bs =? 0)%nat eqn:Ebs; [apply Nat.eqb_eq in Ebs; lia|].
  destruct (fill_phase cb (S (length buf + length data)) bs buf c data)
    as [[[[buf1 c1] tr1] st1] data1] eqn:Ef.
  apply fill_phase_acc in Ef; [|assumption|assumption|lia|assumption].
  destruct Ef as (G1 & S1 & F1 & L1 & K1). subst st1. rewrite ok_ltb in H.
  destruct (direct cb (S (length buf + length data)) bs c1 data1) as [[[c2 tr2] st2] rest] eqn:Ed.
  apply direct_acc in Ed; [|assumption|assumption|lia].
  destruct Ed as (G2 & S2 & F2 & A2 & L2). subst st2. rewrite ok_ltb in H.
  inversion H; subst buf' c' tr st. clear H.
  split; [assumption|]. split; [reflexivity|]. split; [apply Forall_app; split; assumption|].
  rewrite acc_app. destruct K1 as [(B & A1) | (D & T & B & L)].
  - subst buf1. cbn [app]. rewrite <- app_assoc, A2. split; assumption.
  - subst data1 tr1. apply app_nil_both in A2. destruct A2 as [A2 R]. rewrite A2, R.
    unfold acc. cbn [map concat app]. rewrite app_nil_r. split; assumption.
Qed.

Lemma writes_acc : forall chunks bs buf c buf' c' res,
  Good c -> (0 < bs)%nat -> (length buf < bs)%nat ->
  writes cb bs buf c chunks = (buf', c', res) ->
  Good c' /\ all_ok res /\ Forall (full bs) (flat res) /\
  acc (flat res) ++ buf' = buf ++ concat chunks /\ (length buf' < bs)%nat.
Proof.
  induction chunks as [|d ds IH]; intros bs buf c buf' c' res G Hbs Hlt H.
  - cbn in H. inversion H; subst. split; [assumption|]. split; [constructor|]. split; [constructor|].
    cbn. rewrite app_nil_r. split; [reflexivity|assumption].
  - cbn [writes] in H.
    destruct (filter_write cb bs buf c d) as [[[buf1 c1] tr] st] eqn:Ef.
    destruct (writes cb bs buf1 c1 ds) as [[buf2 c2] res2] eqn:Ew.
    inversion H; subst buf' c' res. clear H. cbn [concat].
    assert (K : Good c1 /\ st = ARCHIVE_OK /\ Forall (full bs) tr /\ acc tr ++ buf1 = buf ++ d /\
                (length buf1 < bs)%nat).
    { destruct d as [|x d'].
      - cbn in Ef. inversion Ef; subst. split; [assumption|]. split; [reflexivity|]. split; [constructor|].
        cbn. rewrite app_nil_r. split; [reflexivity|assumption].
      - cbn [filter_write] in Ef. eapply client_write_acc; eassumption. }
    destruct K as (G1 & S1 & F1 & A1 & L1).
    apply IH in Ew; [|assumption|assumption|assumption].
    destruct Ew as (G2 & O2 & F2 & A2 & L2).
    split; [assumption|]. split; [constructor; assumption|]. rewrite flat_cons.
    split; [apply Forall_app; split; assumption|]. split; [|assumption].
    rewrite acc_app, <- app_assoc, A2, app_assoc, A1, <- app_assoc. reflexivity.
Qed.

Definition nonempty (d : bytes) : bool := match d with [] => false | _ => true end.

(* bytes_per_block = 0: every non-empty write reaches the callback as one invocation *)
Lemma writes_acc0 : forall chunks buf c buf' c' res,
  Good c -> writes cb 0 buf c chunks = (buf', c', res) ->
  Good c' /\ all_ok res /\ buf' = buf /\ flat res = map whole (filter nonempty chunks) /\
  map fst res = map (fun d => if nonempty d then [whole d] else []) chunks.
Proof.
  induction chunks as [|d ds IH]; intros buf c buf' c' res G H.
  - cbn in H. inversion H; subst. split; [assumption|]. split; [constructor|]. repeat split.
  - cbn [writes] in H.
    destruct (filter_write cb 0 buf c d) as [[[buf1 c1] tr] st] eqn:Ef.
    destruct (writes cb 0 buf1 c1 ds) as [[buf2 c2] res2] eqn:Ew.
    inversion H; subst buf' c' res. clear H.
    assert (K : Good c1 /\ st = ARCHIVE_OK /\ buf1 = buf /\ tr = if nonempty d then [whole d] else []).
    { destruct d as [|x d'].
      - cbn in Ef. inversion Ef; subst. repeat split; assumption.
      - cbn [filter_write] in Ef. unfold client_write in Ef. cbn [Nat.eqb] in Ef.
        destruct (pass_through cb (S (length buf + length (x :: d'))) c (x :: d')) as [[c1' tr1] st1] eqn:Ep.
        inversion Ef; subst. apply pass_through_acc in Ep; [|assumption|congruence|lia].
        destruct Ep as (G1 & S1 & T1). repeat split; assumption. }
    destruct K as (G1 & S1 & B1 & T1). subst buf1.
    apply IH in Ew; [|assumption]. destruct Ew as (G2 & O2 & B2 & F2 & M2).
    split; [assumption|]. split; [constructor; assumption|]. split; [assumption|].
    rewrite flat_cons, F2, T1. cbn [map filter]. rewrite M2.
    destruct (nonempty d); split; reflexivity.
Qed.

Theorem session_acc : forall bs bibl c chunks c' res,
  (0 < bs)%nat -> Good c -> session cb bs bibl c chunks = (c', res) ->
  let data := concat chunks in
  let r := (length data mod bs)%nat in
  exists blocks last,
    flat res = blocks ++ last /\ Forall (full bs) blocks /\ length blocks = (length data / bs)%nat /\
    (r = 0%nat -> last = []) /\
    (r <> 0%nat -> exists i, last = [i] /\ i_off i = (r + padlen bs bibl r)%nat /\
                             i_ret i = Z.of_nat (i_off i)) /\
    all_ok res /\ acc (flat res) = data ++ zeros (padlen bs bibl r) /\ Good c'.
Proof.
  intros bs bibl c chunks c' res Hbs G H data r. unfold session in H.
  destruct (writes cb bs [] c chunks) as [[buf c1] res1] eqn:Ew.
  destruct (client_close cb bs bibl buf c1) as [[c2 tr] st] eqn:Ec.
  inversion H; subst c' res. clear H.
  apply writes_acc in Ew; [|assumption|assumption|cbn; lia].
  destruct Ew as (G1 & O1 & F1 & A1 & L1). cbn [app] in A1. fold data in A1.
  assert (Hlen : length data = (bs * length (flat res1) + length buf)%nat).
  { rewrite <- A1, app_length, (full_acc_length bs) by assumption. reflexivity. }
  assert (Hr : length buf = r) by (subst r; eapply Nat.mod_unique; eassumption).
  assert (Hq : length (flat res1) = (length data / bs)%nat) by (eapply Nat.div_unique; eassumption).
  exists (flat res1), tr. rewrite flat_app. cbn [flat map concat fst]. rewrite app_nil_r.
  split; [reflexivity|]. split; [assumption|]. split; [assumption|].
  destruct buf as [|x q].
  - cbn in Ec. inversion Ec; subst. cbn [length] in Hr. rewrite <- Hr.
    split; [reflexivity|]. split; [congruence|]. split.
    { apply Forall_app. split; [assumption|]. constructor; [reflexivity|constructor]. }
    split; [|assumption]. rewrite app_nil_r in *. rewrite padlen_0. cbn [zeros repeat].
    rewrite app_nil_r. assumption.
  - cbn [client_close] in Ec. apply write_all_acc in Ec; [|assumption|discriminate|lia].
    destruct Ec as (G2 & S2 & T2). subst st tr. rewrite <- Hr.
    split; [cbn [length]; lia|]. split.
    { intros _. eexists. split; [reflexivity|]. unfold whole, i_off. cbn [i_buf i_ret].
      split; [|reflexivity]. rewrite app_length. unfold zeros. rewrite repeat_length. reflexivity. }
    split.
    { apply Forall_app. split; [assumption|]. constructor; [reflexivity|constructor]. }
    split; [|assumption]. rewrite acc_app. unfold acc at 2. cbn [map concat].
    rewrite iacc_whole, app_nil_r, app_assoc, A1. reflexivity.
Qed.

Theorem session_acc0 : forall bibl c chunks c' res,
  Good c -> session cb 0 bibl c chunks = (c', res) ->
  all_ok res /\ flat res = map whole (filter nonempty chunks) /\ acc (flat res) = concat chunks /\
  map fst res = map (fun d => if nonempty d then [whole d] else []) chunks ++ [[]].
Proof.
  intros bibl c chunks c' res G H. unfold session in H.
  destruct (writes cb 0 [] c chunks) as [[buf c1] res1] eqn:Ew.
  apply writes_acc0 in Ew; [|assumption]. destruct Ew as (G1 & O1 & B1 & F1 & M1). subst buf.
  cbn in H. inversion H; subst. rewrite flat_app, map_app, M1. cbn [flat map concat fst]. rewrite !app_nil_r.
  split; [apply Forall_app; split; [assumption|constructor; [reflexivity|constructor]]|].
  split; [assumption|]. split; [|reflexivity]. rewrite F1. clear.
  induction chunks as [|d ds IH]; [reflexivity|]. cbn [filter concat].
  destruct d as [|x d']; cbn [nonempty]; [assumption|].
  cbn [map]. rewrite acc_cons, iacc_whole, IH. reflexivity.
Qed.

End AcceptAll.

(* ---------------------------------------------------------------- the last-block rule *)
Lemma round_up_spec : forall a b, 0 <= a -> 0 < b ->
  let m := b * ((a + b - 1) / b) in a <= m < a + b /\ m mod b = 0.
Proof.
  intros a b Ha Hb m. subst m.
  pose proof (Z.mul_div_le (a + b - 1) b Hb). pose proof (Z.mul_succ_div_gt (a + b - 1) b Hb).
  split; [lia|]. rewrite Z.mul_comm. apply Z.mod_mul. lia.
Qed.

(* size of the last block: fill + padlen = bpb when bytes_in_last_block <= 0, else fill rounded
   up to the next multiple of bytes_in_last_block, capped at bpb *)
Lemma padlen_rule : forall bs bibl fill, (0 < fill <= bs)%nat ->
  let t := Z.of_nat (fill + padlen bs bibl fill) in
  (bibl <= 0 -> t = Z.of_nat bs) /\
  (0 < bibl -> t = Z.min (Z.of_nat bs) (bibl * ((Z.of_nat fill + bibl - 1) / bibl))).
Proof.
  intros bs bibl fill H t. subst t. destruct fill as [|f]; [lia|]. unfold padlen, last_block_target.
  set (bl := Z.of_nat (S f)). assert (Hbl : 0 < bl <= Z.of_nat bs) by (subst bl; lia).
  destruct (bibl <=? 0) eqn:Eb.
  - apply Z.leb_le in Eb. rewrite Z.ltb_irrefl. split; [intros _|lia].
    destruct (bl <? Z.of_nat bs) eqn:E; [apply Z.ltb_lt in E | apply Z.ltb_ge in E]; subst bl; lia.
  - apply Z.leb_gt in Eb. split; [lia|intros _].
    rewrite Z.quot_div_nonneg by lia.
    destruct (round_up_spec bl bibl) as [R _]; [lia|lia|].
    set (m := bibl * ((bl + bibl - 1) / bibl)) in *.
    destruct (Z.of_nat bs <? m) eqn:E1; [apply Z.ltb_lt in E1 | apply Z.ltb_ge in E1].
    + rewrite Z.min_l by lia.
      destruct (bl <? Z.of_nat bs) eqn:E; [apply Z.ltb_lt in E | apply Z.ltb_ge in E]; subst bl; lia.
    + rewrite Z.min_r by lia.
      destruct (bl <? m) eqn:E; [apply Z.ltb_lt in E | apply Z.ltb_ge in E]; subst bl; lia.
Qed.

(* archive_write.c:520-522 in ssize_t: no intermediate value reaches 2^63 *)
Lemma target_no_overflow : forall bpb bibl bl,
  0 < bibl < 2^31 -> 0 <= bl <= bpb -> bpb < 2^31 ->
  0 <= bl + bibl - 1 < 2^63 /\ 0 <= bibl * ((bl + bibl - 1) ÷ bibl) < 2^63.
Proof.
  intros bpb bibl bl Hb Hl Hp. rewrite Z.quot_div_nonneg by lia.
  destruct (round_up_spec bl bibl) as [R _]; [lia|lia|]. split; lia.
Qed.

(* ---------------------------------------------------------------- callback states are threaded *)
Section Threaded.
Context {C : Type}.
Variable cb : C -> bytes -> C * Z.

(* [threaded c tr c'] : the invocations of tr were made in this order, each on the state left by
   the previous one, never with zero bytes, and recorded what the callback returned *)
Inductive threaded : C -> list inv -> C -> Prop :=
| th_nil : forall c, threaded c [] c
| th_cons : forall c i c1 tr c2, i_buf i <> [] -> cb c (i_buf i) = (c1, i_ret i) ->
    threaded c1 tr c2 -> threaded c (i :: tr) c2.

Lemma threaded_app : forall a c c1 b c2, threaded c a c1 -> threaded c1 b c2 -> threaded c (a ++ b) c2.
Proof.
  induction a; intros c c1 b c2 H1 H2.
  - inversion H1; subst. assumption.
  - inversion H1; subst. cbn [app]. econstructor; try eassumption. eapply IHa; eassumption.
Qed.

Lemma write_all_threaded : forall fuel p c c' tr st,
  write_all cb fuel c p = (c', tr, st) -> threaded c tr c'.
Proof.
  induction fuel; intros p c c' tr st H; destruct p as [|x q]; cbn [write_all] in H;
    try (inversion H; subst; constructor).
  set (p := x :: q) in *. destruct (cb c p) as [c1 bw] eqn:Ecb.
  assert (Hp : p <> []) by (subst p; congruence).
  destruct (bw <=? 0).
  { inversion H; subst. econstructor; [exact Hp | exact Ecb | constructor]. }
  destruct (Z.of_nat (length p) <? bw).
  { inversion H; subst. econstructor; [exact Hp | exact Ecb | constructor]. }
  destruct (write_all cb fuel c1 (skipn (Z.to_nat bw) p)) as [[c2 tr2] st2] eqn:Er.
  inversion H; subst. econstructor; [exact Hp | exact Ecb | eapply IHfuel; eassumption].
Qed.

Lemma pass_through_threaded : forall fuel p c c' tr st,
  pass_through cb fuel c p = (c', tr, st) -> threaded c tr c'.
Proof.
  induction fuel; intros p c c' tr st H; destruct p as [|x q]; cbn [pass_through] in H;
    try (inversion H; subst; constructor).
  set (p := x :: q) in *. destruct (cb c p) as [c1 bw] eqn:Ecb.
  assert (Hp : p <> []) by (subst p; congruence).
  destruct (bw <=? 0).
  { inversion H; subst. econstructor; [exact Hp | exact Ecb | constructor]. }
  destruct (pass_through cb fuel c1 (skipn (Z.to_nat bw) p)) as [[c2 tr2] st2] eqn:Er.
  inversion H; subst. econstructor; [exact Hp | exact Ecb | eapply IHfuel; eassumption].
Qed.

Lemma direct_threaded : forall fuel bs p c c' tr st rest,
  (0 < bs)%nat -> direct cb fuel bs c p = (c', tr, st, rest) -> threaded c tr c'.
Proof.
  induction fuel; intros bs p c c' tr st rest Hbs H; cbn [direct] in H;
    destruct (length p <? bs)%nat eqn:El; try (inversion H; subst; constructor).
  apply Nat.ltb_ge in El.
  assert (Hp : firstn bs p <> []).
  { intros E. apply (f_equal (@length N)) in E. rewrite firstn_length_le in E by assumption. cbn in E. lia. }
  destruct (cb c (firstn bs p)) as [c1 bw] eqn:Ecb.
  destruct (bw <=? 0).
  { inversion H; subst. econstructor; [exact Hp | exact Ecb | constructor]. }
  destruct (direct cb fuel bs c1 (skipn (Z.to_nat bw) p)) as [[[c2 tr2] st2] rest2] eqn:Er.
  inversion H; subst. econstructor; [exact Hp | exact Ecb | eapply IHfuel; eassumption].
Qed.

Lemma client_write_threaded : forall bs buf c data buf' c' tr st,
  client_write cb bs buf c data = (buf', c', tr, st) -> threaded c tr c'.
Proof.
  intros bs buf c data buf' c' tr st H. unfold client_write in H.
  destruct (bs =? 0)%nat eqn:Ebs.
  - destruct (pass_through cb (S (length buf + length data)) c data) as [[c1 tr1] st1] eqn:Ep.
    inversion H; subst. eapply pass_through_threaded; eassumption.
  - apply Nat.eqb_neq in Ebs.
    destruct (fill_phase cb (S (length buf + length data)) bs buf c data)
      as [[[[buf1 c1] tr1] st1] data1] eqn:Ef.
    assert (T1 : threaded c tr1 c1).
    { unfold fill_phase in Ef. destruct (bs - length buf <? bs)%nat; [|inversion Ef; subst; constructor].
      match type of Ef with context [(?n =? 0)%nat] => destruct (n =? 0)%nat end;
        [|inversion Ef; subst; constructor].
      match type of Ef with context [write_all cb ?f ?c ?p] =>
        destruct (write_all cb f c p) as [[c0 tr0] st0] eqn:Ew end.
      apply write_all_threaded in Ew. destruct (st0 <? 0); inversion Ef; subst; assumption. }
    destruct (st1 <? 0); [inversion H; subst; assumption|].
    destruct (direct cb (S (length buf + length data)) bs c1 data1) as [[[c2 tr2] st2] rest] eqn:Ed.
    apply direct_threaded in Ed; [|lia].
    destruct (st2 <? 0); inversion H; subst; eapply threaded_app; eassumption.
Qed.

Lemma filter_write_threaded : forall bs buf c data buf' c' tr st,
  filter_write cb bs buf c data = (buf', c', tr, st) -> threaded c tr c'.
Proof.
  intros bs buf c data buf' c' tr st H. destruct data; cbn [filter_write] in H.
  - inversion H; subst. constructor.
  - eapply client_write_threaded; eassumption.
Qed.

Lemma client_close_threaded : forall bs bibl buf c c' tr st,
  client_close cb bs bibl buf c = (c', tr, st) -> threaded c tr c'.
Proof.
  intros bs bibl buf c c' tr st H. destruct buf; cbn [client_close] in H.
  - inversion H; subst. constructor.
  - eapply write_all_threaded; eassumption.
Qed.

Lemma writes_threaded : forall chunks bs buf c buf' c' res,
  writes cb bs buf c chunks = (buf', c', res) -> threaded c (flat res) c'.
Proof.
  induction chunks as [|d ds IH]; intros bs buf c buf' c' res H; cbn [writes] in H.
  - inversion H; subst. constructor.
  - destruct (filter_write cb bs buf c d) as [[[buf1 c1] tr] st] eqn:Ef.
    destruct (writes cb bs buf1 c1 ds) as [[buf2 c2] res2] eqn:Ew.
    inversion H; subst. rewrite flat_cons. eapply threaded_app.
    + eapply filter_write_threaded; eassumption.
    + eapply IH; eassumption.
Qed.

Theorem session_threaded : forall bs bibl c chunks c' res,
  session cb bs bibl c chunks = (c', res) -> threaded c (flat res) c'.
Proof.
  intros bs bibl c chunks c' res H. unfold session in H.
  destruct (writes cb bs [] c chunks) as [[buf c1] res1] eqn:Ew.
  destruct (client_close cb bs bibl buf c1) as [[c2 tr] st] eqn:Ec.
  inversion H; subst. rewrite flat_app. cbn [flat map concat fst]. rewrite app_nil_r.
  eapply threaded_app; [eapply writes_threaded | eapply client_close_threaded]; eassumption.
Qed.

End Threaded.

(* ---------------------------------------------------------------- locating an invocation in its call *)
Lemma all_ok_good : forall res, Forall call_rule res -> all_ok res -> good (flat res).
Proof.
  induction res as [|[tr st] res IH]; intros R O; [constructor|].
  inversion R; subst. inversion O; subst. rewrite flat_cons. apply good_app; [|apply IH; assumption].
  destruct H1 as [[_ G] | [S1 _]]; [assumption|]. cbn [snd] in *. rewrite S1 in H3. discriminate.
Qed.

Lemma flat_locate : forall res n i, nth_error (flat res) n = Some i ->
  exists res1 tr st res2 k, res = res1 ++ (tr, st) :: res2 /\ n = (length (flat res1) + k)%nat /\
                            nth_error tr k = Some i.
Proof.
  induction res as [|[tr st] res IH]; intros n i H.
  - destruct n; discriminate.
  - rewrite flat_cons in H. destruct (Nat.lt_ge_cases n (length tr)) as [L | L].
    + rewrite nth_error_app1 in H by assumption.
      exists [], tr, st, res, n. repeat split; assumption.
    + rewrite nth_error_app2 in H by assumption. apply IH in H.
      destruct H as (r1 & tr' & st' & r2 & k & E & N & K). subst res.
      exists ((tr, st) :: r1), tr', st', r2, k. split; [reflexivity|]. split; [|assumption].
      rewrite flat_cons, app_length. lia.
Qed.

(* a refused invocation ends its call with ARCHIVE_FATAL and is the last invocation of that call *)
Lemma refused_call_fatal : forall res n i,
  Forall call_rule res -> nth_error (flat res) n = Some i -> i_ret i <= 0 ->
  exists res1 tr res2, res = res1 ++ (tr, ARCHIVE_FATAL) :: res2 /\
                       (n + 1 = length (flat res1) + length tr)%nat.
Proof.
  intros res n i R H Hi. apply flat_locate in H.
  destruct H as (r1 & tr & st & r2 & k & E & N & K). subst res.
  apply Forall_app in R. destruct R as [_ R]. inversion R; subst.
  destruct H1 as [[_ G] | [S1 FL]]; cbn [fst snd] in *.
  - exfalso. apply nth_error_In in K. unfold good in G. rewrite Forall_forall in G. apply G in K. lia.
  - subst st. exists r1, tr, r2. split; [reflexivity|].
    destruct FL as (t0 & j & E & G & F). subst tr. rewrite app_length. cbn [length].
    destruct (Nat.lt_ge_cases k (length t0)) as [L | L].
    + exfalso. rewrite nth_error_app1 in K by assumption. apply nth_error_In in K.
      unfold good in G. rewrite Forall_forall in G. apply G in K. lia.
    + assert (k < length (t0 ++ [j]))%nat by (apply nth_error_Some; congruence).
      rewrite app_length in H. cbn [length] in H. lia.
Qed.

(* ---------------------------------------------------------------- the scripted callback *)
Lemma plan_cb_ok : forall pl p, snd (plan_cb pl p) <= Z.of_nat (length p).
Proof. intros. destruct pl as [|[k|] pl]; cbn [plan_cb snd]; lia. Qed.

Lemma plan_accepting : forall c p, c = @nil resp ->
  fst (plan_cb c p) = [] /\ snd (plan_cb c p) = Z.of_nat (length p).
Proof. intros. subst. split; reflexivity. Qed.

(* what the n-th plan item prescribes for an offer of [off] bytes *)
Definition prescribed (r : option resp) (off : nat) : Z :=
  match r with
  | None => Z.of_nat off
  | Some (Accept k) => Z.min (Z.of_N k) (Z.of_nat off)
  | Some Fail => -1
  end.

Lemma plan_threaded_rets : forall pl tr pl', threaded plan_cb pl tr pl' ->
  pl' = skipn (length tr) pl /\
  forall n i, nth_error tr n = Some i -> i_ret i = prescribed (nth_error pl n) (i_off i).
Proof.
  intros pl tr pl' H. induction H as [c | c i c1 tr c2 Hne Hcb Hth [IH1 IH2]].
  - split; [reflexivity|]. intros n i Hn. destruct n; discriminate.
  - assert (Hc1 : c1 = skipn 1 c /\ i_ret i = prescribed (nth_error c 0) (i_off i)).
    { unfold i_off. destruct c as [|[k|] c]; cbn in Hcb; inversion Hcb; subst; cbn; split; congruence. }
    destruct Hc1 as [Hc1 Hr]. split.
    + rewrite IH1, Hc1. cbn [length]. destruct c; [destruct (length tr); reflexivity | reflexivity].
    + intros n j Hn. destruct n as [|n]; cbn in Hn.
      * inversion Hn; subst. assumption.
      * rewrite (IH2 _ _ Hn), Hc1. destruct c; [destruct n; reflexivity | reflexivity].
Qed.

(* ---------------------------------------------------------------- memory_write *)
Definition Minv (m : mem) : Prop := (m_used m <= m_size m)%nat /\ length (m_data m) = m_used m.

Lemma memory_write_ok : forall m p, snd (memory_write m p) <= Z.of_nat (length p).
Proof.
  intros. unfold memory_write. destruct (m_size m <? m_used m + length p)%nat; cbn [snd].
  - pose proof fatal_neg. lia.
  - lia.
Qed.

Lemma memory_write_spec : forall m p m' r, memory_write m p = (m', r) -> Minv m ->
  Minv m' /\ m_size m' = m_size m /\
  ((m_size m < m_used m + length p)%nat -> r = ARCHIVE_FATAL /\ m' = m) /\
  ((m_used m + length p <= m_size m)%nat ->
     r = Z.of_nat (length p) /\ m_data m' = m_data m ++ p /\ m_used m' = (m_used m + length p)%nat).
Proof.
  intros m p m' r H [I1 I2]. unfold memory_write in H.
  destruct (m_size m <? m_used m + length p)%nat eqn:E; inversion H; subst; clear H.
  - apply Nat.ltb_lt in E. split; [split; assumption|]. split; [reflexivity|]. split; [auto|lia].
  - apply Nat.ltb_ge in E. cbn [m_used m_size m_data]. split.
    + unfold Minv. cbn [m_used m_size m_data]. split; [assumption|]. rewrite app_length. lia.
    + split; [reflexivity|]. split; [lia|]. intros _. repeat split.
Qed.

Lemma memory_threaded : forall m tr m', threaded memory_write m tr m' -> Minv m ->
  Minv m' /\ m_size m' = m_size m /\ m_data m' = m_data m ++ acc tr.
Proof.
  intros m tr m' H. induction H as [c | c i c1 tr c2 Hne Hcb Hth IH]; intros I.
  - split; [assumption|]. split; [reflexivity|]. unfold acc. cbn. rewrite app_nil_r. reflexivity.
  - destruct (memory_write_spec _ _ _ _ Hcb I) as (I1 & S1 & Over & Fit).
    destruct (IH I1) as (I2 & S2 & D2). split; [assumption|]. split; [congruence|].
    rewrite D2, acc_cons. destruct (Nat.lt_ge_cases (m_size c) (m_used c + length (i_buf i))) as [L | L].
    + destruct (Over L) as [R E]. subst c1. unfold i_acc. rewrite R. cbn [Z.to_nat firstn app]. reflexivity.
    + destruct (Fit L) as (R & D & _). unfold i_acc. rewrite R, Nat2Z.id, firstn_all, D, app_assoc. reflexivity.
Qed.

(* ---------------------------------------------------------------- API-level model = session *)
(* The executable API model (api_run: what the correspondence check compares with the real
   library) on the call sequence  write_header, write_data*, close, free  of the raw format is the
   [session] the theorems above speak about. *)
Definition view {C} (r : @api C * list inv * Z) : list inv * Z :=
  let '(_, tr, st) := r in (tr, if st <? 0 then st else ARCHIVE_OK).

Section ApiLink.
Context {C : Type}.
Variable cb : C -> bytes -> C * Z.
Hypothesis cb_ok : forall c p, snd (cb c p) <= Z.of_nat (length p).

Lemma api_run_app : forall fm bs l1 l2 (a : @api C),
  api_run cb fm bs a (l1 ++ l2) =
  let '(a1, r1) := api_run cb fm bs a l1 in
  let '(a2, r2) := api_run cb fm bs a1 l2 in (a2, r1 ++ r2).
Proof.
  intros fm bs. induction l1 as [|o l1 IH]; intros l2 a.
  - cbn [app api_run]. destruct (api_run cb fm bs a l2). reflexivity.
  - cbn [app api_run]. destruct (api_step cb fm bs a o) as [[a1 tr] st]. rewrite IH.
    destruct (api_run cb fm bs a1 l1) as [a2 r1]. destruct (api_run cb fm bs a2 l2) as [a3 r2]. reflexivity.
Qed.

Lemma api_run_data : forall fm chunks bs buf c bibl e k l buf' c' res,
  writes cb bs buf c chunks = (buf', c', res) ->
  exists results,
    api_run cb fm bs (mkApi SData true buf bibl e k l c) (map OData chunks) =
      (mkApi SData true buf' bibl e k l c', results) /\ map view results = res.
Proof.
  intros fm. induction chunks as [|d ds IH]; intros bs buf c bibl e k l buf' c' res H; cbn [writes] in H.
  - inversion H; subst. exists []. split; reflexivity.
  - destruct (filter_write cb bs buf c d) as [[[buf1 c1] tr] st] eqn:Ef.
    destruct (writes cb bs buf1 c1 ds) as [[buf2 c2] res2] eqn:Ew.
    inversion H; subst buf' c' res. clear H.
    destruct (IH _ _ _ bibl e k l _ _ _ Ew) as (results & R & V).
    cbn [map api_run api_step a_state a_fopen negb a_buf a_cb a_bibl a_entries a_closer a_leaked].
    rewrite Ef, R. eexists. split; [reflexivity|]. cbn [map view]. rewrite V. f_equal. f_equal.
    apply (filter_write_spec cb cb_ok) in Ef. destruct Ef as [(S1 & _) | (S1 & _)]; subst st.
    + cbn. destruct (Z.of_nat (length d) <? 0) eqn:E; [apply Z.ltb_lt in E; lia | reflexivity].
    + reflexivity.
Qed.

Theorem api_session : forall fm bs bibl c chunks c' res,
  session cb bs bibl c chunks = (c', res) ->
  exists a' results,
    api_run cb fm bs (fst (api_open bibl ARCHIVE_OK false c))
            (OHeader :: map OData chunks ++ [OClose; OFree]) = (a', results) /\
    map view results = ([], ARCHIVE_OK) :: res ++ [([], ARCHIVE_OK)] /\
    a_cb a' = c' /\ a_closer a' = 1%nat /\ a_leaked a' = false /\ a_state a' = SClosed.
Proof.
  intros fm bs bibl c chunks c' res H. unfold session in H.
  destruct (writes cb bs [] c chunks) as [[buf c1] res1] eqn:Ew.
  destruct (client_close cb bs bibl buf c1) as [[c2 tr] st] eqn:Ec.
  inversion H; subst c' res. clear H.
  destruct (api_run_data fm _ _ _ _ bibl 1%nat 0%nat false _ _ _ Ew) as (results & R & V).
  assert (Eo : api_open bibl ARCHIVE_OK false c = (mkApi SHeader true [] bibl 0 0 false c, ARCHIVE_OK))
    by reflexivity.
  rewrite Eo. cbn [fst].
  cbn [api_run api_step a_state a_entries Nat.ltb Nat.leb a_fopen a_buf a_bibl a_closer a_leaked a_cb].
  rewrite api_run_app, R.
  cbn [api_run api_step api_close api_close_core a_state a_fopen a_buf a_bibl a_cb a_entries a_closer a_leaked].
  rewrite Ec.
  cbn [api_run api_step api_close api_close_core a_state a_fopen a_buf a_bibl a_cb a_entries a_closer a_leaked].
  eexists. eexists. split; [reflexivity|]. cbn [a_cb a_closer a_leaked a_state].
  split; [|repeat split].
  cbn [map view]. f_equal. rewrite map_app, V. cbn [map view]. rewrite <- app_assoc. cbn [app]. f_equal.
  apply (client_close_spec cb cb_ok) in Ec. destruct Ec as [(S1 & _) | (S1 & _)]; subst st; reflexivity.
Qed.

End ApiLink.

(* ---------------------------------------------------------------- corollaries used by Properties_C09 *)
Section Corollaries.
Context {C : Type}.
Variable cb : C -> bytes -> C * Z.

(* accepting callback, any block size (0 included): the stream is data ++ prescribed padding *)
Lemma session_stream_acc : forall (Good : C -> Prop),
  (forall c p, Good c -> Good (fst (cb c p)) /\ snd (cb c p) = Z.of_nat (length p)) ->
  forall bs bibl c chunks c' res, Good c -> session cb bs bibl c chunks = (c', res) ->
  all_ok res /\
  acc (flat res) = concat chunks ++ zeros (padlen bs bibl (length (concat chunks) mod bs)).
Proof.
  intros Good Hacc bs bibl c chunks c' res G H. destruct bs as [|bs].
  - destruct (session_acc0 cb Good Hacc _ _ _ _ _ G H) as (O & _ & A & _).
    split; [assumption|]. rewrite padlen_bs0. cbn [zeros repeat]. rewrite app_nil_r. assumption.
  - destruct (session_acc cb Good Hacc (S bs) bibl c chunks c' res) as (b & l & _ & _ & _ & _ & _ & O & A & _);
      [lia|assumption|assumption|]. split; assumption.
Qed.

Lemma bpb_independent : forall (Good : C -> Prop),
  (forall c p, Good c -> Good (fst (cb c p)) /\ snd (cb c p) = Z.of_nat (length p)) ->
  forall bs1 bibl1 c1 chunks1 c1' res1 bs2 bibl2 c2 chunks2 c2' res2,
  Good c1 -> Good c2 -> concat chunks1 = concat chunks2 ->
  session cb bs1 bibl1 c1 chunks1 = (c1', res1) -> session cb bs2 bibl2 c2 chunks2 = (c2', res2) ->
  let data := concat chunks1 in
  exists n1 n2, acc (flat res1) = data ++ zeros n1 /\ acc (flat res2) = data ++ zeros n2 /\
                firstn (length data) (acc (flat res1)) = firstn (length data) (acc (flat res2)).
Proof.
  intros Good Hacc bs1 bibl1 c1 chunks1 c1' res1 bs2 bibl2 c2 chunks2 c2' res2 G1 G2 E H1 H2 data.
  destruct (session_stream_acc Good Hacc _ _ _ _ _ _ G1 H1) as [_ A1].
  destruct (session_stream_acc Good Hacc _ _ _ _ _ _ G2 H2) as [_ A2].
  rewrite <- E in A2. fold data in A1, A2. do 2 eexists. split; [exact A1|]. split; [exact A2|].
  rewrite A1, A2. rewrite !firstn_app, !Nat.sub_diag, !firstn_all. reflexivity.
Qed.

End Corollaries.

Definition refusing (r : resp) : Prop := r = Fail \/ r = Accept 0%N.

(* "the n-th write-callback invocation fails": if the run gets as far as invocation n, the API
   call in progress returns ARCHIVE_FATAL and makes no further invocation *)
Lemma plan_fail_reported : forall bs bibl pl chunks pl' res n r,
  session plan_cb bs bibl pl chunks = (pl', res) ->
  nth_error pl n = Some r -> refusing r -> (n < length (flat res))%nat ->
  exists res1 tr res2, res = res1 ++ (tr, ARCHIVE_FATAL) :: res2 /\
                       (n + 1 = length (flat res1) + length tr)%nat.
Proof.
  intros bs bibl pl chunks pl' res n r H Hn Hr Hl.
  pose proof (session_status plan_cb plan_cb_ok _ _ _ _ _ _ H) as R.
  pose proof (session_threaded plan_cb _ _ _ _ _ _ H) as T.
  apply plan_threaded_rets in T. destruct T as [_ T].
  destruct (nth_error (flat res) n) as [i|] eqn:Ei; [|apply nth_error_None in Ei; lia].
  eapply refused_call_fatal; [exact R | exact Ei |].
  rewrite (T _ _ Ei), Hn. destruct Hr; subst r; cbn; lia.
Qed.

(* the memory sink behind the client layer *)
Lemma memory_session : forall bs bibl size chunks m' res,
  session memory_write bs bibl (mkMem 0 size []) chunks = (m', res) ->
  (m_used m' <= size)%nat /\ m_size m' = size /\ length (m_data m') = m_used m' /\
  m_data m' = acc (flat res) /\
  (all_ok res -> exists n, m_data m' = concat chunks ++ zeros n) /\
  ((size < length (concat chunks))%nat -> ~ all_ok res).
Proof.
  intros bs bibl size chunks m' res H.
  pose proof (session_threaded memory_write _ _ _ _ _ _ H) as T.
  apply memory_threaded in T; [|split; cbn; lia].
  destruct T as ([I1 I2] & S1 & D). cbn [m_size m_data app] in *.
  pose proof (session_status memory_write memory_write_ok _ _ _ _ _ _ H) as R.
  destruct (session_spec memory_write memory_write_ok _ _ _ _ _ _ H) as (n & _ & _ & K).
  split; [lia|]. split; [assumption|]. split; [assumption|]. split; [assumption|].
  assert (K2 : all_ok res -> m_data m' = concat chunks ++ zeros n).
  { intros O. destruct (K (all_ok_good _ R O)) as [_ A]. congruence. }
  split.
  - intros O. exists n. auto.
  - intros L O. specialize (K2 O). rewrite K2, app_length in I2. lia.
Qed.

(* ---------------------------------------------------------------- resources at the API level *)
Definition Ainv {C} (a : @api C) : Prop :=
  (a_state a = SNew \/ a_state a = SClosed) -> a_fopen a = false.

Ltac api_case H :=
  repeat match type of H with
  | context [if ?b then _ else _] => destruct b eqn:?
  | context [match ?x with (_, _) => _ end] => destruct x eqn:?
  | context [match ?x with FreeSkips => _ | _ => _ end] => destruct x eqn:?
  end.

Lemma api_step_Ainv : forall {C} (cb : C -> bytes -> C * Z) fm bs a o a' tr st,
  Ainv a -> api_step cb fm bs a o = (a', tr, st) -> Ainv a'.
Proof.
  intros C cb fm bs a o a' tr st I H. unfold Ainv in *.
  destruct o; cbn [api_step] in H; unfold api_close, api_close_core, bad_state, set_state in H;
    destruct (a_state a) eqn:Es; api_case H; inversion H; subst; clear H;
    cbn [a_state a_fopen]; rewrite ?Es; intros [K|K]; try discriminate; try reflexivity;
    try (apply I; auto).
Qed.

(* only archive_write_free changes the leak flag, and only in state FATAL with the client filter
   still open *)
Lemma api_step_leaked : forall {C} (cb : C -> bytes -> C * Z) fm bs a o a' tr st,
  api_step cb fm bs a o = (a', tr, st) ->
  a_leaked a' = match o, a_state a with
                | OFree, SFatal => a_leaked a || (a_fopen a && match fm with FreeSkips => true | _ => false end)
                | _, _ => a_leaked a
                end.
Proof.
  intros C cb fm bs a o a' tr st H.
  destruct o; cbn [api_step] in H; unfold api_close, api_close_core, bad_state, set_state in H;
    destruct (a_state a) eqn:Es; api_case H; inversion H; subst; clear H; cbn [a_leaked];
    try reflexivity;
    repeat match goal with E : a_fopen _ = _ |- _ => rewrite E end;
    cbn [andb]; rewrite ?andb_false_r, ?orb_false_r, ?andb_true_r; try reflexivity;
    match goal with |- context [a_leaked ?x] => destruct (a_leaked x) end; reflexivity.
Qed.

Lemma api_close_not_open : forall {C} (cb : C -> bytes -> C * Z) fm bs a a' tr st,
  Ainv a -> api_step cb fm bs a OClose = (a', tr, st) -> a_fopen a' = false.
Proof.
  intros C cb fm bs a a' tr st I H. unfold Ainv in I.
  cbn [api_step] in H; unfold api_close, api_close_core, set_state in H;
    destruct (a_state a) eqn:Es; api_case H; inversion H; subst; clear H; cbn [a_fopen];
    try reflexivity; try assumption; apply I; auto.
Qed.

Lemma api_run_Ainv : forall {C} (cb : C -> bytes -> C * Z) fm bs ops a a' res,
  Ainv a -> api_run cb fm bs a ops = (a', res) -> Ainv a'.
Proof.
  intros C cb fm bs. induction ops as [|o ops IH]; intros a a' res I H; cbn [api_run] in H.
  - inversion H; subst. assumption.
  - destruct (api_step cb fm bs a o) as [[a1 tr] st] eqn:E1.
    destruct (api_run cb fm bs a1 ops) as [a2 r2] eqn:E2. inversion H; subst.
    eapply IH; [|eassumption]. eapply api_step_Ainv; eassumption.
Qed.

Lemma api_run_leaked : forall {C} (cb : C -> bytes -> C * Z) fm bs ops a a' res,
  ~ In OFree ops -> api_run cb fm bs a ops = (a', res) -> a_leaked a' = a_leaked a.
Proof.
  intros C cb fm bs. induction ops as [|o ops IH]; intros a a' res N H; cbn [api_run] in H.
  - inversion H; subst. reflexivity.
  - destruct (api_step cb fm bs a o) as [[a1 tr] st] eqn:E1.
    destruct (api_run cb fm bs a1 ops) as [a2 r2] eqn:E2. inversion H; subst.
    rewrite (IH _ _ _ (fun K => N (or_intror K)) E2). rewrite (api_step_leaked _ _ _ _ _ _ _ _ E1).
    destruct o; try reflexivity. exfalso. apply N. left. reflexivity.
Qed.

Lemma api_open_Ainv : forall {C} bibl oret fix_bibl (c : C), Ainv (fst (api_open bibl oret fix_bibl c)).
Proof.
  intros. unfold api_open, Ainv. destruct (oret =? ARCHIVE_OK); [cbn; intros [?|?]; discriminate|].
  destruct (oret <? ARCHIVE_WARN); cbn; intros [?|?]; try discriminate; reflexivity.
Qed.

(* close before free: whatever happened before (failed callbacks, misuse, FATAL state), the
   client filter is released *)
Theorem close_then_free_no_leak : forall {C} (cb : C -> bytes -> C * Z) fm bs bibl oret fb c ops a' res,
  ~ In OFree ops ->
  api_run cb fm bs (fst (api_open bibl oret fb c)) (ops ++ [OClose; OFree]) = (a', res) ->
  a_leaked a' = false.
Proof.
  intros C cb fm bs bibl oret fb c ops a' res N H.
  assert (Happ : forall l1 l2 (a : @api C), api_run cb fm bs a (l1 ++ l2) =
            let '(a1, r1) := api_run cb fm bs a l1 in
            let '(a2, r2) := api_run cb fm bs a1 l2 in (a2, r1 ++ r2)).
  { induction l1 as [|o l1 IH]; intros l2 a.
    - cbn [app api_run]. destruct (api_run cb fm bs a l2). reflexivity.
    - cbn [app api_run]. destruct (api_step cb fm bs a o) as [[a1 tr] st]. rewrite IH.
      destruct (api_run cb fm bs a1 l1) as [a2 r1]. destruct (api_run cb fm bs a2 l2) as [a3 r2]. reflexivity. }
  rewrite Happ in H. destruct (api_run cb fm bs (fst (api_open bibl oret fb c)) ops) as [a1 r1] eqn:E1.
  pose proof (api_run_Ainv _ _ _ _ _ _ _ (api_open_Ainv bibl oret fb c) E1) as I1.
  pose proof (api_run_leaked _ _ _ _ _ _ _ N E1) as L1.
  assert (L0 : a_leaked (fst (api_open bibl oret fb c)) = false).
  { unfold api_open. destruct (oret =? ARCHIVE_OK); [reflexivity|]. destruct (oret <? ARCHIVE_WARN); reflexivity. }
  cbn [api_run] in H.
  destruct (api_step cb fm bs a1 OClose) as [[a2 tr2] st2] eqn:E2.
  destruct (api_step cb fm bs a2 OFree) as [[a3 tr3] st3] eqn:E3.
  inversion H; subst.
  rewrite (api_step_leaked _ _ _ _ _ _ _ _ E3), (api_close_not_open _ _ _ _ _ _ _ I1 E2).
  rewrite (api_step_leaked _ _ _ _ _ _ _ _ E2), L1, L0. destruct (a_state a2); reflexivity.
Qed.

(* unless archive_write_free skips everything in state FATAL, no call sequence leaks *)
Theorem free_no_leak : forall {C} (cb : C -> bytes -> C * Z) fm bs ops a a' res,
  fm <> FreeSkips -> api_run cb fm bs a ops = (a', res) -> a_leaked a' = a_leaked a.
Proof.
  intros C cb fm bs ops a a' res Hm. revert a a' res.
  induction ops as [|o ops IH]; intros a a' res H; cbn [api_run] in H.
  - inversion H; subst. reflexivity.
  - destruct (api_step cb fm bs a o) as [[a1 tr] st] eqn:E1.
    destruct (api_run cb fm bs a1 ops) as [a2 r2] eqn:E2. inversion H; subst.
    rewrite (IH _ _ _ E2), (api_step_leaked _ _ _ _ _ _ _ _ E1).
    destruct o, (a_state a); try reflexivity.
    destruct fm; [congruence| |]; rewrite andb_false_r, orb_false_r; reflexivity.
Qed.

(* the client close callback: called at most once, and exactly once by the time the handle has
   been freed, whenever the open callback had succeeded *)
Definition Cinv {C} (a : @api C) : Prop :=
  (a_fopen a = true /\ a_closer a = 0%nat) \/ (a_fopen a = false /\ a_closer a = 1%nat).

Lemma api_step_Cinv : forall {C} (cb : C -> bytes -> C * Z) fm bs a o a' tr st,
  fm <> FreeSkips -> Cinv a -> api_step cb fm bs a o = (a', tr, st) -> Cinv a'.
Proof.
  intros C cb fm bs a o a' tr st Hm I H. unfold Cinv in *.
  destruct o; cbn [api_step] in H; unfold api_close, api_close_core, bad_state, set_state in H;
    destruct (a_state a) eqn:Es; api_case H; try congruence; inversion H; subst; clear H;
    cbn [a_fopen a_closer]; try assumption;
    repeat match goal with E : negb _ = false |- _ => apply negb_false_iff in E end;
    repeat match goal with E : a_fopen _ = _ |- _ => rewrite E in * end;
    destruct I as [[I1 I2] | [I1 I2]]; try discriminate; rewrite ?I2; auto.
Qed.

Lemma api_run_Cinv : forall {C} (cb : C -> bytes -> C * Z) fm bs ops a a' res,
  fm <> FreeSkips -> Cinv a -> api_run cb fm bs a ops = (a', res) -> Cinv a'.
Proof.
  intros C cb fm bs ops a a' res Hm. revert a a' res.
  induction ops as [|o ops IH]; intros a a' res I H; cbn [api_run] in H.
  - inversion H; subst. assumption.
  - destruct (api_step cb fm bs a o) as [[a1 tr] st] eqn:E1.
    destruct (api_run cb fm bs a1 ops) as [a2 r2] eqn:E2. inversion H; subst.
    eapply IH; [|eassumption]. eapply api_step_Cinv; eassumption.
Qed.

Lemma api_free_not_open : forall {C} (cb : C -> bytes -> C * Z) fm bs a a' tr st,
  fm <> FreeSkips -> Ainv a -> api_step cb fm bs a OFree = (a', tr, st) -> a_fopen a' = false.
Proof.
  intros C cb fm bs a a' tr st Hm I H. unfold Ainv in I.
  cbn [api_step] in H; unfold api_close, api_close_core, set_state in H;
    destruct (a_state a) eqn:Es; api_case H; try congruence; inversion H; subst; clear H; cbn [a_fopen];
    try reflexivity; try assumption; apply I; auto.
Qed.

(* any call sequence ending with free, after a successful open: nothing leaks, the client filter
   is closed and the client close callback has been invoked exactly once *)
Theorem free_releases_client : forall {C} (cb : C -> bytes -> C * Z) fm bs bibl fb c ops a' res,
  fm <> FreeSkips ->
  api_run cb fm bs (fst (api_open bibl ARCHIVE_OK fb c)) (ops ++ [OFree]) = (a', res) ->
  a_leaked a' = false /\ a_fopen a' = false /\ a_closer a' = 1%nat.
Proof.
  intros C cb fm bs bibl fb c ops a' res Hm H.
  assert (Happ : forall l1 l2 (a : @api C), api_run cb fm bs a (l1 ++ l2) =
            let '(a1, r1) := api_run cb fm bs a l1 in
            let '(a2, r2) := api_run cb fm bs a1 l2 in (a2, r1 ++ r2)).
  { induction l1 as [|o l1 IH]; intros l2 a.
    - cbn [app api_run]. destruct (api_run cb fm bs a l2). reflexivity.
    - cbn [app api_run]. destruct (api_step cb fm bs a o) as [[a1 tr] st]. rewrite IH.
      destruct (api_run cb fm bs a1 l1) as [a2 r1]. destruct (api_run cb fm bs a2 l2) as [a3 r2]. reflexivity. }
  pose proof (free_no_leak _ _ _ _ _ _ _ Hm H) as L.
  rewrite Happ in H.
  destruct (api_run cb fm bs (fst (api_open bibl ARCHIVE_OK fb c)) ops) as [a1 r1] eqn:E1.
  assert (E0 : fst (api_open bibl ARCHIVE_OK fb c) =
               mkApi SHeader true [] (if fb && (bibl =? -1) then 1 else bibl) 0 0 false c) by reflexivity.
  pose proof (api_run_Ainv _ _ _ _ _ _ _ (api_open_Ainv bibl ARCHIVE_OK fb c) E1) as I1.
  assert (C1 : Cinv a1).
  { eapply api_run_Cinv; [exact Hm | | exact E1]. rewrite E0. left. split; reflexivity. }
  cbn [api_run] in H. destruct (api_step cb fm bs a1 OFree) as [[a2 tr2] st2] eqn:E2.
  inversion H; subst a' res. clear H.
  pose proof (api_free_not_open _ _ _ _ _ _ _ Hm I1 E2) as F2.
  pose proof (api_step_Cinv _ _ _ _ _ _ _ _ Hm C1 E2) as C2.
  split; [rewrite L, E0; reflexivity|]. split; [assumption|].
  destruct C2 as [[K _] | [_ K]]; [congruence | assumption].
Qed.

(* the current tree: free on a handle in state FATAL is the filters-close path, status = worst *)
Lemma free_in_fatal_is_close : forall {C} (cb : C -> bytes -> C * Z) bs a,
  a_state a = SFatal -> api_step cb FreeClosesFilters bs a OFree = api_close_core cb bs a.
Proof. intros C cb bs a H. cbn [api_step]. rewrite H. reflexivity. Qed.

(* the scripted callback with an empty plan, stated without the abstract [Good] *)
Theorem session_acc_plan : forall bs bibl chunks pl' res,
  (0 < bs)%nat -> session plan_cb bs bibl [] chunks = (pl', res) ->
  let data := concat chunks in
  let r := (length data mod bs)%nat in
  exists blocks last,
    flat res = blocks ++ last /\ Forall (full bs) blocks /\ length blocks = (length data / bs)%nat /\
    (r = 0%nat -> last = []) /\
    (r <> 0%nat -> exists i, last = [i] /\ i_off i = (r + padlen bs bibl r)%nat /\
                             i_ret i = Z.of_nat (i_off i)) /\
    all_ok res /\ acc (flat res) = data ++ zeros (padlen bs bibl r) /\ pl' = [].
Proof.
  intros bs bibl chunks pl' res Hbs H.
  exact (session_acc plan_cb (fun c => c = []) plan_accepting bs bibl [] chunks pl' res Hbs eq_refl H).
Qed.
