(* C06 - model of the copying read call archive_read_data (archive_read.c), of the drain done by
   archive_read_next_header / archive_read_data_skip, and of the tar reader's body state machine
   (archive_read_format_tar_read_data / archive_read_format_tar_skip).
   Executable definitions only.  Arithmetic is in Z: the C code computes on int64_t/size_t and the
   model is faithful as long as offsets and request sizes stay below 2^62 (no wrap-around is
   reachable below that bound: the only sums are output_offset + s and offset + len). *)
From Coq Require Import List ZArith NArith Bool.
From LA Require Import Base.Val Gen.Defines.
Import ListNotations.
Local Open Scope Z_scope.

Definition blen (b : bytes) : Z := Z.of_nat (length b).
Definition zeros (n : Z) : bytes := repeat 0%N (Z.to_nat n).

(* ------------------------------------------------------------------------------------------ *)
(** * Block source: what a format's read_data callback does, call after call *)

(* one callback invocation: a block (offset, bytes) with ARCHIVE_OK, or an error status that leaves
   *buff, *size and *offset untouched *)
Inductive ev : Type :=
| EvBlk (off : Z) (data : bytes)
| EvErr (code : Z).

(* after the scripted events the callback answers ARCHIVE_EOF for ever, with *buff = NULL,
   *size = 0 and *offset = s_eof (None: *offset left untouched, as the empty/raw/rar5 readers do;
   the tar reader stores the entry's size).  s_calls counts callback invocations. *)
Record source : Type := mkSrc { s_evs : list ev; s_eof : option Z; s_calls : Z }.

(* archive_read_data_block -> format read_data, with the caller's current *size bytes / *offset *)
Definition next_block (src : source) (cur_blk : bytes) (cur_off : Z) : Z * bytes * Z * source :=
  match s_evs src with
  | EvBlk o d :: r => (ARCHIVE_OK, d, o, mkSrc r (s_eof src) (s_calls src + 1))
  | EvErr c :: r => (c, cur_blk, cur_off, mkSrc r (s_eof src) (s_calls src + 1))
  | [] => (ARCHIVE_EOF, [],
           match s_eof src with Some o => o | None => cur_off end,
           mkSrc [] (s_eof src) (s_calls src + 1))
  end.

(* ------------------------------------------------------------------------------------------ *)
(** * archive_read_data *)

(* read_data_block .. +read_data_remaining, read_data_offset, read_data_output_offset *)
Record rstate : Type := mkR { r_block : bytes; r_off : Z; r_out : Z }.

(* __archive_reset_read_data *)
Definition r_init : rstate := mkR [] 0 0.

Definition FUEL_ERR : Z := -99.

(* The  while (s > 0)  loop, one iteration per unfolding.  [br] = bytes_read.  Returns
   (return value, bytes written to the client buffer, state, source).
   [fx] selects the loop:
     fx = false : the pinned code,   if (r == ARCHIVE_EOF) return (bytes_read);
     fx = true  : the repaired code, if (r == ARCHIVE_EOF && read_data_offset <= read_data_output_offset)
                                         return (bytes_read);
                  i.e. an end-of-entry offset beyond what was delivered is zero-filled first. *)
Fixpoint rd_loop (fx : bool) (fuel : nat) (st : rstate) (src : source) (s br : Z)
  : Z * bytes * rstate * source :=
  match fuel with
  | O => (FUEL_ERR, [], st, src)
  | S f =>
    if s <=? 0 then (br, [], st, src) else
    let need := (r_off st =? r_out st) && (blen (r_block st) =? 0) in
    let '(r, blk, off, src1) :=
      if need then next_block src (r_block st) (r_off st)
      else (ARCHIVE_OK, r_block st, r_off st, src) in
    let st1 := mkR blk off (r_out st) in
    if need && (r =? ARCHIVE_EOF) && (negb fx || (off <=? r_out st)) then (br, [], st1, src1)
    else if need && (r <? ARCHIVE_OK) then (r, [], st1, src1)
    else if off <? r_out st then (ARCHIVE_RETRY, [], st1, src1)
    else
      (* amount of zero padding *)
      let zl := if r_out st + s <? off then s
                else if r_out st <? off then off - r_out st else 0 in
      let s2 := s - zl in
      let out2 := r_out st + zl in
      (* copy data if there is any space left *)
      let cl := if 0 <? s2 then Z.min (blen blk) s2 else 0 in
      let st2 := mkR (skipn (Z.to_nat cl) blk) (off + cl) (out2 + cl) in
      let '(ret, o, st', src') := rd_loop fx f st2 src1 (s2 - cl) (br + zl + cl) in
      (ret, zeros zl ++ firstn (Z.to_nat cl) blk ++ o, st', src')
  end.

(* every iteration returns, or shortens the event list, or is followed by one that does *)
Definition rd_fuel (src : source) : nat := 2 * length (s_evs src) + 6.

Definition read_data_call (fx : bool) (st : rstate) (src : source) (s : Z)
  : Z * bytes * rstate * source :=
  rd_loop fx (rd_fuel src) st src s 0.

(* what the caller can see of one call: the return value and, when it is a byte count, the bytes *)
Definition visible (ret : Z) (written : bytes) : bytes := if ret <? 0 then [] else written.

Fixpoint read_data_seq (fx : bool) (st : rstate) (src : source) (rs : list Z)
  : list (Z * bytes) * rstate * source :=
  match rs with
  | [] => ([], st, src)
  | s :: rs' =>
    let '(ret, w, st1, src1) := read_data_call fx st src s in
    let '(l, st2, src2) := read_data_seq fx st1 src1 rs' in
    ((ret, visible ret w) :: l, st2, src2)
  end.

(* ------------------------------------------------------------------------------------------ *)
(** * The dense rendering of a block list *)

Fixpoint render_from (pos : Z) (bl : list (Z * bytes)) (eof : option Z) : bytes :=
  match bl with
  | [] => match eof with Some e => zeros (e - pos) | None => [] end
  | (o, d) :: r => zeros (o - pos) ++ d ++ render_from (o + blen d) r eof
  end.

Definition render (bl : list (Z * bytes)) (eof : option Z) : bytes := render_from 0 bl eof.

(* offsets increasing, blocks not overlapping, everything within the end-of-entry offset *)
Fixpoint wf_from (pos : Z) (bl : list (Z * bytes)) (eof : option Z) : Prop :=
  match bl with
  | [] => match eof with Some e => pos <= e | None => True end
  | (o, d) :: r => pos <= o /\ wf_from (o + blen d) r eof
  end.

Definition src_of (bl : list (Z * bytes)) (eof : option Z) : source :=
  mkSrc (map (fun b => EvBlk (fst b) (snd b)) bl) eof 0.

(* archive_read_data_block until it stops answering ARCHIVE_OK: the (status, offset, bytes)
   triples the client sees; the client's offset variable holds [cur] before the first call *)
Fixpoint read_block_all (evs : list ev) (eof : option Z) (cur : Z) : list (Z * Z * bytes) :=
  match evs with
  | [] => [(ARCHIVE_EOF, match eof with Some o => o | None => cur end, [])]
  | EvBlk o d :: r => (ARCHIVE_OK, o, d) :: read_block_all r eof o
  | EvErr c :: r => [(c, cur, [])]
  end.

(* ------------------------------------------------------------------------------------------ *)
(** * archive_read_data_skip and the drain in _archive_read_next_header2 *)

(* while ((r = archive_read_data_block(...)) == ARCHIVE_OK) ; *)
Fixpoint drain_blocks (evs : list ev) (eof : option Z) (calls : Z) : Z * source :=
  match evs with
  | [] => (ARCHIVE_EOF, mkSrc [] eof (calls + 1))
  | EvBlk _ _ :: r => drain_blocks r eof (calls + 1)
  | EvErr c :: r => if c =? ARCHIVE_OK then drain_blocks r eof (calls + 1)
                    else (c, mkSrc r eof (calls + 1))
  end.

(* has_skip: the format registered a read_data_skip callback (the pseudo-format's one discards the
   rest of the script and answers ARCHIVE_OK) *)
Definition data_skip (has_skip : bool) (src : source) : Z * source :=
  let '(r, src') := if has_skip then (ARCHIVE_OK, mkSrc [] (s_eof src) (s_calls src))
                    else drain_blocks (s_evs src) (s_eof src) (s_calls src) in
  (if r =? ARCHIVE_EOF then ARCHIVE_OK else r, src').

(* client actions on one entry *)
Inductive action : Type :=
| ARead (s : Z)          (* archive_read_data with an s-byte buffer *)
| ABlock                 (* one archive_read_data_block *)
| ASkip.                 (* archive_read_data_skip *)

Inductive aresult : Type :=
| RRead (ret : Z) (b : bytes)
| RBlock (st : Z) (off : Z) (b : bytes)
| RSkip (st : Z).

(* [indata]: archive state is ARCHIVE_STATE_DATA (false after an explicit skip: HEADER).
   The generator issues ASkip only as the last action of an entry, so the magic-state failure
   paths of C07 are not modelled here. *)
Fixpoint do_actions (fx has_skip : bool) (st : rstate) (src : source) (indata : bool)
    (acts : list action) : list aresult * source * bool :=
  match acts with
  | [] => ([], src, indata)
  | ARead s :: r =>
    let '(ret, w, st1, src1) := read_data_call fx st src s in
    let '(l, src2, d) := do_actions fx has_skip st1 src1 indata r in
    (RRead ret (visible ret w) :: l, src2, d)
  | ABlock :: r =>
    let '(rc, blk, off, src1) := next_block src [] (-1) in
    let '(l, src2, d) := do_actions fx has_skip st src1 indata r in
    (RBlock rc off (if rc =? ARCHIVE_OK then blk else []) :: l, src2, d)
  | ASkip :: r =>
    let '(rc, src1) := data_skip has_skip src in
    let '(l, src2, d) := do_actions fx has_skip st src1 false r in
    (RSkip rc :: l, src2, d)
  end.

Record entry_case : Type := mkEC { ec_src : source; ec_acts : list action }.

(* archive_read_next_header over the pseudo-format: returns per entry (header status, action
   results), the status of the call that ended the run, and the final source of every entry that
   was opened (callback count, events left) *)
Fixpoint run_entries (fx has_skip : bool) (r1 : Z) (es : list entry_case)
  : list (Z * list aresult) * Z * list source :=
  match es with
  | [] => ([], ARCHIVE_EOF, [])        (* read_header answers ARCHIVE_EOF: "EOF always wins" *)
  | e :: rest =>
    (* read_header answered ARCHIVE_OK; r1 is what the drain of the previous entry returned *)
    let hret := if ARCHIVE_OK <? r1 then ARCHIVE_OK else r1 in
    if negb (hret =? ARCHIVE_OK) then
      (* the harness stops at the first header status other than ARCHIVE_OK *)
      ([], hret, [ec_src e])
    else
    let '(res, src1, indata) := do_actions fx has_skip r_init (ec_src e) true (ec_acts e) in
    let '(d, src2) := if indata then data_skip has_skip src1 else (ARCHIVE_OK, src1) in
    if d =? ARCHIVE_FATAL then ([(hret, res)], ARCHIVE_FATAL, [src2])
    else
      let '(l, fin, srcs) := run_entries fx has_skip d rest in
      ((hret, res) :: l, fin, src2 :: srcs)
  end.

(* ------------------------------------------------------------------------------------------ *)
(** * The tar reader's body state machine over an abstract input stream *)

(* the input: [total] bytes delivered by the client in [chunk]-byte reads, [pos] consumed so far *)
Record stream : Type := mkStream { sm_total : Z; sm_chunk : Z; sm_pos : Z }.

(* __archive_read_ahead(a, 1, &avail): None = NULL (end of input) *)
Definition ahead1 (sm : stream) : option Z :=
  if sm_total sm <=? sm_pos sm then None
  else Some (Z.min (sm_chunk sm - sm_pos sm mod sm_chunk sm) (sm_total sm - sm_pos sm)).

(* __archive_read_consume *)
Definition consume (sm : stream) (n : Z) : Z * stream :=
  if n <? 0 then (ARCHIVE_FATAL, sm)
  else if n =? 0 then (0, sm)
  else if sm_pos sm + n <=? sm_total sm then (n, mkStream (sm_total sm) (sm_chunk sm) (sm_pos sm + n))
  else (ARCHIVE_FATAL, mkStream (sm_total sm) (sm_chunk sm) (sm_total sm)).

Record sblock : Type := mkSB { sb_off : Z; sb_rem : Z; sb_hole : bool }.
Record tar : Type := mkTar {
  t_sl : list sblock;      (* sparse_list *)
  t_ebr : Z;               (* entry_bytes_remaining *)
  t_unc : Z;               (* entry_bytes_unconsumed *)
  t_pad : Z;               (* entry_padding *)
  t_disk : Z }.            (* disk_size: the offset stored with ARCHIVE_EOF *)

(* Remove exhausted entries from sparse list. *)
Fixpoint drop_exhausted (sl : list sblock) : list sblock :=
  match sl with
  | sb :: r => if sb_rem sb =? 0 then drop_exhausted r else sl
  | [] => []
  end.

(* archive_read_format_tar_read_data: the for(;;) loop, one iteration per unfolding.
   Returns (status, *offset, *size, tar state, stream); off0/sz0 = the caller's *offset, *size. *)
Fixpoint tar_read_loop (fuel : nat) (t : tar) (sm : stream) (off0 sz0 : Z)
  : Z * Z * Z * tar * stream :=
  match fuel with
  | O => (FUEL_ERR, off0, sz0, t, sm)
  | S f =>
    let sl := drop_exhausted (t_sl t) in
    let sm1 := if t_unc t =? 0 then sm else snd (consume sm (t_unc t)) in
    match sl with
    | [] =>
      let '(c, sm2) := consume sm1 (t_pad t) in
      if c <? 0 then (ARCHIVE_FATAL, off0, sz0, mkTar sl (t_ebr t) 0 (t_pad t) (t_disk t), sm2)
      else (ARCHIVE_EOF, t_disk t, 0, mkTar sl (t_ebr t) 0 0 (t_disk t), sm2)
    | sb :: rest =>
      if t_ebr t =? 0 then
        let '(c, sm2) := consume sm1 (t_pad t) in
        if c <? 0 then (ARCHIVE_FATAL, off0, sz0, mkTar sl (t_ebr t) 0 (t_pad t) (t_disk t), sm2)
        else (ARCHIVE_EOF, t_disk t, 0, mkTar sl (t_ebr t) 0 0 (t_disk t), sm2)
      else
      match ahead1 sm1 with
      | None => (ARCHIVE_FATAL, off0, sz0, mkTar sl (t_ebr t) 0 (t_pad t) (t_disk t), sm1)
      | Some av =>
        let n := if t_ebr t <? av then t_ebr t else av in
        let n := if sb_rem sb <? n then sb_rem sb else n in
        let t' := mkTar (mkSB (sb_off sb + n) (sb_rem sb - n) (sb_hole sb) :: rest)
                        (t_ebr t - n) n (t_pad t) (t_disk t) in
        if sb_hole sb then tar_read_loop f t' sm1 (sb_off sb) n
        else (ARCHIVE_OK, sb_off sb, n, t', sm1)
      end
    end
  end.

Definition sum_rem (sl : list sblock) : Z := fold_right (fun sb acc => sb_rem sb + acc) 0 sl.
Definition sum_data (sl : list sblock) : Z :=
  fold_right (fun sb acc => if sb_hole sb then acc else sb_rem sb + acc) 0 sl.

(* an iteration that does not return shortens the list or takes at least one byte from a hole *)
Definition tar_fuel (t : tar) : nat := length (t_sl t) + Z.to_nat (Z.max 0 (t_ebr t)) + 2.

Definition tar_read_data (t : tar) (sm : stream) (off0 sz0 : Z) : Z * Z * Z * tar * stream :=
  tar_read_loop (tar_fuel t) t sm off0 sz0.

(* archive_read_format_tar_skip.  [fxs] selects the request computed from the sparse list:
     fxs = false : the pinned code, only entries that are not holes are counted;
     fxs = true  : the repaired code, every entry is counted (Solaris SUN.holesdata entries store
                   their holes in the archive, and the read path consumes them). *)
Definition tar_skip (fxs : bool) (t : tar) (sm : stream) : Z * tar * stream :=
  let request := if fxs then sum_rem (t_sl t) else sum_data (t_sl t) in
  let request := if t_ebr t <? request then t_ebr t else request in
  let request := request + t_pad t + t_unc t in
  let '(c, sm') := consume sm request in
  if c <? 0 then (ARCHIVE_FATAL, t, sm')
  else (ARCHIVE_OK, mkTar [] 0 0 0 (t_disk t), sm').

(* read blocks until the reader stops answering ARCHIVE_OK (at most [n] calls): the
   (status, offset, size, stream position after the call) tuples *)
Fixpoint tar_read_all (n : nat) (t : tar) (sm : stream)
  : list (Z * Z * Z * Z) * tar * stream :=
  match n with
  | O => ([], t, sm)
  | S n' =>
    let '(rc, off, sz, t1, sm1) := tar_read_data t sm (-1) 0 in
    if rc =? ARCHIVE_OK then
      let '(l, t2, sm2) := tar_read_all n' t1 sm1 in
      ((rc, off, sz, sm_pos sm1) :: l, t2, sm2)
    else ([(rc, off, sz, sm_pos sm1)], t1, sm1)
  end.
