(* val -> val front end of the read-core model.
   case = (data rplan splan kplan has_skip has_seek ops)
     rplan item: (0 n) size | (1) error | (2) zero          splan item: (0 k) up-to | (1 v) return v
     kplan item: (0) ok | (1 v) error v
     op: (0 m) ahead | (1 n) consume | (2 off whence) seek
   The real reader performs one ahead(1) while opening (choose_filters); the model does the same. *)
From Coq Require Import List ZArith NArith Bool.
From LA Require Import Base.Val Gen.Defines IO.ReadCoreDefs.
Import ListNotations.

Definition ract_of (v : val) : ract :=
  match lval v with
  | VI 0%Z :: n :: _ => RSize (nval n)
  | VI 1%Z :: _ => RErr
  | _ => RZero
  end.
Definition sact_of (v : val) : sact :=
  match lval v with
  | VI 0%Z :: k :: _ => SkUpTo (nval k)
  | _ :: x :: _ => SkRet (zval x)
  | _ => SkRet 0
  end.
Definition kact_of (v : val) : kact :=
  match lval v with
  | VI 0%Z :: _ => KOk
  | _ :: x :: _ => KErr (zval x)
  | _ => KOk
  end.
Definition rop_of (v : val) : rop :=
  match lval v with
  | VI 0%Z :: m :: _ => OAhead (nval m)
  | VI 1%Z :: n :: _ => OConsume (zval n)
  | _ :: o :: w :: _ => OSeek (zval o) (zval w)
  | _ => OAhead 0
  end.

Definition val_of_ares (r : ares) : val :=
  match r with
  | Win [] => VL [VI 0; VI 0]   (* a zero-length window (min = 0 only) is printed like NULL/0: the C
                                   pointer may or may not be NULL there, nothing can be read through it *)
  | Win w => VL [VI 1; VB w]
  | Null a => VL [VI 0; VI a]
  end.
Definition val_of_rout (o : rout) : val :=
  match o with
  | RAhead r p => VL [VI 0; val_of_ares r; VI p]
  | RConsume r p => VL [VI 1; VI r; VI p]
  | RSeek r p => VL [VI 2; VI r; VI p]
  end.

(* case (-1 k initfail probe): k nested self-describing filters (bidder wins at depths < k), the init at
   depth initfail (if < k) fails, probe = final read-ahead succeeds *)
Definition run_filters (l : list val) : val :=
  let k := Z.to_nat (zval (vnth l 1)) in
  let bad := Z.to_nat (zval (vnth l 2)) in
  let '(st, d) := choose_filters (fun d => if Nat.ltb d k then [0%Z; 55%Z; 20%Z] else [0%Z; 0%Z])
                                 (fun d => negb (Nat.eqb d bad)) (boolval (vnth l 3)) in
  VL [VI st; VI (Z.of_nat d)].

Definition run_core (v : val) : val :=
  let l := lval v in
  let c := mkClient (bval (vnth l 0)) 0 (map ract_of (lval (vnth l 1))) (map sact_of (lval (vnth l 2)))
                    (map kact_of (lval (vnth l 3))) (boolval (vnth l 4)) (boolval (vnth l 5)) in
  let ops := map rop_of (lval (vnth l 6)) in
  let '(r0, s0) := ahead (init_filt c) 1 in
  match r0 with
  | Null a => if (a <? 0)%Z then VL [VL []; Vbool (oob s0)]    (* open fails: no script runs *)
              else let '(sf, outs) := rrun s0 ops in VL [VL (map val_of_rout outs); Vbool (oob sf)]
  | Win _ => let '(sf, outs) := rrun s0 ops in VL [VL (map val_of_rout outs); Vbool (oob sf)]
  end.

Definition run (v : val) : val :=
  match lval v with
  | VI (Zneg _) :: _ => run_filters (lval v)
  | _ => run_core v
  end.
