From Coq Require Import ExtrOcamlBasic.
From LA Require Import Base.Val Entry.UtfRun.
Extraction Language OCaml.
Extraction "../ml/gen/utf_model.ml" run.
