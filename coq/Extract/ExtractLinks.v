From Coq Require Import ExtrOcamlBasic.
From LA Require Import Base.Val Entry.LinksRun.
Extraction Language OCaml.
Extraction "../ml/gen/links_model.ml" run.
