From Coq Require Import ExtrOcamlBasic.
From LA Require Import Base.Val Entry.EntryRun.
Extraction Language OCaml.
Extraction "../ml/gen/entry_model.ml" run.
