From Coq Require Import ExtrOcamlBasic.
From LA Require Import Base.Val IO.WriteCoreRun.
Extraction Language OCaml.
Extraction "../ml/gen/writeCore_model.ml" run.
