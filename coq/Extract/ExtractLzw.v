From Coq Require Import ExtrOcamlBasic.
From LA Require Import Base.Val Codec.LzwRun.
Extraction Language OCaml.
Extraction "../ml/gen/lzw_model.ml" run.
