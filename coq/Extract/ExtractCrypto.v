From Coq Require Import ExtrOcamlBasic.
From LA Require Import Base.Val Crypto.CryptoRun.
Extraction Language OCaml.
Extraction "../ml/gen/crypto_model.ml" run.
