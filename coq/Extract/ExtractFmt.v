From Coq Require Import ExtrOcamlBasic.
From LA Require Import Base.Val Fmt.FmtRun.
Extraction Language OCaml.
Extraction "../ml/gen/fmt_model.ml" run.
