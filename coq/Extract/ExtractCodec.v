From Coq Require Import ExtrOcamlBasic.
From LA Require Import Base.Val Codec.CodecRun.
Extraction Language OCaml.
Extraction "../ml/gen/codec_model.ml" run.
