From Coq Require Import ExtrOcamlBasic.
From LA Require Import Base.Val Match.PathmatchRun.
Extraction Language OCaml.
Extraction "../ml/gen/pathmatch_model.ml" run.
