From Coq Require Import ExtrOcamlBasic.
From LA Require Import Base.Val IO.MultiNodeRun.
Extraction Language OCaml.
Extraction "../ml/gen/multiNode_model.ml" run.
