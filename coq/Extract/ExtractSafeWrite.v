From Coq Require Import ExtrOcamlBasic.
From LA Require Import Base.Val FS.SafeWriteRun.
Extraction Language OCaml.
Extraction "../ml/gen/safeWrite_model.ml" run.
