From Coq Require Import ExtrOcamlBasic.
From LA Require Import Base.Val IO.ReadDataRun.
Extraction Language OCaml.
Extraction "../ml/gen/readData_model.ml" run.
