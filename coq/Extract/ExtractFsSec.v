From Coq Require Import ExtrOcamlBasic.
From LA Require Import Base.Val FS.FsSecRun.
Extraction Language OCaml.
Extraction "../ml/gen/fsSec_model.ml" run.
