From Coq Require Import ExtrOcamlBasic.
From LA Require Import Base.Val FS.TreeWalkRun.
Extraction Language OCaml.
Extraction "../ml/gen/treeWalk_model.ml" run.
