From Coq Require Import ExtrOcamlBasic String.
From LA Require Import Base.Val State.MagicRun.
Extraction Language OCaml.
(* ml/driver_body.ml uses OCaml's own [string]; Coq's [string] would shadow it.  It is extracted as a list of
   (extracted) ascii values - constructor for constructor, nothing is mapped to native characters. *)
Extract Inductive string => "ascii list" [ "[]" "(fun (a, s) -> a :: s)" ]
  "(fun fe fs s -> match s with [] -> fe () | a :: r -> fs a r)".
Extraction "../ml/gen/magic_model.ml" run.
