From Coq Require Import ExtrOcamlBasic.
From LA Require Import Base.Val IO.ReadCoreRun.
Extraction Language OCaml.
Extraction "../ml/gen/readCore_model.ml" run.
