From Coq Require Import ExtrOcamlBasic.
From LA Require Import Base.Val Entry.AclRun.
Extraction Language OCaml.
Extraction "../ml/gen/acl_model.ml" run.
