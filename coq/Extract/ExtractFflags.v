From Coq Require Import ExtrOcamlBasic.
From LA Require Import Base.Val Entry.FflagsRun.
Extraction Language OCaml.
Extraction "../ml/gen/fflags_model.ml" run.
