(* C04 - stub, replaced below *)
From Coq Require Import List NArith.
From LA Require Import FS.SanitizeDefs.
Import ListNotations.
Example C04_stub : cleanup_pathname 0 [97;47;47;98] = ClOk [97;47;98].
Proof. reflexivity. Qed.
