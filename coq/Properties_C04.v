(* C04 - Secure extraction never touches anything outside the target directory.
   Property theorems only; each is closed by [exact] of a lemma of FS/SanitizeProofs.v or
   FS/FsSecProofs.v, or is a [vm_compute] witness.

   Model: FS/SanitizeDefs.v (cleanup_pathname_fsobj, character level), FS/FsModel.v (POSIX-like
   file system with symlink resolution, ELOOP, NAME_MAX/PATH_MAX, hard links as shared inode
   numbers), FS/RestoreDefs.v (check_symlinks_fsobj, restore_entry, create_filesystem_object,
   create_dir, deferred fix-ups, close).  The model is tied to archive_write_disk_posix.c by
   props/C04.py (exhaustive sanitiser correspondence, extraction histories in a chroot sandbox).

   TWO statements of the property are REFUTED on the faithful model, with witnesses that the real
   code reproduces (see C04_run_confined_refuted and C04_step_confined_refuted below). *)
From Coq Require Import List ZArith NArith Bool Lia.
From LA Require Import Base.Val Gen.FsSecConsts FS.SanitizeDefs FS.SanitizeProofs FS.FsModel FS.FsLemmas
                       FS.RestoreDefs FS.FsSecProofs FS.FsSecRun FS.FsSecWitness.
Import ListNotations.
Local Open Scope N_scope.

(* ------------------------------------------------------------------------------------------ *)
(* (a0) the character-level transcription computes exactly this, on ALL strings and flags:
        split on '/', drop the empty and "." components, refuse empty / absolute / ".." *)
Theorem C04_cleanup_is_spec : forall fl p, cleanup_pathname fl p = cleanup_spec fl p.
Proof. exact cleanup_equiv. Qed.
Print Assumptions C04_cleanup_is_spec.

(* (a) an accepted name is not empty; it is "." or "/" or the '/'-join of the real components of
       the input (none empty, none ".", none containing '/'), prefixed by '/' exactly when the
       input was absolute; with NODOTDOT no component of the input is ".."; with NOABSOLUTEPATHS
       neither input nor output starts with '/'. *)
Theorem C04_cleanup_sound : forall fl p q,
  cleanup_pathname fl p = ClOk q ->
  q <> [] /\
  ((real_comps p = [] /\ q = if is_abs p then [SLASH] else [DOT]) \/
   (real_comps p <> [] /\ q = (if is_abs p then [SLASH] else []) ++ join (real_comps p))) /\
  Forall (fun c => c <> [] /\ c <> [DOT] /\ ~ In SLASH c) (real_comps p) /\
  (has fl EXTRACT_SECURE_NODOTDOT = true -> ~ In [DOT; DOT] (split p)) /\
  (has fl EXTRACT_SECURE_NOABSOLUTEPATHS = true -> is_abs p = false /\ is_abs q = false).
Proof. exact cleanup_sound. Qed.
Print Assumptions C04_cleanup_sound.

(* (b) the three refusals, exactly *)
Theorem C04_cleanup_refusals : forall fl p,
  (cleanup_pathname fl p = ClEmpty <-> p = []) /\
  (cleanup_pathname fl p = ClAbsolute <->
     p <> [] /\ is_abs p = true /\ has fl EXTRACT_SECURE_NOABSOLUTEPATHS = true) /\
  (cleanup_pathname fl p = ClDotDot <->
     p <> [] /\ (is_abs p && has fl EXTRACT_SECURE_NOABSOLUTEPATHS) = false /\
     has fl EXTRACT_SECURE_NODOTDOT = true /\ In [DOT; DOT] (split p)).
Proof. exact cleanup_refusals. Qed.
Print Assumptions C04_cleanup_refusals.

(* ------------------------------------------------------------------------------------------ *)
(* (c) check_symlinks on a cleaned relative name q, from the target T, with SECURE_SYMLINKS:
       whatever it answers, the file system changed only below T ([ext]: everything not under T
       is identical, no outside inode got a name inside, no symlink was added); when it answers
       OK every existing proper prefix of q is a real directory ([safe]) and - for an entry name -
       the last component is not a symlink any more. *)
Theorem C04_walk_inside : forall T O fl ln D q nm fs s fs',
  has fl EXTRACT_SECURE_SYMLINKS = true ->
  ctx T O fs -> relname nm q -> cleanq q -> (0 < p_len nm)%nat ->
  check_symlinks fl ln fs T nm = (s, fs') ->
  ext T O D false fs fs' /\ (s = SOk -> nfacts T q fs' /\ (ln = false -> nfinal T q fs')).
Proof. exact check_symlinks_spec. Qed.
Print Assumptions C04_walk_inside.

(* (d) ONE ENTRY.  T = the directory in which extraction started (cwd), O = a set of inode
   numbers containing every inode that occurs outside T.  Invariant [Inv]: cwd = T is a
   directory, no object under T carries an inode of O (no hard link into the outside), fresh
   inode numbers are not in O.  For EVERY file system state satisfying it, every flag set with
   the three SECURE bits and EVERY entry (file, dir, symlink, hard link, fifo; any name, any
   link target) - except hard-link entries that carry data (refuted below) and names of
   PATH_MAX bytes or more after cleaning (edit_deep_directories is modelled and checked by the
   correspondence, but not covered by this proof) - archive_write_header + data +
   archive_write_finish_entry leave everything that is not under T exactly as it was
   (structure, contents, modes, mtimes, link counts), leave cwd and umask as they were and
   re-establish the invariant. *)
Theorem C04_step_confined_partial : forall T O fl e st rr st',
  secure fl -> hl_ok e -> short fl e -> Inv T O st ->
  restore fl st e = (rr, st') ->
  prune T (root (st_fs st')) = prune T (root (st_fs st)) /\
  st_umask st' = st_umask st /\ Inv T O st'.
Proof. exact restore_confined. Qed.
Print Assumptions C04_step_confined_partial.

(* (d') any number of entries (before close): by induction with the invariant of (d) *)
Theorem C04_entries_confined_partial : forall T O fl es st l st',
  secure fl -> Forall hl_ok es -> Forall (short fl) es -> Inv T O st ->
  run_entries fl st es = (l, st') ->
  prune T (root (st_fs st')) = prune T (root (st_fs st)) /\
  st_umask st' = st_umask st /\ Inv T O st'.
Proof. exact run_entries_confined. Qed.
Print Assumptions C04_entries_confined_partial.

(* ------------------------------------------------------------------------------------------ *)
(* (e) THE HEADLINE IS FALSE of the faithful model (and of the code: props/C04.py replays this
   history through the real archive_write_disk and through bsdtar -x, key
   C04:fixup:intermediate-symlink).  History, extracted into an empty target with
   SECURE_SYMLINKS|SECURE_NODOTDOT|SECURE_NOABSOLUTEPATHS|PERM|TIME:
       dir  "d/sub"  mode 0777 mtime 12345      (registers a deferred fix-up for "d/sub")
       dir  "e"
       hard link "d/sub" -> "e"                 (EEXIST -> rmdir d/sub -> link to a directory fails:
                                                 entry refused, but d/sub is gone and d is empty)
       symlink "d" -> "../outside"              (rmdir d, symlink planted)
   At close the fix-up opens "d/sub" with O_NOFOLLOW|O_DIRECTORY: only the LAST component is
   protected, "d" is followed, and outside/sub is re-moded to 0777 and re-timed to 12345. *)
Theorem C04_run_confined_refuted :
  CLOSE_CHECKS_FIXUP_PATH = false ->
  exists fl st es,
    secure fl /\ Inv [n_target] Oc st /\ Forall hl_ok es /\ Forall (short fl) es /\
    prune [n_target] (root (st_fs (snd (run_history fl st es)))) <> prune [n_target] (root (st_fs st)).
Proof.
  intros Hflag.
  exists (SECF + (EXTRACT_PERM + EXTRACT_TIME)), (st_world 18 []), f1_history.
  split; [unfold secure; repeat split; reflexivity|]. split; [apply world_inv|].
  split; [repeat (apply Forall_cons; [intros H; first [reflexivity | vm_compute in H; discriminate H]|]); apply Forall_nil|].
  split.
  - repeat (apply Forall_cons; [intros q H; vm_compute in H; injection H as <-; apply Nat.ltb_lt; vm_compute; reflexivity|]);
      apply Forall_nil.
  - unfold run_history, close_fixups_cur. rewrite Hflag.
    intros H. apply (f_equal (get [n_outside; n_sub])) in H. vm_compute in H. discriminate.
Qed.
Print Assumptions C04_run_confined_refuted.

(* ... and TRUE as soon as the close loop walks the fix-up name (the proposed fix
   fixes/C04-fixup-intermediate-symlink.diff: with SECURE_SYMLINKS the name is cleaned and checked
   by check_symlinks_fsobj before it is opened): every history (same exceptions as (d)), then
   close.  First for the model of the fixed loop, then for [run_history] = the model of whatever
   the source tree has (CLOSE_CHECKS_FIXUP_PATH is regenerated from the source on every run). *)
Theorem C04_run_confined_fixed_close : forall T O fl es st l st',
  secure fl -> Forall hl_ok es -> Forall (short fl) es -> Inv T O st ->
  run_history_checked fl st es = (l, st') ->
  prune T (root (st_fs st')) = prune T (root (st_fs st)) /\
  st_umask st' = st_umask st /\ Inv T O st'.
Proof. exact run_checked_confined. Qed.
Print Assumptions C04_run_confined_fixed_close.

Theorem C04_run_confined : CLOSE_CHECKS_FIXUP_PATH = true ->
  forall T O fl es st l st',
  secure fl -> Forall hl_ok es -> Forall (short fl) es -> Inv T O st ->
  run_history fl st es = (l, st') ->
  prune T (root (st_fs st')) = prune T (root (st_fs st)) /\
  st_umask st' = st_umask st /\ Inv T O st'.
Proof.
  intros Hflag T O fl es st l st' H1 H2 H3 H4 H5. unfold run_history, close_fixups_cur in H5. rewrite Hflag in H5.
  exact (run_checked_confined T O fl es st l st' H1 H2 H3 H4 H5).
Qed.
Print Assumptions C04_run_confined.

(* the fixed close refuses the witness *)
Example C04_fixed_close_on_witness :
  prune [n_target] (root (st_fs (snd (run_history_checked (SECF + (EXTRACT_PERM + EXTRACT_TIME)) (st_world 18 []) f1_history))))
  = prune [n_target] (root (st_fs (st_world 18 []))).
Proof. vm_compute. reflexivity. Qed.

(* ------------------------------------------------------------------------------------------ *)
(* (d) WITHOUT its exception is FALSE too: a hard-link entry that carries data (pax, cpio newc)
   whose target is a symlink.  linkat() links the symlink itself (allowed), lstat says "not a
   regular file" so nothing is opened, a->todo keeps TODO_MODE, and set_mode() calls chmod(2) on
   the new name - which follows the symlink.  Target contains the symlink  s -> /outside/cfile ;
   entry: hard link "h" -> "s", mode 0777, with data.  outside/cfile becomes 0777.
   (key C04:hardlink-data:chmod-follows-symlink, reproduced on the real code) *)
Theorem C04_step_confined_refuted :
  HARDLINK_DATA_NONREG_CLEARS_TODO = false ->
  exists fl st e,
    secure fl /\ Inv [n_target] Oc st /\ short fl e /\
    prune [n_target] (root (st_fs (snd (restore fl st e)))) <> prune [n_target] (root (st_fs st)).
Proof.
  intros Hflag. assert (X := Hflag). vm_compute in X. try discriminate X.   (* vacuous once the source has the fix *)
  all: exists (SECF + EXTRACT_PERM), (st_world 18 f2_pre), f2_entry.
  all: split; [unfold secure; repeat split; reflexivity|]; split; [apply world2_inv|]; split;
    [ intros q H; vm_compute in H; injection H as <-; apply Nat.ltb_lt; vm_compute; reflexivity
    | intros H; apply (f_equal (get [n_outside; n_cfile])) in H; vm_compute in H; discriminate ].
Qed.
Print Assumptions C04_step_confined_refuted.

(* ------------------------------------------------------------------------------------------ *)
(* (f) refused entries leave everything as it was *)
Theorem C04_refused_by_sanitiser_noop : forall fl st e,
  (forall q, cleanup_pathname fl (e_path e) <> ClOk q) -> restore fl st e = ((SFailed, SOk), st).
Proof. exact refused_sanitiser_noop. Qed.
Print Assumptions C04_refused_by_sanitiser_noop.

(* at the symlink stage this needs UNLINK to be off: with UNLINK check_symlinks removes the
   intervening symlinks it meets (inside the target, see (c)) before it may still fail *)
Theorem C04_refused_by_symlink_check_noop : forall fl st e q s fs1,
  has fl EXTRACT_SECURE_SYMLINKS = true -> has fl EXTRACT_UNLINK = false ->
  cleanup_pathname fl (e_path e) = ClOk q ->
  ((e_type e =? T_HARDLINK)%N && str_eqb q (e_link e)) = false ->
  check_symlinks fl false (st_fs st) (st_cwd st) (parse q) = (s, fs1) -> s <> SOk ->
  restore fl st e = ((s, SOk), st).
Proof. exact refused_symlink_stage_noop. Qed.
Print Assumptions C04_refused_by_symlink_check_noop.

(* ------------------------------------------------------------------------------------------ *)
(* non-vacuity + the classic attack: the target contains  x -> ../outside ; the entry  x/evil  is
   refused (ARCHIVE_FAILED) and nothing outside changed; a harmless entry in the same run is
   restored.  The hypotheses of (d) hold of this state. *)
Example C04_classic_attack_refused :
  let fl := SECF + (EXTRACT_PERM + EXTRACT_TIME) in
  let st := st_world 18 classic_pre in
  let es := [mkEntry T_FILE s_xevil [] 420 (Some 1%Z) [101]; mkEntry T_FILE s_e [] 420 (Some 7%Z) [111;107]] in
  let '(sts, st') := run_history fl st es in
  sts = [(SFailed, SOk); (SOk, SOk)] /\
  prune [n_target] (root (st_fs st')) = prune [n_target] (root (st_fs st)) /\
  get [n_target; s_e] (root (st_fs st')) = Some (Leaf false 10 [111;107] 420 7%Z) /\
  st_cwd st' = cwd0 /\ st_umask st' = 18.
Proof. vm_compute. repeat split; reflexivity. Qed.

Example C04_hypotheses_satisfiable : Inv [n_target] Oc (st_world 18 classic_pre) /\ secure (SECF + EXTRACT_UNLINK).
Proof.
  split; [|unfold secure; repeat split; reflexivity].
  constructor; [reflexivity|]. constructor.
  - vm_compute. now eexists _, _, _.
  - cbv. repeat split; auto.
  - intros n Hn. vm_compute in Hn. injection Hn as <-. cbv. auto.
  - intros i Hi. exact Hi.
Qed.
