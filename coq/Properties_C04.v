(* C04 - Secure extraction never touches anything outside the target directory.
   Property theorems only; each is closed by [exact] of a lemma of FS/SanitizeProofs.v or
   FS/FsSecProofs.v, or is a [vm_compute] witness.

   Model: FS/SanitizeDefs.v (cleanup_pathname_fsobj, character level), FS/FsModel.v (POSIX-like
   file system with symlink resolution, ELOOP, NAME_MAX/PATH_MAX, hard links as shared inode
   numbers), FS/RestoreDefs.v (check_symlinks_fsobj, restore_entry, create_filesystem_object,
   create_dir, deferred fix-ups, close).  The model is tied to archive_write_disk_posix.c by
   props/C04.py (exhaustive sanitiser correspondence, extraction histories in a chroot sandbox).

   TWO statements of the property are REFUTED on the faithful model, with witnesses that the real
   code reproduces (see C04_run_confined_refuted and C04_step_confined_refuted below). *)
From Coq Require Import List ZArith NArith Bool.
From LA Require Import Base.Val Gen.FsSecConsts FS.SanitizeDefs FS.SanitizeProofs FS.FsModel FS.FsLemmas
                       FS.RestoreDefs FS.FsSecProofs FS.FsSecRun.
Import ListNotations.
Local Open Scope N_scope.

(* ------------------------------------------------------------------------------------------ *)
(* (a0) the character-level transcription computes exactly this, on ALL strings and flags:
        split on '/', drop the empty and "." components, refuse empty / absolute / ".." *)
Theorem C04_cleanup_is_spec : forall fl p, cleanup_pathname fl p = cleanup_spec fl p.
Proof. exact cleanup_equiv. Qed.
Print Assumptions C04_cleanup_is_spec.

(* (a) an accepted name is not empty; it is "." or "/" or the '/'-join of the real components of
       the input (none empty, none ".", none containing '/'), prefixed by '/' exactly when the
       input was absolute; with NODOTDOT no component of the input is ".."; with NOABSOLUTEPATHS
       neither input nor output starts with '/'. *)
Theorem C04_cleanup_sound : forall fl p q,
  cleanup_pathname fl p = ClOk q ->
  q <> [] /\
  ((real_comps p = [] /\ q = if is_abs p then [SLASH] else [DOT]) \/
   (real_comps p <> [] /\ q = (if is_abs p then [SLASH] else []) ++ join (real_comps p))) /\
  Forall (fun c => c <> [] /\ c <> [DOT] /\ ~ In SLASH c) (real_comps p) /\
  (has fl EXTRACT_SECURE_NODOTDOT = true -> ~ In [DOT; DOT] (split p)) /\
  (has fl EXTRACT_SECURE_NOABSOLUTEPATHS = true -> is_abs p = false /\ is_abs q = false).
Proof. exact cleanup_sound. Qed.
Print Assumptions C04_cleanup_sound.

(* (b) the three refusals, exactly *)
Theorem C04_cleanup_refusals : forall fl p,
  (cleanup_pathname fl p = ClEmpty <-> p = []) /\
  (cleanup_pathname fl p = ClAbsolute <->
     p <> [] /\ is_abs p = true /\ has fl EXTRACT_SECURE_NOABSOLUTEPATHS = true) /\
  (cleanup_pathname fl p = ClDotDot <->
     p <> [] /\ (is_abs p && has fl EXTRACT_SECURE_NOABSOLUTEPATHS) = false /\
     has fl EXTRACT_SECURE_NODOTDOT = true /\ In [DOT; DOT] (split p)).
Proof. exact cleanup_refusals. Qed.
Print Assumptions C04_cleanup_refusals.

(* ------------------------------------------------------------------------------------------ *)
(* (c) check_symlinks on a cleaned relative name q, from the target T, with SECURE_SYMLINKS:
       whatever it answers, the file system changed only below T ([ext]: everything not under T
       is identical, no outside inode got a name inside, no symlink was added); when it answers
       OK every existing proper prefix of q is a real directory ([safe]) and - for an entry name -
       the last component is not a symlink any more. *)
Theorem C04_walk_inside : forall T O fl ln D q nm fs s fs',
  has fl EXTRACT_SECURE_SYMLINKS = true ->
  ctx T O fs -> relname nm q -> cleanq q -> (0 < p_len nm)%nat ->
  check_symlinks fl ln fs T nm = (s, fs') ->
  ext T O D false fs fs' /\ (s = SOk -> nfacts T q fs' /\ (ln = false -> nfinal T q fs')).
Proof. exact check_symlinks_spec. Qed.
Print Assumptions C04_walk_inside.

(* (d) ONE ENTRY.  T = the directory in which extraction started (cwd), O = a set of inode
   numbers containing every inode that occurs outside T.  Invariant [Inv]: cwd = T is a
   directory, no object under T carries an inode of O (no hard link into the outside), fresh
   inode numbers are not in O.  For EVERY file system state satisfying it, every flag set with
   the three SECURE bits and EVERY entry (file, dir, symlink, hard link, fifo; any name, any
   link target) - except hard-link entries that carry data (refuted below) and names of
   PATH_MAX bytes or more after cleaning (edit_deep_directories is modelled and checked by the
   correspondence, but not covered by this proof) - archive_write_header + data +
   archive_write_finish_entry leave everything that is not under T exactly as it was
   (structure, contents, modes, mtimes, link counts), leave cwd and umask as they were and
   re-establish the invariant. *)
Theorem C04_step_confined_partial : forall T O fl e st rr st',
  secure fl -> hl_ok e -> short fl e -> Inv T O st ->
  restore fl st e = (rr, st') ->
  prune T (root (st_fs st')) = prune T (root (st_fs st)) /\
  st_umask st' = st_umask st /\ Inv T O st'.
Proof. exact restore_confined. Qed.
Print Assumptions C04_step_confined_partial.
