(* C07 - Any call sequence on a handle is safe; illegal order fails fatally.
   Property theorems only.  The model is State/MagicDefs.v; the allowed-state mask of every entry
   point comes from Gen/MagicTable.v, regenerated from the sources on every run, so the obligations
   stated "on magic_table" are re-discharged against the current tree. *)
From Coq Require Import List ZArith NArith Bool String.
From LA Require Import Base.Val Gen.Defines Gen.MagicTable State.MagicDefs State.MagicProofs.
Import ListNotations.
Local Open Scope string_scope.
Local Open Scope Z_scope.

(* (a) __archive_check_magic: a call that is illegal in the current state returns FATAL and leaves
   the handle failed; a handle of another kind likewise; only a non-handle reaches abort() *)
Theorem C07_illegal_is_fatal : forall hm st magic mask,
  is_handle_magic hm = true -> hm = magic -> N.land st mask = 0%N ->
  check_magic hm st magic mask = Ret ARCHIVE_FATAL ARCHIVE_STATE_FATAL.
Proof. exact check_magic_illegal. Qed.
Print Assumptions C07_illegal_is_fatal.

Theorem C07_abort_only_without_handle : forall hm st magic mask,
  check_magic hm st magic mask = Abort <-> is_handle_magic hm = false.
Proof. exact check_magic_abort_iff. Qed.
Print Assumptions C07_abort_only_without_handle.

(* the same at the level of the public entry points of the model (every op with an entry site) *)
Theorem C07_illegal_call_is_fatal : forall t h o f m mask,
  entry_site o = Some (f, m) -> hmagic h = m -> is_handle_magic m = true ->
  site_mask t f m = Some mask -> N.land (hstate h) mask = 0%N ->
  step t h o = RRet ARCHIVE_FATAL (set_state h ARCHIVE_STATE_FATAL).
Proof. exact step_illegal_is_fatal. Qed.
Print Assumptions C07_illegal_call_is_fatal.

(* (b) a failed handle keeps answering FATAL, unchanged, to every entry point that is not close or
   free, for ANY table in which only allow-listed functions accept the FATAL state ... *)
Theorem C07_fatal_absorbing : forall t allow, well_formed t allow = true ->
  forall h o f m mask, entry_site o = Some (f, m) -> hmagic h = m -> is_handle_magic m = true ->
  site_mask t f m = Some mask -> hstate h = ARCHIVE_STATE_FATAL -> ~ In f allow ->
  step t h o = RRet ARCHIVE_FATAL h.
Proof. exact fatal_absorbing. Qed.
Print Assumptions C07_fatal_absorbing.

Theorem C07_fatal_absorbing_run : forall t allow, well_formed t allow = true ->
  forall ops h, is_handle_magic (hmagic h) = true -> hstate h = ARCHIVE_STATE_FATAL ->
  Forall (not_allowed t allow (hmagic h)) ops ->
  run_ops t h ops = map (fun o => (o, ARCHIVE_FATAL, h)) ops.
Proof. exact fatal_absorbing_run. Qed.
Print Assumptions C07_fatal_absorbing_run.

(* ... and the table extracted from the CURRENT sources is such a table: of all archive_check_magic
   sites only close and free (six functions) let a failed handle in.  A mask edited to include
   ARCHIVE_STATE_FATAL anywhere else breaks this line. *)
Theorem C07_table_well_formed : well_formed magic_table allow_list = true.
Proof. vm_compute. reflexivity. Qed.
Print Assumptions C07_table_well_formed.

(* (c) reader: after next_header has answered EOF or FATAL, no later call sequence - whatever the
   format, the filters and the client callbacks do - makes next_header answer OK or WARN again.
   Holds for any table in which open1, next_header and data_skip refuse EOF, CLOSED and FATAL ... *)
Theorem C07_no_entry_after_eof_or_fatal : forall t, reader_sites_ok t = true ->
  forall h r1 r2 st h' ops, hmagic h = RM ->
  step t h (RNextHeader r1 r2) = RRet st h' -> st = ARCHIVE_EOF \/ st = ARCHIVE_FATAL ->
  forallb (fun x => negb (is_entry x)) (run_ops t h' ops) = true.
Proof. exact no_entry_after_eof_or_fatal. Qed.
Print Assumptions C07_no_entry_after_eof_or_fatal.

Theorem C07_no_entry_on_failed_reader : forall t, reader_sites_ok t = true ->
  forall h ops, hmagic h = RM -> hstate h = ARCHIVE_STATE_FATAL ->
  forallb (fun x => negb (is_entry x)) (run_ops t h ops) = true.
Proof. exact no_entry_on_failed_reader. Qed.
Print Assumptions C07_no_entry_on_failed_reader.

(* ... which the current sources satisfy *)
Theorem C07_table_reader_sites_ok : reader_sites_ok magic_table = true.
Proof. vm_compute. reflexivity. Qed.
Print Assumptions C07_table_reader_sites_ok.

(* (d) close / free.  Reader: close is accepted in every state, ends in CLOSED, a second close is a
   no-op; free is accepted in every state and ends the handle. *)
Theorem C07_read_close_accepted_idempotent : forall t h rc rc',
  site_accepts_all t ("_archive_read_close", RM) = true -> hmagic h = RM -> valid_state (hstate h) ->
  exists st h1, rd_close t h rc = RRet st h1 /\ hstate h1 = ARCHIVE_STATE_CLOSED /\ hmagic h1 = RM /\
                rd_close t h1 rc' = RRet ARCHIVE_OK h1.
Proof. exact read_close_accepted_idempotent. Qed.
Print Assumptions C07_read_close_accepted_idempotent.

Theorem C07_read_free_accepted : forall t h rc,
  site_accepts_all t ("_archive_read_free", RM) = true ->
  site_accepts_all t ("_archive_read_close", RM) = true ->
  hmagic h = RM -> valid_state (hstate h) ->
  exists st h1, rd_free t h rc = RRet st h1 /\ hmagic h1 = 0%N.
Proof. exact read_free_accepted. Qed.
Print Assumptions C07_read_free_accepted.

(* Reader: along EVERY program from archive_read_new and every back-end behaviour the client data
   source is never closed more often than opened, and once the handle is gone nothing is left open
   and #close = #open ("release everything exactly once", for what the model tracks: the filter
   chain / client data source). *)
Theorem C07_reader_releases_exactly_once : forall t, open_only_new t = true -> forall ops,
  Forall (fun x : op * Z * handle =>
            let h := snd x in
            (hmagic h = 0%N -> r_filter (rd h) = 0%N /\ r_closes (rd h) = r_opens (rd h)) /\
            (r_closes (rd h) <= r_opens (rd h))%N)
         (run_ops t new_read ops).
Proof. exact reader_releases_exactly_once. Qed.
Print Assumptions C07_reader_releases_exactly_once.

Theorem C07_table_open_only_new : open_only_new magic_table = true.
Proof. vm_compute. reflexivity. Qed.
Print Assumptions C07_table_open_only_new.

(* Writer: close is accepted in every state (NEW stays NEW, FATAL stays FATAL, otherwise CLOSED and
   then idempotent). *)
Theorem C07_write_close_accepted : forall t h a b c,
  site_accepts_all t ("_archive_write_close", WM) = true -> hmagic h = WM -> valid_state (hstate h) ->
  exists st h1, wr_close t h a b c = RRet st h1 /\ hmagic h1 = WM /\
    ((hstate h = ARCHIVE_STATE_NEW /\ h1 = h /\ st = ARCHIVE_OK) \/
     (hstate h = ARCHIVE_STATE_FATAL /\ hstate h1 = ARCHIVE_STATE_FATAL) \/
     (hstate h <> ARCHIVE_STATE_FATAL /\ hstate h1 = ARCHIVE_STATE_CLOSED /\
      forall a' b' c', wr_close t h1 a' b' c' = RRet ARCHIVE_OK h1)).
Proof. exact write_close_accepted. Qed.
Print Assumptions C07_write_close_accepted.

(* close and free of reader, writer, disk reader, matcher and free of the disk writer accept every
   state in the current sources *)
Theorem C07_table_close_free_accept_all :
  forallb (site_accepts_all magic_table) close_free_sites = true.
Proof. vm_compute. reflexivity. Qed.
Print Assumptions C07_table_close_free_accept_all.

(* free is accepted in every state and ends the handle: writer and disk writer *)
Theorem C07_write_free_accepted : forall t h a b c d,
  site_accepts_all t ("_archive_write_free", WM) = true ->
  site_accepts_all t ("_archive_write_close", WM) = true ->
  hmagic h = WM -> valid_state (hstate h) ->
  exists st h1, wr_free t h a b c d = RRet st h1 /\ hmagic h1 = 0%N.
Proof. exact write_free_accepted. Qed.
Print Assumptions C07_write_free_accepted.

Theorem C07_disk_write_free_accepted : forall t h r e,
  site_accepts_all t ("_archive_write_disk_free", WDM) = true ->
  (exists m1, site_mask t "_archive_write_disk_close" WDM = Some m1) ->
  (exists m2, site_mask t "_archive_write_disk_finish_entry" WDM = Some m2) ->
  hmagic h = WDM -> valid_state (hstate h) ->
  exists st h1, dw_free t h r e = RRet st h1 /\ hmagic h1 = 0%N.
Proof. exact disk_write_free_accepted. Qed.
Print Assumptions C07_disk_write_free_accepted.

(* Writer: along EVERY program from archive_write_new and every back-end behaviour - failed handle
   included - the client is never closed more often than it was opened, and once the handle is gone
   no filter is left and #close = #open.  (In the tree before the fix "archive_write_free on a failed
   writer never closed its filters" this was refuted by: set_format, open, archive_write_fail, free.) *)
Theorem C07_writer_releases_exactly_once : forall t, wopen_only_new t = true ->
  site_accepts_all t ("_archive_write_close", WM) = true -> forall ops,
  Forall (fun x : op * Z * handle =>
            let h := snd x in
            (hmagic h = 0%N -> w_filter (wr h) = 0%N /\ w_closes (wr h) = w_opens (wr h)) /\
            (w_closes (wr h) <= w_opens (wr h))%N)
         (run_ops t new_write ops).
Proof. exact writer_releases_exactly_once. Qed.
Print Assumptions C07_writer_releases_exactly_once.

Theorem C07_table_wopen_only_new : wopen_only_new magic_table = true.
Proof. vm_compute. reflexivity. Qed.
Print Assumptions C07_table_wopen_only_new.

(* the former witness, now released: 1 open, 1 close, no filter left *)
Theorem C07_write_free_on_failed_releases :
  exists h', last (run_ops magic_table new_write
                     [WSetFormat "archive_write_set_format_ustar" 0; WOpen 0 0; OFail; WFree 0 0 0 0])
                  (OFail, 0, new_write) = (WFree 0 0 0 0, ARCHIVE_OK, h') /\
             hmagic h' = 0%N /\ w_opens (wr h') = 1%N /\ w_closes (wr h') = 1%N /\ w_filter (wr h') = 0%N.
Proof. eexists. vm_compute. repeat split; reflexivity. Qed.
Print Assumptions C07_write_free_on_failed_releases.

(* Disk writer: along EVERY program from archive_write_disk_new - failed handle included, and for
   ANY table of masks - once the handle is gone no fix-up entry is left and no file is left open.
   (Refuted before the fix "archive_write_disk_free on a failed handle leaked the fix-up list, the
   open file and the lookup caches".) *)
Theorem C07_disk_writer_releases_everything : forall t ops,
  Forall (fun x : op * Z * handle => let h := snd x in hmagic h = 0%N -> fixups h = 0%N /\ dw_fd h = false)
         (run_ops t new_write_disk ops).
Proof. exact disk_writer_releases_everything. Qed.
Print Assumptions C07_disk_writer_releases_everything.

(* the former witness: a directory header that queues a fix-up, a file left open, failure, free *)
Theorem C07_disk_write_free_on_failed_releases :
  exists h', last (run_ops magic_table new_write_disk
                     [DWHeader 0 false false 0 true false; DWHeader 0 false false 0 false true; OFail; DWFree 0 false])
                  (OFail, 0, new_write_disk) = (DWFree 0 false, ARCHIVE_FATAL, h') /\
             hmagic h' = 0%N /\ fixups h' = 0%N /\ dw_fd h' = false.
Proof. eexists. vm_compute. repeat split; reflexivity. Qed.
Print Assumptions C07_disk_write_free_on_failed_releases.

(* "close is accepted from every state" stays FALSE for the disk writer, and has to: the unedited
   suite (test_write_disk_secure746) requires archive_write_close on a failed disk writer to answer
   FATAL.  Its mask is HEADER|DATA; free no longer depends on it. *)
Theorem C07_disk_write_close_accepts_all_refuted :
  site_accepts_all magic_table ("_archive_write_disk_close", WDM) = false.
Proof. vm_compute. reflexivity. Qed.
Print Assumptions C07_disk_write_close_accepts_all_refuted.

(* non-vacuity: a legal reader program really moves through the states, an illegal call really fails
   it, the failed handle answers FATAL, close then free end it with the data source closed once *)
Example C07_nonvacuous :
  map (fun x : op * Z * handle => (snd (fst x), hstate (snd x)))
      (run_ops magic_table new_read
         [RSetReadCb; ROpen1 0 0 true; RNextHeader 0 0; RReadData 10 [(0, 100, 0)]; RNextHeader 0 1;
          RNextHeader 0 0; RDataBlock 0; RClose 0; RFree 0])
  = [(0, 1%N); (0, 2%N); (0, 4%N); (10, 4%N); (1, 16%N); (-30, 32768%N); (-30, 32768%N); (0, 32%N); (0, 32%N)]
  /\ (100 <? magic_site_count)%N = true
  /\ well_formed magic_table ["archive_match_free"] = false.
Proof. vm_compute. repeat split; reflexivity. Qed.
