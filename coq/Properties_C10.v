(* C10 - Metadata a format cannot hold is reported, never silently altered.
   Property theorems only; each is closed by [exact] of a lemma of coq/Fmt/*Proofs.v or, for the
   statements that are FALSE of the faithful model (the writer ignores the formatter's overflow
   result), stated as  ..._refuted  with a concrete witness checked by vm_compute.

   Models (coq/Fmt/*Defs.v): the byte-level header writers of ustar, v7tar, gnutar, cpio odc / newc /
   bin / pwb and ar (bsd, svr4), transcribed statement by statement, and the numeric field parsers
   of the tar, cpio and ar readers.  Field offsets, sizes and the tar template headers come from
   coq/Gen/FmtLayout.v, regenerated from /repo on every run.
   "decode" below is always the READER's parser applied to the READER's field window of the bytes
   the WRITER model produced. *)
From Coq Require Import List ZArith Bool Lia.
From LA Require Import Gen.Defines Gen.FmtLayout Fmt.FmtNumDefs Fmt.FmtNumProofs Fmt.FmtTarDefs Fmt.FmtBufProofs
  Fmt.FmtTarProofs Fmt.FmtCpioDefs Fmt.FmtCpioProofs Fmt.FmtArDefs Fmt.FmtArProofs Fmt.FmtWriteDefs.
Import ListNotations.
Local Open Scope Z_scope.

(* ================================================================== 1. codec inverses, exact guards *)

(* octal field of w digits (tar): decodes to v for 0 <= v < 8^w, whatever terminator follows *)
Theorem C10_octal_roundtrip_tar : forall w v rest,
  (0 < w)%nat -> 0 <= v < zpow 8 w -> v < 1152921504606846975 -> stops 8 rest ->
  tar_atol8 (enc (digits_be 8 w v) ++ rest) = v.
Proof. exact octal_roundtrip_tar. Qed.
Print Assumptions C10_octal_roundtrip_tar.

(* ustar / v7tar format_number(strict): a zero result means the field reads back as the value *)
Theorem C10_ustar_format_number_strict_exact : forall v s mx rest,
  (0 < s <= 19)%nat -> stops 8 rest ->
  fst (ustar_format_number v s mx true) = 0 ->
  tar_atol (snd (ustar_format_number v s mx true) ++ rest) = v.
Proof. exact ustar_strict_exact. Qed.
Print Assumptions C10_ustar_format_number_strict_exact.

(* ... and a value outside [0, 8^s) is always reported by the formatter *)
Theorem C10_ustar_format_octal_reports : forall v s, ~ (0 <= v < zpow 8 s) -> fst (ustar_format_octal v s) = -1.
Proof. exact ustar_format_octal_fails. Qed.
Print Assumptions C10_ustar_format_octal_reports.

(* base-256, 8-byte field: exact exactly on [-2^62, 2^62) ... *)
Theorem C10_base256_roundtrip_8 : forall v,
  - 4611686018427387904 <= v < 4611686018427387904 -> tar_atol (snd (format_256 v 8)) = v.
Proof. exact base256_roundtrip_8. Qed.
Print Assumptions C10_base256_roundtrip_8.

(* ... and wrong from 2^62 on: the reader takes bit 6 of the first byte for the sign *)
Theorem C10_base256_8_beyond_guard_refuted :
  tar_atol (snd (format_256 4611686018427387904 8)) = - 4611686018427387904.
Proof. vm_compute. reflexivity. Qed.
Print Assumptions C10_base256_8_beyond_guard_refuted.

(* base-256, 12-byte field (size): exact for every non-negative int64 *)
Theorem C10_base256_roundtrip_12 : forall v, 0 <= v < two63 -> tar_atol (snd (format_256 v 12)) = v.
Proof. exact base256_roundtrip_12. Qed.
Print Assumptions C10_base256_roundtrip_12.

(* base-256, 12-byte field (size, mtime): exact for every int64, negative values included *)
Theorem C10_base256_roundtrip_12_all : forall v, - two63 <= v < two63 -> tar_atol (snd (format_256 v 12)) = v.
Proof. exact base256_roundtrip_12_all. Qed.
Print Assumptions C10_base256_roundtrip_12_all.

(* gnutar format_number: octal on [0, 8^s), base-256 elsewhere; a zero result means the window decodes to the value,
   and an 8-byte field refuses everything outside [-2^62, 2^62) *)
Theorem C10_gnutar_format_number_ok_8 : forall v s rest,
  (0 < s <= 8)%nat ->
  (if (0 <=? v) && (v <? zpow 8 s) then stops 8 rest else rest = []) ->
  fst (gnutar_format_number v s 8) = 0 ->
  tar_atol (snd (gnutar_format_number v s 8) ++ rest) = v.
Proof. exact gnutar_number_ok_8. Qed.
Print Assumptions C10_gnutar_format_number_ok_8.

Theorem C10_gnutar_format_number_refuses_8 : forall v s, (0 < s <= 8)%nat ->
  ~ (- 4611686018427387904 <= v < 4611686018427387904) -> fst (gnutar_format_number v s 8) = -1.
Proof. exact gnutar_number_refuses_8. Qed.
Print Assumptions C10_gnutar_format_number_refuses_8.

Theorem C10_gnutar_format_number_ok_12 : forall v s rest,
  (0 < s <= 12)%nat -> - two63 <= v < two63 ->
  (if (0 <=? v) && (v <? zpow 8 s) then stops 8 rest else rest = []) ->
  fst (gnutar_format_number v s 12) = 0 /\ tar_atol (snd (gnutar_format_number v s 12) ++ rest) = v.
Proof. exact gnutar_number_ok_12. Qed.
Print Assumptions C10_gnutar_format_number_ok_12.

(* cpio odc / newc fields: the value if it fits, the saturated maximum otherwise (never an error) *)
Theorem C10_odc_field_decodes : forall v w, (0 < w <= 20)%nat ->
  cpio_atol8 (snd (odc_format_octal v w)) = if (0 <=? v) && (v <? zpow 8 w) then v else zpow 8 w - 1.
Proof. exact odc_field_decodes. Qed.
Print Assumptions C10_odc_field_decodes.

Theorem C10_newc_field_decodes : forall v w, (0 < w <= 15)%nat ->
  cpio_atol16 (snd (newc_format_hex v w)) = if (0 <=? v) && (v <? zpow 16 w) then v else zpow 16 w - 1.
Proof. exact newc_field_decodes. Qed.
Print Assumptions C10_newc_field_decodes.

(* binary cpio casts: the reader gets the value modulo 2^16 / 2^32 *)
Theorem C10_bin16_roundtrip : forall v, le2 (bin16 v) = v mod 65536.
Proof. exact bin16_roundtrip. Qed.
Print Assumptions C10_bin16_roundtrip.
Theorem C10_bin32_roundtrip : forall v, le4 (bin32 v) = v mod 4294967296.
Proof. exact bin32_roundtrip. Qed.
Print Assumptions C10_bin32_roundtrip.

(* ar format_decimal / format_octal: a zero result means the (blank padded) field reads back as the value *)
Theorem C10_ar_decimal_exact : forall v s, (0 < s <= 17)%nat ->
  fst (ar_format_decimal v s) = 0 ->
  ar_atol10 (snd (ar_format_decimal v s)) = v /\ length (snd (ar_format_decimal v s)) = s.
Proof. exact ar_decimal_exact. Qed.
Print Assumptions C10_ar_decimal_exact.
Theorem C10_ar_octal_exact : forall v s, (0 < s <= 20)%nat ->
  fst (ar_format_octal v s) = 0 ->
  ar_atol8 (snd (ar_format_octal v s)) = v /\ length (snd (ar_format_octal v s)) = s.
Proof. exact ar_octal_exact. Qed.
Print Assumptions C10_ar_octal_exact.

(* ================================================================== 2. ustar: status 0 means exact *)
(* e: any entry; tt: the tartype argument (-1 for the ustar writer itself); strict formatting.
   Header status 0  ->  every numeric field, read through the reader's window, is the value. *)
Theorem C10_ok_means_exact_ustar_mode : forall e tt, fst (ustar_header e tt true) = 0 ->
  tar_atol (slice R_tar_mode_offset R_tar_mode_size (snd (ustar_header e tt true))) = Z.land (e_mode e) 4095.
Proof. exact ustar_ok_mode. Qed.
Print Assumptions C10_ok_means_exact_ustar_mode.
Theorem C10_ok_means_exact_ustar_uid : forall e tt, fst (ustar_header e tt true) = 0 ->
  tar_atol (slice R_tar_uid_offset R_tar_uid_size (snd (ustar_header e tt true))) = e_uid e.
Proof. exact ustar_ok_uid. Qed.
Print Assumptions C10_ok_means_exact_ustar_uid.
Theorem C10_ok_means_exact_ustar_gid : forall e tt, fst (ustar_header e tt true) = 0 ->
  tar_atol (slice R_tar_gid_offset R_tar_gid_size (snd (ustar_header e tt true))) = e_gid e.
Proof. exact ustar_ok_gid. Qed.
Print Assumptions C10_ok_means_exact_ustar_gid.
Theorem C10_ok_means_exact_ustar_size : forall e tt, fst (ustar_header e tt true) = 0 ->
  tar_atol (slice R_tar_size_offset R_tar_size_size (snd (ustar_header e tt true))) = size_of e.
Proof. exact ustar_ok_size. Qed.
Print Assumptions C10_ok_means_exact_ustar_size.
Theorem C10_ok_means_exact_ustar_mtime : forall e tt, fst (ustar_header e tt true) = 0 ->
  tar_atol (slice R_tar_mtime_offset R_tar_mtime_size (snd (ustar_header e tt true))) = e_mtime e.
Proof. exact ustar_ok_mtime. Qed.
Print Assumptions C10_ok_means_exact_ustar_mtime.
Theorem C10_ok_means_exact_ustar_rdevmajor : forall e tt, fst (ustar_header e tt true) = 0 -> is_dev e = true ->
  tar_atol (slice R_tar_rdevmajor_offset R_tar_rdevmajor_size (snd (ustar_header e tt true))) = dev_major (e_rdev e).
Proof. exact ustar_ok_rdevmajor. Qed.
Print Assumptions C10_ok_means_exact_ustar_rdevmajor.
Theorem C10_ok_means_exact_ustar_rdevminor : forall e tt, fst (ustar_header e tt true) = 0 -> is_dev e = true ->
  tar_atol (slice R_tar_rdevminor_offset R_tar_rdevminor_size (snd (ustar_header e tt true))) = dev_minor (e_rdev e).
Proof. exact ustar_ok_rdevminor. Qed.
Print Assumptions C10_ok_means_exact_ustar_rdevminor.

(* strings: NUL-free strings come back from their fields; the pathname from prefix + '/' + name.
   The side condition on the pathname is exact: see the _refuted statement below. *)
Theorem C10_ok_means_exact_ustar_pathname : forall e tt, fst (ustar_header e tt true) = 0 ->
  no_nul (ob (e_path e)) ->
  (forall i, ustar_split (ob (e_path e)) = Some i -> nth (i - 1) (ob (e_path e)) 0 <> slash) ->
  ustar_join (slice R_tar_prefix_offset R_tar_prefix_size (snd (ustar_header e tt true)))
             (slice R_tar_name_offset R_tar_name_size (snd (ustar_header e tt true))) = ob (e_path e).
Proof. exact ustar_ok_pathname. Qed.
Print Assumptions C10_ok_means_exact_ustar_pathname.
Theorem C10_ok_means_exact_ustar_linkname : forall e tt, fst (ustar_header e tt true) = 0 ->
  no_nul (linkname_of e) ->
  cstr (slice R_tar_linkname_offset R_tar_linkname_size (snd (ustar_header e tt true))) = linkname_of e.
Proof. exact ustar_ok_linkname. Qed.
Print Assumptions C10_ok_means_exact_ustar_linkname.
Theorem C10_ok_means_exact_ustar_uname : forall e tt, fst (ustar_header e tt true) = 0 -> tt <> 120 ->
  no_nul (ob (e_uname e)) ->
  cstr (slice R_tar_uname_offset R_tar_uname_size (snd (ustar_header e tt true))) = ob (e_uname e).
Proof. exact ustar_ok_uname. Qed.
Print Assumptions C10_ok_means_exact_ustar_uname.
Theorem C10_ok_means_exact_ustar_gname : forall e tt, fst (ustar_header e tt true) = 0 -> tt <> 120 ->
  no_nul (ob (e_gname e)) ->
  cstr (slice R_tar_gname_offset R_tar_gname_size (snd (ustar_header e tt true))) = ob (e_gname e).
Proof. exact ustar_ok_gname. Qed.
Print Assumptions C10_ok_means_exact_ustar_gname.

(* without the side condition the pathname statement is false: "a//<100 x 'b'>" is split at the second
   '/', the prefix "a/" ends in '/', the reader adds none, and one '/' is lost - with status 0 *)
Definition dslash_path : list Z := [97; 47; 47] ++ repeat 98 100.
Definition reg_entry (path : list Z) (uid mtime : Z) : entry :=
  mkEntry (Some path) None None None None (IFREG + 420) uid 0 (Some 0) mtime 0 0 1 0 [].
Theorem C10_ok_means_exact_ustar_pathname_refuted : exists e,
  fst (ustar_header e (-1) true) = 0 /\ no_nul (ob (e_path e)) /\
  ustar_join_gen false (slice R_tar_prefix_offset R_tar_prefix_size (snd (ustar_header e (-1) true)))
                       (slice R_tar_name_offset R_tar_name_size (snd (ustar_header e (-1) true))) <> ob (e_path e).
Proof.
  exists (reg_entry dslash_path 0 0). split; [vm_compute; reflexivity|]. split.
  - unfold no_nul. vm_compute. repeat constructor; discriminate.
  - vm_compute. discriminate.
Qed.
Print Assumptions C10_ok_means_exact_ustar_pathname_refuted.
(* (the statement above is about the reader that joins prefix and name without a '/' when the prefix ends with one -
   switch USTAR_join_always_slash = false; with fixes/C10-ustar-split-double-slash.diff the reader always puts the
   '/' and the side condition is not needed:) *)
Theorem C10_ok_means_exact_ustar_pathname_always_slash : forall e tt, fst (ustar_header e tt true) = 0 ->
  no_nul (ob (e_path e)) ->
  ustar_join_gen true (slice R_tar_prefix_offset R_tar_prefix_size (snd (ustar_header e tt true)))
                      (slice R_tar_name_offset R_tar_name_size (snd (ustar_header e tt true))) = ob (e_path e).
Proof. exact ustar_ok_pathname_always. Qed.
Print Assumptions C10_ok_means_exact_ustar_pathname_always_slash.

(* a refused ustar / v7tar entry writes nothing at all *)
Theorem C10_refused_writes_nothing_ustar : forall full e,
  w_status (ustar_entry full e) < ST_WARN -> w_hdr (ustar_entry full e) = [] /\ w_rest (ustar_entry full e) = [].
Proof.
  intros full e. unfold ustar_entry. destruct (e_path e); cbn [w_status w_hdr w_rest]; [|auto].
  destruct (ustar_header (dir_slash (no_body e)) (-1) true) as [ret h].
  destruct (ret <? ST_WARN) eqn:E; cbn [w_status w_hdr w_rest]; [auto|].
  apply Z.ltb_ge in E. destruct full; cbn [negb].
  - destruct (tar_body (size_of (dir_slash (no_body e))) (e_body (dir_slash (no_body e)))). cbn [w_status]. lia.
  - cbn [w_status]. lia.
Qed.
Print Assumptions C10_refused_writes_nothing_ustar.

(* ================================================================== 3. v7tar *)
Theorem C10_ok_means_exact_v7tar_mode : forall e, fst (v7tar_header e true) = 0 ->
  tar_atol (slice R_tar_mode_offset R_tar_mode_size (snd (v7tar_header e true))) = Z.land (e_mode e) 4095.
Proof. exact v7tar_ok_mode. Qed.
Print Assumptions C10_ok_means_exact_v7tar_mode.
Theorem C10_ok_means_exact_v7tar_uid : forall e, fst (v7tar_header e true) = 0 ->
  tar_atol (slice R_tar_uid_offset R_tar_uid_size (snd (v7tar_header e true))) = e_uid e.
Proof. exact v7tar_ok_uid. Qed.
Print Assumptions C10_ok_means_exact_v7tar_uid.
Theorem C10_ok_means_exact_v7tar_gid : forall e, fst (v7tar_header e true) = 0 ->
  tar_atol (slice R_tar_gid_offset R_tar_gid_size (snd (v7tar_header e true))) = e_gid e.
Proof. exact v7tar_ok_gid. Qed.
Print Assumptions C10_ok_means_exact_v7tar_gid.
Theorem C10_ok_means_exact_v7tar_size : forall e, fst (v7tar_header e true) = 0 ->
  tar_atol (slice R_tar_size_offset R_tar_size_size (snd (v7tar_header e true))) = size_of e.
Proof. exact v7tar_ok_size. Qed.
Print Assumptions C10_ok_means_exact_v7tar_size.
Theorem C10_ok_means_exact_v7tar_mtime : forall e, fst (v7tar_header e true) = 0 ->
  tar_atol (slice R_tar_mtime_offset R_tar_mtime_size (snd (v7tar_header e true))) = e_mtime e.
Proof. exact v7tar_ok_mtime. Qed.
Print Assumptions C10_ok_means_exact_v7tar_mtime.

(* ================================================================== 4. gnutar *)
(* a header that is written (status OK or WARN) has exact uid, gid, size and mtime for every int64 value:
   out-of-range ids are refused by the formatter (FAILED), size and mtime have 12-byte base-256 fields *)
Theorem C10_ok_means_exact_gnutar_uid : forall name lk un gn e t, ST_WARN <= fst (gnutar_header name lk un gn e t) ->
  tar_atol (slice R_tar_uid_offset R_tar_uid_size (snd (gnutar_header name lk un gn e t))) = e_uid e.
Proof. exact gnutar_ok_uid. Qed.
Print Assumptions C10_ok_means_exact_gnutar_uid.
Theorem C10_ok_means_exact_gnutar_gid : forall name lk un gn e t, ST_WARN <= fst (gnutar_header name lk un gn e t) ->
  tar_atol (slice R_tar_gid_offset R_tar_gid_size (snd (gnutar_header name lk un gn e t))) = e_gid e.
Proof. exact gnutar_ok_gid. Qed.
Print Assumptions C10_ok_means_exact_gnutar_gid.
Theorem C10_ok_means_exact_gnutar_size : forall name lk un gn e t, ST_WARN <= fst (gnutar_header name lk un gn e t) ->
  - two63 <= size_of e < two63 ->
  tar_atol (slice R_tar_size_offset R_tar_size_size (snd (gnutar_header name lk un gn e t))) = size_of e.
Proof. exact gnutar_ok_size. Qed.
Print Assumptions C10_ok_means_exact_gnutar_size.
Theorem C10_ok_means_exact_gnutar_mtime : forall name lk un gn e t, ST_WARN <= fst (gnutar_header name lk un gn e t) ->
  - two63 <= e_mtime e < two63 ->
  tar_atol (slice R_tar_mtime_offset R_tar_mtime_size (snd (gnutar_header name lk un gn e t))) = e_mtime e.
Proof. exact gnutar_ok_mtime. Qed.
Print Assumptions C10_ok_means_exact_gnutar_mtime.
(* status exactly OK: user and group name fit (a longer one is truncated with ARCHIVE_WARN) and come back *)
Theorem C10_ok_means_exact_gnutar_uname : forall name lk un gn e t, fst (gnutar_header name lk un gn e t) = 0 -> no_nul un ->
  cstr (slice R_tar_uname_offset R_tar_uname_size (snd (gnutar_header name lk un gn e t))) = un.
Proof. exact gnutar_ok_uname. Qed.
Print Assumptions C10_ok_means_exact_gnutar_uname.
Theorem C10_ok_means_exact_gnutar_gname : forall name lk un gn e t, fst (gnutar_header name lk un gn e t) = 0 -> no_nul gn ->
  cstr (slice R_tar_gname_offset R_tar_gname_size (snd (gnutar_header name lk un gn e t))) = gn.
Proof. exact gnutar_ok_gname. Qed.
Print Assumptions C10_ok_means_exact_gnutar_gname.

(* refusing an entry.  The writer exists in two shapes (switch GNUTAR_header_first regenerated from the source):
   - header_first = false: the 'K'/'L' long-name records are written before the type of the entry is looked at and its
     header formatted; a socket (unsupported type) with a 101-byte name returns ARCHIVE_FAILED after 1024 bytes went
     out, and the NEXT entry inherits the name: the statement "a refused entry writes nothing" is refuted;
   - header_first = true (fixes/C10-gnutar-refusal-after-longname.diff): type and header first; an entry refused for
     its type or by its header leaves nothing in the archive. *)
Theorem C10_refused_writes_nothing_gnutar_refuted : exists e,
  w_status (gnutar_entry_gen false true e) = ST_FAILED /\ length (w_hdr (gnutar_entry_gen false true e)) = 1024%nat.
Proof.
  exists (mkEntry (Some (repeat 97 101)) None None None None (IFSOCK + 420) 0 0 (Some 0) 0 0 0 1 0 []).
  split; vm_compute; reflexivity.
Qed.
Print Assumptions C10_refused_writes_nothing_gnutar_refuted.

Theorem C10_refused_writes_nothing_gnutar_header_first : forall full e,
  is_some (e_path e) = true ->
  let e' := dir_slash (no_body e) in
  (gnutar_typeflag e' = None \/
   exists t, gnutar_typeflag e' = Some t /\
             fst (gnutar_header (ob (e_path e')) (linkname_of e') (ob (e_uname e')) (ob (e_gname e')) e' t) < ST_WARN) ->
  w_hdr (gnutar_entry_gen true full e) = [] /\ w_status (gnutar_entry_gen true full e) < ST_WARN.
Proof.
  intros full e Hp e' H. unfold gnutar_entry_gen. rewrite Hp. cbn [negb]. fold e'.
  destruct H as [H | [t [Ht Hs]]].
  - rewrite H. cbn [w_hdr w_status]. split; [reflexivity | unfold ST_FAILED, ST_WARN, ARCHIVE_FAILED, ARCHIVE_WARN; lia].
  - rewrite Ht.
    destruct (gnutar_header (ob (e_path e')) (linkname_of e') (ob (e_uname e')) (ob (e_gname e')) e' t) as [ret h].
    cbn [fst] in Hs. replace (ret <? ST_WARN) with true by (symmetry; apply Z.ltb_lt; assumption).
    cbn [w_hdr w_status]. split; [reflexivity | assumption].
Qed.
Print Assumptions C10_refused_writes_nothing_gnutar_header_first.

(* ================================================================== 5. cpio odc *)
(* a written header (status OK or WARN) has an exact file size field *)
Theorem C10_ok_means_exact_odc_filesize : forall st e st' ret out rem,
  odc_write_header st e = (st', ret, out, rem) -> ST_WARN <= ret ->
  cpio_atol8 (slice ODC_c_filesize_offset ODC_c_filesize_size (firstn 76 out))
  = if (0 <? length (sym_of e))%nat then lenZ (sym_of e) else body_size e.
Proof. exact odc_ok_filesize. Qed.
Print Assumptions C10_ok_means_exact_odc_filesize.

(* status OK: uid, gid, link count, mtime, rdev of device nodes and the name size read back as supplied
   (an overflow is stored saturated with ARCHIVE_WARN, a name the size field cannot describe is refused) *)
Theorem C10_ok_means_exact_odc_uid : forall st st' e out rem, odc_write_header st e = (st', ST_OK, out, rem) ->
  cpio_atol8 (slice ODC_c_uid_offset ODC_c_uid_size (firstn 76 out)) = e_uid e.
Proof. exact odc_ok_uid. Qed.
Print Assumptions C10_ok_means_exact_odc_uid.
Theorem C10_ok_means_exact_odc_gid : forall st st' e out rem, odc_write_header st e = (st', ST_OK, out, rem) ->
  cpio_atol8 (slice ODC_c_gid_offset ODC_c_gid_size (firstn 76 out)) = e_gid e.
Proof. exact odc_ok_gid. Qed.
Print Assumptions C10_ok_means_exact_odc_gid.
Theorem C10_ok_means_exact_odc_nlink : forall st st' e out rem, odc_write_header st e = (st', ST_OK, out, rem) ->
  cpio_atol8 (slice ODC_c_nlink_offset ODC_c_nlink_size (firstn 76 out)) = e_nlink e.
Proof. exact odc_ok_nlink. Qed.
Print Assumptions C10_ok_means_exact_odc_nlink.
Theorem C10_ok_means_exact_odc_mtime : forall st st' e out rem, odc_write_header st e = (st', ST_OK, out, rem) ->
  cpio_atol8 (slice ODC_c_mtime_offset ODC_c_mtime_size (firstn 76 out)) = e_mtime e.
Proof. exact odc_ok_mtime. Qed.
Print Assumptions C10_ok_means_exact_odc_mtime.
Theorem C10_ok_means_exact_odc_rdev : forall st st' e out rem, odc_write_header st e = (st', ST_OK, out, rem) ->
  is_dev e = true -> cpio_atol8 (slice ODC_c_rdev_offset ODC_c_rdev_size (firstn 76 out)) = s64 (e_rdev e).
Proof. exact odc_ok_rdev. Qed.
Print Assumptions C10_ok_means_exact_odc_rdev.
Theorem C10_ok_means_exact_odc_namesize : forall st st' e out rem, odc_write_header st e = (st', ST_OK, out, rem) ->
  cpio_atol8 (slice ODC_c_namesize_offset ODC_c_namesize_size (firstn 76 out)) = lenZ (ob (e_path e)) + 1.
Proof. exact odc_ok_namesize. Qed.
Print Assumptions C10_ok_means_exact_odc_namesize.

(* NOT checked by the writer: st_dev (archive_write_set_format_cpio_odc.c, format_octal(archive_entry_dev(entry)...)
   result dropped) - status OK with a saturated field *)
Definition odc_out (e : entry) : Z * list Z :=
  let '(_, st, out, _) := odc_write_header cpio_init e in (st, out).
Definition num_entry (uid gid mtime dev nlink : Z) : entry :=
  mkEntry (Some [120]) None None None None (IFREG + 420) uid gid (Some 0) mtime dev 0 nlink 0 [].
Theorem C10_ok_means_exact_odc_dev_refuted : exists e,
  fst (odc_out e) = ST_OK /\ cpio_atol8 (slice ODC_c_dev_offset ODC_c_dev_size (snd (odc_out e))) <> e_dev e.
Proof. exists (num_entry 0 0 0 262144 1). split; vm_compute; [reflexivity | discriminate]. Qed.
Print Assumptions C10_ok_means_exact_odc_dev_refuted.
(* the checked fields do warn: the former witnesses now get ARCHIVE_WARN *)
Example C10_odc_uid_overflow_warns : fst (odc_out (num_entry 262144 0 0 0 1)) = ST_WARN.
Proof. vm_compute. reflexivity. Qed.

(* ================================================================== 6. cpio newc *)
Theorem C10_ok_means_exact_newc_filesize : forall e ret out rem,
  newc_write_header e = (ret, out, rem) -> ST_WARN <= ret ->
  cpio_atol16 (slice NEWC_c_filesize_offset NEWC_c_filesize_size (firstn 110 out))
  = if (0 <? length (sym_of e))%nat then lenZ (sym_of e) else body_size e.
Proof. exact newc_ok_filesize. Qed.
Print Assumptions C10_ok_means_exact_newc_filesize.
Theorem C10_ok_means_exact_newc_ino : forall e out rem,
  newc_write_header e = (ST_OK, out, rem) -> 0 <= e_ino e ->
  cpio_atol16 (slice NEWC_c_ino_offset NEWC_c_ino_size (firstn 110 out)) = e_ino e.
Proof. exact newc_ok_ino. Qed.
Print Assumptions C10_ok_means_exact_newc_ino.
Theorem C10_ok_means_exact_newc_uid : forall e out rem, newc_write_header e = (ST_OK, out, rem) ->
  cpio_atol16 (slice NEWC_c_uid_offset NEWC_c_uid_size (firstn 110 out)) = e_uid e.
Proof. exact newc_ok_uid. Qed.
Print Assumptions C10_ok_means_exact_newc_uid.
Theorem C10_ok_means_exact_newc_gid : forall e out rem, newc_write_header e = (ST_OK, out, rem) ->
  cpio_atol16 (slice NEWC_c_gid_offset NEWC_c_gid_size (firstn 110 out)) = e_gid e.
Proof. exact newc_ok_gid. Qed.
Print Assumptions C10_ok_means_exact_newc_gid.
Theorem C10_ok_means_exact_newc_mtime : forall e out rem, newc_write_header e = (ST_OK, out, rem) ->
  cpio_atol16 (slice NEWC_c_mtime_offset NEWC_c_mtime_size (firstn 110 out)) = e_mtime e.
Proof. exact newc_ok_mtime. Qed.
Print Assumptions C10_ok_means_exact_newc_mtime.

(* ================================================================== 7. binary cpio *)
Theorem C10_ok_means_exact_bin_filesize : forall pwb st e st' out rem,
  bin_write_header pwb st e = (st', ST_OK, out, rem) -> 0 <= body_size e -> lenZ (sym_of e) < 4294967296 ->
  exists ino, firstn 26 out = bin_block ino e /\
  le4 (slice R_bin_filesize_offset R_bin_filesize_size (bin_block ino e))
  = if (0 <? length (sym_of e))%nat then lenZ (sym_of e) else body_size e.
Proof. exact bin_ok_filesize. Qed.
Print Assumptions C10_ok_means_exact_bin_filesize.
Theorem C10_ok_means_exact_bin_uid : forall pwb st st' e out rem, bin_write_header pwb st e = (st', ST_OK, out, rem) ->
  0 <= e_uid e -> le2 (slice R_bin_uid_offset R_bin_uid_size (firstn 26 out)) = e_uid e.
Proof. exact bin_ok_uid. Qed.
Print Assumptions C10_ok_means_exact_bin_uid.
Theorem C10_ok_means_exact_bin_gid : forall pwb st st' e out rem, bin_write_header pwb st e = (st', ST_OK, out, rem) ->
  0 <= e_gid e -> le2 (slice R_bin_gid_offset R_bin_gid_size (firstn 26 out)) = e_gid e.
Proof. exact bin_ok_gid. Qed.
Print Assumptions C10_ok_means_exact_bin_gid.
Theorem C10_ok_means_exact_bin_nlink : forall pwb st st' e out rem, bin_write_header pwb st e = (st', ST_OK, out, rem) ->
  0 <= e_nlink e -> le2 (slice R_bin_nlink_offset R_bin_nlink_size (firstn 26 out)) = e_nlink e.
Proof. exact bin_ok_nlink. Qed.
Print Assumptions C10_ok_means_exact_bin_nlink.
Theorem C10_ok_means_exact_bin_mtime : forall pwb st st' e out rem, bin_write_header pwb st e = (st', ST_OK, out, rem) ->
  le4 (slice R_bin_mtime_offset R_bin_mtime_size (firstn 26 out)) = e_mtime e.
Proof. exact bin_ok_mtime. Qed.
Print Assumptions C10_ok_means_exact_bin_mtime.
Theorem C10_ok_means_exact_bin_namesize : forall pwb st st' e out rem, bin_write_header pwb st e = (st', ST_OK, out, rem) ->
  le2 (slice R_bin_namesize_offset R_bin_namesize_size (firstn 26 out)) = lenZ (ob (e_path e)) + 1.
Proof. exact bin_ok_namesize. Qed.
Print Assumptions C10_ok_means_exact_bin_namesize.

(* NOT checked: st_dev, (uint16_t) cast *)
Definition bin_out (e : entry) : Z * list Z :=
  let '(_, st, out, _) := bin_write_header false cpio_init e in (st, out).
Theorem C10_ok_means_exact_bin_dev_refuted : exists e,
  fst (bin_out e) = ST_OK /\ le2 (slice R_bin_dev_offset R_bin_dev_size (snd (bin_out e))) <> e_dev e.
Proof. exists (num_entry 0 0 0 65536 1). split; vm_compute; [reflexivity | discriminate]. Qed.
Print Assumptions C10_ok_means_exact_bin_dev_refuted.

(* ================================================================== 8. ar *)
(* a refused member (ARCHIVE_WARN, nothing written) leaves nothing behind: the header call clears
   entry_bytes_remaining and entry_padding, so the finish_entry that follows writes nothing *)
Theorem C10_refused_leaves_archive_intact_ar : forall gnu st e st' out,
  ar_header gnu st e = (st', ST_WARN, out) -> ar_finish st' = (ST_OK, []).
Proof. exact ar_refused_writes_nothing. Qed.
Print Assumptions C10_refused_leaves_archive_intact_ar.

Definition ar_member (name : list Z) (uid size : Z) (body : list Z) : entry :=
  mkEntry (Some name) None None None None (IFREG + 420) uid 0 (Some size) 0 0 0 1 0 [body].
Example C10_ar_refusal_example :
  let es := [(ar_member [97] 0 1 [65], false); (ar_member [120] 1000000 0 [], false); (ar_member [98] 0 1 [66], false)] in
  let '(recs, _, out) := write_archive ArBsd es in
  map r_hdr recs = [ST_OK; ST_WARN; ST_OK] /\ length out = (8 + 62 + 62)%nat.
Proof. vm_compute. split; reflexivity. Qed.

(* ================================================================== non-vacuity *)
(* a concrete entry with every field at its border is accepted with status 0 (the hypotheses of the
   ok_means_exact theorems are satisfiable), and one step beyond is refused *)
Definition border_entry (uid : Z) : entry :=
  mkEntry (Some (repeat 97 155 ++ [47] ++ repeat 98 100)) None (Some (repeat 99 100)) (Some (repeat 117 32))
          (Some (repeat 103 32)) (IFLNK + 4095) uid 262143 (Some 0) 8589934591 0 0 1 0 [].
Example C10_nonvacuous :
  fst (ustar_header (border_entry 262143) (-1) true) = 0 /\
  fst (ustar_header (border_entry 262144) (-1) true) = ST_FAILED /\
  tar_atol (slice R_tar_uid_offset R_tar_uid_size (snd (ustar_header (border_entry 262143) (-1) true))) = 262143.
Proof. vm_compute. repeat split; reflexivity. Qed.
