(* GENERATED on every run by translators/gen_fflags.py from the current /repo working tree - do not edit.
   Sources: libarchive/archive_entry.c (fileflags[], compiled with the build's config.h) *)

From Coq Require Import List NArith.
Import ListNotations.
Local Open Scope N_scope.

Definition ULONG_BITS : N := 64.
Definition WNAMES_AGREE : bool := true.
(* (name as bytes, set, clear) in table order *)
Definition fileflags : list (list N * N * N) := [
  ([110; 111; 115; 97; 112; 112; 110; 100], 32, 0)  (* nosappnd *);
  ([110; 111; 115; 97; 112; 112; 101; 110; 100], 32, 0)  (* nosappend *);
  ([110; 111; 115; 99; 104; 103], 16, 0)  (* noschg *);
  ([110; 111; 115; 99; 104; 97; 110; 103; 101], 16, 0)  (* noschange *);
  ([110; 111; 115; 105; 109; 109; 117; 116; 97; 98; 108; 101], 16, 0)  (* nosimmutable *);
  ([110; 111; 100; 117; 109; 112], 0, 64)  (* nodump *);
  ([110; 111; 117; 110; 100; 101; 108], 2, 0)  (* noundel *);
  ([110; 111; 99; 111; 109; 112; 114; 101; 115; 115], 4, 0)  (* nocompress *);
  ([110; 111; 97; 116; 105; 109; 101], 0, 128)  (* noatime *);
  ([110; 111; 100; 105; 114; 115; 121; 110; 99], 65536, 0)  (* nodirsync *);
  ([110; 111; 106; 111; 117; 114; 110; 97; 108; 45; 100; 97; 116; 97], 16384, 0)  (* nojournal-data *);
  ([110; 111; 106; 111; 117; 114; 110; 97; 108], 16384, 0)  (* nojournal *);
  ([110; 111; 115; 101; 99; 100; 101; 108], 1, 0)  (* nosecdel *);
  ([110; 111; 115; 101; 99; 117; 114; 101; 100; 101; 108; 101; 116; 105; 111; 110], 1, 0)  (* nosecuredeletion *);
  ([110; 111; 115; 121; 110; 99], 8, 0)  (* nosync *);
  ([110; 111; 116; 97; 105; 108], 0, 32768)  (* notail *);
  ([110; 111; 116; 111; 112; 100; 105; 114], 131072, 0)  (* notopdir *);
  ([110; 111; 99; 111; 119], 0, 8388608)  (* nocow *);
  ([110; 111; 112; 114; 111; 106; 105; 110; 104; 101; 114; 105; 116], 536870912, 0)  (* noprojinherit *)
].
