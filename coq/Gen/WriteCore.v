(* GENERATED on every run by translators/gen_writeCore.py from the current /repo working tree - do not edit.
   Sources: libarchive/archive_write.c *)

From Coq Require Import ZArith Bool.

(* archive_write_new *)
Definition default_bytes_per_block : Z := (10240)%Z.
Definition default_bytes_in_last_block : Z := (-1)%Z.
(* archive_write_client_free calls client_closer and frees the filter state when the client
   filter is still open (textual test: the body mentions client_closer and free(state)) *)
Definition client_free_closes_open_client : bool := false.
(* _archive_write_free, state FATAL: else-branch 'r1 = __archive_write_filters_close(a); if (r1 < r) r = r1;' *)
Definition free_closes_filters_when_fatal : bool := true.
