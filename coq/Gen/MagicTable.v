(* GENERATED on every run by translators/gen_magic.py from the current /repo working tree - do not edit.
   Sources: libarchive/*.c (archive_check_magic call sites), libarchive/archive_private.h *)

From Coq Require Import List NArith String.
Import ListNotations.
Local Open Scope string_scope.

(* (enclosing C function, expected magic, allowed-state mask).  193 sites.
   nr  file:line  [function-name literal]  mask expression
     0  archive_match.c:250  [archive_match_free]  ARCHIVE_STATE_ANY | ARCHIVE_STATE_FATAL
     1  archive_match.c:279  [archive_match_excluded_ae]  ARCHIVE_STATE_NEW
     2  archive_match.c:320  [archive_match_exclude_pattern]  ARCHIVE_STATE_NEW
     3  archive_match.c:339  [archive_match_exclude_pattern_w]  ARCHIVE_STATE_NEW
     4  archive_match.c:358  [archive_match_exclude_pattern_from_file]  ARCHIVE_STATE_NEW
     5  archive_match.c:372  [archive_match_exclude_pattern_from_file_w]  ARCHIVE_STATE_NEW
     6  archive_match.c:386  [archive_match_include_pattern]  ARCHIVE_STATE_NEW
     7  archive_match.c:405  [archive_match_include_pattern_w]  ARCHIVE_STATE_NEW
     8  archive_match.c:424  [archive_match_include_pattern_from_file]  ARCHIVE_STATE_NEW
     9  archive_match.c:438  [archive_match_include_pattern_from_file_w]  ARCHIVE_STATE_NEW
    10  archive_match.c:459  [archive_match_path_excluded]  ARCHIVE_STATE_NEW
    11  archive_match.c:494  [archive_match_set_inclusion_recursion]  ARCHIVE_STATE_NEW
    12  archive_match.c:509  [archive_match_unmatched_inclusions]  ARCHIVE_STATE_NEW
    13  archive_match.c:524  [archive_match_unmatched_inclusions_next]  ARCHIVE_STATE_NEW
    14  archive_match.c:541  [archive_match_unmatched_inclusions_next_w]  ARCHIVE_STATE_NEW
    15  archive_match.c:990  [archive_match_time_include_entry]  ARCHIVE_STATE_NEW
    16  archive_match.c:1017  [archive_match_time_excluded_ae]  ARCHIVE_STATE_NEW
    17  archive_match.c:1036  [<_fn>]  ARCHIVE_STATE_NEW
    18  archive_match.c:1595  [archive_match_include_uid]  ARCHIVE_STATE_NEW
    19  archive_match.c:1606  [archive_match_include_gid]  ARCHIVE_STATE_NEW
    20  archive_match.c:1617  [archive_match_include_uname]  ARCHIVE_STATE_NEW
    21  archive_match.c:1628  [archive_match_include_uname_w]  ARCHIVE_STATE_NEW
    22  archive_match.c:1639  [archive_match_include_gname]  ARCHIVE_STATE_NEW
    23  archive_match.c:1650  [archive_match_include_gname_w]  ARCHIVE_STATE_NEW
    24  archive_match.c:1669  [archive_match_id_excluded_ae]  ARCHIVE_STATE_NEW
    25  archive_options.c:46  [<fn>]  ARCHIVE_STATE_NEW
    26  archive_options.c:46  [<fn>]  ARCHIVE_STATE_NEW
    27  archive_options.c:106  [<fn>]  ARCHIVE_STATE_NEW
    28  archive_options.c:106  [<fn>]  ARCHIVE_STATE_NEW
    29  archive_read.c:118  [archive_read_extract_set_skip_file] direct-call  ARCHIVE_STATE_ANY
    30  archive_read.c:328  [archive_read_set_open_callback]  ARCHIVE_STATE_NEW
    31  archive_read.c:339  [archive_read_set_read_callback]  ARCHIVE_STATE_NEW
    32  archive_read.c:350  [archive_read_set_skip_callback]  ARCHIVE_STATE_NEW
    33  archive_read.c:361  [archive_read_set_seek_callback]  ARCHIVE_STATE_NEW
    34  archive_read.c:372  [archive_read_set_close_callback]  ARCHIVE_STATE_NEW
    35  archive_read.c:383  [archive_read_set_switch_callback]  ARCHIVE_STATE_NEW
    36  archive_read.c:400  [archive_read_set_callback_data2]  ARCHIVE_STATE_NEW
    37  archive_read.c:436  [archive_read_add_callback_data]  ARCHIVE_STATE_NEW
    38  archive_read.c:488  [archive_read_open]  ARCHIVE_STATE_NEW
    39  archive_read.c:653  [archive_read_next_header]  ARCHIVE_STATE_HEADER | ARCHIVE_STATE_DATA
    40  archive_read.c:785  [archive_read_header_position]  ARCHIVE_STATE_ANY
    41  archive_read.c:979  [archive_read_data_skip]  ARCHIVE_STATE_DATA
    42  archive_read.c:1002  [archive_seek_data_block]  ARCHIVE_STATE_DATA
    43  archive_read.c:1028  [archive_read_data_block]  ARCHIVE_STATE_DATA
    44  archive_read.c:1100  [archive_read_close]  ARCHIVE_STATE_ANY | ARCHIVE_STATE_FATAL
    45  archive_read.c:1131  [archive_read_free]  ARCHIVE_STATE_ANY | ARCHIVE_STATE_FATAL
    46  archive_read.c:1248  [__archive_read_register_format]  ARCHIVE_STATE_NEW
    47  archive_read.c:1291  [__archive_read_register_bidder]  ARCHIVE_STATE_NEW
    48  archive_read_add_passphrase.c:92  [archive_read_add_passphrase]  ARCHIVE_STATE_NEW
    49  archive_read_add_passphrase.c:115  [archive_read_set_passphrase_callback]  ARCHIVE_STATE_NEW
    50  archive_read_data_into_fd.c:93  [archive_read_data_into_fd]  ARCHIVE_STATE_DATA
    51  archive_read_disk_entry_from_file.c:169  [archive_read_disk_entry_from_file]  ARCHIVE_STATE_ANY
    52  archive_read_disk_posix.c:388  [archive_read_disk_gname] direct-call  ARCHIVE_STATE_ANY
    53  archive_read_disk_posix.c:400  [archive_read_disk_uname] direct-call  ARCHIVE_STATE_ANY
    54  archive_read_disk_posix.c:415  [archive_read_disk_set_gname_lookup]  ARCHIVE_STATE_ANY
    55  archive_read_disk_posix.c:434  [archive_read_disk_set_uname_lookup]  ARCHIVE_STATE_ANY
    56  archive_read_disk_posix.c:478  [archive_read_free]  ARCHIVE_STATE_ANY | ARCHIVE_STATE_FATAL
    57  archive_read_disk_posix.c:504  [archive_read_close]  ARCHIVE_STATE_ANY | ARCHIVE_STATE_FATAL
    58  archive_read_disk_posix.c:531  [archive_read_disk_set_symlink_logical]  ARCHIVE_STATE_ANY
    59  archive_read_disk_posix.c:541  [archive_read_disk_set_symlink_physical]  ARCHIVE_STATE_ANY
    60  archive_read_disk_posix.c:551  [archive_read_disk_set_symlink_hybrid]  ARCHIVE_STATE_ANY
    61  archive_read_disk_posix.c:561  [archive_read_disk_restore_atime]  ARCHIVE_STATE_ANY
    62  archive_read_disk_posix.c:583  [archive_read_disk_honor_nodump]  ARCHIVE_STATE_ANY
    63  archive_read_disk_posix.c:696  [archive_read_data_block]  ARCHIVE_STATE_DATA
    64  archive_read_disk_posix.c:1128  [archive_read_next_header2]  ARCHIVE_STATE_HEADER | ARCHIVE_STATE_DATA
    65  archive_read_disk_posix.c:1239  [archive_read_disk_set_matching]  ARCHIVE_STATE_ANY
    66  archive_read_disk_posix.c:1254  [archive_read_disk_set_metadata_filter_callback]  ARCHIVE_STATE_ANY
    67  archive_read_disk_posix.c:1268  [archive_read_disk_can_descend]  ARCHIVE_STATE_HEADER | ARCHIVE_STATE_DATA
    68  archive_read_disk_posix.c:1285  [archive_read_disk_descend]  ARCHIVE_STATE_HEADER | ARCHIVE_STATE_DATA
    69  archive_read_disk_posix.c:1323  [archive_read_disk_open]  ARCHIVE_STATE_NEW | ARCHIVE_STATE_CLOSED
    70  archive_read_disk_posix.c:1338  [archive_read_disk_open_w]  ARCHIVE_STATE_NEW | ARCHIVE_STATE_CLOSED
    71  archive_read_disk_posix.c:1393  [archive_read_disk_current_filesystem]  ARCHIVE_STATE_DATA
    72  archive_read_disk_posix.c:1457  [archive_read_disk_current_filesystem]  ARCHIVE_STATE_DATA
    73  archive_read_disk_posix.c:1472  [archive_read_disk_current_filesystem]  ARCHIVE_STATE_DATA
    74  archive_read_disk_windows.c:481  [archive_read_disk_gname] direct-call  ARCHIVE_STATE_ANY
    75  archive_read_disk_windows.c:493  [archive_read_disk_uname] direct-call  ARCHIVE_STATE_ANY
    76  archive_read_disk_windows.c:508  [archive_read_disk_set_gname_lookup]  ARCHIVE_STATE_ANY
    77  archive_read_disk_windows.c:527  [archive_read_disk_set_uname_lookup]  ARCHIVE_STATE_ANY
    78  archive_read_disk_windows.c:568  [archive_read_free]  ARCHIVE_STATE_ANY | ARCHIVE_STATE_FATAL
    79  archive_read_disk_windows.c:593  [archive_read_close]  ARCHIVE_STATE_ANY | ARCHIVE_STATE_FATAL
    80  archive_read_disk_windows.c:620  [archive_read_disk_set_symlink_logical]  ARCHIVE_STATE_ANY
    81  archive_read_disk_windows.c:630  [archive_read_disk_set_symlink_physical]  ARCHIVE_STATE_ANY
    82  archive_read_disk_windows.c:640  [archive_read_disk_set_symlink_hybrid]  ARCHIVE_STATE_ANY
    83  archive_read_disk_windows.c:650  [archive_read_disk_restore_atime]  ARCHIVE_STATE_ANY
    84  archive_read_disk_windows.c:664  [archive_read_disk_honor_nodump]  ARCHIVE_STATE_ANY
    85  archive_read_disk_windows.c:821  [archive_read_data_block]  ARCHIVE_STATE_DATA
    86  archive_read_disk_windows.c:1143  [archive_read_next_header2]  ARCHIVE_STATE_HEADER | ARCHIVE_STATE_DATA
    87  archive_read_disk_windows.c:1278  [archive_read_disk_set_matching]  ARCHIVE_STATE_ANY
    88  archive_read_disk_windows.c:1293  [archive_read_disk_set_metadata_filter_callback]  ARCHIVE_STATE_ANY
    89  archive_read_disk_windows.c:1307  [archive_read_disk_can_descend]  ARCHIVE_STATE_HEADER | ARCHIVE_STATE_DATA
    90  archive_read_disk_windows.c:1324  [archive_read_disk_descend]  ARCHIVE_STATE_HEADER | ARCHIVE_STATE_DATA
    91  archive_read_disk_windows.c:1355  [archive_read_disk_open]  ARCHIVE_STATE_NEW | ARCHIVE_STATE_CLOSED
    92  archive_read_disk_windows.c:1384  [archive_read_disk_open_w]  ARCHIVE_STATE_NEW | ARCHIVE_STATE_CLOSED
    93  archive_read_disk_windows.c:1423  [archive_read_disk_current_filesystem]  ARCHIVE_STATE_DATA
    94  archive_read_disk_windows.c:1483  [archive_read_disk_current_filesystem]  ARCHIVE_STATE_DATA
    95  archive_read_disk_windows.c:1498  [archive_read_disk_current_filesystem]  ARCHIVE_STATE_DATA
    96  archive_read_support_filter_all.c:43  [archive_read_support_filter_all]  ARCHIVE_STATE_NEW
    97  archive_read_support_filter_by_code.c:34  [archive_read_support_filter_by_code]  ARCHIVE_STATE_NEW
    98  archive_read_support_filter_none.c:47  [archive_read_support_filter_none]  ARCHIVE_STATE_NEW
    99  archive_read_support_format_7zip.c:451  [archive_read_support_format_7zip]  ARCHIVE_STATE_NEW
   100  archive_read_support_format_all.c:34  [archive_read_support_format_all]  ARCHIVE_STATE_NEW
   101  archive_read_support_format_ar.c:103  [archive_read_support_format_ar]  ARCHIVE_STATE_NEW
   102  archive_read_support_format_by_code.c:38  [archive_read_support_format_by_code]  ARCHIVE_STATE_NEW
   103  archive_read_support_format_cab.c:356  [archive_read_support_format_cab]  ARCHIVE_STATE_NEW
   104  archive_read_support_format_cpio.c:228  [archive_read_support_format_cpio]  ARCHIVE_STATE_NEW
   105  archive_read_support_format_empty.c:44  [archive_read_support_format_empty]  ARCHIVE_STATE_NEW
   106  archive_read_support_format_iso9660.c:465  [archive_read_support_format_iso9660]  ARCHIVE_STATE_NEW
   107  archive_read_support_format_lha.c:263  [archive_read_support_format_lha]  ARCHIVE_STATE_NEW
   108  archive_read_support_format_mtree.c:273  [archive_read_support_format_mtree]  ARCHIVE_STATE_NEW
   109  archive_read_support_format_rar.c:734  [archive_read_support_format_rar]  ARCHIVE_STATE_NEW
   110  archive_read_support_format_rar5.c:895  [archive_read_support_format_rar5]  ARCHIVE_STATE_NEW
   111  archive_read_support_format_raw.c:61  [archive_read_support_format_raw]  ARCHIVE_STATE_NEW
   112  archive_read_support_format_tar.c:258  [archive_read_support_format_gnutar]  ARCHIVE_STATE_NEW
   113  archive_read_support_format_tar.c:271  [archive_read_support_format_tar]  ARCHIVE_STATE_NEW
   114  archive_read_support_format_warc.c:145  [archive_read_support_format_warc]  ARCHIVE_STATE_NEW
   115  archive_read_support_format_xar.c:74  [archive_read_support_format_xar]  ARCHIVE_STATE_NEW
   116  archive_read_support_format_xar.c:450  [archive_read_support_format_xar]  ARCHIVE_STATE_NEW
   117  archive_read_support_format_zip.c:3621  [archive_read_support_format_zip]  ARCHIVE_STATE_NEW
   118  archive_read_support_format_zip.c:4413  [archive_read_support_format_zip_seekable]  ARCHIVE_STATE_NEW
   119  archive_write.c:133  [archive_write_set_bytes_per_block]  ARCHIVE_STATE_NEW
   120  archive_write.c:151  [archive_write_get_bytes_per_block]  ARCHIVE_STATE_ANY
   121  archive_write.c:168  [archive_write_set_bytes_in_last_block]  ARCHIVE_STATE_ANY
   122  archive_write.c:181  [archive_write_get_bytes_in_last_block]  ARCHIVE_STATE_ANY
   123  archive_write.c:194  [archive_write_set_skip_file]  ARCHIVE_STATE_ANY
   124  archive_write.c:571  [archive_write_open]  ARCHIVE_STATE_NEW
   125  archive_write.c:622  [archive_write_close]  ARCHIVE_STATE_ANY | ARCHIVE_STATE_FATAL
   126  archive_write.c:703  [archive_write_free]  ARCHIVE_STATE_ANY | ARCHIVE_STATE_FATAL
   127  archive_write.c:747  [archive_write_header]  ARCHIVE_STATE_DATA | ARCHIVE_STATE_HEADER
   128  archive_write.c:811  [archive_write_finish_entry]  ARCHIVE_STATE_HEADER | ARCHIVE_STATE_DATA
   129  archive_write.c:830  [archive_write_data]  ARCHIVE_STATE_DATA
   130  archive_write_add_filter_b64encode.c:85  [archive_write_add_filter_b64encode]  ARCHIVE_STATE_NEW
   131  archive_write_add_filter_bzip2.c:86  [archive_write_add_filter_bzip2]  ARCHIVE_STATE_NEW
   132  archive_write_add_filter_compress.c:133  [archive_write_add_filter_compress]  ARCHIVE_STATE_NEW
   133  archive_write_add_filter_grzip.c:56  [archive_write_add_filter_grzip]  ARCHIVE_STATE_NEW
   134  archive_write_add_filter_gzip.c:101  [archive_write_add_filter_gzip]  ARCHIVE_STATE_NEW
   135  archive_write_add_filter_lrzip.c:62  [archive_write_add_filter_lrzip]  ARCHIVE_STATE_NEW
   136  archive_write_add_filter_lz4.c:100  [archive_write_add_filter_lz4]  ARCHIVE_STATE_NEW
   137  archive_write_add_filter_lzop.c:141  [archive_write_add_filter_lzop]  ARCHIVE_STATE_NEW
   138  archive_write_add_filter_program.c:96  [archive_write_add_filter_program]  ARCHIVE_STATE_NEW
   139  archive_write_add_filter_uuencode.c:74  [archive_write_add_filter_uu]  ARCHIVE_STATE_NEW
   140  archive_write_add_filter_xz.c:170  [archive_write_add_filter_xz]  ARCHIVE_STATE_NEW
   141  archive_write_add_filter_xz.c:190  [archive_write_add_filter_lzma]  ARCHIVE_STATE_NEW
   142  archive_write_add_filter_xz.c:207  [archive_write_add_filter_lzip]  ARCHIVE_STATE_NEW
   143  archive_write_add_filter_zstd.c:120  [archive_write_add_filter_zstd]  ARCHIVE_STATE_NEW
   144  archive_write_disk_posix.c:572  [archive_write_disk_set_options]  ARCHIVE_STATE_ANY
   145  archive_write_disk_posix.c:598  [archive_write_disk_header]  ARCHIVE_STATE_HEADER | ARCHIVE_STATE_DATA
   146  archive_write_disk_posix.c:981  [archive_write_disk_set_skip_file]  ARCHIVE_STATE_ANY
   147  archive_write_disk_posix.c:1696  [archive_write_data_block]  ARCHIVE_STATE_DATA
   148  archive_write_disk_posix.c:1724  [archive_write_data]  ARCHIVE_STATE_DATA
   149  archive_write_disk_posix.c:1738  [archive_write_finish_entry]  ARCHIVE_STATE_HEADER | ARCHIVE_STATE_DATA
   150  archive_write_disk_posix.c:1991  [archive_write_disk_set_group_lookup]  ARCHIVE_STATE_ANY
   151  archive_write_disk_posix.c:2010  [archive_write_disk_set_user_lookup]  ARCHIVE_STATE_ANY
   152  archive_write_disk_posix.c:2026  [archive_write_disk_gid]  ARCHIVE_STATE_ANY
   153  archive_write_disk_posix.c:2037  [archive_write_disk_uid]  ARCHIVE_STATE_ANY
   154  archive_write_disk_posix.c:2590  [archive_write_disk_close]  ARCHIVE_STATE_HEADER | ARCHIVE_STATE_DATA
   155  archive_write_disk_posix.c:2739  [archive_write_disk_free]  ARCHIVE_STATE_ANY | ARCHIVE_STATE_FATAL
   156  archive_write_disk_windows.c:842  [archive_write_disk_header]  ARCHIVE_STATE_HEADER | ARCHIVE_STATE_DATA
   157  archive_write_disk_windows.c:1069  [archive_write_disk_set_skip_file]  ARCHIVE_STATE_ANY
   158  archive_write_disk_windows.c:1165  [archive_write_data_block]  ARCHIVE_STATE_DATA
   159  archive_write_disk_windows.c:1189  [archive_write_data]  ARCHIVE_STATE_DATA
   160  archive_write_disk_windows.c:1201  [archive_write_finish_entry]  ARCHIVE_STATE_HEADER | ARCHIVE_STATE_DATA
   161  archive_write_disk_windows.c:1332  [archive_write_disk_set_group_lookup]  ARCHIVE_STATE_ANY
   162  archive_write_disk_windows.c:1351  [archive_write_disk_set_user_lookup]  ARCHIVE_STATE_ANY
   163  archive_write_disk_windows.c:1367  [archive_write_disk_gid]  ARCHIVE_STATE_ANY
   164  archive_write_disk_windows.c:1378  [archive_write_disk_uid]  ARCHIVE_STATE_ANY
   165  archive_write_disk_windows.c:1950  [archive_write_disk_close]  ARCHIVE_STATE_HEADER | ARCHIVE_STATE_DATA
   166  archive_write_disk_windows.c:1990  [archive_write_disk_free]  ARCHIVE_STATE_ANY | ARCHIVE_STATE_FATAL
   167  archive_write_open_memory.c:57  [archive_write_open_memory]  ARCHIVE_STATE_NEW
   168  archive_write_set_format_7zip.c:357  [archive_write_set_format_7zip]  ARCHIVE_STATE_NEW
   169  archive_write_set_format_ar.c:91  [archive_write_set_format_ar_bsd]  ARCHIVE_STATE_NEW
   170  archive_write_set_format_ar.c:107  [archive_write_set_format_ar_svr4]  ARCHIVE_STATE_NEW
   171  archive_write_set_format_cpio_binary.c:181  [archive_write_set_format_cpio_binary]  ARCHIVE_STATE_NEW
   172  archive_write_set_format_cpio_newc.c:112  [archive_write_set_format_cpio_newc]  ARCHIVE_STATE_NEW
   173  archive_write_set_format_cpio_odc.c:106  [archive_write_set_format_cpio_odc]  ARCHIVE_STATE_NEW
   174  archive_write_set_format_iso9660.c:1058  [archive_write_set_format_iso9660]  ARCHIVE_STATE_NEW
   175  archive_write_set_format_mtree.c:1462  [<fn>]  ARCHIVE_STATE_NEW
   176  archive_write_set_format_pax.c:117  [archive_write_set_format_pax_restricted]  ARCHIVE_STATE_NEW
   177  archive_write_set_format_pax.c:135  [archive_write_set_format_pax]  ARCHIVE_STATE_NEW
   178  archive_write_set_format_raw.c:54  [archive_write_set_format_raw]  ARCHIVE_STATE_NEW
   179  archive_write_set_format_shar.c:109  [archive_write_set_format_shar]  ARCHIVE_STATE_NEW
   180  archive_write_set_format_ustar.c:171  [archive_write_set_format_ustar]  ARCHIVE_STATE_NEW
   181  archive_write_set_format_v7tar.c:148  [archive_write_set_format_v7tar]  ARCHIVE_STATE_NEW
   182  archive_write_set_format_warc.c:125  [archive_write_set_format_warc]  ARCHIVE_STATE_NEW
   183  archive_write_set_format_xar.c:361  [archive_write_set_format_xar]  ARCHIVE_STATE_NEW
   184  archive_write_set_format_zip.c:564  [archive_write_zip_set_compression_deflate]  ARCHIVE_STATE_NEW | ARCHIVE_STATE_HEADER | ARCHIVE_STATE_DATA
   185  archive_write_set_format_zip.c:592  [archive_write_zip_set_compression_bzip2]  ARCHIVE_STATE_NEW | ARCHIVE_STATE_HEADER | ARCHIVE_STATE_DATA
   186  archive_write_set_format_zip.c:620  [archive_write_zip_set_compression_zstd]  ARCHIVE_STATE_NEW | ARCHIVE_STATE_HEADER | ARCHIVE_STATE_DATA
   187  archive_write_set_format_zip.c:648  [archive_write_zip_set_compression_lzma]  ARCHIVE_STATE_NEW | ARCHIVE_STATE_HEADER | ARCHIVE_STATE_DATA
   188  archive_write_set_format_zip.c:676  [archive_write_zip_set_compression_xz]  ARCHIVE_STATE_NEW | ARCHIVE_STATE_HEADER | ARCHIVE_STATE_DATA
   189  archive_write_set_format_zip.c:705  [archive_write_zip_set_compression_store]  ARCHIVE_STATE_NEW | ARCHIVE_STATE_HEADER | ARCHIVE_STATE_DATA
   190  archive_write_set_format_zip.c:726  [archive_write_set_format_zip]  ARCHIVE_STATE_NEW
   191  archive_write_set_passphrase.c:57  [archive_write_set_passphrase]  ARCHIVE_STATE_NEW
   192  archive_write_set_passphrase.c:70  [archive_write_set_passphrase_callback]  ARCHIVE_STATE_NEW
*)
Definition magic_table : list (string * N * N) := [
  ("archive_match_free", 212668873%N, 65535%N);
  ("archive_match_excluded", 212668873%N, 1%N);
  ("archive_match_exclude_pattern", 212668873%N, 1%N);
  ("archive_match_exclude_pattern_w", 212668873%N, 1%N);
  ("archive_match_exclude_pattern_from_file", 212668873%N, 1%N);
  ("archive_match_exclude_pattern_from_file_w", 212668873%N, 1%N);
  ("archive_match_include_pattern", 212668873%N, 1%N);
  ("archive_match_include_pattern_w", 212668873%N, 1%N);
  ("archive_match_include_pattern_from_file", 212668873%N, 1%N);
  ("archive_match_include_pattern_from_file_w", 212668873%N, 1%N);
  ("archive_match_path_excluded", 212668873%N, 1%N);
  ("archive_match_set_inclusion_recursion", 212668873%N, 1%N);
  ("archive_match_path_unmatched_inclusions", 212668873%N, 1%N);
  ("archive_match_path_unmatched_inclusions_next", 212668873%N, 1%N);
  ("archive_match_path_unmatched_inclusions_next_w", 212668873%N, 1%N);
  ("archive_match_exclude_entry", 212668873%N, 1%N);
  ("archive_match_time_excluded", 212668873%N, 1%N);
  ("validate_time_flag", 212668873%N, 1%N);
  ("archive_match_include_uid", 212668873%N, 1%N);
  ("archive_match_include_gid", 212668873%N, 1%N);
  ("archive_match_include_uname", 212668873%N, 1%N);
  ("archive_match_include_uname_w", 212668873%N, 1%N);
  ("archive_match_include_gname", 212668873%N, 1%N);
  ("archive_match_include_gname_w", 212668873%N, 1%N);
  ("archive_match_owner_excluded", 212668873%N, 1%N);
  ("_archive_set_option", 14594245%N, 1%N);
  ("_archive_set_option", 2965749982%N, 1%N);
  ("_archive_set_options", 14594245%N, 1%N);
  ("_archive_set_options", 2965749982%N, 1%N);
  ("archive_read_extract_set_skip_file", 14594245%N, 32767%N);
  ("archive_read_set_open_callback", 14594245%N, 1%N);
  ("archive_read_set_read_callback", 14594245%N, 1%N);
  ("archive_read_set_skip_callback", 14594245%N, 1%N);
  ("archive_read_set_seek_callback", 14594245%N, 1%N);
  ("archive_read_set_close_callback", 14594245%N, 1%N);
  ("archive_read_set_switch_callback", 14594245%N, 1%N);
  ("archive_read_set_callback_data2", 14594245%N, 1%N);
  ("archive_read_add_callback_data", 14594245%N, 1%N);
  ("archive_read_open1", 14594245%N, 1%N);
  ("_archive_read_next_header2", 14594245%N, 6%N);
  ("archive_read_header_position", 14594245%N, 32767%N);
  ("archive_read_data_skip", 14594245%N, 4%N);
  ("archive_seek_data", 14594245%N, 4%N);
  ("_archive_read_data_block", 14594245%N, 4%N);
  ("_archive_read_close", 14594245%N, 65535%N);
  ("_archive_read_free", 14594245%N, 65535%N);
  ("__archive_read_register_format", 14594245%N, 1%N);
  ("__archive_read_register_bidder", 14594245%N, 1%N);
  ("archive_read_add_passphrase", 14594245%N, 1%N);
  ("archive_read_set_passphrase_callback", 14594245%N, 1%N);
  ("archive_read_data_into_fd", 14594245%N, 4%N);
  ("archive_read_disk_entry_from_file", 195932357%N, 32767%N);
  ("archive_read_disk_gname", 195932357%N, 32767%N);
  ("archive_read_disk_uname", 195932357%N, 32767%N);
  ("archive_read_disk_set_gname_lookup", 195932357%N, 32767%N);
  ("archive_read_disk_set_uname_lookup", 195932357%N, 32767%N);
  ("_archive_read_free", 195932357%N, 65535%N);
  ("_archive_read_close", 195932357%N, 65535%N);
  ("archive_read_disk_set_symlink_logical", 195932357%N, 32767%N);
  ("archive_read_disk_set_symlink_physical", 195932357%N, 32767%N);
  ("archive_read_disk_set_symlink_hybrid", 195932357%N, 32767%N);
  ("archive_read_disk_set_atime_restored", 195932357%N, 32767%N);
  ("archive_read_disk_set_behavior", 195932357%N, 32767%N);
  ("_archive_read_data_block", 195932357%N, 4%N);
  ("_archive_read_next_header2", 195932357%N, 6%N);
  ("archive_read_disk_set_matching", 195932357%N, 32767%N);
  ("archive_read_disk_set_metadata_filter_callback", 195932357%N, 32767%N);
  ("archive_read_disk_can_descend", 195932357%N, 6%N);
  ("archive_read_disk_descend", 195932357%N, 6%N);
  ("archive_read_disk_open", 195932357%N, 33%N);
  ("archive_read_disk_open_w", 195932357%N, 33%N);
  ("archive_read_disk_current_filesystem", 195932357%N, 4%N);
  ("archive_read_disk_current_filesystem_is_synthetic", 195932357%N, 4%N);
  ("archive_read_disk_current_filesystem_is_remote", 195932357%N, 4%N);
  ("archive_read_disk_gname", 195932357%N, 32767%N);
  ("archive_read_disk_uname", 195932357%N, 32767%N);
  ("archive_read_disk_set_gname_lookup", 195932357%N, 32767%N);
  ("archive_read_disk_set_uname_lookup", 195932357%N, 32767%N);
  ("_archive_read_free", 195932357%N, 65535%N);
  ("_archive_read_close", 195932357%N, 65535%N);
  ("archive_read_disk_set_symlink_logical", 195932357%N, 32767%N);
  ("archive_read_disk_set_symlink_physical", 195932357%N, 32767%N);
  ("archive_read_disk_set_symlink_hybrid", 195932357%N, 32767%N);
  ("archive_read_disk_set_atime_restored", 195932357%N, 32767%N);
  ("archive_read_disk_set_behavior", 195932357%N, 32767%N);
  ("_archive_read_data_block", 195932357%N, 4%N);
  ("_archive_read_next_header2", 195932357%N, 6%N);
  ("archive_read_disk_set_matching", 195932357%N, 32767%N);
  ("archive_read_disk_set_metadata_filter_callback", 195932357%N, 32767%N);
  ("archive_read_disk_can_descend", 195932357%N, 6%N);
  ("archive_read_disk_descend", 195932357%N, 6%N);
  ("archive_read_disk_open", 195932357%N, 33%N);
  ("archive_read_disk_open_w", 195932357%N, 33%N);
  ("archive_read_disk_current_filesystem", 195932357%N, 4%N);
  ("archive_read_disk_current_filesystem_is_synthetic", 195932357%N, 4%N);
  ("archive_read_disk_current_filesystem_is_remote", 195932357%N, 4%N);
  ("archive_read_support_filter_all", 14594245%N, 1%N);
  ("archive_read_support_filter_by_code", 14594245%N, 1%N);
  ("archive_read_support_filter_none", 14594245%N, 1%N);
  ("archive_read_support_format_7zip", 14594245%N, 1%N);
  ("archive_read_support_format_all", 14594245%N, 1%N);
  ("archive_read_support_format_ar", 14594245%N, 1%N);
  ("archive_read_support_format_by_code", 14594245%N, 1%N);
  ("archive_read_support_format_cab", 14594245%N, 1%N);
  ("archive_read_support_format_cpio", 14594245%N, 1%N);
  ("archive_read_support_format_empty", 14594245%N, 1%N);
  ("archive_read_support_format_iso9660", 14594245%N, 1%N);
  ("archive_read_support_format_lha", 14594245%N, 1%N);
  ("archive_read_support_format_mtree", 14594245%N, 1%N);
  ("archive_read_support_format_rar", 14594245%N, 1%N);
  ("get_archive_read", 14594245%N, 1%N);
  ("archive_read_support_format_raw", 14594245%N, 1%N);
  ("archive_read_support_format_gnutar", 14594245%N, 1%N);
  ("archive_read_support_format_tar", 14594245%N, 1%N);
  ("archive_read_support_format_warc", 14594245%N, 1%N);
  ("archive_read_support_format_xar", 14594245%N, 1%N);
  ("archive_read_support_format_xar", 14594245%N, 1%N);
  ("archive_read_support_format_zip_streamable", 14594245%N, 1%N);
  ("archive_read_support_format_zip_seekable", 14594245%N, 1%N);
  ("archive_write_set_bytes_per_block", 2965749982%N, 1%N);
  ("archive_write_get_bytes_per_block", 2965749982%N, 32767%N);
  ("archive_write_set_bytes_in_last_block", 2965749982%N, 32767%N);
  ("archive_write_get_bytes_in_last_block", 2965749982%N, 32767%N);
  ("archive_write_set_skip_file", 2965749982%N, 32767%N);
  ("archive_write_open2", 2965749982%N, 1%N);
  ("_archive_write_close", 2965749982%N, 65535%N);
  ("_archive_write_free", 2965749982%N, 65535%N);
  ("_archive_write_header", 2965749982%N, 6%N);
  ("_archive_write_finish_entry", 2965749982%N, 6%N);
  ("_archive_write_data", 2965749982%N, 4%N);
  ("archive_write_add_filter_b64encode", 2965749982%N, 1%N);
  ("archive_write_add_filter_bzip2", 2965749982%N, 1%N);
  ("archive_write_add_filter_compress", 2965749982%N, 1%N);
  ("archive_write_add_filter_grzip", 2965749982%N, 1%N);
  ("archive_write_add_filter_gzip", 2965749982%N, 1%N);
  ("archive_write_add_filter_lrzip", 2965749982%N, 1%N);
  ("archive_write_add_filter_lz4", 2965749982%N, 1%N);
  ("archive_write_add_filter_lzop", 2965749982%N, 1%N);
  ("archive_write_add_filter_program", 2965749982%N, 1%N);
  ("archive_write_add_filter_uuencode", 2965749982%N, 1%N);
  ("archive_write_add_filter_xz", 2965749982%N, 1%N);
  ("archive_write_add_filter_lzma", 2965749982%N, 1%N);
  ("archive_write_add_filter_lzip", 2965749982%N, 1%N);
  ("archive_write_add_filter_zstd", 2965749982%N, 1%N);
  ("archive_write_disk_set_options", 3221336261%N, 32767%N);
  ("_archive_write_disk_header", 3221336261%N, 6%N);
  ("archive_write_disk_set_skip_file", 3221336261%N, 32767%N);
  ("_archive_write_disk_data_block", 3221336261%N, 4%N);
  ("_archive_write_disk_data", 3221336261%N, 4%N);
  ("_archive_write_disk_finish_entry", 3221336261%N, 6%N);
  ("archive_write_disk_set_group_lookup", 3221336261%N, 32767%N);
  ("archive_write_disk_set_user_lookup", 3221336261%N, 32767%N);
  ("archive_write_disk_gid", 3221336261%N, 32767%N);
  ("archive_write_disk_uid", 3221336261%N, 32767%N);
  ("_archive_write_disk_close", 3221336261%N, 6%N);
  ("_archive_write_disk_free", 3221336261%N, 65535%N);
  ("_archive_write_disk_header", 3221336261%N, 6%N);
  ("archive_write_disk_set_skip_file", 3221336261%N, 32767%N);
  ("_archive_write_disk_data_block", 3221336261%N, 4%N);
  ("_archive_write_disk_data", 3221336261%N, 4%N);
  ("_archive_write_disk_finish_entry", 3221336261%N, 6%N);
  ("archive_write_disk_set_group_lookup", 3221336261%N, 32767%N);
  ("archive_write_disk_set_user_lookup", 3221336261%N, 32767%N);
  ("archive_write_disk_gid", 3221336261%N, 32767%N);
  ("archive_write_disk_uid", 3221336261%N, 32767%N);
  ("_archive_write_disk_close", 3221336261%N, 6%N);
  ("_archive_write_disk_free", 3221336261%N, 65535%N);
  ("archive_write_open_memory", 2965749982%N, 1%N);
  ("archive_write_set_format_7zip", 2965749982%N, 1%N);
  ("archive_write_set_format_ar_bsd", 2965749982%N, 1%N);
  ("archive_write_set_format_ar_svr4", 2965749982%N, 1%N);
  ("archive_write_set_format_cpio_binary", 2965749982%N, 1%N);
  ("archive_write_set_format_cpio_newc", 2965749982%N, 1%N);
  ("archive_write_set_format_cpio_odc", 2965749982%N, 1%N);
  ("archive_write_set_format_iso9660", 2965749982%N, 1%N);
  ("archive_write_set_format_mtree_default", 2965749982%N, 1%N);
  ("archive_write_set_format_pax_restricted", 2965749982%N, 1%N);
  ("archive_write_set_format_pax", 2965749982%N, 1%N);
  ("archive_write_set_format_raw", 2965749982%N, 1%N);
  ("archive_write_set_format_shar", 2965749982%N, 1%N);
  ("archive_write_set_format_ustar", 2965749982%N, 1%N);
  ("archive_write_set_format_v7tar", 2965749982%N, 1%N);
  ("archive_write_set_format_warc", 2965749982%N, 1%N);
  ("archive_write_set_format_xar", 2965749982%N, 1%N);
  ("archive_write_zip_set_compression_deflate", 2965749982%N, 7%N);
  ("archive_write_zip_set_compression_bzip2", 2965749982%N, 7%N);
  ("archive_write_zip_set_compression_zstd", 2965749982%N, 7%N);
  ("archive_write_zip_set_compression_lzma", 2965749982%N, 7%N);
  ("archive_write_zip_set_compression_xz", 2965749982%N, 7%N);
  ("archive_write_zip_set_compression_store", 2965749982%N, 7%N);
  ("archive_write_set_format_zip", 2965749982%N, 1%N);
  ("archive_write_set_passphrase", 2965749982%N, 1%N);
  ("archive_write_set_passphrase_callback", 2965749982%N, 1%N)
].

(* the same sites with the name literal they report in error messages *)
Definition magic_literals : list (string * string) := [
  ("archive_match_free", "archive_match_free");
  ("archive_match_excluded", "archive_match_excluded_ae");
  ("archive_match_exclude_pattern", "archive_match_exclude_pattern");
  ("archive_match_exclude_pattern_w", "archive_match_exclude_pattern_w");
  ("archive_match_exclude_pattern_from_file", "archive_match_exclude_pattern_from_file");
  ("archive_match_exclude_pattern_from_file_w", "archive_match_exclude_pattern_from_file_w");
  ("archive_match_include_pattern", "archive_match_include_pattern");
  ("archive_match_include_pattern_w", "archive_match_include_pattern_w");
  ("archive_match_include_pattern_from_file", "archive_match_include_pattern_from_file");
  ("archive_match_include_pattern_from_file_w", "archive_match_include_pattern_from_file_w");
  ("archive_match_path_excluded", "archive_match_path_excluded");
  ("archive_match_set_inclusion_recursion", "archive_match_set_inclusion_recursion");
  ("archive_match_path_unmatched_inclusions", "archive_match_unmatched_inclusions");
  ("archive_match_path_unmatched_inclusions_next", "archive_match_unmatched_inclusions_next");
  ("archive_match_path_unmatched_inclusions_next_w", "archive_match_unmatched_inclusions_next_w");
  ("archive_match_exclude_entry", "archive_match_time_include_entry");
  ("archive_match_time_excluded", "archive_match_time_excluded_ae");
  ("validate_time_flag", "<_fn>");
  ("archive_match_include_uid", "archive_match_include_uid");
  ("archive_match_include_gid", "archive_match_include_gid");
  ("archive_match_include_uname", "archive_match_include_uname");
  ("archive_match_include_uname_w", "archive_match_include_uname_w");
  ("archive_match_include_gname", "archive_match_include_gname");
  ("archive_match_include_gname_w", "archive_match_include_gname_w");
  ("archive_match_owner_excluded", "archive_match_id_excluded_ae");
  ("_archive_set_option", "<fn>");
  ("_archive_set_option", "<fn>");
  ("_archive_set_options", "<fn>");
  ("_archive_set_options", "<fn>");
  ("archive_read_extract_set_skip_file", "archive_read_extract_set_skip_file");
  ("archive_read_set_open_callback", "archive_read_set_open_callback");
  ("archive_read_set_read_callback", "archive_read_set_read_callback");
  ("archive_read_set_skip_callback", "archive_read_set_skip_callback");
  ("archive_read_set_seek_callback", "archive_read_set_seek_callback");
  ("archive_read_set_close_callback", "archive_read_set_close_callback");
  ("archive_read_set_switch_callback", "archive_read_set_switch_callback");
  ("archive_read_set_callback_data2", "archive_read_set_callback_data2");
  ("archive_read_add_callback_data", "archive_read_add_callback_data");
  ("archive_read_open1", "archive_read_open");
  ("_archive_read_next_header2", "archive_read_next_header");
  ("archive_read_header_position", "archive_read_header_position");
  ("archive_read_data_skip", "archive_read_data_skip");
  ("archive_seek_data", "archive_seek_data_block");
  ("_archive_read_data_block", "archive_read_data_block");
  ("_archive_read_close", "archive_read_close");
  ("_archive_read_free", "archive_read_free");
  ("__archive_read_register_format", "__archive_read_register_format");
  ("__archive_read_register_bidder", "__archive_read_register_bidder");
  ("archive_read_add_passphrase", "archive_read_add_passphrase");
  ("archive_read_set_passphrase_callback", "archive_read_set_passphrase_callback");
  ("archive_read_data_into_fd", "archive_read_data_into_fd");
  ("archive_read_disk_entry_from_file", "archive_read_disk_entry_from_file");
  ("archive_read_disk_gname", "archive_read_disk_gname");
  ("archive_read_disk_uname", "archive_read_disk_uname");
  ("archive_read_disk_set_gname_lookup", "archive_read_disk_set_gname_lookup");
  ("archive_read_disk_set_uname_lookup", "archive_read_disk_set_uname_lookup");
  ("_archive_read_free", "archive_read_free");
  ("_archive_read_close", "archive_read_close");
  ("archive_read_disk_set_symlink_logical", "archive_read_disk_set_symlink_logical");
  ("archive_read_disk_set_symlink_physical", "archive_read_disk_set_symlink_physical");
  ("archive_read_disk_set_symlink_hybrid", "archive_read_disk_set_symlink_hybrid");
  ("archive_read_disk_set_atime_restored", "archive_read_disk_restore_atime");
  ("archive_read_disk_set_behavior", "archive_read_disk_honor_nodump");
  ("_archive_read_data_block", "archive_read_data_block");
  ("_archive_read_next_header2", "archive_read_next_header2");
  ("archive_read_disk_set_matching", "archive_read_disk_set_matching");
  ("archive_read_disk_set_metadata_filter_callback", "archive_read_disk_set_metadata_filter_callback");
  ("archive_read_disk_can_descend", "archive_read_disk_can_descend");
  ("archive_read_disk_descend", "archive_read_disk_descend");
  ("archive_read_disk_open", "archive_read_disk_open");
  ("archive_read_disk_open_w", "archive_read_disk_open_w");
  ("archive_read_disk_current_filesystem", "archive_read_disk_current_filesystem");
  ("archive_read_disk_current_filesystem_is_synthetic", "archive_read_disk_current_filesystem");
  ("archive_read_disk_current_filesystem_is_remote", "archive_read_disk_current_filesystem");
  ("archive_read_disk_gname", "archive_read_disk_gname");
  ("archive_read_disk_uname", "archive_read_disk_uname");
  ("archive_read_disk_set_gname_lookup", "archive_read_disk_set_gname_lookup");
  ("archive_read_disk_set_uname_lookup", "archive_read_disk_set_uname_lookup");
  ("_archive_read_free", "archive_read_free");
  ("_archive_read_close", "archive_read_close");
  ("archive_read_disk_set_symlink_logical", "archive_read_disk_set_symlink_logical");
  ("archive_read_disk_set_symlink_physical", "archive_read_disk_set_symlink_physical");
  ("archive_read_disk_set_symlink_hybrid", "archive_read_disk_set_symlink_hybrid");
  ("archive_read_disk_set_atime_restored", "archive_read_disk_restore_atime");
  ("archive_read_disk_set_behavior", "archive_read_disk_honor_nodump");
  ("_archive_read_data_block", "archive_read_data_block");
  ("_archive_read_next_header2", "archive_read_next_header2");
  ("archive_read_disk_set_matching", "archive_read_disk_set_matching");
  ("archive_read_disk_set_metadata_filter_callback", "archive_read_disk_set_metadata_filter_callback");
  ("archive_read_disk_can_descend", "archive_read_disk_can_descend");
  ("archive_read_disk_descend", "archive_read_disk_descend");
  ("archive_read_disk_open", "archive_read_disk_open");
  ("archive_read_disk_open_w", "archive_read_disk_open_w");
  ("archive_read_disk_current_filesystem", "archive_read_disk_current_filesystem");
  ("archive_read_disk_current_filesystem_is_synthetic", "archive_read_disk_current_filesystem");
  ("archive_read_disk_current_filesystem_is_remote", "archive_read_disk_current_filesystem");
  ("archive_read_support_filter_all", "archive_read_support_filter_all");
  ("archive_read_support_filter_by_code", "archive_read_support_filter_by_code");
  ("archive_read_support_filter_none", "archive_read_support_filter_none");
  ("archive_read_support_format_7zip", "archive_read_support_format_7zip");
  ("archive_read_support_format_all", "archive_read_support_format_all");
  ("archive_read_support_format_ar", "archive_read_support_format_ar");
  ("archive_read_support_format_by_code", "archive_read_support_format_by_code");
  ("archive_read_support_format_cab", "archive_read_support_format_cab");
  ("archive_read_support_format_cpio", "archive_read_support_format_cpio");
  ("archive_read_support_format_empty", "archive_read_support_format_empty");
  ("archive_read_support_format_iso9660", "archive_read_support_format_iso9660");
  ("archive_read_support_format_lha", "archive_read_support_format_lha");
  ("archive_read_support_format_mtree", "archive_read_support_format_mtree");
  ("archive_read_support_format_rar", "archive_read_support_format_rar");
  ("get_archive_read", "archive_read_support_format_rar5");
  ("archive_read_support_format_raw", "archive_read_support_format_raw");
  ("archive_read_support_format_gnutar", "archive_read_support_format_gnutar");
  ("archive_read_support_format_tar", "archive_read_support_format_tar");
  ("archive_read_support_format_warc", "archive_read_support_format_warc");
  ("archive_read_support_format_xar", "archive_read_support_format_xar");
  ("archive_read_support_format_xar", "archive_read_support_format_xar");
  ("archive_read_support_format_zip_streamable", "archive_read_support_format_zip");
  ("archive_read_support_format_zip_seekable", "archive_read_support_format_zip_seekable");
  ("archive_write_set_bytes_per_block", "archive_write_set_bytes_per_block");
  ("archive_write_get_bytes_per_block", "archive_write_get_bytes_per_block");
  ("archive_write_set_bytes_in_last_block", "archive_write_set_bytes_in_last_block");
  ("archive_write_get_bytes_in_last_block", "archive_write_get_bytes_in_last_block");
  ("archive_write_set_skip_file", "archive_write_set_skip_file");
  ("archive_write_open2", "archive_write_open");
  ("_archive_write_close", "archive_write_close");
  ("_archive_write_free", "archive_write_free");
  ("_archive_write_header", "archive_write_header");
  ("_archive_write_finish_entry", "archive_write_finish_entry");
  ("_archive_write_data", "archive_write_data");
  ("archive_write_add_filter_b64encode", "archive_write_add_filter_b64encode");
  ("archive_write_add_filter_bzip2", "archive_write_add_filter_bzip2");
  ("archive_write_add_filter_compress", "archive_write_add_filter_compress");
  ("archive_write_add_filter_grzip", "archive_write_add_filter_grzip");
  ("archive_write_add_filter_gzip", "archive_write_add_filter_gzip");
  ("archive_write_add_filter_lrzip", "archive_write_add_filter_lrzip");
  ("archive_write_add_filter_lz4", "archive_write_add_filter_lz4");
  ("archive_write_add_filter_lzop", "archive_write_add_filter_lzop");
  ("archive_write_add_filter_program", "archive_write_add_filter_program");
  ("archive_write_add_filter_uuencode", "archive_write_add_filter_uu");
  ("archive_write_add_filter_xz", "archive_write_add_filter_xz");
  ("archive_write_add_filter_lzma", "archive_write_add_filter_lzma");
  ("archive_write_add_filter_lzip", "archive_write_add_filter_lzip");
  ("archive_write_add_filter_zstd", "archive_write_add_filter_zstd");
  ("archive_write_disk_set_options", "archive_write_disk_set_options");
  ("_archive_write_disk_header", "archive_write_disk_header");
  ("archive_write_disk_set_skip_file", "archive_write_disk_set_skip_file");
  ("_archive_write_disk_data_block", "archive_write_data_block");
  ("_archive_write_disk_data", "archive_write_data");
  ("_archive_write_disk_finish_entry", "archive_write_finish_entry");
  ("archive_write_disk_set_group_lookup", "archive_write_disk_set_group_lookup");
  ("archive_write_disk_set_user_lookup", "archive_write_disk_set_user_lookup");
  ("archive_write_disk_gid", "archive_write_disk_gid");
  ("archive_write_disk_uid", "archive_write_disk_uid");
  ("_archive_write_disk_close", "archive_write_disk_close");
  ("_archive_write_disk_free", "archive_write_disk_free");
  ("_archive_write_disk_header", "archive_write_disk_header");
  ("archive_write_disk_set_skip_file", "archive_write_disk_set_skip_file");
  ("_archive_write_disk_data_block", "archive_write_data_block");
  ("_archive_write_disk_data", "archive_write_data");
  ("_archive_write_disk_finish_entry", "archive_write_finish_entry");
  ("archive_write_disk_set_group_lookup", "archive_write_disk_set_group_lookup");
  ("archive_write_disk_set_user_lookup", "archive_write_disk_set_user_lookup");
  ("archive_write_disk_gid", "archive_write_disk_gid");
  ("archive_write_disk_uid", "archive_write_disk_uid");
  ("_archive_write_disk_close", "archive_write_disk_close");
  ("_archive_write_disk_free", "archive_write_disk_free");
  ("archive_write_open_memory", "archive_write_open_memory");
  ("archive_write_set_format_7zip", "archive_write_set_format_7zip");
  ("archive_write_set_format_ar_bsd", "archive_write_set_format_ar_bsd");
  ("archive_write_set_format_ar_svr4", "archive_write_set_format_ar_svr4");
  ("archive_write_set_format_cpio_binary", "archive_write_set_format_cpio_binary");
  ("archive_write_set_format_cpio_newc", "archive_write_set_format_cpio_newc");
  ("archive_write_set_format_cpio_odc", "archive_write_set_format_cpio_odc");
  ("archive_write_set_format_iso9660", "archive_write_set_format_iso9660");
  ("archive_write_set_format_mtree_default", "<fn>");
  ("archive_write_set_format_pax_restricted", "archive_write_set_format_pax_restricted");
  ("archive_write_set_format_pax", "archive_write_set_format_pax");
  ("archive_write_set_format_raw", "archive_write_set_format_raw");
  ("archive_write_set_format_shar", "archive_write_set_format_shar");
  ("archive_write_set_format_ustar", "archive_write_set_format_ustar");
  ("archive_write_set_format_v7tar", "archive_write_set_format_v7tar");
  ("archive_write_set_format_warc", "archive_write_set_format_warc");
  ("archive_write_set_format_xar", "archive_write_set_format_xar");
  ("archive_write_zip_set_compression_deflate", "archive_write_zip_set_compression_deflate");
  ("archive_write_zip_set_compression_bzip2", "archive_write_zip_set_compression_bzip2");
  ("archive_write_zip_set_compression_zstd", "archive_write_zip_set_compression_zstd");
  ("archive_write_zip_set_compression_lzma", "archive_write_zip_set_compression_lzma");
  ("archive_write_zip_set_compression_xz", "archive_write_zip_set_compression_xz");
  ("archive_write_zip_set_compression_store", "archive_write_zip_set_compression_store");
  ("archive_write_set_format_zip", "archive_write_set_format_zip");
  ("archive_write_set_passphrase", "archive_write_set_passphrase");
  ("archive_write_set_passphrase_callback", "archive_write_set_passphrase_callback")
].

Definition magic_site_count : N := 193%N.
