(* GENERATED on every run by translators/gen_codec.py from the current /repo working tree - do not edit.
   Sources: libarchive/archive_write_add_filter_b64encode.c, libarchive/archive_write_add_filter_uuencode.c, libarchive/archive_read_support_filter_uu.c *)

From Coq Require Import List ZArith NArith.
Import ListNotations.

Definition b64_LBYTES : nat := 57%nat.
Definition uu_LBYTES : nat := 45%nat.
Definition b64_alphabet : list N :=
  [65; 66; 67; 68; 69; 70; 71; 72; 73; 74; 75; 76; 77; 78; 79; 80;
   81; 82; 83; 84; 85; 86; 87; 88; 89; 90; 97; 98; 99; 100; 101; 102;
   103; 104; 105; 106; 107; 108; 109; 110; 111; 112; 113; 114; 115; 116; 117; 118;
   119; 120; 121; 122; 48; 49; 50; 51; 52; 53; 54; 55; 56; 57; 43; 47]%N.
Definition b64_header_prefix : list N :=
  [98; 101; 103; 105; 110; 45; 98; 97; 115; 101; 54; 52; 32]%N.
Definition uu_header_prefix : list N :=
  [98; 101; 103; 105; 110; 32]%N.
Definition b64_mode_fixed3 : bool := false.
Definition uu_mode_fixed3 : bool := false.
Definition b64_name_printable_only : bool := false.
Definition uu_name_printable_only : bool := false.
Definition rd_uu_bid_empty_fix : bool := false.
Definition rd_b64_bid_empty_fix : bool := false.
Definition b64_trailer : list N :=
  [61; 61; 61; 61; 10]%N.
Definition uu_trailer : list N :=
  [96; 10; 101; 110; 100; 10]%N.
Definition b64_default_mode : N := 420%N.
Definition b64_default_name : list N :=
  [45]%N.
Definition b64_default_bs : N := 65536%N.
Definition b64_mode_mask : N := 511%N.
Definition uu_default_mode : N := 420%N.
Definition uu_default_name : list N :=
  [45]%N.
Definition uu_default_bs : N := 65536%N.
Definition uu_mode_mask : N := 511%N.
Definition UUENCODE_BID_MAX_READ : N := 131072%N.
Definition UUENCODE_MAX_LINE_LENGTH : N := 34816%N.
Definition UU_OUT_BUFF_SIZE : N := 65536%N.
Definition rd_ascii : list N :=
  [0; 0; 0; 0; 0; 0; 0; 0; 0; 0; 10; 0; 0; 13; 0; 0;
   0; 0; 0; 0; 0; 0; 0; 0; 0; 0; 0; 0; 0; 0; 0; 0;
   1; 1; 1; 1; 1; 1; 1; 1; 1; 1; 1; 1; 1; 1; 1; 1;
   1; 1; 1; 1; 1; 1; 1; 1; 1; 1; 1; 1; 1; 1; 1; 1;
   1; 1; 1; 1; 1; 1; 1; 1; 1; 1; 1; 1; 1; 1; 1; 1;
   1; 1; 1; 1; 1; 1; 1; 1; 1; 1; 1; 1; 1; 1; 1; 1;
   1; 1; 1; 1; 1; 1; 1; 1; 1; 1; 1; 1; 1; 1; 1; 1;
   1; 1; 1; 1; 1; 1; 1; 1; 1; 1; 1; 1; 1; 1; 1; 0;
   0; 0; 0; 0; 0; 0; 0; 0; 0; 0; 0; 0; 0; 0; 0; 0;
   0; 0; 0; 0; 0; 0; 0; 0; 0; 0; 0; 0; 0; 0; 0; 0;
   0; 0; 0; 0; 0; 0; 0; 0; 0; 0; 0; 0; 0; 0; 0; 0;
   0; 0; 0; 0; 0; 0; 0; 0; 0; 0; 0; 0; 0; 0; 0; 0;
   0; 0; 0; 0; 0; 0; 0; 0; 0; 0; 0; 0; 0; 0; 0; 0;
   0; 0; 0; 0; 0; 0; 0; 0; 0; 0; 0; 0; 0; 0; 0; 0;
   0; 0; 0; 0; 0; 0; 0; 0; 0; 0; 0; 0; 0; 0; 0; 0;
   0; 0; 0; 0; 0; 0; 0; 0; 0; 0; 0; 0; 0; 0; 0; 0]%N.
Definition rd_uuchar : list N :=
  [0; 0; 0; 0; 0; 0; 0; 0; 0; 0; 0; 0; 0; 0; 0; 0;
   0; 0; 0; 0; 0; 0; 0; 0; 0; 0; 0; 0; 0; 0; 0; 0;
   1; 1; 1; 1; 1; 1; 1; 1; 1; 1; 1; 1; 1; 1; 1; 1;
   1; 1; 1; 1; 1; 1; 1; 1; 1; 1; 1; 1; 1; 1; 1; 1;
   1; 1; 1; 1; 1; 1; 1; 1; 1; 1; 1; 1; 1; 1; 1; 1;
   1; 1; 1; 1; 1; 1; 1; 1; 1; 1; 1; 1; 1; 1; 1; 1;
   1; 0; 0; 0; 0; 0; 0; 0; 0; 0; 0; 0; 0; 0; 0; 0;
   0; 0; 0; 0; 0; 0; 0; 0; 0; 0; 0; 0; 0; 0; 0; 0;
   0; 0; 0; 0; 0; 0; 0; 0; 0; 0; 0; 0; 0; 0; 0; 0;
   0; 0; 0; 0; 0; 0; 0; 0; 0; 0; 0; 0; 0; 0; 0; 0;
   0; 0; 0; 0; 0; 0; 0; 0; 0; 0; 0; 0; 0; 0; 0; 0;
   0; 0; 0; 0; 0; 0; 0; 0; 0; 0; 0; 0; 0; 0; 0; 0;
   0; 0; 0; 0; 0; 0; 0; 0; 0; 0; 0; 0; 0; 0; 0; 0;
   0; 0; 0; 0; 0; 0; 0; 0; 0; 0; 0; 0; 0; 0; 0; 0;
   0; 0; 0; 0; 0; 0; 0; 0; 0; 0; 0; 0; 0; 0; 0; 0;
   0; 0; 0; 0; 0; 0; 0; 0; 0; 0; 0; 0; 0; 0; 0; 0]%N.
Definition rd_base64 : list N :=
  [0; 0; 0; 0; 0; 0; 0; 0; 0; 0; 0; 0; 0; 0; 0; 0;
   0; 0; 0; 0; 0; 0; 0; 0; 0; 0; 0; 0; 0; 0; 0; 0;
   0; 0; 0; 0; 0; 0; 0; 0; 0; 0; 0; 1; 0; 0; 0; 1;
   1; 1; 1; 1; 1; 1; 1; 1; 1; 1; 0; 0; 0; 1; 0; 0;
   0; 1; 1; 1; 1; 1; 1; 1; 1; 1; 1; 1; 1; 1; 1; 1;
   1; 1; 1; 1; 1; 1; 1; 1; 1; 1; 1; 0; 0; 0; 0; 0;
   0; 1; 1; 1; 1; 1; 1; 1; 1; 1; 1; 1; 1; 1; 1; 1;
   1; 1; 1; 1; 1; 1; 1; 1; 1; 1; 1; 0; 0; 0; 0; 0;
   0; 0; 0; 0; 0; 0; 0; 0; 0; 0; 0; 0; 0; 0; 0; 0;
   0; 0; 0; 0; 0; 0; 0; 0; 0; 0; 0; 0; 0; 0; 0; 0;
   0; 0; 0; 0; 0; 0; 0; 0; 0; 0; 0; 0; 0; 0; 0; 0;
   0; 0; 0; 0; 0; 0; 0; 0; 0; 0; 0; 0; 0; 0; 0; 0;
   0; 0; 0; 0; 0; 0; 0; 0; 0; 0; 0; 0; 0; 0; 0; 0;
   0; 0; 0; 0; 0; 0; 0; 0; 0; 0; 0; 0; 0; 0; 0; 0;
   0; 0; 0; 0; 0; 0; 0; 0; 0; 0; 0; 0; 0; 0; 0; 0;
   0; 0; 0; 0; 0; 0; 0; 0; 0; 0; 0; 0; 0; 0; 0; 0]%N.
Definition rd_base64num : list N :=
  [0; 0; 0; 0; 0; 0; 0; 0; 0; 0; 0; 0; 0; 0; 0; 0;
   0; 0; 0; 0; 0; 0; 0; 0; 0; 0; 0; 0; 0; 0; 0; 0;
   0; 0; 0; 0; 0; 0; 0; 0; 0; 0; 0; 62; 0; 0; 0; 63;
   52; 53; 54; 55; 56; 57; 58; 59; 60; 61; 0; 0; 0; 0; 0; 0;
   0; 0; 1; 2; 3; 4; 5; 6; 7; 8; 9; 10; 11; 12; 13; 14;
   15; 16; 17; 18; 19; 20; 21; 22; 23; 24; 25; 0; 0; 0; 0; 0;
   0; 26; 27; 28; 29; 30; 31; 32; 33; 34; 35; 36; 37; 38; 39; 40;
   41; 42; 43; 44; 45; 46; 47; 48; 49; 50; 51; 0; 0; 0; 0; 0]%N.
Definition ARCHIVE_FILTER_NONE : N := 0%N.
Definition ARCHIVE_FILTER_UU : N := 7%N.
