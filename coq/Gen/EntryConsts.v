(* GENERATED on every run by translators/gen_entry.py from the current /repo working tree - do not edit.
   Sources: libarchive/archive_entry_private.h, libarchive/archive_entry.h, libarchive/archive_entry.c *)

From Coq Require Import ZArith List.
Import ListNotations.
Local Open Scope Z_scope.

Definition AE_SET_HARDLINK : Z := 1.
Definition AE_SET_SYMLINK : Z := 2.
Definition AE_SET_ATIME : Z := 4.
Definition AE_SET_CTIME : Z := 8.
Definition AE_SET_MTIME : Z := 16.
Definition AE_SET_BIRTHTIME : Z := 32.
Definition AE_SET_SIZE : Z := 64.
Definition AE_SET_INO : Z := 128.
Definition AE_SET_DEV : Z := 256.
Definition AE_SET_PERM : Z := 512.
Definition AE_SET_FILETYPE : Z := 1024.
Definition AE_SET_UID : Z := 2048.
Definition AE_SET_GID : Z := 4096.
Definition AE_SET_RDEV : Z := 8192.
Definition AE_SET_ALL : list Z := [AE_SET_HARDLINK; AE_SET_SYMLINK; AE_SET_ATIME; AE_SET_CTIME; AE_SET_MTIME; AE_SET_BIRTHTIME; AE_SET_SIZE; AE_SET_INO; AE_SET_DEV; AE_SET_PERM; AE_SET_FILETYPE; AE_SET_UID; AE_SET_GID; AE_SET_RDEV].
Definition AE_SET_UNKNOWN_COUNT : Z := 0.
Definition AE_IFMT : Z := 61440.
Definition AE_SYMLINK_TYPE_UNDEFINED : Z := 0.
Definition ARCHIVE_ENTRY_ACL_TYPE_ACCESS : Z := 256.
Definition ARCHIVE_ENTRY_ACL_USER_OBJ : Z := 10002.
Definition ARCHIVE_ENTRY_ACL_GROUP_OBJ : Z := 10004.
Definition ARCHIVE_ENTRY_ACL_OTHER : Z := 10006.
Definition FIX_NS_DIV : Z := 1000000000.
