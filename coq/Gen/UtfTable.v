(* GENERATED on every run by translators/gen_utf.py from the current /repo working tree - do not edit.
   Sources: libarchive/archive_string.c *)

From Coq Require Import List ZArith NArith.
Import ListNotations.
Local Open Scope N_scope.

(* static const char utf8_count[256] of _utf8_to_unicode *)
Definition utf8_count_table : list N :=
  [1; 1; 1; 1; 1; 1; 1; 1; 1; 1; 1; 1; 1; 1; 1; 1;
   1; 1; 1; 1; 1; 1; 1; 1; 1; 1; 1; 1; 1; 1; 1; 1;
   1; 1; 1; 1; 1; 1; 1; 1; 1; 1; 1; 1; 1; 1; 1; 1;
   1; 1; 1; 1; 1; 1; 1; 1; 1; 1; 1; 1; 1; 1; 1; 1;
   1; 1; 1; 1; 1; 1; 1; 1; 1; 1; 1; 1; 1; 1; 1; 1;
   1; 1; 1; 1; 1; 1; 1; 1; 1; 1; 1; 1; 1; 1; 1; 1;
   1; 1; 1; 1; 1; 1; 1; 1; 1; 1; 1; 1; 1; 1; 1; 1;
   1; 1; 1; 1; 1; 1; 1; 1; 1; 1; 1; 1; 1; 1; 1; 1;
   0; 0; 0; 0; 0; 0; 0; 0; 0; 0; 0; 0; 0; 0; 0; 0;
   0; 0; 0; 0; 0; 0; 0; 0; 0; 0; 0; 0; 0; 0; 0; 0;
   0; 0; 0; 0; 0; 0; 0; 0; 0; 0; 0; 0; 0; 0; 0; 0;
   0; 0; 0; 0; 0; 0; 0; 0; 0; 0; 0; 0; 0; 0; 0; 0;
   0; 0; 2; 2; 2; 2; 2; 2; 2; 2; 2; 2; 2; 2; 2; 2;
   2; 2; 2; 2; 2; 2; 2; 2; 2; 2; 2; 2; 2; 2; 2; 2;
   3; 3; 3; 3; 3; 3; 3; 3; 3; 3; 3; 3; 3; 3; 3; 3;
   4; 4; 4; 4; 4; 0; 0; 0; 0; 0; 0; 0; 0; 0; 0; 0].

Definition UNICODE_MAX : N := 1114111.
Definition UNICODE_R_CHAR : N := 65533.
Definition HIGH_SURROGATE_LO : N := 55296.
Definition HIGH_SURROGATE_HI : N := 56319.
Definition LOW_SURROGATE_LO : N := 56320.
Definition LOW_SURROGATE_HI : N := 57343.
Definition SURROGATE_LO : N := 55296.
Definition SURROGATE_HI : N := 57343.
Definition SCONV_TO_UTF8 : N := 256.
Definition SCONV_FROM_UTF8 : N := 512.
Definition SCONV_TO_UTF16BE : N := 1024.
Definition SCONV_FROM_UTF16BE : N := 2048.
Definition SCONV_TO_UTF16LE : N := 4096.
Definition SCONV_FROM_UTF16LE : N := 8192.
Definition SCONV_NORMALIZATION_C : N := 64.
Definition SCONV_NORMALIZATION_D : N := 128.
