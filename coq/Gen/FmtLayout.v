(* GENERATED on every run by translators/gen_fmt.py from the current /repo working tree - do not edit.
   Sources: libarchive/archive_write_set_format_ustar.c, libarchive/archive_write_set_format_v7tar.c, libarchive/archive_write_set_format_gnutar.c, libarchive/archive_write_set_format_cpio_odc.c, libarchive/archive_write_set_format_cpio_newc.c, libarchive/archive_write_set_format_cpio_binary.c, libarchive/archive_write_set_format_ar.c, libarchive/archive_read_support_format_tar.c, libarchive/archive_read_support_format_cpio.c, libarchive/archive_read_support_format_ar.c *)

From Coq Require Import List ZArith.
Import ListNotations.

Definition USTAR_name_offset : nat := 0.
Definition USTAR_name_size : nat := 100.
Definition USTAR_mode_offset : nat := 100.
Definition USTAR_mode_size : nat := 6.
Definition USTAR_mode_max_size : nat := 8.
Definition USTAR_uid_offset : nat := 108.
Definition USTAR_uid_size : nat := 6.
Definition USTAR_uid_max_size : nat := 8.
Definition USTAR_gid_offset : nat := 116.
Definition USTAR_gid_size : nat := 6.
Definition USTAR_gid_max_size : nat := 8.
Definition USTAR_size_offset : nat := 124.
Definition USTAR_size_size : nat := 11.
Definition USTAR_size_max_size : nat := 12.
Definition USTAR_mtime_offset : nat := 136.
Definition USTAR_mtime_size : nat := 11.
Definition USTAR_mtime_max_size : nat := 12.
Definition USTAR_checksum_offset : nat := 148.
Definition USTAR_checksum_size : nat := 8.
Definition USTAR_typeflag_offset : nat := 156.
Definition USTAR_typeflag_size : nat := 1.
Definition USTAR_linkname_offset : nat := 157.
Definition USTAR_linkname_size : nat := 100.
Definition USTAR_magic_offset : nat := 257.
Definition USTAR_magic_size : nat := 6.
Definition USTAR_version_offset : nat := 263.
Definition USTAR_version_size : nat := 2.
Definition USTAR_uname_offset : nat := 265.
Definition USTAR_uname_size : nat := 32.
Definition USTAR_gname_offset : nat := 297.
Definition USTAR_gname_size : nat := 32.
Definition USTAR_rdevmajor_offset : nat := 329.
Definition USTAR_rdevmajor_size : nat := 6.
Definition USTAR_rdevmajor_max_size : nat := 8.
Definition USTAR_rdevminor_offset : nat := 337.
Definition USTAR_rdevminor_size : nat := 6.
Definition USTAR_rdevminor_max_size : nat := 8.
Definition USTAR_prefix_offset : nat := 345.
Definition USTAR_prefix_size : nat := 155.
Definition USTAR_padding_offset : nat := 500.
Definition USTAR_padding_size : nat := 12.
Definition V7TAR_name_offset : nat := 0.
Definition V7TAR_name_size : nat := 100.
Definition V7TAR_mode_offset : nat := 100.
Definition V7TAR_mode_size : nat := 6.
Definition V7TAR_mode_max_size : nat := 8.
Definition V7TAR_uid_offset : nat := 108.
Definition V7TAR_uid_size : nat := 6.
Definition V7TAR_uid_max_size : nat := 8.
Definition V7TAR_gid_offset : nat := 116.
Definition V7TAR_gid_size : nat := 6.
Definition V7TAR_gid_max_size : nat := 8.
Definition V7TAR_size_offset : nat := 124.
Definition V7TAR_size_size : nat := 11.
Definition V7TAR_size_max_size : nat := 12.
Definition V7TAR_mtime_offset : nat := 136.
Definition V7TAR_mtime_size : nat := 11.
Definition V7TAR_mtime_max_size : nat := 12.
Definition V7TAR_checksum_offset : nat := 148.
Definition V7TAR_checksum_size : nat := 8.
Definition V7TAR_typeflag_offset : nat := 156.
Definition V7TAR_typeflag_size : nat := 1.
Definition V7TAR_linkname_offset : nat := 157.
Definition V7TAR_linkname_size : nat := 100.
Definition V7TAR_padding_offset : nat := 257.
Definition V7TAR_padding_size : nat := 255.
Definition GNUTAR_name_offset : nat := 0.
Definition GNUTAR_name_size : nat := 100.
Definition GNUTAR_mode_offset : nat := 100.
Definition GNUTAR_mode_size : nat := 7.
Definition GNUTAR_mode_max_size : nat := 8.
Definition GNUTAR_uid_offset : nat := 108.
Definition GNUTAR_uid_size : nat := 7.
Definition GNUTAR_uid_max_size : nat := 8.
Definition GNUTAR_gid_offset : nat := 116.
Definition GNUTAR_gid_size : nat := 7.
Definition GNUTAR_gid_max_size : nat := 8.
Definition GNUTAR_size_offset : nat := 124.
Definition GNUTAR_size_size : nat := 11.
Definition GNUTAR_size_max_size : nat := 12.
Definition GNUTAR_mtime_offset : nat := 136.
Definition GNUTAR_mtime_size : nat := 11.
Definition GNUTAR_mtime_max_size : nat := 12.
Definition GNUTAR_checksum_offset : nat := 148.
Definition GNUTAR_checksum_size : nat := 8.
Definition GNUTAR_typeflag_offset : nat := 156.
Definition GNUTAR_typeflag_size : nat := 1.
Definition GNUTAR_linkname_offset : nat := 157.
Definition GNUTAR_linkname_size : nat := 100.
Definition GNUTAR_magic_offset : nat := 257.
Definition GNUTAR_magic_size : nat := 6.
Definition GNUTAR_version_offset : nat := 263.
Definition GNUTAR_version_size : nat := 2.
Definition GNUTAR_uname_offset : nat := 265.
Definition GNUTAR_uname_size : nat := 32.
Definition GNUTAR_gname_offset : nat := 297.
Definition GNUTAR_gname_size : nat := 32.
Definition GNUTAR_rdevmajor_offset : nat := 329.
Definition GNUTAR_rdevmajor_size : nat := 6.
Definition GNUTAR_rdevmajor_max_size : nat := 8.
Definition GNUTAR_rdevminor_offset : nat := 337.
Definition GNUTAR_rdevminor_size : nat := 6.
Definition GNUTAR_rdevminor_max_size : nat := 8.
Definition ODC_c_magic_offset : nat := 0.
Definition ODC_c_magic_size : nat := 6.
Definition ODC_c_dev_offset : nat := 6.
Definition ODC_c_dev_size : nat := 6.
Definition ODC_c_ino_offset : nat := 12.
Definition ODC_c_ino_size : nat := 6.
Definition ODC_c_mode_offset : nat := 18.
Definition ODC_c_mode_size : nat := 6.
Definition ODC_c_uid_offset : nat := 24.
Definition ODC_c_uid_size : nat := 6.
Definition ODC_c_gid_offset : nat := 30.
Definition ODC_c_gid_size : nat := 6.
Definition ODC_c_nlink_offset : nat := 36.
Definition ODC_c_nlink_size : nat := 6.
Definition ODC_c_rdev_offset : nat := 42.
Definition ODC_c_rdev_size : nat := 6.
Definition ODC_c_mtime_offset : nat := 48.
Definition ODC_c_mtime_size : nat := 11.
Definition ODC_c_namesize_offset : nat := 59.
Definition ODC_c_namesize_size : nat := 6.
Definition ODC_c_filesize_offset : nat := 65.
Definition ODC_c_filesize_size : nat := 11.
Definition NEWC_c_magic_offset : nat := 0.
Definition NEWC_c_magic_size : nat := 6.
Definition NEWC_c_ino_offset : nat := 6.
Definition NEWC_c_ino_size : nat := 8.
Definition NEWC_c_mode_offset : nat := 14.
Definition NEWC_c_mode_size : nat := 8.
Definition NEWC_c_uid_offset : nat := 22.
Definition NEWC_c_uid_size : nat := 8.
Definition NEWC_c_gid_offset : nat := 30.
Definition NEWC_c_gid_size : nat := 8.
Definition NEWC_c_nlink_offset : nat := 38.
Definition NEWC_c_nlink_size : nat := 8.
Definition NEWC_c_mtime_offset : nat := 46.
Definition NEWC_c_mtime_size : nat := 8.
Definition NEWC_c_filesize_offset : nat := 54.
Definition NEWC_c_filesize_size : nat := 8.
Definition NEWC_c_devmajor_offset : nat := 62.
Definition NEWC_c_devmajor_size : nat := 8.
Definition NEWC_c_devminor_offset : nat := 70.
Definition NEWC_c_devminor_size : nat := 8.
Definition NEWC_c_rdevmajor_offset : nat := 78.
Definition NEWC_c_rdevmajor_size : nat := 8.
Definition NEWC_c_rdevminor_offset : nat := 86.
Definition NEWC_c_rdevminor_size : nat := 8.
Definition NEWC_c_namesize_offset : nat := 94.
Definition NEWC_c_namesize_size : nat := 8.
Definition NEWC_c_checksum_offset : nat := 102.
Definition NEWC_c_checksum_size : nat := 8.
Definition NEWC_c_header_size : nat := 110.
Definition BINW_h_magic_offset : nat := 0.
Definition BINW_h_magic_size : nat := 2.
Definition BINW_h_dev_offset : nat := 2.
Definition BINW_h_dev_size : nat := 2.
Definition BINW_h_ino_offset : nat := 4.
Definition BINW_h_ino_size : nat := 2.
Definition BINW_h_mode_offset : nat := 6.
Definition BINW_h_mode_size : nat := 2.
Definition BINW_h_uid_offset : nat := 8.
Definition BINW_h_uid_size : nat := 2.
Definition BINW_h_gid_offset : nat := 10.
Definition BINW_h_gid_size : nat := 2.
Definition BINW_h_nlink_offset : nat := 12.
Definition BINW_h_nlink_size : nat := 2.
Definition BINW_h_majmin_offset : nat := 14.
Definition BINW_h_majmin_size : nat := 2.
Definition BINW_h_mtime_offset : nat := 16.
Definition BINW_h_mtime_size : nat := 4.
Definition BINW_h_namesize_offset : nat := 20.
Definition BINW_h_namesize_size : nat := 2.
Definition BINW_h_filesize_offset : nat := 22.
Definition BINW_h_filesize_size : nat := 4.
Definition BINW_struct_size : nat := 26.
Definition BINW_HSIZE : nat := 26.
Definition AR_name_offset : nat := 0.
Definition AR_name_size : nat := 16.
Definition AR_date_offset : nat := 16.
Definition AR_date_size : nat := 12.
Definition AR_uid_offset : nat := 28.
Definition AR_uid_size : nat := 6.
Definition AR_gid_offset : nat := 34.
Definition AR_gid_size : nat := 6.
Definition AR_mode_offset : nat := 40.
Definition AR_mode_size : nat := 8.
Definition AR_size_offset : nat := 48.
Definition AR_size_size : nat := 10.
Definition AR_fmag_offset : nat := 58.
Definition AR_fmag_size : nat := 2.
Definition R_bin_magic_offset : nat := 0.
Definition R_bin_magic_size : nat := 2.
Definition R_bin_dev_offset : nat := 2.
Definition R_bin_dev_size : nat := 2.
Definition R_bin_ino_offset : nat := 4.
Definition R_bin_ino_size : nat := 2.
Definition R_bin_mode_offset : nat := 6.
Definition R_bin_mode_size : nat := 2.
Definition R_bin_uid_offset : nat := 8.
Definition R_bin_uid_size : nat := 2.
Definition R_bin_gid_offset : nat := 10.
Definition R_bin_gid_size : nat := 2.
Definition R_bin_nlink_offset : nat := 12.
Definition R_bin_nlink_size : nat := 2.
Definition R_bin_rdev_offset : nat := 14.
Definition R_bin_rdev_size : nat := 2.
Definition R_bin_mtime_offset : nat := 16.
Definition R_bin_mtime_size : nat := 4.
Definition R_bin_namesize_offset : nat := 20.
Definition R_bin_namesize_size : nat := 2.
Definition R_bin_filesize_offset : nat := 22.
Definition R_bin_filesize_size : nat := 4.
Definition R_bin_header_size : nat := 26.
Definition R_odc_magic_offset : nat := 0.
Definition R_odc_magic_size : nat := 6.
Definition R_odc_dev_offset : nat := 6.
Definition R_odc_dev_size : nat := 6.
Definition R_odc_ino_offset : nat := 12.
Definition R_odc_ino_size : nat := 6.
Definition R_odc_mode_offset : nat := 18.
Definition R_odc_mode_size : nat := 6.
Definition R_odc_uid_offset : nat := 24.
Definition R_odc_uid_size : nat := 6.
Definition R_odc_gid_offset : nat := 30.
Definition R_odc_gid_size : nat := 6.
Definition R_odc_nlink_offset : nat := 36.
Definition R_odc_nlink_size : nat := 6.
Definition R_odc_rdev_offset : nat := 42.
Definition R_odc_rdev_size : nat := 6.
Definition R_odc_mtime_offset : nat := 48.
Definition R_odc_mtime_size : nat := 11.
Definition R_odc_namesize_offset : nat := 59.
Definition R_odc_namesize_size : nat := 6.
Definition R_odc_filesize_offset : nat := 65.
Definition R_odc_filesize_size : nat := 11.
Definition R_odc_header_size : nat := 76.
Definition R_newc_magic_offset : nat := 0.
Definition R_newc_magic_size : nat := 6.
Definition R_newc_ino_offset : nat := 6.
Definition R_newc_ino_size : nat := 8.
Definition R_newc_mode_offset : nat := 14.
Definition R_newc_mode_size : nat := 8.
Definition R_newc_uid_offset : nat := 22.
Definition R_newc_uid_size : nat := 8.
Definition R_newc_gid_offset : nat := 30.
Definition R_newc_gid_size : nat := 8.
Definition R_newc_nlink_offset : nat := 38.
Definition R_newc_nlink_size : nat := 8.
Definition R_newc_mtime_offset : nat := 46.
Definition R_newc_mtime_size : nat := 8.
Definition R_newc_filesize_offset : nat := 54.
Definition R_newc_filesize_size : nat := 8.
Definition R_newc_devmajor_offset : nat := 62.
Definition R_newc_devmajor_size : nat := 8.
Definition R_newc_devminor_offset : nat := 70.
Definition R_newc_devminor_size : nat := 8.
Definition R_newc_rdevmajor_offset : nat := 78.
Definition R_newc_rdevmajor_size : nat := 8.
Definition R_newc_rdevminor_offset : nat := 86.
Definition R_newc_rdevminor_size : nat := 8.
Definition R_newc_namesize_offset : nat := 94.
Definition R_newc_namesize_size : nat := 8.
Definition R_newc_checksum_offset : nat := 102.
Definition R_newc_checksum_size : nat := 8.
Definition R_newc_header_size : nat := 110.
Definition R_AR_name_offset : nat := 0.
Definition R_AR_name_size : nat := 16.
Definition R_AR_date_offset : nat := 16.
Definition R_AR_date_size : nat := 12.
Definition R_AR_uid_offset : nat := 28.
Definition R_AR_uid_size : nat := 6.
Definition R_AR_gid_offset : nat := 34.
Definition R_AR_gid_size : nat := 6.
Definition R_AR_mode_offset : nat := 40.
Definition R_AR_mode_size : nat := 8.
Definition R_AR_size_offset : nat := 48.
Definition R_AR_size_size : nat := 10.
Definition R_AR_fmag_offset : nat := 58.
Definition R_AR_fmag_size : nat := 2.
Definition R_tar_name_offset : nat := 0.
Definition R_tar_name_size : nat := 100.
Definition R_tar_mode_offset : nat := 100.
Definition R_tar_mode_size : nat := 8.
Definition R_tar_uid_offset : nat := 108.
Definition R_tar_uid_size : nat := 8.
Definition R_tar_gid_offset : nat := 116.
Definition R_tar_gid_size : nat := 8.
Definition R_tar_size_offset : nat := 124.
Definition R_tar_size_size : nat := 12.
Definition R_tar_mtime_offset : nat := 136.
Definition R_tar_mtime_size : nat := 12.
Definition R_tar_checksum_offset : nat := 148.
Definition R_tar_checksum_size : nat := 8.
Definition R_tar_typeflag_offset : nat := 156.
Definition R_tar_typeflag_size : nat := 1.
Definition R_tar_linkname_offset : nat := 157.
Definition R_tar_linkname_size : nat := 100.
Definition R_tar_magic_offset : nat := 257.
Definition R_tar_magic_size : nat := 6.
Definition R_tar_version_offset : nat := 263.
Definition R_tar_version_size : nat := 2.
Definition R_tar_uname_offset : nat := 265.
Definition R_tar_uname_size : nat := 32.
Definition R_tar_gname_offset : nat := 297.
Definition R_tar_gname_size : nat := 32.
Definition R_tar_rdevmajor_offset : nat := 329.
Definition R_tar_rdevmajor_size : nat := 8.
Definition R_tar_rdevminor_offset : nat := 337.
Definition R_tar_rdevminor_size : nat := 8.
Definition R_tar_prefix_offset : nat := 345.
Definition R_tar_prefix_size : nat := 155.
Definition R_tar_header_size : nat := 500.
Definition GNUTAR_header_first : bool := true.
Definition USTAR_join_always_slash : bool := false.
Definition ustar_template : list Z := [
  0; 0; 0; 0; 0; 0; 0; 0; 0; 0; 0; 0; 0; 0; 0; 0; 0; 0; 0; 0; 0; 0; 0; 0; 0; 0; 0; 0; 0; 0; 0; 0;
  0; 0; 0; 0; 0; 0; 0; 0; 0; 0; 0; 0; 0; 0; 0; 0; 0; 0; 0; 0; 0; 0; 0; 0; 0; 0; 0; 0; 0; 0; 0; 0;
  0; 0; 0; 0; 0; 0; 0; 0; 0; 0; 0; 0; 0; 0; 0; 0; 0; 0; 0; 0; 0; 0; 0; 0; 0; 0; 0; 0; 0; 0; 0; 0;
  0; 0; 0; 0; 48; 48; 48; 48; 48; 48; 32; 0; 48; 48; 48; 48; 48; 48; 32; 0; 48; 48; 48; 48; 48; 48; 32; 0; 48; 48; 48; 48;
  48; 48; 48; 48; 48; 48; 48; 32; 48; 48; 48; 48; 48; 48; 48; 48; 48; 48; 48; 32; 32; 32; 32; 32; 32; 32; 32; 32; 48; 0; 0; 0;
  0; 0; 0; 0; 0; 0; 0; 0; 0; 0; 0; 0; 0; 0; 0; 0; 0; 0; 0; 0; 0; 0; 0; 0; 0; 0; 0; 0; 0; 0; 0; 0;
  0; 0; 0; 0; 0; 0; 0; 0; 0; 0; 0; 0; 0; 0; 0; 0; 0; 0; 0; 0; 0; 0; 0; 0; 0; 0; 0; 0; 0; 0; 0; 0;
  0; 0; 0; 0; 0; 0; 0; 0; 0; 0; 0; 0; 0; 0; 0; 0; 0; 0; 0; 0; 0; 0; 0; 0; 0; 0; 0; 0; 0; 0; 0; 0;
  0; 117; 115; 116; 97; 114; 0; 48; 48; 0; 0; 0; 0; 0; 0; 0; 0; 0; 0; 0; 0; 0; 0; 0; 0; 0; 0; 0; 0; 0; 0; 0;
  0; 0; 0; 0; 0; 0; 0; 0; 0; 0; 0; 0; 0; 0; 0; 0; 0; 0; 0; 0; 0; 0; 0; 0; 0; 0; 0; 0; 0; 0; 0; 0;
  0; 0; 0; 0; 0; 0; 0; 0; 0; 48; 48; 48; 48; 48; 48; 32; 0; 48; 48; 48; 48; 48; 48; 32; 0; 0; 0; 0; 0; 0; 0; 0;
  0; 0; 0; 0; 0; 0; 0; 0; 0; 0; 0; 0; 0; 0; 0; 0; 0; 0; 0; 0; 0; 0; 0; 0; 0; 0; 0; 0; 0; 0; 0; 0;
  0; 0; 0; 0; 0; 0; 0; 0; 0; 0; 0; 0; 0; 0; 0; 0; 0; 0; 0; 0; 0; 0; 0; 0; 0; 0; 0; 0; 0; 0; 0; 0;
  0; 0; 0; 0; 0; 0; 0; 0; 0; 0; 0; 0; 0; 0; 0; 0; 0; 0; 0; 0; 0; 0; 0; 0; 0; 0; 0; 0; 0; 0; 0; 0;
  0; 0; 0; 0; 0; 0; 0; 0; 0; 0; 0; 0; 0; 0; 0; 0; 0; 0; 0; 0; 0; 0; 0; 0; 0; 0; 0; 0; 0; 0; 0; 0;
  0; 0; 0; 0; 0; 0; 0; 0; 0; 0; 0; 0; 0; 0; 0; 0; 0; 0; 0; 0; 0; 0; 0; 0; 0; 0; 0; 0; 0; 0; 0; 0]%Z.
Definition v7tar_template : list Z := [
  0; 0; 0; 0; 0; 0; 0; 0; 0; 0; 0; 0; 0; 0; 0; 0; 0; 0; 0; 0; 0; 0; 0; 0; 0; 0; 0; 0; 0; 0; 0; 0;
  0; 0; 0; 0; 0; 0; 0; 0; 0; 0; 0; 0; 0; 0; 0; 0; 0; 0; 0; 0; 0; 0; 0; 0; 0; 0; 0; 0; 0; 0; 0; 0;
  0; 0; 0; 0; 0; 0; 0; 0; 0; 0; 0; 0; 0; 0; 0; 0; 0; 0; 0; 0; 0; 0; 0; 0; 0; 0; 0; 0; 0; 0; 0; 0;
  0; 0; 0; 0; 48; 48; 48; 48; 48; 48; 32; 0; 48; 48; 48; 48; 48; 48; 32; 0; 48; 48; 48; 48; 48; 48; 32; 0; 48; 48; 48; 48;
  48; 48; 48; 48; 48; 48; 48; 32; 48; 48; 48; 48; 48; 48; 48; 48; 48; 48; 48; 32; 32; 32; 32; 32; 32; 32; 32; 32; 0; 0; 0; 0;
  0; 0; 0; 0; 0; 0; 0; 0; 0; 0; 0; 0; 0; 0; 0; 0; 0; 0; 0; 0; 0; 0; 0; 0; 0; 0; 0; 0; 0; 0; 0; 0;
  0; 0; 0; 0; 0; 0; 0; 0; 0; 0; 0; 0; 0; 0; 0; 0; 0; 0; 0; 0; 0; 0; 0; 0; 0; 0; 0; 0; 0; 0; 0; 0;
  0; 0; 0; 0; 0; 0; 0; 0; 0; 0; 0; 0; 0; 0; 0; 0; 0; 0; 0; 0; 0; 0; 0; 0; 0; 0; 0; 0; 0; 0; 0; 0;
  0; 0; 0; 0; 0; 0; 0; 0; 0; 0; 0; 0; 0; 0; 0; 0; 0; 0; 0; 0; 0; 0; 0; 0; 0; 0; 0; 0; 0; 0; 0; 0;
  0; 0; 0; 0; 0; 0; 0; 0; 0; 0; 0; 0; 0; 0; 0; 0; 0; 0; 0; 0; 0; 0; 0; 0; 0; 0; 0; 0; 0; 0; 0; 0;
  0; 0; 0; 0; 0; 0; 0; 0; 0; 0; 0; 0; 0; 0; 0; 0; 0; 0; 0; 0; 0; 0; 0; 0; 0; 0; 0; 0; 0; 0; 0; 0;
  0; 0; 0; 0; 0; 0; 0; 0; 0; 0; 0; 0; 0; 0; 0; 0; 0; 0; 0; 0; 0; 0; 0; 0; 0; 0; 0; 0; 0; 0; 0; 0;
  0; 0; 0; 0; 0; 0; 0; 0; 0; 0; 0; 0; 0; 0; 0; 0; 0; 0; 0; 0; 0; 0; 0; 0; 0; 0; 0; 0; 0; 0; 0; 0;
  0; 0; 0; 0; 0; 0; 0; 0; 0; 0; 0; 0; 0; 0; 0; 0; 0; 0; 0; 0; 0; 0; 0; 0; 0; 0; 0; 0; 0; 0; 0; 0;
  0; 0; 0; 0; 0; 0; 0; 0; 0; 0; 0; 0; 0; 0; 0; 0; 0; 0; 0; 0; 0; 0; 0; 0; 0; 0; 0; 0; 0; 0; 0; 0;
  0; 0; 0; 0; 0; 0; 0; 0; 0; 0; 0; 0; 0; 0; 0; 0; 0; 0; 0; 0; 0; 0; 0; 0; 0; 0; 0; 0; 0; 0; 0; 0]%Z.
Definition gnutar_template : list Z := [
  0; 0; 0; 0; 0; 0; 0; 0; 0; 0; 0; 0; 0; 0; 0; 0; 0; 0; 0; 0; 0; 0; 0; 0; 0; 0; 0; 0; 0; 0; 0; 0;
  0; 0; 0; 0; 0; 0; 0; 0; 0; 0; 0; 0; 0; 0; 0; 0; 0; 0; 0; 0; 0; 0; 0; 0; 0; 0; 0; 0; 0; 0; 0; 0;
  0; 0; 0; 0; 0; 0; 0; 0; 0; 0; 0; 0; 0; 0; 0; 0; 0; 0; 0; 0; 0; 0; 0; 0; 0; 0; 0; 0; 0; 0; 0; 0;
  0; 0; 0; 0; 48; 48; 48; 48; 48; 48; 48; 0; 48; 48; 48; 48; 48; 48; 48; 0; 48; 48; 48; 48; 48; 48; 48; 0; 48; 48; 48; 48;
  48; 48; 48; 48; 48; 48; 48; 0; 48; 48; 48; 48; 48; 48; 48; 48; 48; 48; 48; 0; 32; 32; 32; 32; 32; 32; 32; 32; 48; 0; 0; 0;
  0; 0; 0; 0; 0; 0; 0; 0; 0; 0; 0; 0; 0; 0; 0; 0; 0; 0; 0; 0; 0; 0; 0; 0; 0; 0; 0; 0; 0; 0; 0; 0;
  0; 0; 0; 0; 0; 0; 0; 0; 0; 0; 0; 0; 0; 0; 0; 0; 0; 0; 0; 0; 0; 0; 0; 0; 0; 0; 0; 0; 0; 0; 0; 0;
  0; 0; 0; 0; 0; 0; 0; 0; 0; 0; 0; 0; 0; 0; 0; 0; 0; 0; 0; 0; 0; 0; 0; 0; 0; 0; 0; 0; 0; 0; 0; 0;
  0; 117; 115; 116; 97; 114; 32; 32; 0; 0; 0; 0; 0; 0; 0; 0; 0; 0; 0; 0; 0; 0; 0; 0; 0; 0; 0; 0; 0; 0; 0; 0;
  0; 0; 0; 0; 0; 0; 0; 0; 0; 0; 0; 0; 0; 0; 0; 0; 0; 0; 0; 0; 0; 0; 0; 0; 0; 0; 0; 0; 0; 0; 0; 0;
  0; 0; 0; 0; 0; 0; 0; 0; 0; 0; 0; 0; 0; 0; 0; 0; 0; 0; 0; 0; 0; 0; 0; 0; 0; 0; 0; 0; 0; 0; 0; 0;
  0; 0; 0; 0; 0; 0; 0; 0; 0; 0; 0; 0; 0; 0; 0; 0; 0; 0; 0; 0; 0; 0; 0; 0; 0; 0; 0; 0; 0; 0; 0; 0;
  0; 0; 0; 0; 0; 0; 0; 0; 0; 0; 0; 0; 0; 0; 0; 0; 0; 0; 0; 0; 0; 0; 0; 0; 0; 0; 0; 0; 0; 0; 0; 0;
  0; 0; 0; 0; 0; 0; 0; 0; 0; 0; 0; 0; 0; 0; 0; 0; 0; 0; 0; 0; 0; 0; 0; 0; 0; 0; 0; 0; 0; 0; 0; 0;
  0; 0; 0; 0; 0; 0; 0; 0; 0; 0; 0; 0; 0; 0; 0; 0; 0; 0; 0; 0; 0; 0; 0; 0; 0; 0; 0; 0; 0; 0; 0; 0;
  0; 0; 0; 0; 0; 0; 0; 0; 0; 0; 0; 0; 0; 0; 0; 0; 0; 0; 0; 0; 0; 0; 0; 0; 0; 0; 0; 0; 0; 0; 0; 0]%Z.
