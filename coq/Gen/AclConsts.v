(* GENERATED on every run by translators/gen_acl.py from the current /repo working tree - do not edit.
   Sources: libarchive/archive_entry.h, libarchive/archive_acl.c *)

From Coq Require Import List ZArith NArith Bool.
Import ListNotations.

Definition ACL_EXECUTE : N := (1)%N.
Definition ACL_WRITE : N := (2)%N.
Definition ACL_READ : N := (4)%N.
Definition ACL_READ_DATA : N := (8)%N.
Definition ACL_LIST_DIRECTORY : N := (8)%N.
Definition ACL_WRITE_DATA : N := (16)%N.
Definition ACL_ADD_FILE : N := (16)%N.
Definition ACL_APPEND_DATA : N := (32)%N.
Definition ACL_ADD_SUBDIRECTORY : N := (32)%N.
Definition ACL_READ_NAMED_ATTRS : N := (64)%N.
Definition ACL_WRITE_NAMED_ATTRS : N := (128)%N.
Definition ACL_DELETE_CHILD : N := (256)%N.
Definition ACL_READ_ATTRIBUTES : N := (512)%N.
Definition ACL_WRITE_ATTRIBUTES : N := (1024)%N.
Definition ACL_DELETE : N := (2048)%N.
Definition ACL_READ_ACL : N := (4096)%N.
Definition ACL_WRITE_ACL : N := (8192)%N.
Definition ACL_WRITE_OWNER : N := (16384)%N.
Definition ACL_SYNCHRONIZE : N := (32768)%N.
Definition ACL_PERMS_POSIX1E : N := (7)%N.
Definition ACL_PERMS_NFS4 : N := (65529)%N.
Definition ACL_ENTRY_INHERITED : N := (16777216)%N.
Definition ACL_ENTRY_FILE_INHERIT : N := (33554432)%N.
Definition ACL_ENTRY_DIRECTORY_INHERIT : N := (67108864)%N.
Definition ACL_ENTRY_NO_PROPAGATE_INHERIT : N := (134217728)%N.
Definition ACL_ENTRY_INHERIT_ONLY : N := (268435456)%N.
Definition ACL_ENTRY_SUCCESSFUL_ACCESS : N := (536870912)%N.
Definition ACL_ENTRY_FAILED_ACCESS : N := (1073741824)%N.
Definition ACL_INHERITANCE_NFS4 : N := (2130706432)%N.
Definition ACL_TYPE_ACCESS : N := (256)%N.
Definition ACL_TYPE_DEFAULT : N := (512)%N.
Definition ACL_TYPE_ALLOW : N := (1024)%N.
Definition ACL_TYPE_DENY : N := (2048)%N.
Definition ACL_TYPE_AUDIT : N := (4096)%N.
Definition ACL_TYPE_ALARM : N := (8192)%N.
Definition ACL_TYPE_POSIX1E : N := (768)%N.
Definition ACL_TYPE_NFS4 : N := (15360)%N.
Definition ACL_USER : N := (10001)%N.
Definition ACL_USER_OBJ : N := (10002)%N.
Definition ACL_GROUP : N := (10003)%N.
Definition ACL_GROUP_OBJ : N := (10004)%N.
Definition ACL_MASK : N := (10005)%N.
Definition ACL_OTHER : N := (10006)%N.
Definition ACL_EVERYONE : N := (10107)%N.
Definition ACL_STYLE_EXTRA_ID : N := (1)%N.
Definition ACL_STYLE_MARK_DEFAULT : N := (2)%N.
Definition ACL_STYLE_SOLARIS : N := (4)%N.
Definition ACL_STYLE_SEPARATOR_COMMA : N := (8)%N.
Definition ACL_STYLE_COMPACT : N := (16)%N.
Definition nfsv4_perm_map : list (N * N * N) :=
  [(8, 114, 114);
   (16, 119, 119);
   (1, 120, 120);
   (32, 112, 112);
   (2048, 100, 100);
   (256, 68, 68);
   (512, 97, 97);
   (1024, 65, 65);
   (64, 82, 82);
   (128, 87, 87);
   (4096, 99, 99);
   (8192, 67, 67);
   (16384, 111, 111);
   (32768, 115, 115)]%N.
Definition nfsv4_flag_map : list (N * N * N) :=
  [(33554432, 102, 102);
   (67108864, 100, 100);
   (268435456, 105, 105);
   (134217728, 110, 110);
   (536870912, 83, 83);
   (1073741824, 70, 70);
   (16777216, 73, 73)]%N.
Definition ismode_cases : list (N * N) :=
  [(114, 4); (82, 4); (119, 2); (87, 2); (120, 1); (88, 1); (45, 0)]%N.
Definition ismode_w_cases : list (N * N) :=
  [(114, 4); (82, 4); (119, 2); (87, 2); (120, 1); (88, 1); (45, 0)]%N.
Definition is_nfs4_perms_cases : list (N * N) :=
  [(114, 8); (119, 16); (120, 1); (112, 32); (68, 256); (100, 2048); (97, 512); (65, 1024); (82, 64); (87, 128); (99, 4096); (67, 8192); (111, 16384); (115, 32768); (45, 0)]%N.
Definition is_nfs4_perms_w_cases : list (N * N) :=
  [(114, 8); (119, 16); (120, 1); (112, 32); (68, 256); (100, 2048); (97, 512); (65, 1024); (82, 64); (87, 128); (99, 4096); (67, 8192); (111, 16384); (115, 32768); (45, 0)]%N.
Definition is_nfs4_flags_cases : list (N * N) :=
  [(102, 33554432); (100, 67108864); (105, 268435456); (110, 134217728); (83, 536870912); (70, 1073741824); (73, 16777216); (45, 0)]%N.
Definition is_nfs4_flags_w_cases : list (N * N) :=
  [(102, 33554432); (100, 67108864); (105, 268435456); (110, 134217728); (83, 536870912); (70, 1073741824); (73, 16777216); (45, 0)]%N.
Definition acl_fix_text_len_nfs4_noname : bool := true.
Definition acl_fix_wide_empty_tag : bool := true.
Definition acl_fix_next_field_sentinel : bool := true.
Definition acl_fix_ismode_reset : bool := true.
