(* GENERATED on every run by translators/gen_fsSec.py from the current /repo working tree - do not edit.
   Sources: libarchive/archive.h, libarchive/archive_write_disk_posix.c *)

From Coq Require Import NArith.

Definition EXTRACT_OWNER : N := (1)%N.
Definition EXTRACT_PERM : N := (2)%N.
Definition EXTRACT_TIME : N := (4)%N.
Definition EXTRACT_NO_OVERWRITE : N := (8)%N.
Definition EXTRACT_UNLINK : N := (16)%N.
Definition EXTRACT_SECURE_SYMLINKS : N := (256)%N.
Definition EXTRACT_SECURE_NODOTDOT : N := (512)%N.
Definition EXTRACT_NO_AUTODIR : N := (1024)%N.
Definition EXTRACT_SECURE_NOABSOLUTEPATHS : N := (65536)%N.
Definition EXTRACT_SAFE_WRITES : N := (262144)%N.
Definition DEFAULT_DIR_MODE : N := (511)%N.
Definition MINIMUM_DIR_MODE : N := (448)%N.
Definition MAXIMUM_DIR_MODE : N := (509)%N.
Definition CLOSE_CHECKS_FIXUP_PATH : bool := true.
Definition HARDLINK_DATA_NONREG_CLEARS_TODO : bool := true.
