(* GENERATED on every run by translators/gen_statics.py from the current /repo working tree - do not edit.
   Sources: objdump -h/-t over the 122 objects of the static library (plain build of the working tree), props/C13_statics.json *)

From Coq Require Import List NArith String.
Import ListNotations.
Open Scope string_scope.

(* (object file, symbol, size in bytes) of every object in a writable section *)
Definition statics : list (string * string * N) := [
  ("archive_version_details.c", "init", 4%N);
  ("archive_version_details.c", "mtx", 40%N);
  ("archive_version_details.c", "str", 24%N)
].

(* section each of them lives in (same order) *)
Definition statics_sections : list string := [
  ".bss.init.1";
  ".bss.mtx.2";
  ".bss.str.0"
].

(* committed classification: (object, symbol, (class code, mutex)); codes: 0 locked:<mutex>,
   1 init_once_idempotent, 2 thread_unsafe_documented, 3 unsynchronised *)
Definition classification : list (string * string * (N * string)) := [
  ("*", "crc_tbl", (3%N, ""));
  ("*", "crc_tbl_inited", (3%N, ""));
  ("archive_random.c", "arc4_count", (0%N, "arc4random_mtx"));
  ("archive_random.c", "arc4_stir_pid", (0%N, "arc4random_mtx"));
  ("archive_random.c", "arc4random_mtx", (0%N, "arc4random_mtx"));
  ("archive_random.c", "rs", (0%N, "arc4random_mtx"));
  ("archive_random.c", "rs_initialized", (0%N, "arc4random_mtx"));
  ("archive_read_disk_posix.c", "can_dupfd_cloexec", (3%N, ""));
  ("archive_read_disk_posix.c", "lst", (3%N, ""));
  ("archive_read_disk_posix.c", "st", (3%N, ""));
  ("archive_read_support_filter_compress.c", "debug_buff", (3%N, ""));
  ("archive_read_support_filter_compress.c", "debug_index", (3%N, ""));
  ("archive_read_support_format_lha.c", "crc16init", (3%N, ""));
  ("archive_read_support_format_lha.c", "crc16tbl", (3%N, ""));
  ("archive_read_support_format_tar.c", "decode_table", (3%N, ""));
  ("archive_read_support_format_tar.c", "default_dev", (3%N, ""));
  ("archive_read_support_format_tar.c", "default_inode", (3%N, ""));
  ("archive_time.c", "dos_initialised", (3%N, ""));
  ("archive_time.c", "dos_max_unix", (3%N, ""));
  ("archive_time.c", "dos_min_unix", (3%N, ""));
  ("archive_version_details.c", "init", (0%N, "archive_version_details.mtx"));
  ("archive_version_details.c", "mtx", (0%N, "archive_version_details.mtx"));
  ("archive_version_details.c", "str", (1%N, ""))
].
