(* GENERATED on every run by translators/gen_statics.py from the current /repo working tree - do not edit.
   Sources: objdump -h/-t over the 122 objects of the static library (plain build of the working tree), props/C13_statics.json *)

From Coq Require Import List NArith String.
Import ListNotations.
Open Scope string_scope.

(* (object file, symbol, size in bytes) of every object in a writable section *)
Definition statics : list (string * string * N) := [
  ("archive_read_disk_posix.c", "libc:fchdir", 0%N);
  ("archive_read_disk_posix.c", "libc:readdir", 0%N);
  ("archive_read_support_format_cab.c", "libc:mktime", 0%N);
  ("archive_read_support_format_rar.c", "libc:mktime", 0%N);
  ("archive_string.c", "libc:nl_langinfo", 0%N);
  ("archive_time.c", "libc:mktime", 0%N);
  ("archive_util.c", "libc:getenv", 0%N);
  ("archive_version_details.c", "init", 4%N);
  ("archive_version_details.c", "mtx", 40%N);
  ("archive_version_details.c", "str", 24%N);
  ("archive_write_disk_posix.c", "libc:chdir", 0%N);
  ("archive_write_disk_posix.c", "libc:fchdir", 0%N);
  ("archive_write_disk_posix.c", "libc:umask", 0%N);
  ("archive_write_set_format_iso9660.c", "libc:tzset", 0%N);
  ("archive_write_set_format_zip.c", "libc:nl_langinfo", 0%N)
].

(* section each of them lives in (same order) *)
Definition statics_sections : list string := [
  "libc";
  "libc";
  "libc";
  "libc";
  "libc";
  "libc";
  "libc";
  ".bss.init.1";
  ".bss.mtx.2";
  ".bss.str.0";
  "libc";
  "libc";
  "libc";
  "libc";
  "libc"
].

(* committed classification: (object, symbol, (class code, mutex)); codes: 0 locked:<mutex>,
   1 init_once_idempotent, 2 thread_unsafe_documented, 3 unsynchronised *)
Definition classification : list (string * string * (N * string)) := [
  ("*", "crc_tbl", (3%N, ""));
  ("*", "crc_tbl_inited", (3%N, ""));
  ("*", "libc:asctime", (3%N, ""));
  ("*", "libc:chdir", (2%N, ""));
  ("*", "libc:ctime", (3%N, ""));
  ("*", "libc:fchdir", (2%N, ""));
  ("*", "libc:getenv", (1%N, ""));
  ("*", "libc:getgrgid", (3%N, ""));
  ("*", "libc:getgrnam", (3%N, ""));
  ("*", "libc:getpwnam", (3%N, ""));
  ("*", "libc:getpwuid", (3%N, ""));
  ("*", "libc:gmtime", (3%N, ""));
  ("*", "libc:localtime", (3%N, ""));
  ("*", "libc:mblen", (3%N, ""));
  ("*", "libc:mbrlen(NULL)", (3%N, ""));
  ("*", "libc:mbrtowc(NULL)", (3%N, ""));
  ("*", "libc:mbsnrtowcs(NULL)", (3%N, ""));
  ("*", "libc:mbsrtowcs(NULL)", (3%N, ""));
  ("*", "libc:mbtowc", (3%N, ""));
  ("*", "libc:mktime", (0%N, "glibc_tzset_lock"));
  ("*", "libc:nl_langinfo", (1%N, ""));
  ("*", "libc:putenv", (3%N, ""));
  ("*", "libc:rand", (3%N, ""));
  ("*", "libc:readdir", (0%N, "glibc_dirstream_lock"));
  ("*", "libc:setenv", (3%N, ""));
  ("*", "libc:setlocale", (3%N, ""));
  ("*", "libc:strerror", (3%N, ""));
  ("*", "libc:strtok", (3%N, ""));
  ("*", "libc:tzset", (0%N, "glibc_tzset_lock"));
  ("*", "libc:umask", (2%N, ""));
  ("*", "libc:wcrtomb(NULL)", (3%N, ""));
  ("*", "libc:wcsnrtombs(NULL)", (3%N, ""));
  ("*", "libc:wcsrtombs(NULL)", (3%N, ""));
  ("*", "libc:wctomb", (3%N, ""));
  ("archive_random.c", "arc4_count", (0%N, "arc4random_mtx"));
  ("archive_random.c", "arc4_stir_pid", (0%N, "arc4random_mtx"));
  ("archive_random.c", "arc4random_mtx", (0%N, "arc4random_mtx"));
  ("archive_random.c", "rs", (0%N, "arc4random_mtx"));
  ("archive_random.c", "rs_initialized", (0%N, "arc4random_mtx"));
  ("archive_read_disk_posix.c", "can_dupfd_cloexec", (3%N, ""));
  ("archive_read_disk_posix.c", "lst", (3%N, ""));
  ("archive_read_disk_posix.c", "st", (3%N, ""));
  ("archive_read_support_filter_compress.c", "debug_buff", (3%N, ""));
  ("archive_read_support_filter_compress.c", "debug_index", (3%N, ""));
  ("archive_read_support_format_lha.c", "crc16init", (3%N, ""));
  ("archive_read_support_format_lha.c", "crc16tbl", (3%N, ""));
  ("archive_read_support_format_tar.c", "decode_table", (3%N, ""));
  ("archive_read_support_format_tar.c", "default_dev", (3%N, ""));
  ("archive_read_support_format_tar.c", "default_inode", (3%N, ""));
  ("archive_time.c", "dos_initialised", (3%N, ""));
  ("archive_time.c", "dos_max_unix", (3%N, ""));
  ("archive_time.c", "dos_min_unix", (3%N, ""));
  ("archive_version_details.c", "init", (0%N, "archive_version_details.mtx"));
  ("archive_version_details.c", "mtx", (0%N, "archive_version_details.mtx"));
  ("archive_version_details.c", "str", (1%N, ""))
].
