(* GENERATED on every run by translators/gen_safeWrite.py from the current /repo working tree - do not edit.
   Sources: libarchive/archive_write_disk_posix.c *)

From LA Require Import FS.SafeWriteDefs.
(* la_mktemp unlinks on fchmod failure; close_file_descriptor unlinks tmpname; a failed body write
   prevents the rename; lazy_stat falls back to tmpname *)
Definition tree_variant : variant := mkVariant true true true true.
