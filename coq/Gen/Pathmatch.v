(* GENERATED on every run by translators/gen_pathmatch.py from the current /repo working tree - do not edit.
   Sources: libarchive/archive_pathmatch.c, libarchive/archive_pathmatch.h, libarchive/archive.h, libarchive/archive_match.c *)

From Coq Require Import ZArith NArith Bool.

Definition G_PATHMATCH_NO_ANCHOR_START : N := (1)%N.
Definition G_PATHMATCH_NO_ANCHOR_END : N := (2)%N.
Definition G_ARCHIVE_MATCH_MTIME : N := (256)%N.
Definition G_ARCHIVE_MATCH_CTIME : N := (512)%N.
Definition G_ARCHIVE_MATCH_NEWER : N := (1)%N.
Definition G_ARCHIVE_MATCH_OLDER : N := (2)%N.
Definition G_ARCHIVE_MATCH_EQUAL : N := (16)%N.
Definition G_PATTERN_IS_SET : N := (1)%N.
Definition G_TIME_IS_SET : N := (2)%N.
Definition G_ID_IS_SET : N := (4)%N.
Definition G_ARCHIVE_OK : Z := (0)%Z.
Definition G_ARCHIVE_EOF : Z := (1)%Z.
Definition G_ARCHIVE_FAILED : Z := (-25)%Z.
(* does `case '['` of pm() / pm_w() return 0 at the end of the subject before trying the class? *)
Definition class_guard : bool := true.
Definition class_guard_w : bool := true.
