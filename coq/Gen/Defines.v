(* GENERATED on every run by translators/gen_defines.py from the current /repo working tree - do not edit.
   Sources: libarchive/archive.h, libarchive/archive_entry.h, libarchive/archive_entry_link_resolver.c, libarchive/archive_private.h, libarchive/archive_read.c *)

From Coq Require Import ZArith NArith.

Definition ARCHIVE_EOF : Z := (1)%Z.
Definition ARCHIVE_OK : Z := (0)%Z.
Definition ARCHIVE_RETRY : Z := (-10)%Z.
Definition ARCHIVE_WARN : Z := (-20)%Z.
Definition ARCHIVE_FAILED : Z := (-25)%Z.
Definition ARCHIVE_FATAL : Z := (-30)%Z.
Definition AE_IFMT : N := (61440)%N.
Definition AE_IFREG : N := (32768)%N.
Definition AE_IFLNK : N := (40960)%N.
Definition AE_IFSOCK : N := (49152)%N.
Definition AE_IFCHR : N := (8192)%N.
Definition AE_IFBLK : N := (24576)%N.
Definition AE_IFDIR : N := (16384)%N.
Definition AE_IFIFO : N := (4096)%N.
Definition LINKIFY_LIKE_TAR : N := (0)%N.
Definition LINKIFY_LIKE_MTREE : N := (1)%N.
Definition LINKIFY_LIKE_OLD_CPIO : N := (2)%N.
Definition LINKIFY_LIKE_NEW_CPIO : N := (3)%N.
Definition links_cache_initial_size : N := (1024)%N.
Definition ARCHIVE_WRITE_MAGIC : N := (2965749982)%N.
Definition ARCHIVE_READ_MAGIC : N := (14594245)%N.
Definition ARCHIVE_WRITE_DISK_MAGIC : N := (3221336261)%N.
Definition ARCHIVE_READ_DISK_MAGIC : N := (195932357)%N.
Definition ARCHIVE_MATCH_MAGIC : N := (212668873)%N.
Definition ARCHIVE_STATE_NEW : N := (1)%N.
Definition ARCHIVE_STATE_HEADER : N := (2)%N.
Definition ARCHIVE_STATE_DATA : N := (4)%N.
Definition ARCHIVE_STATE_EOF : N := (16)%N.
Definition ARCHIVE_STATE_CLOSED : N := (32)%N.
Definition ARCHIVE_STATE_FATAL : N := (32768)%N.
Definition ARCHIVE_STATE_ANY : N := (32767)%N.
Definition MAX_NUMBER_FILTERS : N := (25)%N.
