(* C09 - Output is correctly blocked and write faults are always reported.
   Property theorems only; each is closed by [exact] of a lemma of IO/WriteCoreProofs.v.

   Model (IO/WriteCoreDefs.v): archive_write_client_write / _close of archive_write.c over byte
   lists, the write callback being ANY deterministic state machine  cb : C -> bytes -> C * Z
   (state, bytes offered) -> (new state, returned ssize_t).  [session cb bs bibl c chunks] feeds
   the chunks through __archive_write_filter one API call each, then runs the close; it returns one
   (invocations, status) pair per call.  An invocation [i] records the bytes offered (i_buf, their
   number i_off), the value returned (i_ret) and the bytes accepted (i_acc = the first i_ret
   offered bytes).  Vocabulary (WriteCoreProofs.v): flat res = all invocations in order; acc tr =
   concatenation of the accepted bytes; good tr = every invocation returned > 0; upto_fail tr = tr
   cut after its first invocation that returned <= 0; all_ok res = every call returned ARCHIVE_OK;
   zeros n = n zero bytes; padlen bs bibl fill = zero bytes appended to a pending last block of
   fill bytes (0 when fill = 0); prefix a b = exists r, a ++ r = b.
   No bound on data, chunking, bytes_per_block (bs), bytes_in_last_block (bibl) or callback. *)
From Coq Require Import List ZArith NArith Bool Arith.
From LA Require Import Base.Val Gen.Defines IO.WriteCoreDefs IO.WriteCoreProofs.
Import ListNotations.
Local Open Scope Z_scope.

(* (a) bytes_per_block > 0 and a callback that accepts what it is offered ([Good] = any set of
   callback states closed under the callback from which everything is accepted): the invocations
   are length(data)/bs full blocks of exactly bs bytes, followed - only when length(data) is not a
   multiple of bs - by ONE last invocation of r + padlen bytes (r = length(data) mod bs); every
   call returns ARCHIVE_OK and the accepted stream is data followed by the padding. *)
Theorem C09_blocks_exact : forall (C : Type) (cb : C -> bytes -> C * Z) (Good : C -> Prop),
  (forall c p, Good c -> Good (fst (cb c p)) /\ snd (cb c p) = Z.of_nat (length p)) ->
  forall bs bibl c chunks c' res,
  (0 < bs)%nat -> Good c -> session cb bs bibl c chunks = (c', res) ->
  let data := concat chunks in
  let r := (length data mod bs)%nat in
  exists blocks last,
    flat res = blocks ++ last /\ Forall (full bs) blocks /\ length blocks = (length data / bs)%nat /\
    (r = 0%nat -> last = []) /\
    (r <> 0%nat -> exists i, last = [i] /\ i_off i = (r + padlen bs bibl r)%nat /\
                             i_ret i = Z.of_nat (i_off i)) /\
    all_ok res /\ acc (flat res) = data ++ zeros (padlen bs bibl r) /\ Good c'.
Proof. exact @session_acc. Qed.
Print Assumptions C09_blocks_exact.

(* the scripted callback of the harness with an empty plan is such a callback *)
Theorem C09_empty_plan_accepts : forall c p, c = @nil resp ->
  fst (plan_cb c p) = [] /\ snd (plan_cb c p) = Z.of_nat (length p).
Proof. exact plan_accepting. Qed.
Print Assumptions C09_empty_plan_accepts.

(* (a) for the harness's scripted callback with an empty plan (no abstract hypothesis left) *)
Theorem C09_blocks_exact_scripted : forall bs bibl chunks pl' res,
  (0 < bs)%nat -> session plan_cb bs bibl [] chunks = (pl', res) ->
  let data := concat chunks in
  let r := (length data mod bs)%nat in
  exists blocks last,
    flat res = blocks ++ last /\ Forall (full bs) blocks /\ length blocks = (length data / bs)%nat /\
    (r = 0%nat -> last = []) /\
    (r <> 0%nat -> exists i, last = [i] /\ i_off i = (r + padlen bs bibl r)%nat /\
                             i_ret i = Z.of_nat (i_off i)) /\
    all_ok res /\ acc (flat res) = data ++ zeros (padlen bs bibl r) /\ pl' = [].
Proof. exact session_acc_plan. Qed.
Print Assumptions C09_blocks_exact_scripted.

(* the bytes_in_last_block rule (archive_write.c:515-529): a pending last block of 0 < fill <= bs
   bytes goes out with fill + padlen bytes = bs when bytes_in_last_block <= 0, otherwise fill rounded
   up to the next multiple of bytes_in_last_block, capped at bs.  The C expression cannot overflow. *)
Theorem C09_last_block_rule : forall bs bibl fill, (0 < fill <= bs)%nat ->
  let t := Z.of_nat (fill + padlen bs bibl fill) in
  (bibl <= 0 -> t = Z.of_nat bs) /\
  (0 < bibl -> t = Z.min (Z.of_nat bs) (bibl * ((Z.of_nat fill + bibl - 1) / bibl))).
Proof. exact padlen_rule. Qed.
Print Assumptions C09_last_block_rule.

Theorem C09_last_block_no_overflow : forall bpb bibl bl,
  0 < bibl < 2^31 -> 0 <= bl <= bpb -> bpb < 2^31 ->
  0 <= bl + bibl - 1 < 2^63 /\ 0 <= bibl * ((bl + bibl - 1) ÷ bibl) < 2^63.
Proof. exact target_no_overflow. Qed.
Print Assumptions C09_last_block_no_overflow.

(* bytes_per_block = 0 (pass-through): every non-empty write reaches the callback as exactly one
   invocation carrying exactly its bytes, during that very call; nothing is written at close *)
Theorem C09_passthrough : forall (C : Type) (cb : C -> bytes -> C * Z) (Good : C -> Prop),
  (forall c p, Good c -> Good (fst (cb c p)) /\ snd (cb c p) = Z.of_nat (length p)) ->
  forall bibl c chunks c' res, Good c -> session cb 0 bibl c chunks = (c', res) ->
  all_ok res /\ flat res = map whole (filter nonempty chunks) /\ acc (flat res) = concat chunks /\
  map fst res = map (fun d => if nonempty d then [whole d] else []) chunks ++ [[]].
Proof. exact @session_acc0. Qed.
Print Assumptions C09_passthrough.

(* (b) accepting callback, ANY block size (0 included): stream = data ++ prescribed padding *)
Theorem C09_stream_preserved : forall (C : Type) (cb : C -> bytes -> C * Z) (Good : C -> Prop),
  (forall c p, Good c -> Good (fst (cb c p)) /\ snd (cb c p) = Z.of_nat (length p)) ->
  forall bs bibl c chunks c' res, Good c -> session cb bs bibl c chunks = (c', res) ->
  all_ok res /\
  acc (flat res) = concat chunks ++ zeros (padlen bs bibl (length (concat chunks) mod bs)).
Proof. exact @session_stream_acc. Qed.
Print Assumptions C09_stream_preserved.

(* hence: apart from the trailing zero padding the stream depends neither on the block size, nor on
   the last-block setting, nor on how the data was cut into write calls *)
Theorem C09_bpb_independent : forall (C : Type) (cb : C -> bytes -> C * Z) (Good : C -> Prop),
  (forall c p, Good c -> Good (fst (cb c p)) /\ snd (cb c p) = Z.of_nat (length p)) ->
  forall bs1 bibl1 c1 chunks1 c1' res1 bs2 bibl2 c2 chunks2 c2' res2,
  Good c1 -> Good c2 -> concat chunks1 = concat chunks2 ->
  session cb bs1 bibl1 c1 chunks1 = (c1', res1) -> session cb bs2 bibl2 c2 chunks2 = (c2', res2) ->
  let data := concat chunks1 in
  exists n1 n2, acc (flat res1) = data ++ zeros n1 /\ acc (flat res2) = data ++ zeros n2 /\
                firstn (length data) (acc (flat res1)) = firstn (length data) (acc (flat res2)).
Proof. exact @bpb_independent. Qed.
Print Assumptions C09_bpb_independent.

(* (c) ANY callback that never claims more than it was offered (short writes, refusals, in any
   pattern): up to and including the first refused invocation the accepted bytes are a prefix of
   data ++ n zero bytes (n < bs) - nothing lost, duplicated or reordered; a short write is resumed
   where it stopped; if no invocation is refused every call returns ARCHIVE_OK and the stream is
   complete.  (After short writes inside the full-block loop the blocks are no longer aligned, so
   n is not the accepting-callback padlen in general; archive_write.c:460-468.) *)
Theorem C09_short_write_resumed : forall (C : Type) (cb : C -> bytes -> C * Z),
  (forall c p, snd (cb c p) <= Z.of_nat (length p)) ->
  forall bs bibl c chunks c' res, session cb bs bibl c chunks = (c', res) ->
  exists n, (n = 0 \/ n < bs)%nat /\
    prefix (acc (upto_fail (flat res))) (concat chunks ++ zeros n) /\
    (good (flat res) -> all_ok res /\ acc (flat res) = concat chunks ++ zeros n).
Proof. exact @session_spec. Qed.
Print Assumptions C09_short_write_resumed.

(* (d) every call - also the calls made after an earlier failure, whatever state it left - returns
   either ARCHIVE_OK with all its invocations accepted, or ARCHIVE_FATAL with its LAST invocation
   refused (return value <= 0: a 0 return is treated as a failure, archive_write.c "if
   (bytes_written <= 0) return (ARCHIVE_FATAL)").  In particular the fuel of the model's loops is
   never exhausted. *)
Theorem C09_fail_reported : forall (C : Type) (cb : C -> bytes -> C * Z),
  (forall c p, snd (cb c p) <= Z.of_nat (length p)) ->
  forall bs bibl c chunks c' res, session cb bs bibl c chunks = (c', res) ->
  Forall (fun r : list inv * Z =>
            (snd r = ARCHIVE_OK /\ good (fst r)) \/ (snd r = ARCHIVE_FATAL /\ failed_last (fst r))) res.
Proof. exact @session_status. Qed.
Print Assumptions C09_fail_reported.

(* "the n-th write-callback invocation fails (or accepts 0 bytes)": if the run gets as far as
   invocation n, the API call in progress returns ARCHIVE_FATAL and that invocation is its last *)
Theorem C09_fail_at_n_reported : forall bs bibl pl chunks pl' res n r,
  session plan_cb bs bibl pl chunks = (pl', res) ->
  nth_error pl n = Some r -> (r = Fail \/ r = Accept 0%N) -> (n < length (flat res))%nat ->
  exists res1 tr res2, res = res1 ++ (tr, ARCHIVE_FATAL) :: res2 /\
                       (n + 1 = length (flat res1) + length tr)%nat.
Proof. exact plan_fail_reported. Qed.
Print Assumptions C09_fail_at_n_reported.

(* the callback is invoked in order, each time on the state the previous invocation left, and never
   with zero bytes; for the scripted callback: the n-th invocation gets the n-th plan item *)
Theorem C09_invocations_threaded : forall (C : Type) (cb : C -> bytes -> C * Z) bs bibl c chunks c' res,
  session cb bs bibl c chunks = (c', res) -> threaded cb c (flat res) c'.
Proof. exact @session_threaded. Qed.
Print Assumptions C09_invocations_threaded.

Theorem C09_plan_followed : forall pl tr pl', threaded plan_cb pl tr pl' ->
  pl' = skipn (length tr) pl /\
  forall n i, nth_error tr n = Some i -> i_ret i = prescribed (nth_error pl n) (i_off i).
Proof. exact plan_threaded_rets. Qed.
Print Assumptions C09_plan_followed.

(* What later calls do after a failure - "exactly once" does NOT survive a failed flush: the copy
   buffer stays full (state->next/avail are not reset), so the next write or the close offers the
   whole block again from its first byte, including the part accepted before the failure.
   bs = 4, writes "\1\2" "\3\4", plan = accept 2, fail: the second write returns FATAL after the
   callback took \1\2; close then delivers \1\2\3\4: the callback has received \1\2 twice. *)
Theorem C09_exactly_once_after_failed_flush_refuted :
  exists bs bibl pl chunks,
    let '(_, res) := session plan_cb bs bibl pl chunks in
    map snd res = [ARCHIVE_OK; ARCHIVE_FATAL; ARCHIVE_OK] /\
    acc (flat res) = [1; 2; 1; 2; 3; 4]%N /\ concat chunks = [1; 2; 3; 4]%N.
Proof. exists 4%nat, (-1), [Accept 2; Fail], [[1; 2]; [3; 4]]%N. vm_compute. repeat split. Qed.
Print Assumptions C09_exactly_once_after_failed_flush_refuted.

(* (e) memory_write never goes past the caller's buffer: used <= size is invariant, an overflowing
   request returns ARCHIVE_FATAL and copies nothing, a fitting one is appended whole *)
Theorem C09_memory_write_bounded : forall m p m' r, memory_write m p = (m', r) -> Minv m ->
  Minv m' /\ m_size m' = m_size m /\
  ((m_size m < m_used m + length p)%nat -> r = ARCHIVE_FATAL /\ m' = m) /\
  ((m_used m + length p <= m_size m)%nat ->
     r = Z.of_nat (length p) /\ m_data m' = m_data m ++ p /\ m_used m' = (m_used m + length p)%nat).
Proof. exact memory_write_spec. Qed.
Print Assumptions C09_memory_write_bounded.

(* the memory sink behind the blocking layer, every buffer size: used <= size at the end, the
   buffer holds exactly the accepted bytes; if every call returned OK it holds data ++ zero padding;
   a buffer smaller than the data makes some call return an error *)
Theorem C09_memory_sink : forall bs bibl size chunks m' res,
  session memory_write bs bibl (mkMem 0 size []) chunks = (m', res) ->
  (m_used m' <= size)%nat /\ m_size m' = size /\ length (m_data m') = m_used m' /\
  m_data m' = acc (flat res) /\
  (all_ok res -> exists n, m_data m' = concat chunks ++ zeros n) /\
  ((size < length (concat chunks))%nat -> ~ all_ok res).
Proof. exact memory_session. Qed.
Print Assumptions C09_memory_sink.

(* The API-level executable model compared with the real library by the correspondence check
   (api_run: archive_write_open, write_header, write_data.., close, free on the raw format) is, on
   that call sequence, exactly the session the theorems above speak about; the client close
   callback is invoked once and nothing stays allocated. *)
Theorem C09_api_model_is_session : forall (C : Type) (cb : C -> bytes -> C * Z),
  (forall c p, snd (cb c p) <= Z.of_nat (length p)) ->
  forall fm bs bibl c chunks c' res, session cb bs bibl c chunks = (c', res) ->
  exists a' results,
    api_run cb fm bs (fst (api_open bibl ARCHIVE_OK false c))
            (OHeader :: map OData chunks ++ [OClose; OFree]) = (a', results) /\
    map view results = ([], ARCHIVE_OK) :: res ++ [([], ARCHIVE_OK)] /\
    a_cb a' = c' /\ a_closer a' = 1%nat /\ a_leaked a' = false /\ a_state a' = SClosed.
Proof. exact @api_session. Qed.
Print Assumptions C09_api_model_is_session.

(* close, then free: whatever came before (failed open or write callbacks, calls in the wrong
   state, state FATAL), the client filter's state and block buffer are released *)
Theorem C09_close_then_free_no_leak : forall (C : Type) (cb : C -> bytes -> C * Z)
    fm bs bibl oret fb c ops a' res,
  ~ In OFree ops ->
  api_run cb fm bs (fst (api_open bibl oret fb c)) (ops ++ [OClose; OFree]) = (a', res) ->
  a_leaked a' = false.
Proof. exact @close_then_free_no_leak. Qed.
Print Assumptions C09_close_then_free_no_leak.

(* archive_write_free on a handle in state FATAL.  [fm : free_mode] is what _archive_write_free
   does there; it is read from the source on every run (Gen/WriteCore.v, WriteCoreRun.v:
   tree_free_mode) and is FreeClosesFilters for the current tree: free runs
   __archive_write_filters_close, i.e. archive_write_client_close (pending padded block through the
   write callback, client closer, release), and returns the worst status. *)
Theorem C09_free_in_fatal_state_closes : forall (C : Type) (cb : C -> bytes -> C * Z) bs a,
  a_state a = SFatal -> api_step cb FreeClosesFilters bs a OFree = api_close_core cb bs a.
Proof. exact @free_in_fatal_is_close. Qed.
Print Assumptions C09_free_in_fatal_state_closes.

(* Whatever the callbacks did and whatever calls were made (failed writes, misuse, state FATAL,
   with or without an explicit close): once the handle is freed nothing of the client filter stays
   allocated, the filter is closed and the client close callback has been invoked exactly once -
   for every free_mode except the snapshot's FreeSkips. *)
Theorem C09_free_releases_client : forall (C : Type) (cb : C -> bytes -> C * Z) fm bs bibl fb c ops a' res,
  fm <> FreeSkips ->
  api_run cb fm bs (fst (api_open bibl ARCHIVE_OK fb c)) (ops ++ [OFree]) = (a', res) ->
  a_leaked a' = false /\ a_fopen a' = false /\ a_closer a' = 1%nat.
Proof. exact @free_releases_client. Qed.
Print Assumptions C09_free_releases_client.

Theorem C09_no_leak : forall (C : Type) (cb : C -> bytes -> C * Z) fm bs ops a a' res,
  fm <> FreeSkips -> api_run cb fm bs a ops = (a', res) -> a_leaked a' = a_leaked a.
Proof. exact @free_no_leak. Qed.
Print Assumptions C09_no_leak.

(* a callback that fails during free (state FATAL, pending block) makes free return ARCHIVE_FATAL:
   raw, bs = 4, "\1\2", a second write_header (refused: state FATAL), free with a failing callback *)
Example C09_free_reports_failure :
  let '(a, res) := api_run plan_cb FreeClosesFilters 4 (fst (api_open (-1) ARCHIVE_OK false [Fail]))
                           [OHeader; OData [1; 2]%N; OHeader; OFree] in
  map (fun r => snd r) res = [ARCHIVE_OK; 2; ARCHIVE_FATAL; ARCHIVE_FATAL] /\
  a_leaked a = false /\ a_closer a = 1%nat.
Proof. vm_compute. repeat split. Qed.

(* History (the pinned snapshot, FreeSkips; finding C09:free-in-fatal-state:client-not-closed, since
   repaired in /repo): free WITHOUT a preceding close on a handle in state FATAL skipped the close, so
   the opened client filter was never closed, its state and block buffer stayed allocated and the
   client close callback was never called.  Witness: raw format, a second write_header, free. *)
Theorem C09_free_skipping_close_leaked :
  exists bs ops,
    let '(a, res) := api_run plan_cb FreeSkips bs (fst (api_open (-1) ARCHIVE_OK false [])) ops in
    last ops OClose = OFree /\ map (fun r => snd r) res = [ARCHIVE_OK; ARCHIVE_FATAL; ARCHIVE_OK] /\
    a_leaked a = true /\ a_closer a = 0%nat.
Proof. exists 8%nat, [OHeader; OHeader; OFree]. vm_compute. repeat split. Qed.
Print Assumptions C09_free_skipping_close_leaked.

(* non-vacuity: a concrete run with short writes and a failure meets the hypotheses of (c)/(d), and
   a concrete accepting run shows full blocks and the padded last block *)
Example C09_nonvacuous :
  let '(_, res) := session plan_cb 4 (-1) [Accept 3; Accept 1; Accept 2] [[1; 2; 3; 4; 5]; [6; 7; 8; 9; 10; 11; 12]]%N in
  map (fun i => (i_off i, i_ret i)) (flat res) = [(4%nat, 3); (4%nat, 1); (3%nat, 2); (1%nat, 1); (4%nat, 4); (4%nat, 4)] /\
  acc (flat res) = [1; 2; 3; 4; 5; 6; 7; 8; 9; 10; 11; 12; 0; 0; 0]%N /\
  map snd res = [ARCHIVE_OK; ARCHIVE_OK; ARCHIVE_OK].
Proof. vm_compute. repeat split. Qed.

Example C09_nonvacuous_accepting :
  let '(_, res) := session plan_cb 4 3 [] [[1; 2; 3]; [4; 5; 6; 7; 8; 9]; [10]]%N in
  map (fun i => (i_off i, i_ret i)) (flat res) = [(4%nat, 4); (4%nat, 4); (3%nat, 3)] /\
  acc (flat res) = [1; 2; 3; 4; 5; 6; 7; 8; 9; 10; 0]%N.
Proof. vm_compute. repeat split. Qed.

Example C09_nonvacuous_fail :
  let '(_, res) := session plan_cb 4 (-1) [Accept 4; Fail] [[1; 2; 3; 4; 5; 6; 7; 8; 9]]%N in
  map snd res = [ARCHIVE_FATAL; ARCHIVE_OK] /\
  acc (upto_fail (flat res)) = [1; 2; 3; 4]%N.
Proof. vm_compute. repeat split. Qed.
