(* C06 - Headers and data do not depend on how entry bodies are consumed.
   Property theorems only; each is closed by [exact] of a lemma of IO/ReadDataProofs.v.

   The models (IO/ReadDataDefs.v) carry two switches, because the pinned tree violates the property
   in two places of the modelled code and the theorems are about the repaired code:
     fx  : archive_read_data, what happens when the format answers ARCHIVE_EOF
           (false = pinned: return at once; true = repaired: zero-fill up to the end-of-entry offset first);
     fxs : archive_read_format_tar_skip, which sparse-list entries are skipped
           (false = pinned: only those that are not holes; true = repaired: all of them).
   props/C06.py finds out which variant the tree under check contains and runs the correspondence
   against that variant; the [_refuted] theorems below are about the pinned variants. *)
From Coq Require Import List ZArith NArith Bool Lia.
From LA Require Import Base.Val Gen.Defines IO.ReadDataDefs IO.ReadDataProofs.
Import ListNotations.
Local Open Scope Z_scope.

(* Each call of archive_read_data returns at most s bytes (any state, any block source - malformed
   ones included -, both loops), and a non-negative return value is the number of bytes delivered. *)
Theorem C06_read_data_le : forall fx st src s ret w st' src',
  read_data_call fx st src s = (ret, w, st', src') -> 0 <= s ->
  ret <= s /\ blen (visible ret w) <= s /\ (0 <= ret -> ret = blen (visible ret w)).
Proof. exact read_data_le. Qed.
Print Assumptions C06_read_data_le.

(* Repaired loop.  For every well-formed block list (offsets increasing, blocks not overlapping,
   end-of-entry offset absent or at/after the last block) and EVERY sequence of positive request
   sizes: the returned bytes, concatenated, are the first (sum of the requests) bytes of the dense
   rendering - leading, interior and trailing holes zero-filled; every call returns a byte count
   (never an error) that is at most its request.  No bound on sizes or on the number of blocks. *)
Theorem C06_read_data_dense : forall bl eof rs,
  wf_from 0 bl eof -> Forall (fun s => 0 < s) rs ->
  let l := fst (fst (read_data_seq true r_init (src_of bl eof) rs)) in
  concat (map snd l) = firstn (Z.to_nat (sumz rs)) (render bl eof) /\ Forall2 call_ok rs l.
Proof. exact read_data_dense. Qed.
Print Assumptions C06_read_data_dense.

(* hence the bytes do not depend on the buffer sizes *)
Theorem C06_read_data_buffer_independent : forall bl eof rs1 rs2,
  wf_from 0 bl eof -> Forall (fun s => 0 < s) rs1 -> Forall (fun s => 0 < s) rs2 -> sumz rs1 = sumz rs2 ->
  concat (map snd (fst (fst (read_data_seq true r_init (src_of bl eof) rs1)))) =
  concat (map snd (fst (fst (read_data_seq true r_init (src_of bl eof) rs2)))).
Proof. exact read_data_buffer_independent. Qed.
Print Assumptions C06_read_data_buffer_independent.

(* Both loops (the pinned one included) deliver the dense rendering when the entry has no trailing
   hole: exactly the inputs the pinned code handles. *)
Theorem C06_read_data_dense_no_trailing_hole : forall fx bl eof rs,
  wf_from 0 bl eof -> no_trailing 0 bl eof -> Forall (fun s => 0 < s) rs ->
  let l := fst (fst (read_data_seq fx r_init (src_of bl eof) rs)) in
  concat (map snd l) = firstn (Z.to_nat (sumz rs)) (render bl eof) /\ Forall2 call_ok rs l.
Proof. exact read_data_dense_no_trailing_hole. Qed.
Print Assumptions C06_read_data_dense_no_trailing_hole.

(* F-C06-1.  The statement of C06_read_data_dense is FALSE of the pinned loop: an entry of size 10000
   with data only at [1000,1100) read with two requests of 1100 bytes delivers 1100 bytes and then 0,
   because  if (r == ARCHIVE_EOF) return (bytes_read);  returns before the trailing hole is filled
   when the end of the data is met at the start of a call. *)
Theorem C06_read_data_dense_refuted :
  exists bl eof rs, wf_from 0 bl eof /\ Forall (fun s => 0 < s) rs /\
    concat (map snd (fst (fst (read_data_seq false r_init (src_of bl eof) rs)))) <>
    firstn (Z.to_nat (sumz rs)) (render bl eof).
Proof. exact read_data_dense_refuted. Qed.
Print Assumptions C06_read_data_dense_refuted.

(* archive_read_data_block hands the format's blocks through unchanged, then the end-of-entry
   offset; so the rendering of what it returns is [render], the same bytes archive_read_data delivers *)
Theorem C06_read_block_all : forall bl eof cur,
  read_block_all (map ev_of bl) eof cur =
  map (fun b => (ARCHIVE_OK, fst b, snd b)) bl ++
  [(ARCHIVE_EOF, match eof with Some o => o | None => fold_left (fun _ b => fst b) bl cur end, [])].
Proof. exact read_block_all_blocks. Qed.
Print Assumptions C06_read_block_all.

(* next_header over scripted entries whose callbacks only return blocks: every header comes back
   ARCHIVE_OK and the run ends with ARCHIVE_EOF for EVERY list of client actions on every entry
   (archive_read_data with any sizes, blocks, a prefix, explicit skip, nothing, any interleaving),
   with or without a format skip function, for both loops. *)
Theorem C06_headers_independent : forall fx hs es res fin srcs,
  Forall (fun e => bo (ec_src e)) es ->
  run_entries fx hs ARCHIVE_OK es = (res, fin, srcs) ->
  map fst res = map (fun _ => ARCHIVE_OK) es /\ fin = ARCHIVE_EOF.
Proof. exact headers_independent. Qed.
Print Assumptions C06_headers_independent.

(* tar reader: for a well-formed sparse list the zero-copy blocks have increasing, non-overlapping
   offsets and stay within the entry's size, whatever the chunking of the input and the number of calls *)
Theorem C06_blocks_within_size : forall n t sm pos,
  wf_sl pos (t_sl t) (t_disk t) -> 0 <= t_ebr t -> 0 < sm_chunk sm ->
  within pos (t_disk t) (fst (fst (tar_read_all n t sm))).
Proof. exact blocks_within_size. Qed.
Print Assumptions C06_blocks_within_size.

(* tar reader: after ANY number k of block reads, the skip function leaves the input at the position
   where reading every block up to ARCHIVE_EOF leaves it (which is reached, without error): padding,
   bytes handed out but not yet consumed and sparse holes are accounted for exactly.  Holds for the
   repaired skip function on every state, for the pinned one on sparse lists without Solaris
   hole entries. *)
Theorem C06_skip_equiv : forall fxs k n t sm,
  wfT t sm -> (fxs = true \/ no_holes (t_sl t)) -> (Z.to_nat (t_ebr t) + 1 <= n)%nat ->
  let '(_, t1, sm1) := tar_read_all k t sm in
  let '(rc, _, sm2) := tar_skip fxs t1 sm1 in
  let '(l, _, sm3) := tar_read_all n t sm in
  rc = ARCHIVE_OK /\ (exists b, In b l /\ fst (fst (fst b)) = ARCHIVE_EOF) /\ sm_pos sm2 = sm_pos sm3.
Proof. exact skip_equiv. Qed.
Print Assumptions C06_skip_equiv.

(* F-C06-2.  With Solaris SUN.holesdata entries (holes stored in the archive, consumed by the read
   path) the pinned skip function stops short: data [0,100), hole [100,1000), data [1000,1200), 336
   bytes of padding: skip leaves the input at 636, reading everything at 1536. *)
Theorem C06_skip_equiv_refuted :
  exists t sm, wfT t sm /\
    sm_pos (snd (tar_skip false t sm)) <> sm_pos (snd (tar_read_all 2000 t sm)) /\
    sm_pos (snd (tar_skip true t sm)) = sm_pos (snd (tar_read_all 2000 t sm)).
Proof. exact skip_equiv_refuted. Qed.
Print Assumptions C06_skip_equiv_refuted.

(* non-vacuity: leading, interior and trailing hole, an empty block, three different request
   sequences; the hypotheses hold and the repaired loop really delivers the 40-byte rendering *)
Definition ex_blocks : list (Z * bytes) := [(3, [1; 2; 3]%N); (10, []); (12, [4; 5]%N); (14, [6]%N)].
Example C06_nonvacuous :
  wf_from 0 ex_blocks (Some 40) /\
  length (render ex_blocks (Some 40)) = 40%nat /\
  concat (map snd (fst (fst (read_data_seq true r_init (src_of ex_blocks (Some 40)) [1; 1; 5; 8; 100; 7])))) = render ex_blocks (Some 40) /\
  concat (map snd (fst (fst (read_data_seq true r_init (src_of ex_blocks (Some 40)) [15; 15; 15])))) = render ex_blocks (Some 40) /\
  map fst (fst (fst (read_data_seq true r_init (src_of ex_blocks (Some 40)) [15; 15; 15]))) = [15; 15; 10] /\
  map fst (fst (fst (read_data_seq false r_init (src_of ex_blocks (Some 40)) [15; 15; 15]))) = [15; 0; 15].
Proof. split; [cbn; lia|]. vm_compute. repeat split; reflexivity. Qed.

Example C06_nonvacuous_tar :
  let t := mkTar [mkSB 100 50 false; mkSB 1000 70 false] 120 0 392 5000 in
  let sm := mkStream 2048 100 0 in
  wfT t sm /\ wf_sl 0 (t_sl t) (t_disk t) /\
  map (fun b => let '(rc, off, sz, _) := b in (rc, off, sz)) (fst (fst (tar_read_all 10 t sm))) =
    [(0, 100, 50); (0, 1000, 50); (0, 1050, 20); (1, 5000, 0)] /\
  sm_pos (snd (tar_read_all 10 t sm)) = 512 /\ sm_pos (snd (tar_skip false t sm)) = 512.
Proof.
  cbv zeta. split; [|split].
  - unfold wfT, T. cbn. repeat split; try lia. repeat constructor; cbn; lia.
  - cbn. lia.
  - vm_compute. repeat split; reflexivity.
Qed.
