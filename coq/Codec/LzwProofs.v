(* C01 - the compress (.Z) decoder: for EVERY input, every state reached from compress_bidder_init satisfies an
   invariant under which
     - the expansion of a code follows a strictly decreasing prefix chain: it terminates, and pushes at most
       65282 bytes onto the 65300-byte stack;
     - suffix[] / prefix[] (65536 entries) and mask[] (17 entries) are never indexed outside their bounds;
     - the recursion of next_code on reset codes ends (each reset code uses up input).
   Proofs about Codec/LzwDefs.v. *)
From Coq Require Import List ZArith NArith Bool Lia Arith.
From LA Require Import Base.Val Codec.LzwDefs.
Import ListNotations.
Local Open Scope N_scope.

(* ---------------------------------------------------------------- getbits *)
Definition ctl_eq (a b : lz) : Prop :=
  bits a = bits b /\ secend a = secend b /\ free_ent a = free_ent b /\ oldcode a = oldcode b /\
  finbyte a = finbyte b /\ maxcode a = maxcode b /\ maxbits a = maxbits b /\ use_reset a = use_reset b /\
  pfx a = pfx b /\ sfx a = sfx b.

Lemma ctl_eq_refl : forall s, ctl_eq s s.
Proof. intro s. unfold ctl_eq. repeat split; reflexivity. Qed.
Lemma ctl_eq_trans : forall a b c, ctl_eq a b -> ctl_eq b c -> ctl_eq a c.
Proof. unfold ctl_eq. intros a b c H1 H2. intuition congruence. Qed.

Lemma fill_spec : forall fuel n bb ba ins i ok bb' ba' ins' i',
  fill fuel n bb ba ins i = (ok, (bb', ba', ins', i')) ->
  (length i' <= length i)%nat /\
  (ok = true -> n <= ba' /\ (ba < n -> ba' < n + 8 /\ (length i' < length i)%nat)).
Proof.
  induction fuel as [| f IH]; intros n bb ba ins i ok bb' ba' ins' i' H; cbn [fill] in H.
  - destruct (n <=? ba) eqn:E; inversion H; subst; clear H.
    + apply N.leb_le in E. split; [lia |]. intros _. split; [exact E | lia].
    + split; [lia | discriminate].
  - destruct (n <=? ba) eqn:E.
    + inversion H; subst; clear H. apply N.leb_le in E. split; [lia |]. intros _. split; [exact E | lia].
    + apply N.leb_gt in E. destruct i as [| b r].
      * inversion H; subst. split; [lia | discriminate].
      * destruct (IH _ _ _ _ _ _ _ _ _ _ H) as [L K]. cbn [length]. split; [lia |].
        intro Hok. destruct (K Hok) as [A B]. split; [exact A |]. intros _. split.
        -- destruct (N.lt_ge_cases (ba + 8) n) as [C | C].
           ++ destruct (B C) as [B1 _]. lia.
           ++ (* the byte just fetched was enough: the recursive call returns at once *)
              destruct f as [| f']; cbn [fill] in H;
                (assert (E2 : (n <=? ba + 8) = true) by (apply N.leb_le; lia)); rewrite E2 in H;
                inversion H; subst; lia.
        -- lia.
Qed.

Lemma ctl_eq_set_io : forall s a b c d, ctl_eq s (set_io s a b c d).
Proof. intros. unfold ctl_eq. cbn. repeat split; reflexivity. Qed.

Lemma fill_fail : forall fuel n bb ba ins i bb' ba' ins' i',
  fill fuel n bb ba ins i = (false, (bb', ba', ins', i')) -> n <= ba + 8 * N.of_nat fuel ->
  i' = [] /\ ba' < n.
Proof.
  induction fuel as [| f IH]; intros n bb ba ins i bb' ba' ins' i' H Hn; cbn [fill] in H.
  - assert (E : (n <=? ba) = true) by (apply N.leb_le; lia). rewrite E in H. discriminate.
  - destruct (n <=? ba) eqn:E; [discriminate |]. apply N.leb_gt in E.
    destruct i as [| b r].
    + inversion H; subst. split; [reflexivity | exact E].
    + apply (IH _ _ _ _ _ _ _ _ _ H). lia.
Qed.

Lemma getbits_spec : forall s n r s1, getbits s n = (r, s1) -> n <= 16 -> bavail s < n ->
  ctl_eq s s1 /\ oob s1 = oob s /\ (length (inp s1) <= length (inp s))%nat /\
  (forall c, r = Some c -> c < 2 ^ n /\ bavail s1 <= 7 /\ (length (inp s1) < length (inp s))%nat) /\
  (r = None -> inp s1 = [] /\ bavail s1 < n).
Proof.
  intros s n r s1 H Hn Hb. unfold getbits in H.
  destruct (fill 3 n (bitbuf s) (bavail s) (insec s) (inp s)) as [ok [[[bb ba] ins] i]] eqn:F.
  destruct (fill_spec _ _ _ _ _ _ _ _ _ _ _ F) as [L K].
  destruct ok.
  - destruct (K eq_refl) as [A B]. destruct (B Hb) as [B1 B2].
    assert (M : (MASK_SIZE <=? n) = false) by (apply N.leb_gt; unfold MASK_SIZE; lia).
    rewrite M in H. inversion H; subst; clear H. cbn.
    split; [apply ctl_eq_set_io |]. split; [reflexivity |]. split; [lia |]. split; [| discriminate].
    intros c Hc. inversion Hc; subst. split; [apply N.mod_lt; apply N.pow_nonzero; lia |]. split; lia.
  - destruct (fill_fail _ _ _ _ _ _ _ _ _ _ F ltac:(cbn; lia)) as [E1 E2].
    inversion H; subst; clear H. cbn. split; [apply ctl_eq_set_io |]. split; [reflexivity |]. split; [exact L |].
    split; [intros c Hc; discriminate |]. intros _. split; [reflexivity | exact E2].
Qed.

Lemma skip_junk_spec : forall k s ok s', skip_junk k s = (ok, s') -> bavail s <= 7 ->
  ctl_eq s s' /\ oob s' = oob s /\ (length (inp s') <= length (inp s))%nat /\
  (ok = true -> bavail s' <= 7) /\ (ok = false -> inp s' = [] /\ bavail s' < 8).
Proof.
  induction k as [| k IH]; intros s ok s' H Hb; cbn [skip_junk] in H.
  - inversion H; subst. split; [apply ctl_eq_refl |]. repeat split; auto; discriminate.
  - destruct (getbits s 8) as [r s1] eqn:G.
    destruct (getbits_spec _ _ _ _ G ltac:(lia) ltac:(lia)) as (C & O & L & K & Kn).
    destruct r as [c |].
    + destruct (K c eq_refl) as (_ & B1 & _).
      destruct (IH _ _ _ H B1) as (C2 & O2 & L2 & K2 & K3).
      split; [eapply ctl_eq_trans; eauto |]. split; [congruence |]. split; [lia |]. split; [exact K2 | exact K3].
    + inversion H; subst. destruct (Kn eq_refl) as [E1 E2].
      split; [exact C |]. split; [exact O |]. split; [exact L |]. split; [discriminate |]. intros _. split; assumption.
Qed.

(* ---------------------------------------------------------------- the prefix chain *)
Lemma walk_ok : forall pf sf, (forall c, 256 <= c -> pf c < c) -> forall fuel c acc bad,
  c < 256 + N.of_nat fuel -> c < 65536 ->
  exists lit acc', walk fuel pf sf c acc bad = Some (lit, acc', bad) /\ lit < 256 /\
    (length acc' <= length acc + N.to_nat (c - 255))%nat.
Proof.
  intros pf sf Hpf. induction fuel as [| f IH]; intros c acc bad Hf Hc; cbn [walk].
  - assert (E : (c <? 256) = true) by (apply N.ltb_lt; lia). rewrite E.
    exists c, acc. split; [reflexivity |]. split; lia.
  - destruct (c <? 256) eqn:E.
    + apply N.ltb_lt in E. exists c, acc. split; [reflexivity |]. split; lia.
    + apply N.ltb_ge in E. pose proof (Hpf c E) as P.
      assert (T : (TABLE_SIZE <=? c) = false) by (apply N.leb_gt; unfold TABLE_SIZE; lia).
      rewrite T, orb_false_r.
      destruct (IH (pf c) (sf c :: acc) bad ltac:(lia) ltac:(lia)) as (lit & acc' & W & L1 & L2).
      exists lit, acc'. split; [exact W |]. split; [exact L1 |]. cbn [length] in L2. lia.
Qed.

(* ---------------------------------------------------------------- the invariant *)
Record Inv (s : lz) : Prop := mkInv {
  i_bits : 9 <= bits s <= 16;
  i_mb : maxbits s <= 16;
  i_mc : maxcode s = 2 ^ maxbits s;
  i_ba1 : bavail s < bits s;
  i_ba2 : bavail s <= 7 \/ inp s = [];
  i_pf : forall c, 256 <= c -> pfx s c < c;
  i_old : forall o, oldcode s = Some o -> o < 65536 /\ (o < free_ent s \/ maxcode s <= free_ent s);
  i_fe : 256 <= free_ent s /\ (free_ent s <= maxcode s \/ free_ent s <= 257);
  i_b16 : bits s = 16 -> (secend s = 65536 /\ maxbits s = 16) \/ (secend s = 65535 /\ maxbits s < 16)
}.

Lemma pow2_le_16 : forall b, b <= 16 -> 2 ^ b <= 65536.
Proof. intros b H. change 65536 with (2 ^ 16). apply N.pow_le_mono_r; lia. Qed.

Lemma init_inv : forall flags rest s0, init_state flags rest = Some s0 -> Inv s0 /\ oob s0 = false.
Proof.
  intros flags rest s0 H. unfold init_state in H.
  destruct (16 <? N.land flags 31) eqn:E; [discriminate |]. apply N.ltb_ge in E.
  inversion H; subst; clear H. split; [| reflexivity].
  constructor; cbn.
  - lia.
  - exact E.
  - reflexivity.
  - lia.
  - left. lia.
  - intros c Hc. lia.
  - intros o Ho. discriminate.
  - destruct (negb (N.land flags 128 =? 0)); lia.
  - intro B. discriminate.
Qed.

Lemma inv_ctl : forall s s1, Inv s -> ctl_eq s s1 -> bavail s1 < bits s1 -> (bavail s1 <= 7 \/ inp s1 = []) -> Inv s1.
Proof.
  intros s s1 I (E1 & E2 & E3 & E4 & E5 & E6 & E7 & E8 & E9 & E10) B1 B2. destruct I.
  constructor; rewrite <- ?E1, <- ?E2, <- ?E3, <- ?E4, <- ?E6, <- ?E7, <- ?E9; auto.
  rewrite E1. exact B1.
Qed.

(* the step behind an accepted code *)
Lemma after_code_inv : forall s code lit, Inv s -> bavail s <= 7 -> oob s = false -> code < 65536 ->
  code <= free_ent s -> (code = free_ent s -> oldcode s <> None) ->
  Inv (after_code s code lit) /\ oob (after_code s code lit) = false.
Proof.
  intros s code lit I Hba7 Ho Hc Hle Hkw. destruct I as [Ib Imb Imc Iba1 Iba2 Ipf Iold Ife Ib16].
  pose proof (pow2_le_16 _ Imb) as Pm.
  unfold after_code.
  set (add := (free_ent s <? maxcode s) && match oldcode s with Some _ => true | None => false end).
  set (fe := if add then free_ent s + 1 else free_ent s).
  set (grow := secend s <? fe).
  assert (Hadd : add = true -> free_ent s < maxcode s /\ exists o, oldcode s = Some o).
  { unfold add. intro A. apply andb_true_iff in A as [A1 A2]. apply N.ltb_lt in A1. split; [exact A1 |].
    destruct (oldcode s) as [o |]; [exists o; reflexivity | discriminate]. }
  assert (Hfe : free_ent s <= fe /\ fe <= free_ent s + 1 /\ (fe <= maxcode s \/ fe <= 257) /\ 256 <= fe).
  { unfold fe. destruct add eqn:A.
    - destruct (Hadd eq_refl) as [A1 _]. lia.
    - destruct Ife as [F1 F2]. lia. }
  destruct Hfe as (F1 & F2 & F3 & F4).
  (* at width 16 the table cannot outgrow the section *)
  assert (Hnogrow : bits s = 16 -> grow = false).
  { intro B. unfold grow. apply N.ltb_ge. destruct (Ib16 B) as [[S1 M1] | [S1 M1]].
    - rewrite Imc, M1 in F3. change (2 ^ 16) with 65536 in F3. lia.
    - assert (P15 : 2 ^ maxbits s <= 2 ^ 15) by (apply N.pow_le_mono_r; lia).
      change (2 ^ 15) with 32768 in P15. rewrite Imc in F3. lia. }
  split.
  - constructor; cbn.
    + destruct grow eqn:G; [| exact Ib].
      destruct (N.eq_dec (bits s) 16) as [B | B]; [pose proof (Hnogrow B) as N0; congruence | lia].
    + exact Imb.
    + exact Imc.
    + destruct grow; lia.
    + left. exact Hba7.
    + intros c Hc256. destruct add eqn:A; [| apply Ipf; exact Hc256].
      unfold upd. destruct (N.eqb_spec c (free_ent s)) as [Ec | Ec]; [| apply Ipf; exact Hc256].
      subst c. destruct (Hadd eq_refl) as [A1 [o Eo]]. rewrite Eo.
      destruct (Iold o Eo) as [_ [L | L]]; lia.
    + intros o Eo. inversion Eo; subst o. split; [exact Hc |].
      destruct (N.eq_dec code (free_ent s)) as [E | E].
      * (* KwKwK *)
        unfold fe, add. destruct (oldcode s) as [o' |] eqn:Eo'; [| exfalso; apply (Hkw E); reflexivity].
        rewrite andb_true_r. destruct (free_ent s <? maxcode s) eqn:L.
        -- left. lia.
        -- apply N.ltb_ge in L. right. lia.
      * left. lia.
    + split; [exact F4 | exact F3].
    + intro B16. destruct grow eqn:G.
      * (* the width has just become 16 *)
        destruct (N.eqb_spec (bits s + 1) (maxbits s)) as [E | E].
        -- left. split; [| lia]. rewrite Imc. rewrite <- E, B16. reflexivity.
        -- right. rewrite B16. split; [reflexivity | lia].
      * apply Ib16. exact B16.
  - cbn. rewrite Ho. cbn. destruct add eqn:A; [| reflexivity]. cbn.
    destruct (Hadd eq_refl) as [A1 _]. apply N.leb_gt. unfold TABLE_SIZE. lia.
Qed.

(* ---------------------------------------------------------------- next_code *)
Lemma walk_fuel_enough : forall c, c < 65536 -> c < 256 + N.of_nat WALK_FUEL.
Proof. intros c H. unfold WALK_FUEL. rewrite N2Nat.id. lia. Qed.

Theorem next_code_safe : forall fuel s r s', Inv s -> oob s = false -> next_code fuel s = (r, s') ->
  Inv s' /\ oob s' = false /\
  (forall out pushed, r = NOk out pushed -> pushed <= 65282 /\ out <> []) /\
  (r = NStuck -> (fuel <= length (inp s))%nat) /\
  (length (inp s') <= length (inp s))%nat.
Proof.
  induction fuel as [| f IH]; intros s r s' I Ho H; cbn [next_code] in H.
  - inversion H; subst. split; [exact I |]. split; [exact Ho |]. split; [intros; discriminate |]. split; lia.
  - destruct (getbits s (bits s)) as [g s1] eqn:G.
    pose proof (i_bits _ I) as Ib.
    destruct (getbits_spec _ _ _ _ G ltac:(lia) (i_ba1 _ I)) as (C & O & L & K & Kn).
    assert (Cb : bits s1 = bits s) by (destruct C as (E & _); symmetry; exact E).
    destruct g as [code |].
    2:{ (* end of input *)
        inversion H; subst. destruct (Kn eq_refl) as [E1 E2].
        split; [apply (inv_ctl s s' I C); [rewrite Cb; exact E2 | right; exact E1] |].
        split; [congruence |]. split; [intros; discriminate |]. split; [intro; discriminate | exact L]. }
    destruct (K code eq_refl) as (Hc & Hba & Hlen).
    assert (I1 : Inv s1) by (apply (inv_ctl s s1 I C); [rewrite Cb; lia | left; exact Hba]).
    assert (Ho1 : oob s1 = false) by congruence.
    assert (Hc16 : code < 65536) by (pose proof (pow2_le_16 (bits s) ltac:(lia)); lia).
    destruct ((code =? 256) && use_reset s1) eqn:R.
    + (* reset code *)
      set (s2 := set_io s1 (bitbuf s1) 0 (insec s1) (inp s1)) in H.
      destruct (skip_junk (N.to_nat ((bits s1 - insec s1 mod bits s1) mod bits s1)) s2) as [ok s3] eqn:SJ.
      destruct (skip_junk_spec _ _ _ _ SJ ltac:(cbn; lia)) as (C3 & O3 & L3 & K3 & K3n).
      assert (C13 : ctl_eq s1 s3) by (eapply ctl_eq_trans; [apply ctl_eq_set_io | exact C3]).
      assert (L13 : (length (inp s3) <= length (inp s1))%nat) by (cbn in L3; exact L3).
      destruct ok.
      * set (s4 := mkLz (bitbuf s3) (bavail s3) 0 (inp s3) 9 511 257 None (finbyte s3) (maxcode s3) (maxbits s3)
                        (use_reset s3) (pfx s3) (sfx s3) (oob s3)) in H.
        assert (I4 : Inv s4).
        { destruct C13 as (E1 & E2 & E3 & E4 & E5 & E6 & E7 & E8 & E9 & E10). destruct I1.
          pose proof (K3 eq_refl) as B3.
          constructor; cbn; rewrite <- ?E6, <- ?E7, <- ?E9; auto; try lia;
            try (intros o Eo; discriminate); try (intro B; discriminate). }
        assert (O4 : oob s4 = false) by (cbn; cbn in O3; congruence).
        destruct (IH s4 r s' I4 O4 H) as (A1 & A2 & A3 & A4 & A5).
        split; [exact A1 |]. split; [exact A2 |]. split; [exact A3 |]. cbn in A4, A5.
        split; [intro Hs; specialize (A4 Hs); lia | lia].
      * inversion H; subst. destruct (K3n eq_refl) as [E1 E2].
        split.
        { apply (inv_ctl s1 s' I1 C13); [| right; exact E1].
          destruct C13 as (Eb & _). rewrite <- Eb, Cb. lia. }
        split; [cbn in O3; congruence |]. split; [intros; discriminate |]. split; [intro; discriminate | lia].
    + (* an ordinary code *)
      destruct ((free_ent s1 <? code) || ((code =? free_ent s1) && match oldcode s1 with None => true | Some _ => false end)) eqn:V.
      * inversion H; subst. split; [exact I1 |]. split; [exact Ho1 |]. split; [intros; discriminate |].
        split; [intro; discriminate | lia].
      * apply orb_false_iff in V as [V1 V2]. apply N.ltb_ge in V1.
        assert (Hkw : code = free_ent s1 -> oldcode s1 <> None).
        { intros E Hn. rewrite Hn in V2. apply andb_false_iff in V2 as [V2 | V2]; [| discriminate].
          apply N.eqb_neq in V2. contradiction. }
        set (kw := free_ent s1 <=? code) in H.
        set (start := if kw then match oldcode s1 with Some o => o | None => 0 end else code) in H.
        assert (Hstart : start < 65536).
        { unfold start. destruct kw; [| exact Hc16]. destruct (oldcode s1) as [o |] eqn:Eo; [| lia].
          destruct (i_old _ I1 o Eo) as [Lo _]. exact Lo. }
        destruct (walk_ok (pfx s1) (sfx s1) (i_pf _ I1) WALK_FUEL start [] false (walk_fuel_enough _ Hstart) Hstart)
          as (lit & acc & W & Llit & Lacc).
        rewrite W in H. cbn [length] in Lacc.
        assert (Hpushed : N.of_nat (length acc) + 1 + (if kw then 1 else 0) <= 65282) by (destruct kw; lia).
        assert (S1 : (STACK_SIZE <? N.of_nat (length acc) + 1 + (if kw then 1 else 0)) = false)
          by (apply N.ltb_ge; unfold STACK_SIZE; lia).
        rewrite S1 in H. cbn [orb] in H. inversion H; subst; clear H.
        destruct (after_code_inv s1 code lit I1 Hba Ho1 Hc16 V1 Hkw) as [IA OA].
        split; [exact IA |]. split; [exact OA |].
        split; [intros out pushed E; inversion E; subst; split; [exact Hpushed | discriminate] |].
        split; [intro; discriminate |].
        unfold after_code. cbn. lia.
Qed.

(* from the parameters byte on: the first next_code of compress_bidder_init and every later one *)
Corollary init_next_code_safe : forall flags rest s0 fuel r s1,
  init_state flags rest = Some s0 -> next_code fuel s0 = (r, s1) ->
  Inv s1 /\ oob s1 = false /\ (forall out pushed, r = NOk out pushed -> pushed <= 65282 /\ out <> []) /\
  (r = NStuck -> (fuel <= length rest)%nat).
Proof.
  intros flags rest s0 fuel r s1 Hi Hn. destruct (init_inv _ _ _ Hi) as [I O].
  destruct (next_code_safe _ _ _ _ I O Hn) as (A & B & C & D & _).
  split; [exact A |]. split; [exact B |]. split; [exact C |]. intro Hs. specialize (D Hs).
  unfold init_state in Hi. destruct (16 <? N.land flags 31); [discriminate |]. inversion Hi; subst. cbn in D. exact D.
Qed.
