(* C01 - the compress (.Z) read filter (libarchive/archive_read_support_filter_compress.c): an LZW decoder fed
   by hostile input.  Model of getbits, next_code (reset code with its junk bytes, the validity check, the
   KwKwK case, the expansion through the dictionary onto the 65300-byte stack, the new entry, the growth of the
   code width), compress_bidder_init and compress_filter_read with its 64 KiB output blocks.
   Definitions only.  The dictionary is a pair of total functions (calloc'ed arrays: every entry starts as 0). *)
From Coq Require Import List ZArith NArith Bool.
From LA Require Import Base.Val.
Import ListNotations.
Local Open Scope N_scope.

Definition upd (f : N -> N) (k v : N) : N -> N := fun x => if x =? k then v else f x.

Definition STACK_SIZE : N := 65300.
Definition OUT_BLOCK : N := 65536.
Definition TABLE_SIZE : N := 65536.      (* suffix[65536], prefix[65536] *)
Definition MASK_SIZE : N := 17.          (* mask[0..16] *)

Record lz := mkLz {
  bitbuf : N; bavail : N; insec : N; inp : bytes;
  bits : N; secend : N; free_ent : N; oldcode : option N; finbyte : N;
  maxcode : N; maxbits : N; use_reset : bool;
  pfx : N -> N; sfx : N -> N;
  oob : bool                 (* model-only: an array was indexed outside its bounds *)
}.

Definition set_io (s : lz) (bb ba ins : N) (i : bytes) : lz :=
  mkLz bb ba ins i (bits s) (secend s) (free_ent s) (oldcode s) (finbyte s) (maxcode s) (maxbits s) (use_reset s)
       (pfx s) (sfx s) (oob s).
Definition set_oob (s : lz) : lz :=
  mkLz (bitbuf s) (bavail s) (insec s) (inp s) (bits s) (secend s) (free_ent s) (oldcode s) (finbyte s) (maxcode s)
       (maxbits s) (use_reset s) (pfx s) (sfx s) true.

(* the while loop of getbits: at most two bytes are needed for n <= 16 (three of fuel) *)
Fixpoint fill (fuel : nat) (n bb ba ins : N) (i : bytes) : bool * (N * N * N * bytes) :=
  if n <=? ba then (true, (bb, ba, ins, i))
  else match fuel with
       | O => (false, (bb, ba, ins, i))
       | S f => match i with
                | [] => (false, (bb, ba, ins, i))
                | b :: r => fill f n (N.lor bb (N.shiftl b ba)) (ba + 8) (ins + 1) r
                end
       end.

(* None = end of input (-1) *)
Definition getbits (s : lz) (n : N) : option N * lz :=
  let '(ok, (bb, ba, ins, i)) := fill 3 n (bitbuf s) (bavail s) (insec s) (inp s) in
  if ok then
    let s1 := set_io s (N.shiftr bb n) (ba - n) ins i in
    (Some (bb mod 2 ^ n), if MASK_SIZE <=? n then set_oob s1 else s1)
  else (None, set_io s bb ba ins i).

Fixpoint skip_junk (k : nat) (s : lz) : bool * lz :=
  match k with
  | O => (true, s)
  | S k' => match getbits s 8 with
            | (None, s1) => (false, s1)
            | (Some _, s1) => skip_junk k' s1
            end
  end.

(* "Generate output characters in reverse order": follow the prefix chain from [c]; the suffixes met, in output
   order, are accumulated in [acc]; None = the chain did not reach a literal within [fuel] steps *)
Fixpoint walk (fuel : nat) (pf sf : N -> N) (c : N) (acc : bytes) (bad : bool) : option (N * bytes * bool) :=
  if c <? 256 then Some (c, acc, bad)
  else match fuel with
       | O => None
       | S f => walk f pf sf (pf c) (sf c :: acc) (bad || (TABLE_SIZE <=? c))
       end.

(* more steps than the table has entries *)
Definition WALK_FUEL : nat := N.to_nat 65537.

Inductive nres :=
| NOk (out : bytes) (pushed : N)     (* the bytes of this code in output order; how deep the stack got *)
| NEof
| NFatal
| NStuck.                            (* model-only: the expansion never ends (a cycle in the dictionary) *)

Definition after_code (s : lz) (newcode lit : N) : lz :=
  let code' := free_ent s in
  let add := (code' <? maxcode s) && (match oldcode s with Some _ => true | None => false end) in
  let pf := if add then upd (pfx s) code' (match oldcode s with Some o => o | None => 0 end) else pfx s in
  let sf := if add then upd (sfx s) code' lit else sfx s in
  let fe := if add then code' + 1 else code' in
  let grow := secend s <? fe in
  let b := if grow then bits s + 1 else bits s in
  let se := if grow then (if b =? maxbits s then maxcode s else 2 ^ b - 1) else secend s in
  mkLz (bitbuf s) (bavail s) (if grow then 0 else insec s) (inp s) b se fe (Some newcode) lit (maxcode s) (maxbits s)
       (use_reset s) pf sf (oob s || (add && (TABLE_SIZE <=? code'))).

Fixpoint next_code (fuel : nat) (s : lz) : nres * lz :=
  match fuel with
  | O => (NStuck, s)
  | S f =>
    match getbits s (bits s) with
    | (None, s1) => (NEof, s1)
    | (Some code, s1) =>
      if (code =? 256) && use_reset s1 then
        let skip := (bits s1 - (insec s1 mod bits s1)) mod bits s1 in
        let s2 := set_io s1 (bitbuf s1) 0 (insec s1) (inp s1) in
        match skip_junk (N.to_nat skip) s2 with
        | (false, s3) => (NEof, s3)
        | (true, s3) =>
          next_code f (mkLz (bitbuf s3) (bavail s3) 0 (inp s3) 9 511 257 None (finbyte s3) (maxcode s3) (maxbits s3)
                            (use_reset s3) (pfx s3) (sfx s3) (oob s3))
        end
      else if (free_ent s1 <? code) || ((code =? free_ent s1) && (match oldcode s1 with None => true | Some _ => false end))
      then (NFatal, s1)
      else
        let kw := free_ent s1 <=? code in
        let start := if kw then (match oldcode s1 with Some o => o | None => 0 end) else code in
        match walk WALK_FUEL (pfx s1) (sfx s1) start [] false with
        | None => (NStuck, s1)
        | Some (lit, acc, bad) =>
          let pushed := N.of_nat (length acc) + 1 + (if kw then 1 else 0) in
          let out := lit :: acc ++ (if kw then [finbyte s1] else []) in
          let s2 := after_code s1 code lit in
          (NOk out pushed, if bad || (STACK_SIZE <? pushed) then set_oob s2 else s2)
        end
    end
  end.

Definition reset_fuel (s : lz) : nat := S (length (inp s)).

(* compress_bidder_init after the three header bytes: the parameters byte *)
Definition init_state (flags : N) (rest : bytes) : option lz :=
  let mb := N.land flags 31 in
  if 16 <? mb then None
  else
    let ur := negb (N.land flags 128 =? 0) in
    Some (mkLz 0 0 3 rest 9 511 (if ur then 257 else 256) None 0 (2 ^ mb) mb ur (fun _ => 0)
               (fun c => if c <? 256 then c else 0) false).

(* compress_filter_read: fill one output block; [pend] = what is still on the stack, in pop order *)
Inductive bres := BData (b : bytes) (eos : bool) | BFatal | BStuck.

Fixpoint read_block (fuel : nat) (s : lz) (pend : bytes) (got : bytes) (room : N) : bres * lz * bytes :=
  match fuel with
  | O => (BStuck, s, pend)
  | S f =>
    if room =? 0 then (BData (rev_append got []) false, s, pend)
    else match pend with
         | b :: r => read_block f s r (b :: got) (room - 1)
         | [] =>
           match next_code (reset_fuel s) s with
           | (NOk out _, s1) => read_block f s1 out got room
           | (NEof, s1) => (BData (rev_append got []) true, s1, [])
           | (NFatal, s1) => (BFatal, s1, [])
           | (NStuck, s1) => (BStuck, s1, [])
           end
         end
  end.

(* the whole stream as the layer above sees it: the blocks delivered and how it ends
   (0 = end of data, 1 = fatal error from the filter, 2 = the decoder does not terminate) *)
Fixpoint read_all (fuel : nat) (s : lz) (pend : bytes) (acc : list bytes) : list bytes * N * bool :=
  match fuel with
  | O => (rev acc, 2, oob s)
  | S f =>
    match read_block (S (N.to_nat OUT_BLOCK) + 2 * length (inp s) + length pend + 2) s pend [] OUT_BLOCK with
    | (BData b true, s1, _) => (rev (b :: acc), 0, oob s1)
    | (BData b false, s1, p1) => read_all f s1 p1 (b :: acc)
    | (BFatal, s1, _) => (rev acc, 1, oob s1)
    | (BStuck, s1, _) => (rev acc, 2, oob s1)
    end
  end.

(* input = the bytes behind the two magic bytes: parameters byte, then the codes.
   compress_bidder_init runs next_code once and ignores what it returns. *)
Definition decode (z : bytes) : option (list bytes * N * bool) :=
  match z with
  | [] => None
  | flags :: rest =>
    match init_state flags rest with
    | None => None
    | Some s0 =>
      let '(r, s1) := next_code (reset_fuel s0) s0 in
      let pend := match r with NOk out _ => out | _ => [] end in
      match r with
      | NStuck => Some ([], 2, oob s1)
      | _ => Some (read_all (S (length rest)) s1 pend [])
      end
    end
  end.
