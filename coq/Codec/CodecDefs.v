(* C03 - model of the uuencode / b64encode write filters, of the client re-blocking layer under
   them, of the uu read filter (bidder + decoder, both encodings), and an abstract model of the
   avail_in / avail_out drive loop used by the codec-library filters.

   Sources transcribed (pinned tree):
     archive_write_add_filter_b64encode.c   la_b64_encode, _open, _options(atol8), _write, _close
     archive_write_add_filter_uuencode.c    uu_encode,     _open, _options(atol8), _write, _close
     archive_write.c                        archive_write_client_write / _close
     archive_read_support_filter_uu.c       get_line, uudecode_bidder_bid, uudecode_filter_read
     archive_write_add_filter_gzip.c        drive_compressor / _write / _close  (shape shared by
                                            the bzip2 and xz filters), over an ABSTRACT codec
   Tables, LBYTES, literal header/trailer strings and defaults come from Gen/Codec.v, regenerated
   from the source on every run.

   Bytes are [N]; a byte string is [list N].  The two write functions
   archive_filter_b64encode_write / archive_filter_uuencode_write are line-for-line identical up
   to LBYTES and the line encoder, so one Gallina function [enc_write] is instantiated twice. *)
From Coq Require Import List ZArith NArith Bool.
From LA Require Import Base.Val Gen.Codec.
Import ListNotations.
Local Open Scope N_scope.

(* ------------------------------------------------------------------ small helpers *)
(* Some (firstn n p, skipn n p) when n <= length p, None otherwise: the C tests
   "length >= LBYTES" / "archive_strlen(buf) >= bs" followed by taking that many bytes *)
Fixpoint split_at (n : nat) (p : list N) : option (list N * list N) :=
  match n with
  | O => Some ([], p)
  | S k => match p with
           | [] => None
           | x :: t => match split_at k t with
                       | Some (a, b) => Some (x :: a, b)
                       | None => None
                       end
           end
  end.

Definition tbl (t : list N) (i : N) : N := nth (N.to_nat i) t 0.

(* ------------------------------------------------------------------ line encoders *)
(* la_b64_encode: 3 bytes -> 4 characters, '=' padding at the tail, '\n' *)
Definition b64c (c : N) : N := tbl b64_alphabet c.

Fixpoint b64_groups (p : list N) : list N :=
  match p with
  | p0 :: p1 :: p2 :: tl =>
      b64c (N.shiftr p0 2) ::
      b64c (N.lor (N.shiftl (N.land p0 3) 4) (N.shiftr (N.land p1 240) 4)) ::
      b64c (N.lor (N.shiftl (N.land p1 15) 2) (N.shiftr (N.land p2 192) 6)) ::
      b64c (N.land p2 63) :: b64_groups tl
  | [p0] =>
      [b64c (N.shiftr p0 2); b64c (N.shiftl (N.land p0 3) 4); 61; 61]
  | [p0; p1] =>
      [b64c (N.shiftr p0 2);
       b64c (N.lor (N.shiftl (N.land p0 3) 4) (N.shiftr (N.land p1 240) 4));
       b64c (N.shiftl (N.land p1 15) 2); 61]
  | [] => []
  end.

Definition la_b64_encode (p : list N) : list N := b64_groups p ++ [10].

(* uu_encode: "c ? c + 0x20 : '`'" *)
Definition UUENC (c : N) : N := if c =? 0 then 96 else c + 32.

Fixpoint uu_groups (p : list N) : list N :=
  match p with
  | p0 :: p1 :: p2 :: tl =>
      UUENC (N.shiftr p0 2) ::
      UUENC (N.lor (N.shiftl (N.land p0 3) 4) (N.shiftr (N.land p1 240) 4)) ::
      UUENC (N.lor (N.shiftl (N.land p1 15) 2) (N.shiftr (N.land p2 192) 6)) ::
      UUENC (N.land p2 63) :: uu_groups tl
  | [p0] =>
      [UUENC (N.shiftr p0 2); UUENC (N.shiftl (N.land p0 3) 4); 96; 96]
  | [p0; p1] =>
      [UUENC (N.shiftr p0 2);
       UUENC (N.lor (N.shiftl (N.land p0 3) 4) (N.shiftr (N.land p1 240) 4));
       UUENC (N.shiftl (N.land p1 15) 2); 96]
  | [] => []
  end.

Definition uu_encode (p : list N) : list N :=
  UUENC (N.of_nat (length p)) :: uu_groups p ++ [10].

(* ------------------------------------------------------------------ options, open *)
(* atol8: octal digits up to the first other character.  The C accumulates in an int64_t
   ("l <<= 3"), which is undefined beyond 21 digits; the model is the mathematical value, the
   callers only use "& 0777". *)
Fixpoint atol8 (s : list N) (l : N) : N :=
  match s with
  | c :: t => if (48 <=? c) && (c <=? 55) then atol8 t (N.lor (N.shiftl l 3) (c - 48)) else l
  | [] => l
  end.

(* printf("%o") *)
Fixpoint octal_digits (fuel : nat) (n : N) (acc : list N) : list N :=
  match fuel with
  | O => acc
  | S f => let acc' := (48 + n mod 8) :: acc in
           if n / 8 =? 0 then acc' else octal_digits f (n / 8) acc'
  end.
Definition fmt_o (n : N) : list N := octal_digits 22 n [].

Inductive enc_kind := KB64 | KUU.

Definition k_LB (k : enc_kind) : nat := match k with KB64 => b64_LBYTES | KUU => uu_LBYTES end.
Definition k_line (k : enc_kind) : list N -> list N :=
  match k with KB64 => la_b64_encode | KUU => uu_encode end.
Definition k_prefix (k : enc_kind) := match k with KB64 => b64_header_prefix | KUU => uu_header_prefix end.
Definition k_trailer (k : enc_kind) := match k with KB64 => b64_trailer | KUU => uu_trailer end.
Definition k_default_mode (k : enc_kind) := match k with KB64 => b64_default_mode | KUU => uu_default_mode end.
Definition k_default_name (k : enc_kind) := match k with KB64 => b64_default_name | KUU => uu_default_name end.
Definition k_default_bs (k : enc_kind) := match k with KB64 => b64_default_bs | KUU => uu_default_bs end.
Definition k_mode_mask (k : enc_kind) := match k with KB64 => b64_mode_mask | KUU => uu_mode_mask end.
(* code variants detected by the translator (Gen/Codec.v): the pinned tree has all of them false;
   they become true when the corresponding repair of fixes/C03-*.diff is present in the source *)
Definition k_mode_fixed3 (k : enc_kind) := match k with KB64 => b64_mode_fixed3 | KUU => uu_mode_fixed3 end.
Definition k_name_printable_only (k : enc_kind) :=
  match k with KB64 => b64_name_printable_only | KUU => uu_name_printable_only end.

(* state->mode after the optional "mode" option, state->name after the optional "name" option *)
Definition opt_mode (k : enc_kind) (o : option (list N)) : N :=
  match o with None => k_default_mode k | Some s => N.land (atol8 s 0) (k_mode_mask k) end.
(* variant k_name_printable_only: "if (*p < 0x20 || *p > 0x7e) return ARCHIVE_FAILED" over the
   (signed char) bytes of the value, before the name is stored *)
Definition name_rejected (k : enc_kind) (o : option (list N)) : bool :=
  match o with
  | None => false
  | Some s => k_name_printable_only k && existsb (fun c => (c <? 32) || (126 <? c)) s
  end.
Definition opt_name (k : enc_kind) (o : option (list N)) : list N :=
  match o with
  | None => k_default_name k
  | Some s => if name_rejected k o then k_default_name k else s
  end.

(* "%o" of the mode, or (variant k_mode_fixed3) "%o%o%o" of (mode>>6)&7, (mode>>3)&7, mode&7 *)
Definition fmt_mode (k : enc_kind) (mode : N) : list N :=
  if k_mode_fixed3 k
  then fmt_o (N.land (N.shiftr mode 6) 7) ++ fmt_o (N.land (N.shiftr mode 3) 7) ++ fmt_o (N.land mode 7)
  else fmt_o mode.

(* "begin-base64 %o %s\n" / "begin %o %s\n" *)
Definition enc_header (k : enc_kind) (mode : N) (name : list N) : list N :=
  k_prefix k ++ fmt_mode k mode ++ [32] ++ name ++ [10].

(* open: bs = 65536; if (bpb > bs) bs = bpb; else if (bpb != 0) bs -= bs % bpb; *)
Definition compute_bs (k : enc_kind) (bpb : N) : N :=
  let bs := k_default_bs k in
  if bs <? bpb then bpb else if bpb =? 0 then bs else bs - bs mod bpb.

(* ------------------------------------------------------------------ write / close *)
(* hold buffer (hold_len = length) and encoded_buff *)
Record wstate := mkW { w_hold : list N; w_buf : list N }.

(* for (; length >= LBYTES; length -= LBYTES, p += LBYTES) encode(p, LBYTES);
   returns the encoded lines and the remaining (< LBYTES) bytes; None = fuel exhausted *)
Fixpoint enc_full (LB : nat) (encl : list N -> list N) (fuel : nat) (p : list N)
  : option (list N * list N) :=
  match fuel with
  | O => None
  | S f => match split_at LB p with
           | Some (line, rest) =>
               match enc_full LB encl f rest with
               | Some (o, r) => Some (encl line ++ o, r)
               | None => None
               end
           | None => Some ([], p)
           end
  end.

(* while (archive_strlen(buf) >= bs) { write(buf, bs); memmove; length -= bs; } *)
Fixpoint flush_blocks (fuel bs : nat) (buf : list N) : option (list (list N) * list N) :=
  match fuel with
  | O => None
  | S f => match split_at bs buf with
           | Some (blk, rest) =>
               match flush_blocks f bs rest with
               | Some (bl, r) => Some (blk :: bl, r)
               | None => None
               end
           | None => Some ([], buf)
           end
  end.

(* archive_filter_{b64encode,uuencode}_write; result: new state and the blocks handed to
   the next filter, in order *)
Definition enc_write (LB : nat) (encl : list N -> list N) (bs : nat) (st : wstate) (chunk : list N)
  : option (wstate * list (list N)) :=
  match chunk with
  | [] => Some (st, [])                                  (* if (length == 0) return *)
  | _ =>
    let hold := w_hold st in
    (* if (state->hold_len) { top up; if still short return; encode hold; hold_len = 0 } *)
    let need := (LB - length hold)%nat in
    let hold' := hold ++ firstn need chunk in
    let rest := skipn need chunk in
    match hold with
    | _ :: _ =>
        if (length hold' <? LB)%nat then Some (mkW hold' (w_buf st), [])
        else
          match enc_full LB encl (S (length rest)) rest with
          | None => None
          | Some (o, r) =>
              let buf := w_buf st ++ encl hold' ++ o in
              match flush_blocks (S (length buf)) bs buf with
              | None => None
              | Some (blocks, buf') => Some (mkW r buf', blocks)
              end
          end
    | [] =>
        match enc_full LB encl (S (length chunk)) chunk with
        | None => None
        | Some (o, r) =>
            let buf := w_buf st ++ o in
            match flush_blocks (S (length buf)) bs buf with
            | None => None
            | Some (blocks, buf') => Some (mkW r buf', blocks)
            end
        end
    end
  end.

(* close: flush the partial line, append the trailer, one final write of the whole buffer *)
Definition enc_close (encl : list N -> list N) (trailer : list N) (st : wstate) : list (list N) :=
  let buf := match w_hold st with [] => w_buf st | h => w_buf st ++ encl h end in
  [buf ++ trailer].

(* ------------------------------------------------------------------ client layer *)
(* archive_write_client_write with a client callback that accepts everything it is given.
   c_pending = the bytes in the copy buffer (buffer_size - avail of them) *)
Record cstate := mkC { c_bsz : nat; c_pending : list N }.

Definition client_write (c : cstate) (data : list N) : option (cstate * list (list N)) :=
  match data with
  | [] => Some (c, [])                  (* __archive_write_filter: length 0 is not forwarded *)
  | _ =>
    match c_bsz c with
    | O => Some (c, [data])             (* buffer_size == 0: straight through *)
    | S _ =>
      let bsz := c_bsz c in
      let pend := c_pending c in
      (* if (avail < buffer_size) { copy min(remaining, avail); if (avail == 0) write buffer } *)
      let room := (bsz - length pend)%nat in
      let pend' := pend ++ firstn room data in
      let rest := match pend with [] => data | _ => skipn room data end in
      let '(b1, p1) := match pend with
                       | [] => ([], [])
                       | _ => if (length pend' =? bsz)%nat then ([pend'], []) else ([], pend')
                       end in
      (* while (remaining >= buffer_size) write buffer_size bytes directly; keep the rest *)
      match flush_blocks (S (length rest)) bsz rest with
      | None => None
      | Some (bl, r) => Some (mkC bsz (p1 ++ r), b1 ++ bl)
      end
    end
  end.

(* archive_write_client_close; the encoders' close has set bytes_in_last_block = 1, so the
   last block is written unpadded *)
Definition client_close (c : cstate) : list (list N) :=
  match c_pending c with [] => [] | p => [p] end.

Fixpoint client_feed (c : cstate) (blocks : list (list N)) : option (cstate * list (list N)) :=
  match blocks with
  | [] => Some (c, [])
  | b :: t => match client_write c b with
              | None => None
              | Some (c1, o1) => match client_feed c1 t with
                                 | None => None
                                 | Some (c2, o2) => Some (c2, o1 ++ o2)
                                 end
              end
  end.

(* ------------------------------------------------------------------ whole writer *)
Fixpoint writer_loop (LB : nat) (encl : list N -> list N) (bs : nat)
         (st : wstate) (c : cstate) (chunks : list (list N))
  : option (wstate * cstate * list (list N)) :=
  match chunks with
  | [] => Some (st, c, [])
  | ch :: t =>
      match enc_write LB encl bs st ch with
      | None => None
      | Some (st1, blocks) =>
          match client_feed c blocks with
          | None => None
          | Some (c1, o1) =>
              match writer_loop LB encl bs st1 c1 t with
              | None => None
              | Some (st2, c2, o2) => Some (st2, c2, o1 ++ o2)
              end
          end
      end
  end.

(* the blocks handed to the client write callback by
   add_filter_<k>; set_format_raw; set_bytes_per_block(bpb); [options]; open; header;
   write_data(chunk) for each chunk; close *)
Definition run_writer (k : enc_kind) (bpb : N) (mode : option (list N)) (name : option (list N))
           (chunks : list (list N)) : option (list (list N)) :=
  let bs := N.to_nat (compute_bs k bpb) in
  let st0 := mkW [] (enc_header k (opt_mode k mode) (opt_name k name)) in
  let c0 := mkC (N.to_nat bpb) [] in
  match writer_loop (k_LB k) (k_line k) bs st0 c0 chunks with
  | None => None
  | Some (st, c, o1) =>
      match client_feed c (enc_close (k_line k) (k_trailer k) st) with
      | None => None
      | Some (c', o2) => Some (o1 ++ o2 ++ client_close c')
      end
  end.

(* ------------------------------------------------------------------ pure specification *)
(* lines of LB bytes each, the last one possibly shorter (never empty) *)
Fixpoint enc_lines (LB : nat) (encl : list N -> list N) (fuel : nat) (s : list N) : list N :=
  match fuel with
  | O => []
  | S f => match s with
           | [] => []
           | _ => encl (firstn LB s) ++ enc_lines LB encl f (skipn LB s)
           end
  end.

Definition encode_all (k : enc_kind) (mode : N) (name : list N) (s : list N) : list N :=
  enc_header k mode name ++ enc_lines (k_LB k) (k_line k) (length s) s ++ k_trailer k.

(* ------------------------------------------------------------------ the uu read filter *)
Definition asc (c : N) : N := tbl rd_ascii c.
Definition uuch (c : N) : bool := negb (tbl rd_uuchar c =? 0).
Definition b64ch (c : N) : bool := negb (tbl rd_base64 c =? 0).
Definition b64num (c : N) : N := tbl rd_base64num c.
Definition UUDEC (c : N) : N := N.land (c - 32) 63.

(* get_line(b, avail, &nlsize): None = -1 (non-ascii / control character);
   Some (len, nl).  A table value other than 0,1,'\n','\r' matches no case of the C switch (the
   C loop would spin); the model answers None, [tables_ok] excludes it. *)
Fixpoint get_line (b : list N) (len : nat) : option (nat * nat) :=
  match b with
  | [] => Some (len, O)
  | c :: t =>
      let a := asc c in
      if a =? 0 then None
      else if a =? 13 then
        match t with
        | 10 :: _ => Some (S (S len), 2%nat)
        | _ => Some (S len, 1%nat)
        end
      else if a =? 10 then Some (S len, 1%nat)
      else if a =? 1 then get_line t (S len)
      else None
  end.

Fixpoint starts_with (pre b : list N) : bool :=
  match pre, b with
  | [], _ => true
  | x :: p, y :: t => (x =? y) && starts_with p t
  | _ :: _, [] => false
  end.

Definition at_ (b : list N) (i : nat) : N := nth i b 0.
Definition is_octal (c : N) : bool := (48 <=? c) && (c <=? 55).

Definition lit_begin : list N := [98; 101; 103; 105; 110; 32].                       (* "begin " *)
Definition lit_begin64 : list N := [98; 101; 103; 105; 110; 45; 98; 97; 115; 101; 54; 52; 32]. (* "begin-base64 " *)
Definition lit_end : list N := [101; 110; 100].                                      (* "end" *)

(* header recognition shared by the bidder and by ST_FIND_HEAD: 0, 6 or 13 *)
Definition head_kind (b : list N) (len nl : nat) : nat :=
  let l := if (11 <=? len - nl)%nat && starts_with lit_begin b then 6%nat
           else if (18 <=? len - nl)%nat && starts_with lit_begin64 b then 13%nat
           else O in
  match l with
  | O => O
  | _ => if is_octal (at_ b l) && is_octal (at_ b (l + 1)) && is_octal (at_ b (l + 2)) &&
            (at_ b (l + 3) =? 32) then l else O
  end.

Inductive ustate := ST_FIND_HEAD | ST_READ_UU | ST_UUEND | ST_READ_BASE64.

(* the "while (l > 0)" loop of ST_READ_UU; b = the bytes from the first data character on
   (the line's own terminator stops every look-ahead: it is not a uuchar).
   None = the loop left l != 0 ("Insufficient compressed data") *)
Fixpoint uu_dec_line (l : nat) (b : list N) {struct b} : option (list N) :=
  match l with
  | O => Some []
  | S l1 =>
    match b with
    | c0 :: c1 :: t =>
        if negb (uuch c0) || negb (uuch c1) then None
        else
          let n := N.lor (N.shiftl (UUDEC c0) 18) (N.shiftl (UUDEC c1) 12) in
          let o0 := N.shiftr n 16 in
          match l1 with
          | O => Some [o0]
          | S l2 =>
            match t with
            | c2 :: t2 =>
                if negb (uuch c2) then None
                else
                  let n2 := N.lor n (N.shiftl (UUDEC c2) 6) in
                  let o1 := N.land (N.shiftr n2 8) 255 in
                  match l2 with
                  | O => Some [o0; o1]
                  | S l3 =>
                    match t2 with
                    | c3 :: t3 =>
                        if negb (uuch c3) then None
                        else
                          let n3 := N.lor n2 (UUDEC c3) in
                          let o2 := N.land n3 255 in
                          match uu_dec_line l3 t3 with
                          | Some o => Some (o0 :: o1 :: o2 :: o)
                          | None => None
                          end
                    | [] => None
                    end
                  end
            | [] => None
            end
          end
    | _ => None
    end
  end.

(* the "while (l > 0)" loop of ST_READ_BASE64 followed by "if (l && *b != '=') error".
   l = characters of the line still unread, b = the bytes from there on.
   None = error; Some out = decoded bytes of the line *)
Fixpoint b64_dec_line (l : nat) (b : list N) {struct b} : option (list N) :=
  match l with
  | O => Some []
  | S _ =>
    match b with
    | c0 :: c1 :: t =>
        if negb (b64ch c0) || negb (b64ch c1) then
          (if c0 =? 61 then Some [] else None)
        else
          let n := N.lor (N.shiftl (b64num c0) 18) (N.shiftl (b64num c1) 12) in
          let o0 := N.shiftr n 16 in
          match (l - 2)%nat with
          | O => Some [o0]
          | S l2 =>
            match t with
            | c2 :: t2 =>
                if c2 =? 61 then Some [o0]
                else if negb (b64ch c2) then None
                else
                  let n2 := N.lor n (N.shiftl (b64num c2) 6) in
                  let o1 := N.land (N.shiftr n2 8) 255 in
                  match l2 with
                  | O => Some [o0; o1]
                  | S l3 =>
                    match t2 with
                    | c3 :: t3 =>
                        if c3 =? 61 then Some [o0; o1]
                        else if negb (b64ch c3) then None
                        else
                          let n3 := N.lor n2 (b64num c3) in
                          let o2 := N.land n3 255 in
                          match b64_dec_line l3 t3 with
                          | Some o => Some (o0 :: o1 :: o2 :: o)
                          | None => None
                          end
                    | [] => None
                    end
                  end
            | [] => None
            end
          end
    | [c0] => if c0 =? 61 then Some [] else None
    | [] => None
    end
  end.

(* uudecode_filter_read seen over the WHOLE stream: one line per step.
   [got] = some byte has been produced already (uudecode->total > 0 || total > 0).
   Result: Some bytes = everything the filter delivers before it reports end of data;
   None = the filter ends with ARCHIVE_FATAL.

   Deliberately NOT modelled (window-dependent behaviour of the streaming code):
   - a call whose window contains only lines that produce no byte returns 0, which the caller
     takes as end of data (possible only in ST_FIND_HEAD / ST_UUEND, i.e. before the header or
     after the trailer, when the window ends exactly there);
   - the 64 KiB output window (finish / resume) and the in_buff carry-over of a partial line
     (and its UUENCODE_MAX_LINE_LENGTH limit);
   - "total + len >= UUENCODE_BID_MAX_READ" in ST_FIND_HEAD uses the window's byte count; the
     model uses len alone (exact whenever the skipped line is shorter than 64 KiB);
   - mode / name taken from the header (they do not influence the bytes). *)
Fixpoint uu_loop (fuel : nat) (st : ustate) (got : bool) (d : list N) : option (list N) :=
  match fuel with
  | O => None
  | S f =>
    match d with
    | [] =>
        (* end of input: inside an encoded body the terminating line never came (ARCHIVE_FATAL,
           "Truncated uuencoded data"); elsewhere it is the end of the data *)
        match st with
        | ST_READ_UU | ST_READ_BASE64 => None
        | _ => Some []
        end
    | _ =>
      match get_line d 0 with
      | None =>
          (* non-ascii: after some data and between members the rest is ignored (ST_IGNORE) *)
          match st with
          | ST_FIND_HEAD => if got then Some [] else None
          | _ => None
          end
      | Some (len, nl) =>
          let rest := skipn len d in
          let unterminated := match nl, st with O, ST_UUEND => false | O, _ => true | _, _ => false end in
          if unterminated then None          (* saved, then "Missing format data" on the next call *)
          else
          match st with
          | ST_FIND_HEAD =>
              if UUENCODE_BID_MAX_READ <=? N.of_nat len then None
              else
                match head_kind d len nl with
                | 6%nat => uu_loop f ST_READ_UU got rest
                | 13%nat => uu_loop f ST_READ_BASE64 got rest
                | _ => uu_loop f ST_FIND_HEAD got rest
                end
          | ST_READ_UU =>
              let body := (len - nl)%nat in
              match d with
              | c :: b1 =>
                  if negb (uuch c) || (body =? 0)%nat then None
                  else
                    let l := N.to_nat (UUDEC c) in
                    if (body - 1 <? l)%nat then None
                    else
                      match l with
                      | O => uu_loop f ST_UUEND got rest
                      | _ => match uu_dec_line l b1 with
                             | None => None
                             | Some o =>
                                 match uu_loop f ST_READ_UU true rest with
                                 | Some o' => Some (o ++ o')
                                 | None => None
                                 end
                             end
                      end
              | [] => None
              end
          | ST_UUEND =>
              if (len - nl =? 3)%nat && starts_with lit_end d
              then uu_loop f ST_FIND_HEAD got rest
              else None
          | ST_READ_BASE64 =>
              let l := (len - nl)%nat in
              if (3 <=? l)%nat && (at_ d 0 =? 61) && (at_ d 1 =? 61) && (at_ d 2 =? 61)
              then uu_loop f ST_FIND_HEAD got rest
              else
                match b64_dec_line l d with
                | None => None
                | Some o =>
                    match uu_loop f ST_READ_BASE64 (got || negb (match o with [] => true | _ => false end)) rest with
                    | Some o' => Some (o ++ o')
                    | None => None
                    end
                end
          end
      end
    end
  end.

Definition uu_decode (input : list N) : option (list N) :=
  uu_loop (S (length input)) ST_FIND_HEAD false input.

(* uudecode_bidder_bid with the whole stream available in one block (bid_get_line then never
   needs to read more; nbytes_read = length of the stream).  Result: the bid. *)
Fixpoint bid_find (fuel : nat) (total : N) (firstline : N) (b : list N)
  : option (nat * N * list N) :=                       (* (l, firstline, rest) *)
  match fuel with
  | O => None
  | S f =>
    match b with
    | [] => None                                       (* avail == 0: len = 0, nl = 0 *)
    | _ =>
      match get_line b 0 with
      | None => None
      | Some (len, nl) =>
          match nl with
          | O => None
          | _ =>
            let l := head_kind b len nl in
            let rest := skipn len b in
            match l with
            | O => if UUENCODE_BID_MAX_READ <=? total then None else bid_find f total 0 rest
            | _ => Some (l, firstline, rest)
            end
          end
      end
    end
  end.

(* "while (l) { if (!uuchar[*b++]) return 0; --len; --l }" : Some rest | None *)
Fixpoint bid_uu_chars (l : nat) (b : list N) : option (list N) :=
  match l with
  | O => Some b
  | S k => match b with
           | c :: t => if uuch c then bid_uu_chars k t else None
           | [] => None
           end
  end.

Fixpoint bid_b64_chars (n : nat) (b : list N) : option (list N) :=
  match n with
  | O => Some b
  | S k => match b with
           | c :: t => if b64ch c then bid_b64_chars k t else None
           | [] => None
           end
  end.

(* the part of the bidder after the header line has been found: examine the next line *)
Definition bid_second (l : nat) (firstline : N) (b : list N) : N :=
  match b with
  | [] => 0                                        (* if (!avail) return 0 *)
  | _ =>
    match get_line b 0 with
    | None => 0
    | Some (len, nl) =>
      match nl with
      | O => 0
      | _ =>
        let after := skipn len b in                (* avail -= len *)
        match l with
        | 6%nat =>
            match b with
            | c :: b1 =>
                if negb (uuch c) then 0
                else
                  let ll := N.to_nat (UUDEC c) in
                  let len1 := (len - 1)%nat in
                  if (45 <? ll)%nat then 0
                  else if (len1 - nl <? ll)%nat then 0
                  else
                    match bid_uu_chars ll b1 with
                    | None => 0
                    | Some b2 =>
                        let len2 := (len1 - ll)%nat in
                        (* optional check-sum / MINIX padding character *)
                        let skip := (len2 - nl =? 1)%nat &&
                                    (uuch (at_ b2 0) || ((97 <=? at_ b2 0) && (at_ b2 0 <=? 122))) in
                        let b3 := if skip then skipn 1 b2 else b2 in
                        let len3 := if skip then (len2 - 1)%nat else len2 in
                        if rd_uu_bid_empty_fix && (ll =? 0)%nat && (len3 - nl =? 0)%nat then
                          (* variant: a zero-length line; "end" must follow (bid_get_line on the
                             next line; an unterminated "end" at the very end of the stream makes
                             the read-more step fail and the bid is 0) *)
                          match after with
                          | [] => 0
                          | _ => match get_line after 0 with
                                 | Some (len4, S nl4) =>
                                     if (len4 - S nl4 =? 3)%nat && starts_with lit_end after
                                     then firstline + 30 else 0
                                 | _ => 0
                                 end
                          end
                        else
                        let b4 := skipn nl b3 in
                        match after with
                        | [] => 0
                        | _ => if uuch (at_ b4 0) then firstline + 30 else 0
                        end
                    end
            | [] => 0
            end
        | 13%nat =>
            if rd_b64_bid_empty_fix && (len - nl =? 4)%nat && starts_with [61; 61; 61; 61] b
            then firstline + 40               (* variant: the end marker follows the header *)
            else
            match bid_b64_chars (len - nl) b with
            | None => 0
            | Some b2 =>
                let b3 := skipn nl b2 in
                if starts_with [61; 61; 61; 61; 10] b3 && (5 <=? length after)%nat then firstline + 40
                else if starts_with [61; 61; 61; 61; 13; 10] b3 && (6 <=? length after)%nat then firstline + 40
                else match after with
                     | [] => 0
                     | _ => if b64ch (at_ b3 0) then firstline + 30 else 0
                     end
            end
        | _ => 0
        end
      end
    end
  end.

Definition uu_bid (input : list N) : N :=
  match input with
  | [] => 0
  | _ =>
    match bid_find (S (length input)) (N.of_nat (length input)) 20 input with
    | None => 0
    | Some (l, firstline, b) => bid_second l firstline b
    end
  end.

(* choose_filters with only the uu bidder registered: unwrap while the bidder accepts.
   Result: None = ARCHIVE_FATAL; Some (filter codes top first, delivered bytes) *)
Fixpoint uu_reader (fuel : nat) (input : list N) (codes : list N) : option (list N * list N) :=
  match fuel with
  | O => None                                          (* "Input requires too many filters" *)
  | S f =>
    if 0 <? uu_bid input then
      match uu_decode input with
      | None => None
      | Some s => uu_reader f s (ARCHIVE_FILTER_UU :: codes)
      end
    else Some (codes, input)
  end.

Definition MAX_FILTERS : nat := 25.
Definition read_uu_only (input : list N) : option (list N * list N) :=
  uu_reader MAX_FILTERS input [ARCHIVE_FILTER_NONE].

(* ------------------------------------------------------------------ abstract drive loop *)
(* The codec-library write filters (gzip, bzip2, xz: drive_compressor; zstd, lz4 similar) feed
   the library through avail_in / avail_out and forward the output buffer whenever it is full.
   The library is abstract: [zcall st input avail_out finishing] consumes a prefix of [input],
   produces at most [avail_out] bytes and says whether the stream has ended. *)
Section Drive.
  Variable zst : Type.
  (* deflate(): (new state, bytes consumed, bytes produced, Z_STREAM_END?) *)
  Variable zcall : zst -> list N -> nat -> bool -> zst * nat * list N * bool.

  (* compressed buffer: bytes accumulated so far, capacity bsz (avail_out = bsz - length) *)
  Record dstate := mkD { d_z : zst; d_out : list N }.

  (* drive_compressor(f, data, finishing) with avail_in = [inp]; returns the state and the
     full buffers forwarded; None = fuel exhausted *)
  Fixpoint drive (fuel : nat) (bsz : nat) (finishing : bool) (d : dstate) (inp : list N)
    : option (dstate * list (list N)) :=
    match fuel with
    | O => None
    | S f =>
      (* if (avail_out == 0) { write the whole buffer; reset } *)
      let '(d1, w1) := if (length (d_out d) =? bsz)%nat then (mkD (d_z d) [], [d_out d])
                       else (d, []) in
      (* if (!finishing && avail_in == 0) return OK *)
      match finishing, inp with
      | false, [] => Some (d1, w1)
      | _, _ =>
        let '(z', k, o, ended) := zcall (d_z d1) inp (bsz - length (d_out d1))%nat finishing in
        let d2 := mkD z' (d_out d1 ++ o) in
        let inp' := skipn k inp in
        if ended then Some (d2, w1)                     (* Z_STREAM_END *)
        else match finishing, inp' with
             | false, [] => Some (d2, w1)               (* Z_OK and avail_in == 0 *)
             | _, _ => match drive f bsz finishing d2 inp' with
                       | Some (d3, w3) => Some (d3, w1 ++ w3)
                       | None => None
                       end
             end
      end
    end.

  (* write(chunk) for every chunk, then close: drive(finishing), write the partial buffer *)
  Fixpoint drive_chunks (fuel bsz : nat) (d : dstate) (chunks : list (list N))
    : option (dstate * list (list N)) :=
    match chunks with
    | [] => Some (d, [])
    | c :: t => match drive fuel bsz false d c with
                | None => None
                | Some (d1, w1) => match drive_chunks fuel bsz d1 t with
                                   | None => None
                                   | Some (d2, w2) => Some (d2, w1 ++ w2)
                                   end
                end
    end.

  Definition drive_all (fuel bsz : nat) (z0 : zst) (header : list N) (chunks : list (list N))
    : option (list (list N)) :=
    match drive_chunks fuel bsz (mkD z0 header) chunks with
    | None => None
    | Some (d1, w1) =>
        match drive fuel bsz true d1 [] with
        | None => None
        | Some (d2, w2) => Some (w1 ++ w2 ++ [d_out d2])
        end
    end.
End Drive.

(* reader side of a multi-member format: decode one member, look again *)
Section Members.
  Variable bid : list N -> bool.                         (* signature check at a member start *)
  Variable decomp1 : list N -> option (list N * list N). (* one member: (payload, rest) *)

  Fixpoint read_members (fuel : nat) (input : list N) : option (list N) :=
    match fuel with
    | O => None
    | S f =>
      match input with
      | [] => Some []
      | _ => if bid input then
               match decomp1 input with
               | None => None
               | Some (p, rest) => match read_members f rest with
                                   | Some q => Some (p ++ q)
                                   | None => None
                                   end
               end
             else Some []                                (* trailing garbage is ignored *)
      end
    end.
End Members.
