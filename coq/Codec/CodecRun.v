(* val -> val front end of the codec model (correspondence protocol), see harness/codec.c.
   op 0: (0 kind bpb (mode?) (name?) (chunk ...))  ->  (rc (block ...))
   op 1: (1 input (blocksize ...) ...)             ->  (status (codes) recovered) *)
From Coq Require Import List ZArith NArith Bool.
From LA Require Import Base.Val Gen.Codec Codec.CodecDefs.
Import ListNotations.

Definition opt_bytes (v : val) : option (list N) :=
  match lval v with
  | [x] => Some (bval x)
  | _ => None
  end.

Definition run_enc (l : list val) : val :=
  let k := match zval (vnth l 1) with 0%Z => KB64 | _ => KUU end in
  match run_writer k (nval (vnth l 2)) (opt_bytes (vnth l 3)) (opt_bytes (vnth l 4))
                   (map bval (lval (vnth l 5))) with
  | Some blocks => VL [VI (if name_rejected k (opt_bytes (vnth l 4)) then (-25) else 0); VL (map VB blocks)]
  | None => VErr 1
  end.

Definition run_dec (l : list val) : val :=
  match read_uu_only (bval (vnth l 1)) with
  | Some (codes, out) => VL [VI 0; VL (map VN codes); VB out]
  | None => VL [VI (-30); VL []; VB []]
  end.

Definition run (v : val) : val :=
  let l := lval v in
  match zval (vnth l 0) with
  | 0%Z => run_enc l
  | 1%Z => run_dec l
  | _ => VErr 2
  end.
